(* C05 — Reads from an open file are independent of earlier reads.
   Statements only; proofs live in Proofs/IoPlanProofs.v, the model in Model/IoPlan.v.

   The open file is a state (pos, per-channel one-chunk cache, lazily built offset
   index, live generator frames).  [step] is the reader with dev/patches/D4.patch
   applied, [step_asis] the reader as it is in /repo (file-level generator resumes
   at the current position).  Every read of the model happens at the CURRENT
   position, so forgetting to seek is expressible (and refuted below). *)
From Coq Require Import List ZArith Bool.
Import ListNotations.
From NpTdms Require Import Model.IoPlan Proofs.IoPlanProofs.
Local Open Scope Z_scope.

(* ---- the invariant, spelled out ----------------------------------------- *)

(* Inv f st := exists env, InvE f env st, where env is the generator bookkeeping
   (per live id: kind and number of next() calls so far) and InvE says:
     - index table: every entry equals the freshly computed _build_index;
     - cache: every cached chunk equals the file's chunk at its recorded bounds (a miss
       at any index inside the bounds would fetch exactly the cached values and bound);
     - every live generator's frame is the frame a fresh file's generator has after as
       many next() calls (bookkeeping consistent);
     - every live generator's next read does not depend on the file position
       (its remaining plan begins with an absolute seek). *)
Theorem inv_clauses : forall f st, Inv f st ->
    tbl_ok f (idx st) /\
    cache_ok f (cache st) /\
    forall id g, assoc Nat.eqb id (gens st) = Some g ->
                 (exists k n, g = frame_after f k n) /\ pos_indep f g.
Proof.
  intros f st [env (Ht & Hc & He & Hp)]. split; [exact Ht|]. split; [exact Hc|].
  intros id g Hg. split; [|exact (Hp id g Hg)].
  specialize (He id). rewrite Hg in He.
  destruct (assoc Nat.eqb id env) as [[k n]|]; [|contradiction]. exists k, n. exact He.
Qed.

Theorem inv_init : forall f, Inv f init.
Proof. intros f. exists []. exact (InvE_init f). Qed.

(* every operation of the repaired reader preserves the invariant ... *)
Theorem step_preserves_inv : forall f st o,
    wf_file f = true -> Inv f st -> Inv f (fst (step f st o)).
Proof.
  intros f st o Hwf [env HI]. exists (env_step env o). exact (proj1 (step_spec f env st o Hwf HI)).
Qed.

(* ... and yields what the operation yields on a freshly opened file; for next(id):
   what the (n+1)-th next() of a fresh generator of the same kind yields, n = number
   of earlier next(id) *)
Theorem step_output_fresh : forall f env st o,
    wf_file f = true -> InvE f env st ->
    InvE f (env_step env o) (fst (step f st o)) /\
    snd (step f st o) = fresh_out f (ann1 env o).
Proof.
  intros f env st o Hwf HI. destruct (step_spec f env st o Hwf HI) as [H1 H2].
  split; [exact H1|]. rewrite H2. symmetry. apply fresh_pure. exact Hwf.
Qed.

(* all finite single-threaded histories *)
Theorem history_independent : forall f ops,
    wf_file f = true ->
    let '(st', outs) := run f init ops in
    Inv f st' /\ outs = map (fresh_out f) (annotate ops).
Proof.
  intros f ops Hwf. pose proof (history_independent_E f ops Hwf) as H.
  destruct (run f init ops) as [st' outs]. exact H.
Qed.

(* the chunk sequence of a generator on a fresh file is its direct specification
   (Model.IoPlan.gen_chunks: the file's chunks in order with running offsets), then
   StopIteration for ever.  This is where the read positions are shown to be right. *)
Theorem fresh_generator_chunks : forall f k n,
    wf_file f = true ->
    fresh_out f (ANext k n)
    = match nth_error (gen_chunks f k) n with Some c => c | None => OStop end.
Proof. exact fresh_seq_spec. Qed.

(* what a generator delivered during ANY history: a prefix of (chunk list ++ Stop^omega) *)
Theorem generators_prefix : forall f ops id k n,
    wf_file f = true ->
    assoc Nat.eqb id (final_env ops) = Some (k, n) ->
    gen_outs id ops (snd (run f init ops)) None
    = Some (map (fun j => match nth_error (gen_chunks f k) j with Some c => c | None => OStop end)
                (seq 0 n)).
Proof. exact IoPlanProofs.generators_prefix. Qed.

(* a generator driven to exhaustion in any history delivered exactly its chunk list *)
Theorem generators_complete : forall f ops id k n,
    wf_file f = true ->
    assoc Nat.eqb id (final_env ops) = Some (k, n) ->
    forall l, gen_outs id ops (snd (run f init ops)) None = Some l ->
    In OStop l ->
    exists m, l = gen_chunks f k ++ repeat OStop (S m).
Proof. exact generators_complete_E. Qed.

(* ---- the code as it is today (defect D4) -------------------------------- *)

(* one segment, channels 0 and 1 with two int32 values per chunk, three chunks *)
Definition d4_file : file :=
  mkFile [0; 1] [mkSeg 0 100 true false [mkObj 0 2 8; mkObj 1 2 8]
                       [[[0; 1]; [0; 1]]; [[2; 3]; [2; 3]]; [[4; 5]; [4; 5]]]].

(* for chunk in tdms_file.data_chunks(): ...; channel_a[0]; channel_b[5] *)
Definition d4_ops : list op :=
  [NewFileGen 0; Next 0; Index 0 0; Index 1 5; Next 0; Index 0 0; Index 1 5; Next 0; Next 0].

Theorem history_refuted :
  exists f ops, wf_file f = true /\
                snd (run_asis f init ops) <> map (fresh_out f) (annotate ops).
Proof. exists d4_file, d4_ops. split; [reflexivity|]. vm_compute. discriminate. Qed.

(* the D4 witness exactly: second and third chunk come back empty, silently *)
Example d4_asis_outputs :
  snd (run_asis d4_file init d4_ops)
  = [OUnit; OFChunk [(0, (0, Vals [0; 1])); (1, (0, Vals [0; 1]))];
     OVal 0; OVal 5; OFChunk [(0, (2, Vals [])); (1, (2, Vals []))];
     OVal 0; OVal 5; OFChunk [(0, (2, Vals [])); (1, (2, Vals []))]; OStop].
Proof. vm_compute. reflexivity. Qed.

(* as is, a suspended file-level frame is NOT position independent: the clause of
   the invariant that the repair establishes *)
Theorem asis_frame_position_dependent :
  exists f g p1 p2, fst (next_gen false f [] g p1) <> fst (next_gen false f [] g p2).
Proof.
  exists d4_file, (GFile (mkFg (FSeg 0 0 0) [] [(0, 2); (1, 2)])), 116, 148.
  vm_compute. discriminate.
Qed.

(* ---- non-vacuity --------------------------------------------------------- *)

(* contiguous segment (3 chunks) then an interleaved one (2 chunks, other object
   order); two generators live at once, indexing (negative too), window and slice *)
Definition ex_file : file :=
  mkFile [0; 1]
    [mkSeg 0 100 true false [mkObj 0 2 8; mkObj 1 2 8]
           [[[0; 1]; [0; 1]]; [[2; 3]; [2; 3]]; [[4; 5]; [4; 5]]];
     mkSeg 148 248 true true [mkObj 1 2 8; mkObj 0 2 16] [[[6; 7]; [6; 7]]; [[8; 9]; [8; 9]]]].

Definition ex_ops : list op :=
  [NewFileGen 0; NewChanGen 0 1; Next 0; Next 1; Index 0 (-1); Index 1 7; Next 0; Next 1;
   Read 0 3 (Some 5); Slice 1 (Some (-2)) None (Some (-3)); Index 0 8; Next 0; Next 1; Next 0; Next 1;
   Next 0; Next 1; Next 1].

Example ex_wf : wf_file ex_file = true /\ wf_file d4_file = true.
Proof. split; reflexivity. Qed.

Example ex_history :
  snd (run ex_file init ex_ops)
  = [OUnit; OUnit; OFChunk [(0, (0, Vals [0; 1])); (1, (0, Vals [0; 1]))]; OChunk 0 (Vals [0; 1]);
     OVal 9; OVal 7; OFChunk [(0, (2, Vals [2; 3])); (1, (2, Vals [2; 3]))]; OChunk 2 (Vals [2; 3]);
     OVals [3; 4; 5; 6; 7]; OVals [8; 5; 2]; OVal 8;
     OFChunk [(0, (4, Vals [4; 5])); (1, (4, Vals [4; 5]))]; OChunk 4 (Vals [4; 5]);
     OFChunk [(0, (6, Vals [6; 7; 8; 9])); (1, (6, Vals [6; 7; 8; 9]))]; OChunk 6 (Vals [6; 7; 8; 9]);
     OStop; OStop; OStop]
  /\ snd (run ex_file init ex_ops) = map (fresh_out ex_file) (annotate ex_ops)
  /\ snd (run d4_file init d4_ops) = map (fresh_out d4_file) (annotate d4_ops).
Proof. split; [vm_compute; reflexivity|]. split; vm_compute; reflexivity. Qed.

(* the state reached is not trivial: both channels cached, two generator frames, index built *)
Example ex_state :
  let st := fst (run ex_file init ex_ops) in
  length (cache st) = 2%nat /\ length (gens st) = 2%nat /\ length (idx st) = 2%nat /\ pos st <> 0.
Proof. vm_compute. repeat split; discriminate. Qed.

Example ex_generators_complete :
  assoc Nat.eqb 1%nat (final_env ex_ops) = Some (KChan 0, 6%nat) /\
  gen_outs 1%nat ex_ops (snd (run ex_file init ex_ops)) None
  = Some (gen_chunks ex_file (KChan 0) ++ [OStop; OStop]) /\
  gen_chunks ex_file KFile
  = [OFChunk [(0, (0, Vals [0; 1])); (1, (0, Vals [0; 1]))];
     OFChunk [(0, (2, Vals [2; 3])); (1, (2, Vals [2; 3]))];
     OFChunk [(0, (4, Vals [4; 5])); (1, (4, Vals [4; 5]))];
     OFChunk [(0, (6, Vals [6; 7; 8; 9])); (1, (6, Vals [6; 7; 8; 9]))]].
Proof. vm_compute. repeat split; reflexivity. Qed.

Print Assumptions inv_clauses.
Print Assumptions inv_init.
Print Assumptions step_preserves_inv.
Print Assumptions step_output_fresh.
Print Assumptions history_independent.
Print Assumptions fresh_generator_chunks.
Print Assumptions generators_prefix.
Print Assumptions generators_complete.
Print Assumptions history_refuted.
Print Assumptions asis_frame_position_dependent.
