(* C20 (companion) -- the FILE-HANDLE CONTROL FLOW of TdmsReader / TdmsFile / TdmsChannel / TdmsWriter,
   TRANSLATED from nptdms/{reader,tdms,writer}.py on every run (harness/gen/gen_pyfuncs_resource.py ->
   Gen/PyFuncsResource.v; 3 852 scenarios of the real classes, run against instrumented file objects and an
   `open` that fails at chosen points, embedded as Examples in Gen/PyFuncsResourceTest.v), simulates the hand-written ownership
   model Model/Resource.v that Props/C20.v is about; and the headline theorems of Props/C20.v restated on
   the translated functions.  Statements only (proofs: Proofs/GenResourceEquiv.v, Proofs/GenResourceHist.v).

   The translated code runs in an exception-and-state monad whose XErr carries the state REACHED, over a
   handle table with one entry per file of the scenario (no object / created by the library with open() /
   supplied by the caller; open / closed; objects dropped while open; the log of open and close calls), with
   the attributes _file, _index_file, _file_path, _index_file_path, _reader, data_read as fields.
   open() fails where the oracle says so; metadata parsing, building the object tree and reading raw data
   are opaque steps that raise where the oracle says so (or because their file object is None / closed).

   [core_of] / [world_of] / [wstate_of] map the translated state to the model's (object + "the attribute
   references it"); [grd_rwf] / [gwr_wf]: `_file` references nothing or the object on the data file,
   `_index_file` nothing or the object on the index file (preserved by every function: proved).
   The model is taken at fx = true (the tree contains the fix of D19).

   What is NOT in these statements: statements that touch no tracked attribute, open nothing, close nothing
   and call no translated method are not translated and assumed not to raise (except the opaque steps);
   the generators behind data_chunks() (laziness; Props/C20.v `step` OGenStart / OGenNext) and the
   in-memory / cached-chunk short cuts of TdmsChannel.__getitem__ / read_data stay with the hand model. *)
From Coq Require Import String List Bool.
Import ListNotations.
From NpTdms Require Import Model.Resource Proofs.ResourceProofs Gen.PyFuncsResource
     Proofs.GenResourceEquiv Proofs.GenResourceHist.
(* the self-test of the translation (the real classes on 3 852 scenarios) is part of this property's build *)
From NpTdms Require Gen.PyFuncsResourceTest.

(* ==== 1. every translated function is its step of Model/Resource.v ==================================== *)

(* TdmsReader._ensure_open / is_index_file_only *)
Theorem reader_ensure_open_translated : forall orc s, grd_rwf s = true ->
    reader_ensure_open_gen orc s = if ensure_open (core_of s) then XOk tt s else XErr (Ex EClosed) s.
Proof. exact reader_ensure_open_eq. Qed.

Theorem reader_is_index_file_only_translated : forall orc s, grd_rwf s = true ->
    reader_is_index_file_only_gen orc s = XOk (is_index_file_only (core_of s)) s.
Proof. exact reader_is_index_file_only_eq. Qed.

(* TdmsReader.close: its guard, which objects it closes, the AttributeError cases, what it leaves behind;
   the paths and the finaliser counters are not touched *)
Theorem reader_close_translated : forall orc s, grd_rwf s = true ->
    rsim (reader_close_gen orc s) (reader_close (core_of s)) /\
    grd_rwf (xstate (reader_close_gen orc s)) = true /\
    fins (gr_tab (xstate (reader_close_gen orc s))) = fins (gr_tab s) /\
    gr_file_path (xstate (reader_close_gen orc s)) = gr_file_path s /\
    gr_index_file_path (xstate (reader_close_gen orc s)) = gr_index_file_path s.
Proof. exact reader_close_sim. Qed.

(* TdmsReader.__init__: path vs stream, the tag cases, the index file beside the data file, what is
   recorded in _file_path / _index_file_path, which open() fails, the cleanup when the second one fails *)
Theorem reader_init_translated : forall orc src na nb lg, tag_ok orc src ->
    let r := reader_init_gen orc (arg_of src) (init_grd src na nb lg) in
    rsim r (construct true src (o_isfile_index orc) (cf_of orc src) (init_core src)) /\
    grd_wf (xstate r) = true /\ fins (gr_tab (xstate r)) = (na, nb).
Proof. exact reader_init_sim. Qed.

(* TdmsReader.read_metadata: which file is parsed, the finally that closes a library-opened index file *)
Theorem reader_read_metadata_translated : forall orc s, grd_rwf s = true ->
    let r := reader_read_metadata_gen orc s in
    rsim r (read_metadata (fc_of orc) (core_of s)) /\ grd_rwf (xstate r) = true /\
    fins (gr_tab (xstate r)) = fins (gr_tab s) /\
    gr_file_path (xstate r) = gr_file_path s /\ gr_index_file_path (xstate r) = gr_index_file_path s.
Proof. exact reader_read_metadata_sim. Qed.

(* the three data methods of the reader and the two of the channel: the guard, then I/O on self._file;
   nothing changes *)
Theorem reader_read_raw_data_translated : forall orc s, grd_rwf s = true ->
    unchanged (reader_read_raw_data_gen orc s) s (data_access (core_of s) (o_data_ok orc)).
Proof. exact reader_read_raw_data_eq. Qed.

Theorem reader_read_raw_data_for_channel_translated : forall orc s, grd_rwf s = true ->
    unchanged (reader_read_raw_data_for_channel_gen orc s) s (data_access (core_of s) (o_data_ok orc)).
Proof. exact reader_read_raw_data_for_channel_eq. Qed.

Theorem reader_read_channel_chunk_for_index_translated : forall orc s, grd_rwf s = true ->
    unchanged (reader_read_channel_chunk_for_index_gen orc s) s (data_access (core_of s) (o_data_ok orc)).
Proof. exact reader_read_channel_chunk_for_index_eq. Qed.

Theorem channel_read_channel_data_translated : forall orc s, grd_rwf s = true ->
    unchanged (channel_read_channel_data_gen orc s) s
              (if is_index_file_only (core_of s) then Raise EIndexOnly
               else data_access (core_of s) (o_data_ok orc)).
Proof. exact channel_read_channel_data_eq. Qed.

Theorem channel_read_chunk_for_index_translated : forall orc s, grd_rwf s = true ->
    unchanged (channel_read_chunk_for_index_gen orc s) s (data_access (core_of s) (o_data_ok orc)).
Proof. exact channel_read_chunk_for_index_eq. Qed.

(* TdmsFile.__init__ (constructor outside the try, _read_file, except: close; raise, finally: close unless
   keep_open) under the flags of each API = tf_init; the static constructors pass exactly those flags *)
Theorem tdmsfile_init_translated : forall orc a src na nb lg, tag_ok orc src ->
    let r := tdmsfile_init_gen orc (arg_of src) (metadata_only a) (keep_open a) (init_gtf src na nb lg) in
    tsim r (tf_init true a src (o_isfile_index orc) (cf_of orc src) (fc_of orc)) /\
    gtf_wf (xstate r) = true /\ fins (gr_tab (gt_rd (xstate r))) = (na, nb).
Proof. exact tdmsfile_init_sim. Qed.

Theorem tdmsfile_static_constructors_translated : forall orc a src na nb lg, tag_ok orc src ->
    let r := static_gen a orc (arg_of src) (init_gtf src na nb lg) in
    tsim r (tf_init true a src (o_isfile_index orc) (cf_of orc src) (fc_of orc)) /\
    gtf_wf (xstate r) = true /\ fins (gr_tab (gt_rd (xstate r))) = (na, nb).
Proof. exact static_gen_sim. Qed.

(* TdmsFile.close / __exit__ / __enter__ *)
Theorem tdmsfile_close_translated : forall orc t c g, grd_rwf (gt_rd t) = true ->
    let r := tdmsfile_close_gen orc t in
    out_of r = Some (fst (tf_close (world_of t c g))) /\
    world_of (xstate r) c g = snd (tf_close (world_of t c g)) /\
    grd_rwf (gt_rd (xstate r)) = true /\
    fins (gr_tab (gt_rd (xstate r))) = fins (gr_tab (gt_rd t)) /\
    gt_data_read (xstate r) = gt_data_read t.
Proof. exact tdmsfile_close_sim. Qed.

Theorem tdmsfile_exit_translated : forall orc t, tdmsfile_exit_gen orc t = tdmsfile_close_gen orc t.
Proof. exact tdmsfile_exit_eq. Qed.

Theorem tdmsfile_enter_translated : forall orc t, tdmsfile_enter_gen orc t = XOk tt t.
Proof. exact tdmsfile_enter_eq. Qed.

(* TdmsWriter.__init__ opens nothing; open; close; __enter__ = open; __exit__ = close *)
Theorem writer_init_translated : forall orc t mode lg m0,
    let r := writer_init_gen orc (wfile_of t) mode (windex_of t) (init_gwr t lg m0) in
    wsim r (Done, w_init t) /\ gwr_wf (xstate r) = true /\ gw_file_mode (xstate r) = mode /\
    h_log (gw_tab (xstate r)) = lg.
Proof. exact writer_init_sim. Qed.

Theorem writer_open_translated : forall orc s, gwr_wf s = true -> gwr_own s = true ->
    let r := writer_open_gen orc s in
    wsim r (w_open true (wf_of orc) (wstate_of s)) /\ gwr_wf (xstate r) = true.
Proof. exact writer_open_sim. Qed.

Theorem writer_close_translated : forall orc s, gwr_rwf s = true ->
    let r := writer_close_gen orc s in
    wsim r (w_close (wstate_of s)) /\ gwr_rwf (xstate r) = true /\
    gw_file_path (xstate r) = gw_file_path s /\ gw_index_file_path (xstate r) = gw_index_file_path s.
Proof. exact writer_close_sim. Qed.

Theorem writer_enter_translated : forall orc s, writer_enter_gen orc s = writer_open_gen orc s.
Proof. exact writer_enter_eq. Qed.

Theorem writer_exit_translated : forall orc s, writer_exit_gen orc s = writer_close_gen orc s.
Proof. exact writer_exit_eq. Qed.

(* the with statement as the translation emits it (TdmsWriter.defragment), with the statements of the block
   as Model/Resource.v has them, = w_with; defragment = the model's defragment (source faults from orc,
   destination faults from orc_dest orc).  When reading the source raises no writer is made (the model's
   third component is then a placeholder: the untouched new writer here). *)
Theorem writer_with_block_translated : forall orc b s, gwr_wf s = true -> ws_inv (wstate_of s) = true ->
    let r := gwith orc (gbody orc b) s in
    wsim r (w_with true (wf_of orc) b (wstate_of s)) /\ gwr_wf (xstate r) = true.
Proof. exact gwith_sim. Qed.

Theorem writer_defragment_with_is_gwith : forall orc src dst ix body s,
    writer_defragment_gen orc src dst ix (zoom gd_wr gd_set_wr body) s
    = dox (_, s1) <- zoom gd_tf gd_set_tf (tdmsfile_init_gen orc src false false) s;
      dox (_, s2) <- zoom gd_wr gd_set_wr (writer_init_gen (orc_dest orc) dst "w"%string ix) s1;
      zoom gd_wr gd_set_wr (gwith (orc_dest orc) body) s2.
Proof. exact writer_defragment_unfold. Qed.

Theorem writer_defragment_translated : forall orc src t b na nb lg lg' m0, tag_ok orc src ->
    let r := writer_defragment_gen orc (arg_of src) (wfile_of t) (windex_of t) (defrag_body orc b)
                                   (init_gdf src na nb lg t lg' m0) in
    let m := defragment true src (o_isfile_index orc) (cf_of orc src) (fc_of orc) t (wf_of (orc_dest orc)) b in
    out_of r = Some (fst (fst m)) /\
    world_of (gd_tf (xstate r)) None GDone = snd (fst m) /\
    (if is_done (fst (tf_init true ApiRead src (o_isfile_index orc) (cf_of orc src) (fc_of orc)))
     then wstate_of (gd_wr (xstate r)) = snd m
     else gd_wr (xstate r) = init_gwr t lg' m0).
Proof. exact defragment_sim. Qed.

(* ==== 2. the headline theorems of Props/C20.v on the translated functions ============================= *)

(* After TdmsFile.read / TdmsFile.read_metadata returns or raises - every kind of source, index file beside
   it or not, whichever open() fails, whatever stage the reading fails at: no file object the library
   opened is open.  (No side condition: the tree has the D19 fix.) *)
Theorem no_owned_handle_after_read_translated : forall orc a src na nb lg, tag_ok orc src -> a <> ApiOpen ->
    tab_no_owned (gr_tab (gt_rd (xstate (api_call a orc src na nb lg)))) = true.
Proof. exact no_owned_handle_after_read_gen. Qed.

(* TdmsFile.open raising: the caller gets no object to close, nothing owned stays open *)
Theorem no_owned_handle_after_open_raises_translated : forall orc src na nb lg, tag_ok orc src ->
    xout (api_call ApiOpen orc src na nb lg) <> None ->
    tab_no_owned (gr_tab (gt_rd (xstate (api_call ApiOpen orc src na nb lg)))) = true.
Proof. exact no_owned_handle_after_open_raises_gen. Qed.

(* After close() or leaving the with-block, at any point of any history of calls (each with its own fault
   points) on an object obtained from any of the three APIs: the call returns and nothing owned is open *)
Theorem no_owned_handle_after_close_translated : forall orc a src na nb lg hist orc' o, tag_ok orc src ->
    xout (api_call a orc src na nb lg) = None -> gis_close o = true ->
    let t := after_history a orc src na nb lg hist in
    xout (gstep orc' t o) = None /\ tab_no_owned (gr_tab (gt_rd (xstate (gstep orc' t o)))) = true.
Proof. exact no_owned_handle_after_close_gen. Qed.

(* Streams supplied by the caller are never closed: whether the API call returns or raises, and after any
   history of calls *)
Theorem caller_streams_never_closed_translated : forall orc a src na nb lg hist, tag_ok orc src ->
    tab_no_caller_closed (gr_tab (gt_rd (after_history a orc src na nb lg hist))) = true.
Proof. exact caller_streams_never_closed_gen. Qed.

(* A read that needs the file after it was closed raises "Cannot read data after the underlying TDMS reader
   is closed" and changes nothing: after a close()/__exit__ anywhere in the history ... *)
Theorem read_after_close_raises_translated :
  forall orc a src na nb lg hist1 orc1 o1 hist2 orc2 o2, tag_ok orc src ->
    xout (api_call a orc src na nb lg) = None -> gis_close o1 = true -> gis_close o2 = false ->
    let t := grun (xstate (gstep orc1 (after_history a orc src na nb lg hist1) o1)) hist2 in
    gstep orc2 t o2 = XErr (Ex EClosed) t.
Proof. exact read_after_close_raises_gen. Qed.

(* ... and on an object from TdmsFile.read / read_metadata, which close the file themselves *)
Theorem read_after_eager_api_raises_translated : forall orc a src na nb lg hist orc2 o2,
    tag_ok orc src -> a <> ApiOpen ->
    xout (api_call a orc src na nb lg) = None -> gis_close o2 = false ->
    let t := after_history a orc src na nb lg hist in
    gstep orc2 t o2 = XErr (Ex EClosed) t.
Proof. exact read_after_eager_api_raises_gen. Qed.

(* close() may be called repeatedly: the first returns, the second returns and changes nothing (not even
   the log of open / close calls) *)
Theorem close_idempotent_translated : forall orc a src na nb lg hist orc1 orc2 o1 o2, tag_ok orc src ->
    xout (api_call a orc src na nb lg) = None -> gis_close o1 = true -> gis_close o2 = true ->
    let t1 := xstate (gstep orc1 (after_history a orc src na nb lg hist) o1) in
    xout (gstep orc1 (after_history a orc src na nb lg hist) o1) = None /\ gstep orc2 t1 o2 = XOk tt t1.
Proof. exact close_idempotent_history_gen. Qed.

(* TdmsReader.close itself, on every well-formed state: a second close stops at the guard; and a close that
   returns closes exactly the objects whose path is recorded (those the constructor opened) *)
Theorem reader_close_idempotent_translated : forall orc orc' s, grd_rwf s = true ->
    xout (reader_close_gen orc s) = None ->
    reader_close_gen orc' (xstate (reader_close_gen orc s)) = XOk tt (xstate (reader_close_gen orc s)).
Proof. exact reader_close_twice_gen. Qed.

Theorem reader_close_closes_what_it_opened : forall orc s, grd_rwf s = true ->
    xout (reader_close_gen orc s) = None ->
    h_log (gr_tab (xstate (reader_close_gen orc s)))
    = h_log (gr_tab s) ++
      (if is_none (gr_file s) && is_none (gr_index_file s) then []
       else (if is_some (gr_file_path s) then [EvClose KData] else []) ++
            (if is_some (gr_index_file_path s) then [EvClose KIndex] else [])).
Proof. exact reader_close_log_gen. Qed.

(* TdmsWriter: after the with-block - entered after any history of earlier with-blocks / close / write
   calls (each with its own fault points), left normally, by an exception inside the block, or because
   __enter__ raised - nothing the library opened is open, nothing was left to the finaliser, no caller
   stream is closed *)
Theorem writer_with_block_closes_translated : forall orc0 t mode lg m0 ops orc b,
    let s' := xstate (gwith orc (gbody orc b) (gw_run orc0 (new_writer orc0 t mode lg m0) ops)) in
    tab_no_owned (gw_tab s') = true /\ fins (gw_tab s') = (0, 0) /\ tab_no_caller_closed (gw_tab s') = true.
Proof. exact writer_with_block_closes_gen. Qed.

Theorem writer_caller_streams_never_closed_translated : forall orc0 t mode lg m0 ops,
    tab_no_caller_closed (gw_tab (gw_run orc0 (new_writer orc0 t mode lg m0) ops)) = true.
Proof. exact writer_caller_streams_never_closed_gen. Qed.

Theorem writer_exception_propagates_translated : forall orc body s s1 e s2,
    writer_enter_gen orc s = XOk tt s1 -> body s1 = XErr e s2 ->
    xout (gwith orc body s) <> None.
Proof. exact writer_exception_propagates_gen. Qed.

(* TdmsWriter.defragment, returning or raising anywhere (source, destination, inside the block) *)
Theorem defragment_closes_translated : forall orc src t b na nb lg lg' m0, tag_ok orc src ->
    let r := writer_defragment_gen orc (arg_of src) (wfile_of t) (windex_of t) (defrag_body orc b)
                                   (init_gdf src na nb lg t lg' m0) in
    tab_no_owned (gr_tab (gt_rd (gd_tf (xstate r)))) = true /\
    tab_no_owned (gw_tab (gd_wr (xstate r))) = true /\
    tab_no_caller_closed (gr_tab (gt_rd (gd_tf (xstate r)))) = true /\
    tab_no_caller_closed (gw_tab (gd_wr (xstate r))) = true.
Proof. exact defragment_closes_gen. Qed.

(* ==== Non-vacuity ====================================================================================== *)

Definition ok_orc : oracle := mkorc true true true TagM true true true true true true.

(* TdmsFile.open(path) with an index file beside it; a channel read; close; a channel read; close again.
   The hypotheses hold (the call returns, close ops are close ops), and the translated functions show the
   behaviour: both files opened in this order, the index file closed as soon as the metadata is read, the
   data file by close() (which closes the already closed index file object once more), the read after close
   raises EClosed, the second close does nothing. *)
Example c20_gen_example_hyps :
  tag_ok ok_orc Path /\ xout (api_call ApiOpen ok_orc Path 0 0 []) = None /\
  gis_close GClose = true /\ gis_close GReadChannelData = false.
Proof. repeat split. Qed.

Example c20_gen_example_history :
  let t0 := xstate (api_call ApiOpen ok_orc Path 0 0 []) in
  let t := grun t0 [(ok_orc, GReadChannelData); (ok_orc, GClose)] in
  h_log (gr_tab (gt_rd t0)) = [EvOpen PData "rb"; EvOpen PIndex "rb"; EvClose KIndex] /\
  (h_data (gr_tab (gt_rd t0)), h_index (gr_tab (gt_rd t0))) = (FObj Lib Open, FObj Lib Closed) /\
  xout (gstep ok_orc t0 GReadChannelData) = None /\
  h_log (gr_tab (gt_rd t)) = [EvOpen PData "rb"; EvOpen PIndex "rb"; EvClose KIndex; EvClose KData; EvClose KIndex] /\
  gstep ok_orc t GReadChannelData = XErr (Ex EClosed) t /\
  gstep ok_orc t GClose = XOk tt t.
Proof. vm_compute. repeat split. Qed.

(* the second open() of the constructor fails: the data file is closed again before OSError leaves
   TdmsFile.open, the state reached is carried by the exception *)
Example c20_gen_example_open_fails :
  let orc := mkorc true false true TagM true true true true true true in
  let r := api_call ApiOpen orc Path 0 0 [] in
  xout r = Some (Ex EOpen) /\
  h_log (gr_tab (gt_rd (xstate r))) = [EvOpen PData "rb"; EvOpenFail PIndex "rb"; EvClose KData] /\
  h_data (gr_tab (gt_rd (xstate r))) = FObj Lib Closed.
Proof. vm_compute. repeat split. Qed.

(* a caller's index stream: read, never closed, released by close() *)
Example c20_gen_example_caller_stream :
  let orc := mkorc true true true TagH true true true true true true in
  let t0 := xstate (api_call ApiOpen orc IndexStream 0 0 []) in
  xout (api_call ApiOpen orc IndexStream 0 0 []) = None /\
  gstep orc t0 GReadChannelData = XErr (Ex EIndexOnly) t0 /\
  h_index (gr_tab (gt_rd (xstate (gstep orc t0 GClose)))) = FObj Caller Open /\
  h_log (gr_tab (gt_rd (xstate (gstep orc t0 GClose)))) = [] /\
  gr_index_file (gt_rd (xstate (gstep orc t0 GClose))) = None.
Proof. vm_compute. repeat split. Qed.

(* a writer on a path with an index file: a block that raises after a write; everything is closed, the
   exception propagates *)
Example c20_gen_example_writer :
  let s0 := new_writer ok_orc (WPath true) "w"%string [] ""%string in
  let r := gwith ok_orc (gbody ok_orc [BWrite true; BRaise; BWrite true]) s0 in
  gwr_wf s0 = true /\ ws_inv (wstate_of s0) = true /\
  xout r = Some (Ex EUser) /\
  h_log (gw_tab (xstate r)) = [EvOpen PData "wb"; EvOpen PIndex "wb"; EvClose KData; EvClose KIndex] /\
  (h_data (gw_tab (xstate r)), h_index (gw_tab (xstate r))) = (FObj Lib Closed, FObj Lib Closed).
Proof. vm_compute. repeat split. Qed.

Print Assumptions reader_ensure_open_translated.
Print Assumptions reader_is_index_file_only_translated.
Print Assumptions reader_close_translated.
Print Assumptions reader_init_translated.
Print Assumptions reader_read_metadata_translated.
Print Assumptions reader_read_raw_data_translated.
Print Assumptions reader_read_raw_data_for_channel_translated.
Print Assumptions reader_read_channel_chunk_for_index_translated.
Print Assumptions channel_read_channel_data_translated.
Print Assumptions channel_read_chunk_for_index_translated.
Print Assumptions tdmsfile_init_translated.
Print Assumptions tdmsfile_static_constructors_translated.
Print Assumptions tdmsfile_close_translated.
Print Assumptions tdmsfile_exit_translated.
Print Assumptions tdmsfile_enter_translated.
Print Assumptions writer_init_translated.
Print Assumptions writer_open_translated.
Print Assumptions writer_close_translated.
Print Assumptions writer_enter_translated.
Print Assumptions writer_exit_translated.
Print Assumptions writer_with_block_translated.
Print Assumptions writer_defragment_with_is_gwith.
Print Assumptions writer_defragment_translated.
Print Assumptions no_owned_handle_after_read_translated.
Print Assumptions no_owned_handle_after_open_raises_translated.
Print Assumptions no_owned_handle_after_close_translated.
Print Assumptions caller_streams_never_closed_translated.
Print Assumptions read_after_close_raises_translated.
Print Assumptions read_after_eager_api_raises_translated.
Print Assumptions close_idempotent_translated.
Print Assumptions reader_close_idempotent_translated.
Print Assumptions reader_close_closes_what_it_opened.
Print Assumptions writer_with_block_closes_translated.
Print Assumptions writer_caller_streams_never_closed_translated.
Print Assumptions writer_exception_propagates_translated.
Print Assumptions defragment_closes_translated.
Print Assumptions c20_gen_example_history.
