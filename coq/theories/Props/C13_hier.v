(* C13 on TRANSLATED code: WHICH property dictionaries a channel hands to scaling.get_scaling.  Statements only;
   proofs in Proofs/GenHierEquiv.v.  Proofs/ScaleFile.v (Props/C13_file.v) states the scaled data of a channel on
   file bytes with [group_props_of om g] = the properties of the object stored under the channel's canonical group
   path among ALL objects of the file (else {}), and [root_props_of om] = the properties of "/" (else {}).  That is
   what TdmsFile._read_file, compiled from the source on every run (Gen/PyFuncsHier.v), gives every TdmsChannel -
   whatever the order of the objects in the file (a group object after its channels included). *)
From Coq Require Import String.
From Coq Require Import List ZArith Bool.
From Coq Require Import Init.Byte.
Import ListNotations.
From NpTdms Require Import Base.Bytes Base.Res Model.Path Model.Tokens Model.SegState Model.Layout Model.Reader
     Gen.PyFuncsHier Proofs.SegStateProofs Proofs.GenHierEquiv.
From NpTdms Require Proofs.ScaleFile.
Local Open Scope Z_scope.

Theorem channel_scaling_dictionaries_translated : forall om root groups,
    NoDup (map fst om) ->
    read_file_hierarchy_gen om tt tt tt = Ok (root, groups) ->
    root = ScaleFile.root_props_of om /\
    Forall (fun kv =>
              Forall (fun kc => gc_group_props (snd kc) = ScaleFile.group_props_of om (gchan_group_name (snd kc)) /\
                                gc_file_props (snd kc) = ScaleFile.root_props_of om)
                     (gg_chans (snd kv))) groups.
Proof. exact channels_wired. Qed.

(* instance: the group object FOLLOWS its channel; the channel still gets the group's properties *)
Definition ex_pg : prop := mkProp (hex "4e495f78"%string) 3 (hex "02000000"%string).
Definition ex_om : alist ometa :=
  [(hex "2f2767272f276127"%string, mkOmeta [] (Some 3) None 5);                  (* /'g'/'a' *)
   (hex "2f276727"%string, mkOmeta [(hex "4e495f78"%string, ex_pg)] None None 0)].   (* /'g' *)

Example channel_scaling_dictionaries_instance :
  match read_file_hierarchy_gen ex_om tt tt tt with
  | Ok (_, [(_, g)]) => map (fun kc => gc_group_props (snd kc)) (gg_chans g) = [[(hex "4e495f78"%string, ex_pg)]]
  | _ => False
  end.
Proof. vm_compute. reflexivity. Qed.

Print Assumptions channel_scaling_dictionaries_translated.
Print Assumptions channel_scaling_dictionaries_instance.
