(* C18 -- Thermocouple conversions follow the NIST ITS-90 reference functions.
   Statements only; proofs live in Proofs/ThermoCoverage.v, Proofs/ThermoReal.v,
   Proofs/ThermoAll.v and the generated Gen/Thermo_<T>.v (interval lemmas).

   Everything is about Gen/ThermoTables.v, regenerated from nptdms/thermocouples.py on
   every run: the tables (each binary64 number once as a PrimFloat literal and once as the
   same hex real literal), the comparisons of Range.within_range and the condition of the
   type-K exponential term.

   What is NOT proved (see DESIGN.md C18): rounding of the float evaluation (polyval, exp)
   is not bounded; the real-number statements are about the exact real function of the
   code's binary64 coefficients.  Global strict monotonicity across piece boundaries is
   false of the standard's own coefficients (B 630.615, R 1664.5, S 1064.18 / 1664.5 degC:
   the right-hand piece starts 1e-11..2e-9 mV below the left-hand one), so "strictly
   increasing where the standard is" is stated per piece (forward_increasing) together
   with the bound on the gaps at the boundaries (forward_boundary_gaps). *)
From Coq Require Import Reals ZArith List PrimFloat.
From Interval Require Import Tactic.
Import ListNotations.
From NpTdms Require Import Gen.ThermoTables.
From NpTdms Require Import Gen.ThermoNist.
From NpTdms Require Import Model.ThermoF.
From NpTdms Require Import Model.ThermoR.
From NpTdms Require Import Proofs.ThermoCoverage.
From NpTdms Require Import Proofs.ThermoAll.

(* (a) the code's forward tables ARE the NIST ITS-90 tables: identical bit patterns of every
   coefficient, interior boundary and exponential-term constant, all eight types; the
   exponential term is attached to the piece NIST attaches it to.  (The code leaves the
   outermost ends open: it extrapolates beyond the NIST range.) *)
Theorem tables_are_nist : forall T : tctype,
  code_fwdF T = open_ends true (nist_fwd T) /\
  code_expF T = nist_exp T /\
  code_fwd_expon T = nist_expon T.
Proof. exact tables_are_nist_all. Qed.

(* (b) totality of piece selection: the eight module-level objects construct without error
   and, for EVERY binary64 x that is not NaN (infinities included), exactly one forward
   piece and exactly one inverse piece select x ... *)
Theorem coverage : forall T : tctype, exists tc, type_tc T = Ok tc /\
  forall x : float, is_nan x = false ->
    count_selected (forward_polynomials tc) x = 1%nat /\
    count_selected (inverse_polynomials tc) x = 1%nat.
Proof. exact coverage_all. Qed.

(* ... hence np.piecewise never takes its NaN default: the result is the Horner value of
   that one polynomial *)
Theorem conversions_never_default : forall T : tctype, exists tc, type_tc T = Ok tc /\
  forall x : float, is_nan x = false ->
    (exists p c cs, In p (forward_polynomials tc) /\ within_range (applicable_range p) x = true /\
        coefficients p = c :: cs /\ celsius_to_mv_poly tc x = Ok (horner c cs x)) /\
    (exists p c cs, In p (inverse_polynomials tc) /\ within_range (applicable_range p) x = true /\
        coefficients p = c :: cs /\ mv_to_celsius tc x = Ok (horner c cs x)).
Proof. exact conversions_select_one_polynomial. Qed.

(* generic form: any table that starts open, ends open, is contiguous and increasing *)
Theorem coverage_generic : forall ps x,
  complete_table ps = true -> is_nan x = false -> count_selected ps x = 1%nat.
Proof. exact complete_table_exactly_one. Qed.

(* closed form of the forward function on each piece: the piece's polynomial, plus the
   exponential term on the pieces flagged in code_fwd_expon (type K, t >= 0) *)
Theorem forward_closed_forms : forall T : tctype,
  Forall (formula_valid (code_expR T)) (fwd_pm T).
Proof. exact formulas_valid_all. Qed.

(* (c1) continuity: at every forward piece boundary the two adjacent closed forms differ by
   at most 1e-6 mV (type K including its exponential term) *)
Theorem forward_boundary_gaps : forall T : tctype,
  boundary_gaps (code_expR T) (fwd_pm T) 1e-6.
Proof. exact boundary_gaps_all. Qed.

(* (c2) strictly increasing on every piece within the NIST range (type B from 22 degC) *)
Theorem forward_increasing : forall T : tctype,
  increasing_on_pieces (code_expR T) (fwd_pm T) (mono_range T).
Proof. exact increasing_all. Qed.

(* (c3) inverse accuracy: for every NIST validity range (tl, th) with error bounds (lo, hi)
   [NIST-stated, widened by one unit of the last stated digit], every true temperature t in
   the range, v = the forward value at t, t' = the inverse value at v -- for whichever
   pieces the code's comparisons select -- lo <= t' - t <= hi *)
Theorem inverse_accuracy : forall T : tctype,
  inverse_accurate (code_expR T) (code_fwdR T) (code_invR T) (inv_spec T).
Proof. exact inverse_accurate_all. Qed.

(* (d) ThermocoupleScaling: direction 1 multiplies the mV value by 1000, the other
   direction divides the input by 1000 first; temperature -> microvolts -> temperature
   therefore meets the same bounds *)
Theorem scaling_roundtrip : forall T tl th lo hi, In (tl, th, lo, hi) (inv_spec T) ->
  forall t uv t', (tl <= t <= th)%R ->
    scale_value (code_expR T) (code_fwdR T) (code_invR T) 1 t uv ->
    scale_value (code_expR T) (code_fwdR T) (code_invR T) 0 uv t' ->
    (lo <= t' - t <= hi)%R.
Proof. exact scaling_roundtrip_all. Qed.

(* ---- non-vacuity ------------------------------------------------------------------------ *)

(* the hypotheses of (c3) are satisfiable: type K at 100 degC has a forward value (second
   piece, exponential on) and an inverse value, and the theorem bounds their difference *)
Example c18_type_k_100 : exists v t',
  fwd_value (code_expR TK) (code_fwdR TK) 100 v /\ inv_value (code_invR TK) v t' /\
  (-0.06 <= t' - 100 <= 0.05)%R.
Proof.
  destruct (type_k_expR) as [a|] eqn:Ea; [|discriminate Ea].
  set (v := (polyR type_k_fwdR_1 100 + exp_fun a 100)%R).
  assert (Hf : fwd_value (code_expR TK) (code_fwdR TK) 100 v).
  { exists type_k_fwdR_1. split; [right; left; reflexivity|]. split.
    - cbv [selR pr_start pr_end type_k_fwdR_1 fst snd wrR_start_only]. interval.
    - apply PV_on; [exact Ea|]. cbv [exp_condR]. interval. }
  assert (Hi : inv_value (code_invR TK) v (polyR type_k_invR_1 v)).
  { exists type_k_invR_1. split; [right; left; reflexivity|]. split; [|reflexivity].
    cbv [selR pr_start pr_end type_k_invR_1 fst snd wrR_both]. unfold v.
    unfold type_k_expR in Ea. injection Ea as <-.
    cbv [polyR hornerR exp_fun pr_c0 pr_cs type_k_fwdR_1 fst snd]. split; interval. }
  exists v, (polyR type_k_invR_1 v). split; [exact Hf|]. split; [exact Hi|].
  apply (inverse_accuracy TK 0 500 (-0.06) 0.05)%R with (v := v).
  - right; left; reflexivity.
  - split; interval.
  - exact Hf.
  - exact Hi.
Qed.

(* the float model at a boundary and its neighbours: 0.0 belongs to the upper piece *)
Example c18_boundary_float :
  match type_tc TE with
  | Ok tc => (count_selected (forward_polynomials tc) 0%float,
              count_selected (forward_polynomials tc) (-0x0.0000000000001p-1022)%float,
              count_selected (forward_polynomials tc) infinity,
              count_selected (forward_polynomials tc) neg_infinity)
  | Err _ => (0, 0, 0, 0)%nat
  end = (1, 1, 1, 1)%nat.
Proof. vm_compute. reflexivity. Qed.

Print Assumptions tables_are_nist.
Print Assumptions coverage.
Print Assumptions conversions_never_default.
Print Assumptions coverage_generic.
(* The six statements over R share one proof cone (Reals + Interval); each traversal of the
   Interval library by Print Assumptions costs ~6 s, so they are printed in one traversal:
   the output is the union of the assumptions of the six. *)
Definition c18_statements_over_R :=
  (forward_closed_forms, forward_boundary_gaps, forward_increasing, inverse_accuracy,
   scaling_roundtrip, c18_type_k_100).
Print Assumptions c18_statements_over_R.
