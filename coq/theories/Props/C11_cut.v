(* C11 / C06 (end to end) — a file with DAQmx segments, cut at ANY byte offset, reads as
   a prefix of the complete file; inside a DAQmx segment only the complete rows of
   every raw buffer survive.

   Statements only.  Proofs: Proofs/TruncDaqmxFile.v, instances Proofs/TruncDaqmxFileEx.v.
   Props/C11_read.v has the complete file (read_correct_daqmx), Props/C11_lazy.v the
   DAQmx decoder on a cut raw data block (daqmx_truncation_complete_rows,
   cut_direct_chunks), Props/C06_values.v the same statement for files of ordinary
   segments (truncation_values_prefix) and the metadata pass on a cut file.

   MAIN THEOREM  truncation_values_prefix_daqmx.  Hypotheses: exactly those of
   C11_read.read_correct_daqmx for the file syntax [segs] (wf_file; the metadata pass
   sm_run and build_hierarchy succeed on the COMPLETE file; segs_content: every
   segment is either the contiguous / interleaved encoding of its entry of
   [chunkss] or a readable DAQmx segment, daqmx_seg_ok, whose entry of [chunkss] is
   direct_chunks; channel paths canonical; typed objects are channels), a cut offset
   4 <= k <= blen (ser_file segs), and
     cut_one_buffer 0 segs k (rs_segments st)
   which restricts ONE segment only -- the one whose raw data contains the cut, if
   there is one: every data object of it has all its scalers in one raw buffer
   (seg_one_buffer; trivially true of an ordinary segment).
   Conclusion: there are a reader state [stc], a hierarchy [hc] and chunks [tail]
   such that, with whole := concat (firstn (whole_count 0 segs k) chunkss) -- the
   chunks of the segments lying wholly before the cut --

     rd_all (take k (ser_file segs)) = Ok (expected_tokens_dq stc hc (whole ++ tail), true)

   i.e. reading the cut BYTES does not fail; the observation is version :: hierarchy
   [hc] with, per channel, the data of C11_read.expected_data_dq over whole ++ tail
   (plain channels: chan_values; DaqMxRawData channels: per scale id
   chan_scaler_values) :: file status of [stc]; the [true] says every receiver --
   every scale id of every DAQmx channel -- got exactly len(channel) values; and

   (hierarchy) hc is, up to channel lengths (C06_values.hier_sim), the hierarchy of
               sm_run (firstn (meta_count 0 segs k) segs): the segments whose lead-in
               and metadata lie wholly before the cut;
   (tail)      cut_tail 0 segs k (rs_segments st) chunkss tail: the cut is in no
               segment's raw data -> tail = [] (cut_tail_outside); it is j bytes into
               the raw data of segment i, a DAQmx segment (g, s) ->
               tail = cut_direct_chunks g (fs_data s) j (cut_tail_daqmx): chunks
               0 .. j/cb - 1 as in the complete segment, then -- if j mod cb <> 0 -- one
               chunk in which every scaler has the values of the COMPLETE ROWS of its
               buffer, r_k = min(rows_k*width_k, max(0, j mod cb - base_k)) / width_k
               (C11_lazy.buffer_lengths_nth); an ordinary segment -> per path a
               prefix of the segment's values (as in C06_values);
   (prefix)    per path p AND per (path, scale id): the values of whole ++ tail are a
               prefix of the complete file's, chan_values p (concat chunkss) /
               chan_scaler_values p id (concat chunkss) ...
   (no loss)   ... and have those of [whole] as a prefix (prefix_clauses);
   (length)    lens_ok: for every channel c of hc, ch_len c = the number of values
               under ch_path c (data type other than DaqMxRawData) / under
               (ch_path c, id) for EVERY scale id of c (DaqMxRawData);
   (status)    obs_status stc starts with TZ 1 exactly when cut_in_data 0 segs k
               (C06_values.cut_in_data_spec: data position <= k < end for some segment).

   THE ONE-BUFFER RESTRICTION is needed and is the code's, not the proof's:
   daqmx.get_daqmx_final_chunk_lengths credits an object for the partial chunk only
   when `len(set(s.raw_buffer_index for s in scalers)) == 1` ("Else scalers are in
   different buffers, not sure this is even valid"); an object spread over several
   buffers gets no entry, is credited 0 values for the partial chunk, and its scalers
   are still handed the complete rows of their buffers.  [cut_needs_one_buffer]: for
   dm_file (one DAQmx segment, channel c0 with a scaler in buffer 0 and one in buffer 1)
   all other hypotheses hold, the complete file reads with flag true, the hypothesis
   fails for every cut inside the raw data, and at k = 224 the model returns flag
   FALSE: c0 is credited 2 values, scaler 0 is handed 4, scaler 5 is handed 2.
   Replay on the real code (dev/c11_cut_file_replay.py): for the cuts where the model's
   flag is false TdmsFile.read either raises ValueError ("could not broadcast input
   array from shape (2,) into shape (0,)": 2 rows for a receiver with no room left) or
   returns silently WITHOUT the values of the partial chunk (1 row: NumPy broadcasts
   a length-1 array into an empty slice) -- outside every property; everywhere else,
   and for every cut of dx_file, implementation and model agree token by token.

   Layers:
     daqmx_cut_count_typed/_raw   the credit of the metadata pass for the cut record of
                        a DAQmx segment = the number of values of cut_direct_chunks per
                        path / per (path, scale id) (from C11_lazy.daqmx_cut_credit)
     cut_prefix_segs    the reader state of the cut file against the run on the segments
                        whose metadata lies before the cut: same object lists, same
                        per-object metadata up to lengths (om_sim).  Through it
                        C11_read.sm_run_tracks and the scaler types of DaqMxRawData
                        channels hold of the CUT state: the receivers of the cut file fit
                        every decoded entry (the cut versions of rd_eager_content /
                        lengths_consistent_content are inside cut_read_core_dq)
     eager_loop_cut_dq  the eager data pass over the cut file

   NOT covered: lazy reads of the cut file (C11_lazy.daqmx_lazy_windows is about the
   complete file), a last lead-in with the length-unknown marker, and -- as in
   read_correct_daqmx -- duplicate scale ids in one channel and channels sharing a
   buffer with different chunk lengths (excluded by daqmx_seg_ok). *)
From Coq Require Import List ZArith.
Import ListNotations.
From NpTdms Require Import Base.Bytes Base.Res Model.Tokens Model.TokensWf Model.SegState
     Model.Layout Model.Reader Model.FileSyn Proofs.LayoutProofs Proofs.FileSynProofs
     Proofs.DaqmxProofs Proofs.TruncProofs Proofs.ReadCorrect Proofs.ReadCorrectDaqmx
     Proofs.TruncValuesLayout Proofs.TruncValuesFile Proofs.TruncValuesExamples Proofs.TruncLazyDaqmx
     Proofs.TruncDaqmxFile Proofs.TruncDaqmxFileEx.
Local Open Scope Z_scope.

(* ---- the definitions of the statement, unfolded ------------------------------------------ *)

Theorem obj_one_buffer_unfold : forall o,
    obj_one_buffer o <->
    match so_daqmx o with
    | Some q => forall s s', In s (dq_scalers q) -> In s' (dq_scalers q) -> sc_buf s = sc_buf s'
    | None => True
    end.
Proof. intros o. reflexivity. Qed.

Theorem seg_one_buffer_unfold : forall g,
    seg_one_buffer g <-> Forall obj_one_buffer (data_objs (sg_objs g)).
Proof. intros g. reflexivity. Qed.

Theorem cut_one_buffer_unfold : forall pos s r k g gs,
    cut_one_buffer pos (s :: r) k (g :: gs) <->
    if k <? pos + 28 + blen (fs_meta_bytes s) then True
    else if k <? pos + fseg_len s then seg_one_buffer g
    else cut_one_buffer (pos + fseg_len s) r k gs.
Proof. intros. reflexivity. Qed.

Theorem seg_one_buffer_b_sound : forall g, seg_one_buffer_b g = true -> seg_one_buffer g.
Proof. exact TruncDaqmxFile.seg_one_buffer_b_sound. Qed.

Theorem all_one_buffer_cut : forall segs gs pos k,
    Forall seg_one_buffer gs -> cut_one_buffer pos segs k gs.
Proof. exact TruncDaqmxFile.all_one_buffer_cut. Qed.

Theorem cut_tail_at_unfold : forall g s j cs tail,
    cut_tail_at g s j cs tail <->
    (daqmx_seg_ok g (fs_data s) -> tail = cut_direct_chunks g (fs_data s) j) /\
    forall p, is_prefix (chan_values p tail) (chan_values p cs) /\
              forall id, is_prefix (chan_scaler_values p id tail) (chan_scaler_values p id cs).
Proof. intros. reflexivity. Qed.

Theorem cut_tail_unfold : forall pos s r k g gs cs css tail,
    cut_tail pos (s :: r) k (g :: gs) (cs :: css) tail <->
    if k <? pos + 28 + blen (fs_meta_bytes s) then tail = []
    else if k <? pos + fseg_len s then cut_tail_at g s (k - (pos + 28 + blen (fs_meta_bytes s))) cs tail
    else cut_tail (pos + fseg_len s) r k gs css tail.
Proof. intros. reflexivity. Qed.

Theorem prefix_clauses_unfold : forall whole chunks_c full,
    prefix_clauses whole chunks_c full <->
    forall p,
      is_prefix (chan_values p chunks_c) (chan_values p full) /\
      is_prefix (chan_values p whole) (chan_values p chunks_c) /\
      forall id,
        is_prefix (chan_scaler_values p id chunks_c) (chan_scaler_values p id full) /\
        is_prefix (chan_scaler_values p id whole) (chan_scaler_values p id chunks_c).
Proof. intros. reflexivity. Qed.

Theorem lens_ok_unfold : forall chunks c,
    lens_ok chunks c <->
    (forall dt, ch_dtype c = Some dt -> dt <> T_DAQMX ->
                ch_len c = Z.of_nat (length (chan_values (ch_path c) chunks))) /\
    (forall sts id, ch_dtype c = Some T_DAQMX -> ch_scalers c = Some sts -> In id (map fst sts) ->
                    ch_len c = Z.of_nat (length (chan_scaler_values (ch_path c) id chunks))).
Proof. intros. reflexivity. Qed.

(* lens_ok is what the flag of rd_all checks *)
Theorem lens_ok_consistent : forall chunks c,
    lens_ok chunks c -> cdata_consistent (ch_len c) (expected_data_dq chunks c) = true.
Proof. exact TruncDaqmxFile.lens_ok_consistent. Qed.

(* ---- what cut_tail says ---------------------------------------------------------------------- *)

Theorem cut_tail_outside : forall segs gs chunkss pos k tail,
    cut_tail pos segs k gs chunkss tail -> cut_in_data pos segs k = false -> tail = [].
Proof. exact TruncDaqmxFile.cut_tail_outside. Qed.

Theorem cut_tail_daqmx : forall gs segs chunkss,
    segs_content gs segs chunkss ->
    forall pos k tail i s g,
      cut_tail pos segs k gs chunkss tail ->
      nth_error segs i = Some s -> nth_error gs i = Some g ->
      pos + seg_offset segs i + 28 + blen (fs_meta_bytes s) <= k < pos + seg_offset segs i + fseg_len s ->
      daqmx_seg_ok g (fs_data s) ->
      i = whole_count pos segs k /\
      tail = cut_direct_chunks g (fs_data s) (k - (pos + seg_offset segs i + 28 + blen (fs_meta_bytes s))).
Proof. exact TruncDaqmxFile.cut_tail_daqmx. Qed.

Theorem cut_tail_prefix : forall gs segs chunkss,
    segs_content gs segs chunkss ->
    forall pos k tail,
      cut_tail pos segs k gs chunkss tail ->
      forall p,
        is_prefix (chan_values p (concat (firstn (whole_count pos segs k) chunkss) ++ tail))
                  (chan_values p (concat chunkss)) /\
        forall id,
          is_prefix (chan_scaler_values p id (concat (firstn (whole_count pos segs k) chunkss) ++ tail))
                    (chan_scaler_values p id (concat chunkss)).
Proof. exact TruncDaqmxFile.cut_tail_prefix. Qed.

(* ---- layers ------------------------------------------------------------------------------------ *)

(* len(channel) credit of the cut record of a DAQmx segment = number of values *)
Theorem daqmx_cut_count_typed : forall g gc data j,
    daqmx_seg_ok g data -> 0 <= j < blen data ->
    sg_toc gc = sg_toc g -> sg_objs gc = sg_objs g ->
    calculate_chunks (sg_toc g) true (sg_objs g) j = Ok (sg_nchunks gc, sg_final gc) ->
    forall p, typed_view p g ->
              Z.of_nat (length (chan_values p (cut_direct_chunks g data j))) = seg_total p gc.
Proof. exact TruncDaqmxFile.daqmx_cut_count_typed. Qed.

Theorem daqmx_cut_count_raw : forall g gc data j,
    daqmx_seg_ok g data -> 0 <= j < blen data ->
    sg_toc gc = sg_toc g -> sg_objs gc = sg_objs g ->
    calculate_chunks (sg_toc g) true (sg_objs g) j = Ok (sg_nchunks gc, sg_final gc) ->
    forall p id, raw_view p id g -> seg_one_buffer g ->
                 Z.of_nat (length (chan_scaler_values p id (cut_direct_chunks g data j))) = seg_total p gc.
Proof. exact TruncDaqmxFile.daqmx_cut_count_raw. Qed.

(* the views, as in C11_lazy: p is seen as plain data / as the raw data of scale id [id] *)
Theorem typed_view_unfold : forall p g,
    typed_view p g <->
    forall o, In o (data_objs (sg_objs g)) -> so_path o = p -> so_dtype o <> Some T_DAQMX.
Proof. intros. reflexivity. Qed.

Theorem raw_view_unfold : forall p id g,
    raw_view p id g <->
    forall o, In o (data_objs (sg_objs g)) -> so_path o = p -> so_dtype o <> None ->
              so_dtype o = Some T_DAQMX /\
              exists q, so_daqmx o = Some q /\ In id (map sc_id (dq_scalers q)).
Proof. intros. reflexivity. Qed.

(* every entry of every chunk a contiguous / interleaved decoder returns, whatever the
   bytes, is plain data under the path of a typed data object without DAQmx metadata *)
Theorem plain_decode_entries : forall g cur cs cur' lay,
    seg_layout g = Ok lay -> lay <> LDaqmx ->
    read_segment_chunks g cur = Ok (cs, cur') ->
    Forall (Forall (fun kv => exists vs o, snd kv = CData vs /\ In o (data_objs (sg_objs g)) /\
                                           so_path o = fst kv /\ so_dtype o <> None)) cs.
Proof. exact TruncDaqmxFile.plain_decode_entries. Qed.

(* the cut file's reader state against the run on the segments whose metadata lies
   before the cut: same object lists, same per-object metadata up to lengths *)
Theorem cut_prefix_segs : forall segs w k pos ps pi st stf stc,
    sm_loop segs w pos ps pi st = Ok stf ->
    cut_loop segs k w pos ps pi st = Ok stc ->
    exists stp gsc gsp,
      sm_loop (firstn (meta_count pos segs k) segs) w pos ps pi st = Ok stp /\
      om_sim (rs_om stc) (rs_om stp) /\
      rs_segments stc = rs_segments st ++ gsc /\
      rs_segments stp = rs_segments st ++ gsp /\
      Forall2 (fun a b => sg_objs a = sg_objs b) gsc gsp.
Proof. exact TruncDaqmxFile.cut_prefix_segs. Qed.

(* the eager data pass over the cut file (receivers with scaler data) *)
Theorem eager_loop_cut_dq : forall pos segs k gs gsc n,
    cut_segs pos segs k gs gsc n ->
    forall chunkss pre,
      wf_file segs -> pos = blen pre ->
      segs_at pos segs gs -> segs_content gs segs chunkss ->
      exists tail,
        cut_tail pos segs k gs chunkss tail /\
        (forall recv,
            (forall g kv, In g gsc -> entry_origin g kv -> entry_fits kv (alookup (fst kv) recv)) ->
            exists recv', fold_left (eager_step (take k (pre ++ ser_file segs))) gsc (Ok recv) = Ok recv' /\
                          forall p, alookup p recv' =
                                    option_map (radd2 (chan_values p (concat (firstn n chunkss) ++ tail))
                                                      (fun id => chan_scaler_values p id
                                                                   (concat (firstn n chunkss) ++ tail)))
                                               (alookup p recv)) /\
        (forall p, (forall g, In g gsc -> typed_view p g) ->
                   zsum (map (seg_total p) gsc)
                   = Z.of_nat (length (chan_values p (concat (firstn n chunkss) ++ tail)))) /\
        (forall p id, (forall g, In g gsc -> raw_view p id g) -> cut_one_buffer pos segs k gs ->
                      zsum (map (seg_total p) gsc)
                      = Z.of_nat (length (chan_scaler_values p id (concat (firstn n chunkss) ++ tail)))).
Proof. exact TruncDaqmxFile.eager_loop_cut_dq. Qed.

(* ---- the composed statement ------------------------------------------------------------------ *)

Theorem truncation_values_prefix_daqmx : forall segs st h chunkss k,
    wf_file segs ->
    sm_run segs false = Ok st ->
    build_hierarchy (rs_om st) = Ok h ->
    segs_content (rs_segments st) segs chunkss ->
    om_paths_canonical (rs_om st) ->
    typed_objects_are_channels (rs_om st) ->
    cut_one_buffer 0 segs k (rs_segments st) ->
    4 <= k <= blen (ser_file segs) ->
    exists stc hc tail stp hp,
      let whole := concat (firstn (whole_count 0 segs k) chunkss) in
      rd_all (take k (ser_file segs)) = Ok (expected_tokens_dq stc hc (whole ++ tail), true) /\
      sm_run (firstn (meta_count 0 segs k) segs) false = Ok stp /\
      build_hierarchy (rs_om stp) = Ok hp /\
      hier_sim hc hp /\
      cut_tail 0 segs k (rs_segments st) chunkss tail /\
      prefix_clauses whole (whole ++ tail) (concat chunkss) /\
      (forall c, In c (all_channels hc) -> lens_ok (whole ++ tail) c) /\
      exists rest, obs_status stc = TZ (if cut_in_data 0 segs k then 1 else 0) :: rest.
Proof. exact TruncDaqmxFile.truncation_values_prefix_daqmx. Qed.

(* from offset 0 (below 28 bytes the reader finds no segment), with the reader state
   named as the result of the metadata pass on the cut bytes *)
Theorem truncation_values_prefix_daqmx_any_offset : forall segs st h chunkss k,
    wf_file segs ->
    sm_run segs false = Ok st ->
    build_hierarchy (rs_om st) = Ok h ->
    segs_content (rs_segments st) segs chunkss ->
    om_paths_canonical (rs_om st) ->
    typed_objects_are_channels (rs_om st) ->
    cut_one_buffer 0 segs k (rs_segments st) ->
    0 <= k <= blen (ser_file segs) ->
    exists stc hc tail,
      let whole := concat (firstn (whole_count 0 segs k) chunkss) in
      rd_metadata (take k (ser_file segs)) false (Some k) false = Ok stc /\
      build_hierarchy (rs_om stc) = Ok hc /\
      rd_all (take k (ser_file segs)) = Ok (expected_tokens_dq stc hc (whole ++ tail), true) /\
      cut_tail 0 segs k (rs_segments st) chunkss tail /\
      prefix_clauses whole (whole ++ tail) (concat chunkss) /\
      (forall c, In c (all_channels hc) -> lens_ok (whole ++ tail) c).
Proof. exact TruncDaqmxFile.truncation_values_prefix_daqmx_any_offset. Qed.

(* every data object of every segment has its scalers in one buffer: every cut *)
Theorem truncation_values_prefix_daqmx_all : forall segs st h chunkss,
    wf_file segs ->
    sm_run segs false = Ok st ->
    build_hierarchy (rs_om st) = Ok h ->
    segs_content (rs_segments st) segs chunkss ->
    om_paths_canonical (rs_om st) ->
    typed_objects_are_channels (rs_om st) ->
    Forall seg_one_buffer (rs_segments st) ->
    forall k, 4 <= k <= blen (ser_file segs) ->
    exists stc hc tail stp hp,
      let whole := concat (firstn (whole_count 0 segs k) chunkss) in
      rd_all (take k (ser_file segs)) = Ok (expected_tokens_dq stc hc (whole ++ tail), true) /\
      sm_run (firstn (meta_count 0 segs k) segs) false = Ok stp /\
      build_hierarchy (rs_om stp) = Ok hp /\
      hier_sim hc hp /\
      cut_tail 0 segs k (rs_segments st) chunkss tail /\
      prefix_clauses whole (whole ++ tail) (concat chunkss) /\
      (forall c, In c (all_channels hc) -> lens_ok (whole ++ tail) c) /\
      exists rest, obs_status stc = TZ (if cut_in_data 0 segs k then 1 else 0) :: rest.
Proof. exact TruncDaqmxFile.truncation_values_prefix_daqmx_all. Qed.

(* files of ordinary segments (C06_values.truncation_values_prefix's hypothesis
   segs_encode) satisfy both extra hypotheses *)
Theorem segs_encode_one_buffer : forall gs segs chunkss,
    segs_encode gs segs chunkss -> Forall seg_one_buffer gs.
Proof. exact TruncDaqmxFile.segs_encode_one_buffer. Qed.

(* ---- the hypotheses are satisfiable; the conclusion computes ---------------------------- *)

(* dx_file (C11_read): two DAQmx segments (the second without metadata) and an ordinary
   one; every object has its scalers in one buffer: the theorem applies to EVERY cut *)
Example c11_cut_applies_dx : forall k, 4 <= k <= blen (ser_file dx_file) ->
    exists stc hc tail stp hp,
      let whole := concat (firstn (whole_count 0 dx_file k) dx_chunks) in
      rd_all (take k (ser_file dx_file)) = Ok (expected_tokens_dq stc hc (whole ++ tail), true) /\
      sm_run (firstn (meta_count 0 dx_file k) dx_file) false = Ok stp /\
      build_hierarchy (rs_om stp) = Ok hp /\
      hier_sim hc hp /\
      cut_tail 0 dx_file k (rs_segments dx_st) dx_chunks tail /\
      prefix_clauses whole (whole ++ tail) (concat dx_chunks) /\
      (forall c, In c (all_channels hc) -> lens_ok (whole ++ tail) c) /\
      exists rest, obs_status stc = TZ (if cut_in_data 0 dx_file k then 1 else 0) :: rest.
Proof. exact dx_cut_file_applies. Qed.

Example c11_cut_one_buffer_dx : Forall seg_one_buffer (rs_segments dx_st).
Proof. exact dx_one_buffer. Qed.

(* segment positions (position, data position, end, chunks) and the classification of
   some cut offsets: segments wholly before the cut, segments whose metadata is before
   the cut, cut inside raw data *)
Example c11_cut_geometry :
  blen (ser_file dx_file) = 426 /\
  map (fun g => (sg_pos g, sg_data g, sg_next g, sg_nchunks g)) (rs_segments dx_st)
  = [(0, 271, 305, 2); (305, 333, 350, 1); (350, 418, 426, 1)] /\
  map (fun k => (k, whole_count 0 dx_file k, meta_count 0 dx_file k, cut_in_data 0 dx_file k))
      [299; 305; 320; 340; 350; 400; 420; 426]
  = [(299, 0%nat, 1%nat, true); (305, 1%nat, 1%nat, false); (320, 1%nat, 1%nat, false);
     (340, 1%nat, 2%nat, true); (350, 2%nat, 2%nat, false); (400, 2%nat, 2%nat, false);
     (420, 2%nat, 3%nat, true); (426, 3%nat, 3%nat, false)].
Proof. exact dx_cut_geometry. Qed.

(* the tail for a cut 28 bytes into segment 0's raw data and 7 bytes into segment 1's *)
Example c11_cut_tail_299 : forall tail,
    cut_tail 0 dx_file 299 (rs_segments dx_st) dx_chunks tail ->
    tail = cut_direct_chunks (dx_seg 0) (dx_data 0) 28.
Proof. exact dx_cut_tail_299. Qed.

Example c11_cut_tail_340 : forall tail,
    cut_tail 0 dx_file 340 (rs_segments dx_st) dx_chunks tail ->
    tail = cut_direct_chunks (dx_seg 1) (dx_data 1) 7.
Proof. exact dx_cut_tail_340. Qed.

Section Tokens.
Import String.
Local Open Scope string_scope.

Example c11_cut_tails :
  cut_direct_chunks (dx_seg 0) (dx_data 0) 28 =
  [ [(dx_p0, CScalers [(0, [hex "0201"; hex "1211"]); (5, [hex "04"; hex "14"])]);
     (dx_p1, CScalers [(0, [hex "00"; hex "01"; hex "00"])]);
     (dx_p2, CData [hex "04030201"; hex "14131211"])];
    [(dx_p0, CScalers [(0, [hex "2221"; hex "3231"]); (5, [hex "24"; hex "34"])]);
     (dx_p1, CScalers [(0, [hex "01"])]);
     (dx_p2, CData [hex "24232221"; hex "34333231"])] ] /\
  cut_direct_chunks (dx_seg 1) (dx_data 1) 7 =
  [ [(dx_p0, CScalers [(0, [hex "4241"]); (5, [hex "44"])]);
     (dx_p1, CScalers [(0, [])]);
     (dx_p2, CData [hex "44434241"])] ].
Proof. exact dx_cut_tails. Qed.

(* 299 = 271 + 28: chunk 0 of segment 0 whole; of chunk 1 buffer 0 is whole (2 rows),
   buffer 1 has ONE complete row: c0 (both scalers) and c2 have 4 values, the
   digital-line channel c1 has 3 + 1; the later segments are not seen; incomplete *)
Example c11_cut_299 :
  rd_all (take 299 (ser_file dx_file)) =
  Ok ([TZ 4713; TZ 0; TZ 1; TB (hex "6471"); TZ 0; TZ 3;
       TB (hex "6330"); TB (hex "6471"); TB dx_p0; TZ 4294967295; TZ 4; TZ 0;
       TZ 1; TZ 2; TZ 0; TZ 4; TB (hex "0201"); TB (hex "1211"); TB (hex "2221"); TB (hex "3231");
       TZ 5; TZ 4; TB (hex "04"); TB (hex "14"); TB (hex "24"); TB (hex "34");
       TB (hex "6331"); TB (hex "6471"); TB dx_p1; TZ 4294967295; TZ 4; TZ 0;
       TZ 1; TZ 1; TZ 0; TZ 4; TB (hex "00"); TB (hex "01"); TB (hex "00"); TB (hex "01");
       TB (hex "6332"); TB (hex "6471"); TB dx_p2; TZ 3; TZ 4; TZ 0;
       TZ 0; TZ 4; TB (hex "04030201"); TB (hex "14131211"); TB (hex "24232221"); TB (hex "34333231");
       TZ 1; TZ 1; TZ 3; TB dx_p0; TZ 2; TZ 2; TB dx_p1; TZ 3; TZ 1; TB dx_p2; TZ 2; TZ 2], true).
Proof. exact dx_cut_299. Qed.

(* 340 = 333 + 7: segment 0 whole; of segment 1's only chunk buffer 0 has ONE complete
   row (7 / 4), buffer 1 none: c0 and c2 have 4 + 1 values, c1 has 6 + 0 *)
Example c11_cut_340 :
  rd_all (take 340 (ser_file dx_file)) =
  Ok ([TZ 4713; TZ 0; TZ 1; TB (hex "6471"); TZ 0; TZ 3;
       TB (hex "6330"); TB (hex "6471"); TB dx_p0; TZ 4294967295; TZ 5; TZ 0;
       TZ 1; TZ 2; TZ 0; TZ 5; TB (hex "0201"); TB (hex "1211"); TB (hex "2221"); TB (hex "3231"); TB (hex "4241");
       TZ 5; TZ 5; TB (hex "04"); TB (hex "14"); TB (hex "24"); TB (hex "34"); TB (hex "44");
       TB (hex "6331"); TB (hex "6471"); TB dx_p1; TZ 4294967295; TZ 6; TZ 0;
       TZ 1; TZ 1; TZ 0; TZ 6; TB (hex "00"); TB (hex "01"); TB (hex "00"); TB (hex "01"); TB (hex "01"); TB (hex "00");
       TB (hex "6332"); TB (hex "6471"); TB dx_p2; TZ 3; TZ 5; TZ 0;
       TZ 0; TZ 5; TB (hex "04030201"); TB (hex "14131211"); TB (hex "24232221"); TB (hex "34333231");
       TB (hex "44434241");
       TZ 1; TZ 1; TZ 3; TB dx_p0; TZ 2; TZ 1; TB dx_p1; TZ 3; TZ 0; TB dx_p2; TZ 2; TZ 1], true).
Proof. exact dx_cut_340. Qed.

(* the boundary between the DAQmx segments = any cut inside the next lead-in *)
Example c11_cut_boundary :
  rd_all (take 305 (ser_file dx_file)) = rd_all (take 320 (ser_file dx_file)) /\
  rd_all (take 305 (ser_file dx_file)) =
  Ok ([TZ 4713; TZ 0; TZ 1; TB (hex "6471"); TZ 0; TZ 3;
       TB (hex "6330"); TB (hex "6471"); TB dx_p0; TZ 4294967295; TZ 4; TZ 0;
       TZ 1; TZ 2; TZ 0; TZ 4; TB (hex "0201"); TB (hex "1211"); TB (hex "2221"); TB (hex "3231");
       TZ 5; TZ 4; TB (hex "04"); TB (hex "14"); TB (hex "24"); TB (hex "34");
       TB (hex "6331"); TB (hex "6471"); TB dx_p1; TZ 4294967295; TZ 6; TZ 0;
       TZ 1; TZ 1; TZ 0; TZ 6; TB (hex "00"); TB (hex "01"); TB (hex "00"); TB (hex "01"); TB (hex "01"); TB (hex "00");
       TB (hex "6332"); TB (hex "6471"); TB dx_p2; TZ 3; TZ 4; TZ 0;
       TZ 0; TZ 4; TB (hex "04030201"); TB (hex "14131211"); TB (hex "24232221"); TB (hex "34333231");
       TZ 0; TZ 0], true).
Proof. exact dx_cut_boundary. Qed.
End Tokens.

(* every cut offset 4..426 of dx_file, computed: rd_all succeeds with flag true *)
Example c11_cut_all_cuts : all_cuts_ok dx_file = true.
Proof. exact dx_all_file_cuts. Qed.

(* ---- the one-buffer hypothesis is needed ----------------------------------------------------- *)

Section Needed.
Import String.
Local Open Scope string_scope.

Example c11_cut_dm_bytes :
  ser_file dm_file =
  hex "5444536d8e00000069120000c800000000000000ac00000000000000020000000a0000002f276471272f2763302769120000ffffffff0100000002000000000000000200000003000000000000000000000000000000000000000000000001000000010000000000000005000000020000000400000003000000000000000a0000002f276471272f276331276912000003000000010000000200000000000000010000000500000000000000000000000000000000000000020000000400000003000000000000000102030411121314a0a1a2b0b1b22122232431323334c0c1c2d0d1d2".
Proof. exact dm_bytes. Qed.

Theorem cut_needs_one_buffer :
  (* the other hypotheses hold *)
  (wf_file dm_file /\
   sm_run dm_file false = Ok dm_st /\
   build_hierarchy (rs_om dm_st) = Ok dm_h /\
   segs_content (rs_segments dm_st) dm_file dm_chunks /\
   om_paths_canonical (rs_om dm_st) /\
   typed_objects_are_channels (rs_om dm_st)) /\
  (* the complete file is read with flag true *)
  rd_all (ser_file dm_file) = Ok (expected_tokens_dq dm_st dm_h (List.concat dm_chunks), true) /\
  (* the one-buffer condition fails for every cut inside the raw data *)
  (forall k, 200 <= k < 228 -> ~ cut_one_buffer 0 dm_file k (rs_segments dm_st)) /\
  (* and the reader's flag is FALSE at 224 = 200 + 14 + 10: c0 credited 2, scaler 0 handed 4,
     scaler 5 handed 2; c1 (one buffer) 4 of 4 *)
  rd_all (take 224 (ser_file dm_file)) =
  Ok ([TZ 4713; TZ 0; TZ 1; TB (hex "6471"); TZ 0; TZ 2;
       TB (hex "6330"); TB (hex "6471"); TB dx_p0; TZ 4294967295; TZ 2; TZ 0;
       TZ 1; TZ 2; TZ 0; TZ 4; TB (hex "0102"); TB (hex "1112"); TB (hex "2122"); TB (hex "3132");
       TZ 5; TZ 2; TB (hex "a1"); TB (hex "b1");
       TB (hex "6331"); TB (hex "6471"); TB dx_p1; TZ 3; TZ 4; TZ 0;
       TZ 0; TZ 4; TB (hex "01020304"); TB (hex "11121314"); TB (hex "21222324"); TB (hex "31323334");
       TZ 1; TZ 1; TZ 2; TB dx_p0; TZ 2; TZ 0; TB dx_p1; TZ 2; TZ 2], false).
Proof. exact (conj dm_hypotheses (conj dm_complete (conj dm_not_one_buffer dm_cut_224))). Qed.
End Needed.

(* the flag over all cuts of dm_file: true outside the raw data and on the chunk
   boundary, false for every cut that leaves a complete row of buffer 0 in a partial
   chunk (4 <= k - 200 < 14, 18 <= k - 200 < 28) *)
Example c11_cut_dm_flags :
  forallb (fun k => match cut_flag dm_file (Z.of_nat k) with Some true => true | _ => false end)
          (seq 4 197 ++ seq 200 4 ++ seq 214 4 ++ [228%nat]) = true /\
  forallb (fun k => match cut_flag dm_file (Z.of_nat k) with Some false => true | _ => false end)
          (seq 204 10 ++ seq 218 10) = true.
Proof. exact dm_flags. Qed.

Print Assumptions obj_one_buffer_unfold.
Print Assumptions seg_one_buffer_unfold.
Print Assumptions cut_one_buffer_unfold.
Print Assumptions seg_one_buffer_b_sound.
Print Assumptions all_one_buffer_cut.
Print Assumptions cut_tail_at_unfold.
Print Assumptions cut_tail_unfold.
Print Assumptions prefix_clauses_unfold.
Print Assumptions lens_ok_unfold.
Print Assumptions lens_ok_consistent.
Print Assumptions cut_tail_outside.
Print Assumptions cut_tail_daqmx.
Print Assumptions cut_tail_prefix.
Print Assumptions daqmx_cut_count_typed.
Print Assumptions daqmx_cut_count_raw.
Print Assumptions typed_view_unfold.
Print Assumptions raw_view_unfold.
Print Assumptions plain_decode_entries.
Print Assumptions cut_prefix_segs.
Print Assumptions eager_loop_cut_dq.
Print Assumptions truncation_values_prefix_daqmx.
Print Assumptions truncation_values_prefix_daqmx_any_offset.
Print Assumptions truncation_values_prefix_daqmx_all.
Print Assumptions segs_encode_one_buffer.
Print Assumptions c11_cut_applies_dx.
Print Assumptions c11_cut_one_buffer_dx.
Print Assumptions c11_cut_geometry.
Print Assumptions c11_cut_tail_299.
Print Assumptions c11_cut_tail_340.
Print Assumptions c11_cut_tails.
Print Assumptions c11_cut_299.
Print Assumptions c11_cut_340.
Print Assumptions c11_cut_boundary.
Print Assumptions c11_cut_all_cuts.
Print Assumptions c11_cut_dm_bytes.
Print Assumptions cut_needs_one_buffer.
Print Assumptions c11_cut_dm_flags.
