(* C07 - What TdmsWriter writes is what TdmsFile reads.
   Statements only; proofs live in Proofs/WriterIntProofs.v (the translated
   integer decision functions), Proofs/WriterProofs.v and Proofs/WriterClauses.v.

   The full property is

     Theorem write_read : forall sessions data index,
       wf_file sessions = true -> wr_file sessions = Ok (data, index) ->
       rd_all data = Ok (content_of_calls sessions).

   where rd_all is the READER model (Model/Reader.v, owned by the reader
   checks).  Proved here is the writer half, [write_read_partial]: the bytes
   written strict-parse back to exactly the segment syntax the calls describe
   ([syntax_of_file]: per call the objects passed in plus the automatically
   inserted root / groups, in the writer's order, with their paths, properties
   (name, TDMS type, value bytes), data types and values - [written_objects]).
   Missing for the full statement: the composition with the reader model
   (rd_all (flat_map ser_segment segs) = meaning segs, property C01) and
   content_of_calls = meaning (syntax_of_file ...); NumPy's array -> bytes and
   the TimeStamp second-fraction arithmetic are supplied to the model by the
   harness (the latter is C12's subject).

   Definitions used below: ctor_range, dtype_range, in_range, unpack_int,
   chain_hole in Proofs/WriterIntProofs.v; partition3, pairs_of, entry_of in
   Proofs/WriterProofs.v. *)
From Coq Require Import List ZArith Bool.
From Coq Require Import Init.Byte.
Import ListNotations.
From NpTdms Require Import Base.Bytes Base.Res Model.Tokens Model.ByteStr Model.StrictParse
  Model.Writer Gen.PyFuncsWriter Proofs.WriterIntProofs Proofs.WriterProofs Proofs.WriterClauses.
Local Open Scope Z_scope.

(* ---- on the TRANSLATED to_int_property_value --------------------------------------------- *)

Theorem int_prop_type_fits : forall v, - 2 ^ 63 <= v < 2 ^ 64 ->
  let '(t, w) := to_int_property_value v in
  w = v /\ in_range (ctor_range t) v /\
  t = (if (- 2 ^ 31 <=? v) && (v <? 2 ^ 31) then C_Int32
       else if v <? 2 ^ 63 then C_Int64 else C_Uint64).
Proof. exact int_prop_type_fits_lemma. Qed.

(* the property is written with that type and bytes that decode to the value *)
Theorem int_prop_roundtrip : forall n v, - 2 ^ 63 <= v < 2 ^ 64 ->
  exists p, int_prop n v = Ok p /\ p_name p = n /\
    let '(ty, width, signed) := ctor_layout (fst (to_int_property_value v)) in
    p_type p = ty /\ length (p_val p) = width /\ unpack_int signed (p_val p) = v.
Proof. exact int_prop_roundtrip_lemma. Qed.

(* outside 64 bits the writer does not accept the value (struct.error) *)
Theorem int_prop_out_of_range_rejected : forall n v,
  v < - 2 ^ 63 \/ 2 ^ 64 <= v -> int_prop n v = Err EStruct.
Proof. exact int_prop_rejected. Qed.

(* ---- on the TRANSLATED _infer_dtype chain -------------------------------------------------- *)

(* whenever NumPy accepts the list at the inferred dtype, every element is
   written as bytes of that dtype that decode back to the element *)
Theorem infer_dtype_fits : forall z r ty vals,
  int_list_data (z :: r) = Ok (ty, vals) ->
  let d := infer_dtype_chain (list_max z r) (list_min z r) in
  let '(ty', width, signed) := dtype_layout d in
  ty = ty' /\
  Forall2 (fun x b => unpack_int signed b = x /\ length b = width) (z :: r) vals.
Proof. exact infer_dtype_fits_lemma. Qed.

(* NumPy accepts exactly the lists whose extremes avoid the holes of the chain
   (a negative minimum that fits the signed type of a width together with a
   maximum that needs the unsigned type of the same width; at 64 bits any
   negative minimum): there the writer does not accept the call *)
Theorem infer_dtype_accepts : forall z r,
  - 2 ^ 63 <= list_min z r -> list_max z r < 2 ^ 64 ->
  (exists ty vals, int_list_data (z :: r) = Ok (ty, vals)) <->
  chain_hole (list_max z r) (list_min z r) = false.
Proof. exact infer_dtype_accepts_lemma. Qed.

(* ---- what is written parses back to what was passed in --------------------------------------- *)

Theorem write_read_partial : forall sessions data index,
  wf_file sessions = true ->
  wr_file sessions = Ok (data, index) ->
  exists segs, syntax_of_file sessions = Ok segs /\ strict_parse data = Some segs.
Proof. exact write_parse_lemma. Qed.

Theorem written_objects : forall v st objs sorted st' s,
  wr_objects st objs = Ok (sorted, st') ->
  syntax_of_objs v sorted = Ok s ->
  sorted = partition3 (pairs_of st objs) /\
  sg_entries s = map entry_of sorted /\
  sg_values s = map obj_values sorted.
Proof. exact written_objects_lemma. Qed.

(* ---- non-vacuity -------------------------------------------------------------------------------- *)

Example c07_int_boundaries :
  map (fun v => fst (to_int_property_value v))
      [- 2 ^ 63; - 2 ^ 31 - 1; - 2 ^ 31; 2 ^ 31 - 1; 2 ^ 31; 2 ^ 63 - 1; 2 ^ 63; 2 ^ 64 - 1]
  = [C_Int64; C_Int64; C_Int32; C_Int32; C_Int64; C_Int64; C_Uint64; C_Uint64].
Proof. vm_compute. reflexivity. Qed.

Example c07_infer_accepts : exists vals, int_list_data [2 ^ 31; 0; 5] = Ok (7, vals).
Proof. eexists. vm_compute. reflexivity. Qed.

Example c07_infer_hole : int_list_data [2 ^ 31; - 1] = Err EOther /\ chain_hole (2 ^ 31) (- 1) = true.
Proof. split; vm_compute; reflexivity. Qed.

(* a Python-level call sequence: int list, int property at the 2^31 boundary, a
   string channel, two sessions *)
Definition c07_example : list (Z * list (list pyobj)) :=
  [(4712, [[PyChan [x67] [x63] (PDInts [300; - 1]) [PPInt [x70] (2 ^ 31)];
            PyChan [x67] [x73] (PDTyped T_STRING [[x61]; [xc3; xa9]]) []];
           [PyGroup [x67] [PPTyped (mkProp [x6e] T_STRING [x78])]]]);
   (4712, [[PyChan [x67] [x63] (PDInts [- 200; 256]) []]])].

Example c07_example_roundtrip :
  exists low data index segs,
    lower_file c07_example = Ok low /\ wf_file low = true /\
    wr_file low = Ok (data, index) /\
    syntax_of_file low = Ok segs /\ strict_parse data = Some segs /\ length segs = 3%nat.
Proof.
  destruct (lower_file c07_example) as [low|e] eqn:El; [|vm_compute in El; discriminate].
  assert (Hl : Ok low = lower_file c07_example) by (symmetry; exact El).
  vm_compute in Hl. injection Hl as Hlow.
  assert (Hwf : wf_file low = true) by (rewrite Hlow; vm_compute; reflexivity).
  destruct (wr_file low) as [[d i]|e] eqn:E;
    [|exfalso; rewrite Hlow in E; vm_compute in E; discriminate].
  destruct (write_read_partial low d i Hwf E) as [segs [Hs Hp]].
  exists low, d, i, segs. repeat split; try assumption.
  assert (Hs' : Ok segs = syntax_of_file low) by (symmetry; exact Hs).
  rewrite Hlow in Hs'. vm_compute in Hs'. injection Hs' as ->. reflexivity.
Qed.

Print Assumptions int_prop_type_fits.
Print Assumptions int_prop_roundtrip.
Print Assumptions int_prop_out_of_range_rejected.
Print Assumptions infer_dtype_fits.
Print Assumptions infer_dtype_accepts.
Print Assumptions write_read_partial.
Print Assumptions written_objects.
Print Assumptions c07_example_roundtrip.
