(* C02 on TRANSLATED code.  Statements only; proofs in Proofs/GenSegStateEquiv.v and Proofs/GenSegStateTransport.v.

   harness/gen/gen_pyfuncs_segstate.py compiles, on every run, the metadata state machine of the reader from the
   Python source into Gen/PyFuncsSegState.v:
     nptdms/tdms_segment.py  TdmsSegment.read_segment_objects, _update_existing_object, _reuse_previous_object,
                             _reuse_previous_segment_metadata, _get_existing_object, _new_segment_object,
                             _read_object_properties, SegmentIndexCache.get_index, ObjectListKey.__init__/__eq__/__hash__
     nptdms/reader.py        TdmsReader._update_object_metadata, _update_object_properties, _get_or_create_object,
                             _update_object_data_type, _update_object_scaler_data_types
   File reads are parameters (the block is given lexed, as Model/Tokens.v entries); object mutation is turned into
   functional update with write-back by a fail-closed alias analysis.  Here the translated functions are proved
   EQUAL to the hand-written mechanism model Model/SegState.v, for every input the lexer can produce, so that every
   C02 theorem about the model is a theorem about the code as translated; the forbidden-encoding and
   inheritance-step theorems are restated on the translated functions.

   One difference between the code and the model was found and is stated: a metadata block that lists a path of the
   INHERITED list twice ([read_segment_objects_dup_refuted]; outside every property - [listed_once] / [wf]).  The
   equalities hold under [hits_fresh]: no path found in the inherited list is listed twice.

   The segment loop of TdmsReader.read_metadata (_read_segment_metadata, previous_segment, segment_position, the
   seek after each segment, the index cache, the EOFError that ends the loop) is translated as well
   (read_metadata_gen: `while True` is a Fixpoint on fuel over the translated iteration); with _read_lead_in and the
   metadata lexer instantiated by the model's byte-level parsers it is proved equal to Model/Reader.v rd_metadata on
   the FILE BYTES ([read_metadata_translated]; the recorded tdms_version lives in _read_lead_in and is not compared).

   Not translated here: the byte-level reads (tied by Proofs/FileSynProofs.v, C01), TdmsSegmentObject.read_raw_data_index
   (Gen/PyFuncsIndex.v, Props/C01_gen2.v), _calculate_chunks (Gen/PyFuncsReader.v, Props/C01_gen.v: used here through
   calculate_chunks_gen), the arithmetic of _read_lead_in (Props/C01_gen.v). *)
From Coq Require Import String.
From Coq Require Import List ZArith Bool.
From Coq Require Import Init.Byte.
Import ListNotations.
From NpTdms Require Import Base.Bytes Base.Res Base.PySlice Model.Tokens Model.SegState
     Model.Layout Model.Reader Gen.TypeTable Gen.PyFuncsReader Gen.PyFuncsSegState Proofs.SegStateProofs Proofs.SegStateInherit
     Proofs.SegStateExplicit Proofs.GenReaderEquiv Proofs.GenSegStateEquiv Proofs.GenSegStateTransport Proofs.GenSegStateLoop.
Local Open Scope Z_scope.

(* ---- the hypotheses hold of everything the byte-level reader lexes ------------------------------------------ *)

Theorem lexed_blocks_qualify : forall e bs es rest,
    parse_metadata e bs = Ok (es, rest) -> Forall entry_lexed es /\ Forall entry_bufs es.
Proof. intros e bs es rest H. split; [exact (parse_metadata_lexed e bs es rest H)|exact (parse_metadata_bufs e bs es rest H)]. Qed.

Theorem listed_once_qualifies : forall bl es, NoDup (map e_path es) -> hits_fresh bl [] es.
Proof. exact listed_once_hits_fresh. Qed.

(* ---- the helpers ------------------------------------------------------------------------------------------------ *)

(* _new_segment_object, has_data = True, read_raw_data_index: the object a defining index creates *)
Theorem new_object_translated : forall p i,
    idx_lexed i -> defining i = true ->
    (do so <- new_segment_object_gen p (idx_header i);
     obj_read_raw_data_index (set_has_data so true) (idx_header i) i) = new_object p i.
Proof. exact build_object_eq. Qed.

(* _update_existing_object: replace-at-index; the object is copied exactly when has_data changes *)
Theorem update_existing_object_translated : forall objs k o i,
    idx_lexed i -> nth_error objs k = Some o ->
    update_existing_object_gen objs (Z.of_nat k) o (idx_header i) i
    = do o' <- update_existing o i; Ok (replace_nth k o' objs).
Proof. exact update_existing_object_eq. Qed.

(* _reuse_previous_object: append *)
Theorem reuse_previous_object_translated : forall objs po i,
    idx_lexed i ->
    reuse_previous_object_gen objs po (idx_header i) i = do o' <- reuse_previous po i; Ok (objs ++ [o']).
Proof. exact reuse_previous_object_eq. Qed.

(* the existing-objects map and _get_existing_object: the LAST position of a path in the copied list *)
Theorem get_existing_object_translated : forall bl p,
    get_existing_object_gen (existing_dict bl) p
    = Ok (match existing_lookup p 0 bl None with
          | Some (i, o) => (Some (Z.of_nat i), Some o)
          | None => (None, None)
          end).
Proof. exact get_existing_object_eq. Qed.

(* the loop over the listed objects: which list each object lands in, the "not seen before" error, and which
   property lists are returned *)
Theorem object_loop_translated : forall prev base es ordered props seen,
    Forall entry_lexed es -> base_ok base seen ordered es ->
    read_segment_objects_gen_loop2 (option_map existing_dict base) prev es ordered props
    = do o <- fold_entries base prev ordered es; Ok (o, gprops_collect es props).
Proof. exact loop_eq. Qed.

Theorem returned_properties_translated : forall es acc,
    pview (gprops_collect es acc) = collect_props es (pview acc).
Proof. exact gprops_collect_view. Qed.

(* ---- SegmentIndexCache / ObjectListKey ------------------------------------------------------------------------------ *)

(* ObjectListKey.__eq__ is equality of the path lists, in order *)
Theorem object_list_key_eq_translated : forall h a b,
    object_list_key_eq_gen a b = Ok (paths_eqb (map so_path (fst a)) (map so_path (fst b))) /\
    object_list_key_init_gen h (fst a) = Ok (fst a, key_hash h (fst a)).
Proof. intros h a b. split; [apply key_eq_eq|apply key_init_eq]. Qed.

(* get_index is the model's get_index on the path view of the cache, for ANY string hash *)
Theorem get_index_translated : forall h c objs,
    cache_wf h c ->
    exists iz c', get_index_gen h c objs = Ok (iz, c') /\ cache_wf h c' /\
                  (zidx iz, cache_view c') = get_index (cache_view c) objs.
Proof. exact get_index_gen_view. Qed.

(* transported: a cache hit returns exactly what a fresh computation gives, whatever the history *)
Theorem index_cache_transparent_gen : forall h c objs iz c',
    cache_good h c -> get_index_gen h c objs = Ok (iz, c') ->
    zidx iz = fresh_index (map so_path objs) /\ cache_good h c'.
Proof. exact GenSegStateTransport.index_cache_transparent_gen. Qed.

(* ---- read_segment_objects: one segment of the metadata pass = the body of sm_loop / md_loop ------------------------- *)

Theorem read_segment_objects_translated : forall h pos toc np dp inc es prev gcache pseg,
    let md := if toc_has toc TOC_META then Some es else None in
    Forall entry_lexed es -> Forall entry_bufs es -> prev_bufs prev ->
    match pseg with Some g => bufs_nonneg (gs_objs g) | None => True end ->
    (toc_has toc TOC_META = true -> toc_has toc TOC_NEWLIST = false ->
     forall g, pseg = Some g -> hits_fresh (gs_objs g) [] es) ->
    match gcache with Some c => cache_wf h c | None => True end ->
    res_map gen_view (read_segment_objects_gen h pos toc np dp inc es prev gcache pseg)
    = model_segment toc inc np dp md prev (option_map gs_objs pseg)
                    (match pseg with Some g => index_view (gs_index g) | None => [] end)
                    (match gcache with Some _ => true | None => false end) (cview gcache).
Proof. exact read_segment_objects_gen_eq_inputs. Qed.

(* [model_segment] is literally what Model/FileSyn.v sm_loop does with one segment *)
Theorem model_segment_is_sm_loop_body : forall toc inc np dp md prev pseg pindex want cache,
    model_segment toc inc np dp md prev pseg pindex want cache
    = do '(objs, props) <- read_segment_objects toc md prev pseg;
      let '(idx, cache') :=
          match md with
          | None => (pindex, cache)
          | Some _ => if want then get_index cache objs else ([], cache)
          end in
      do '(nch, fin) <- calculate_chunks toc inc objs (np - dp);
      Ok (props, (objs, idx, nch, fin, cache')).
Proof. reflexivity. Qed.

Theorem read_segment_objects_cache_wf : forall h pos toc np dp inc es prev c pseg p o i n f c',
    cache_wf h c ->
    read_segment_objects_gen h pos toc np dp inc es prev (Some c) pseg = Ok (p, (o, i, n, f, Some c')) ->
    cache_wf h c'.
Proof. exact read_segment_objects_gen_cache_wf. Qed.

(* the difference between code and model for a path of the inherited list that is listed twice *)
Theorem read_segment_objects_dup_refuted :
    let pseg := Some (mkGseg 0 14 32 28 false [dup_obj] None 1 None) in
    Forall entry_lexed dup_entries /\
    res_map (fun r => map so_has_data (objs_of (gen_view r)))
            (read_segment_objects_gen (fun _ => 0) 32 10 64 64 false dup_entries [(so_path dup_obj, dup_obj)] None pseg)
    = Ok [false] /\
    res_map (fun r => map so_has_data (objs_of r))
            (model_segment 10 false 64 64 (Some dup_entries) [(so_path dup_obj, dup_obj)] (Some [dup_obj]) [] false [])
    = Ok [true] /\
    ~ hits_fresh [dup_obj] [] dup_entries.
Proof. exact GenSegStateEquiv.read_segment_objects_dup_refuted. Qed.

(* the assumption behind `except AttributeError` in _reuse_previous_segment_metadata *)
Theorem calculate_chunks_no_attribute_error : forall objs,
    have_daqmx objs = Ok true -> buffer_dims objs <> Err EOther.
Proof. exact GenSegStateEquiv.calculate_chunks_no_attribute_error. Qed.

(* ---- reader.py ---------------------------------------------------------------------------------------------------------- *)

(* _update_object_metadata: num_values accumulation, the data-type and scaler-type checks, the previous-object map *)
Theorem update_object_metadata_translated : forall prev om seg,
    update_object_metadata_gen prev om seg
    = update_object_metadata (sg_objs seg) (sg_nchunks seg) (sg_final seg) prev om.
Proof. exact update_object_metadata_gen_eq. Qed.

(* _update_object_properties: last value wins, insertion order *)
Theorem update_object_properties_translated : forall om gp,
    gprops_wf gp ->
    update_object_properties_gen om gp = Ok (update_object_properties (pview gp) om).
Proof. exact update_object_properties_gen_eq. Qed.

Theorem returned_properties_wf : forall es, gprops_wf (gprops_collect es None).
Proof. intros es. apply gprops_collect_wf. exact I. Qed.

(* ---- the C02 theorems on the translated functions -------------------------------------------------------------------------- *)

Theorem forbidden_rejected_first_without_metadata_gen : forall h pos toc np dp inc es prev gcache,
    toc_has toc TOC_META = false ->
    read_segment_objects_gen h pos toc np dp inc es prev gcache None = Err EValue.
Proof. exact GenSegStateTransport.forbidden_rejected_first_without_metadata_gen. Qed.

Theorem forbidden_rejected_unseen_match_prev_gen : forall h pos toc np dp inc prev gcache pseg pre mid x es,
    let base := if toc_has toc TOC_NEWLIST then None else option_map gs_objs pseg in
    toc_has toc TOC_META = true ->
    Forall entry_lexed (pre ++ x :: es) ->
    (toc_has toc TOC_NEWLIST = false -> forall g, pseg = Some g -> hits_fresh (gs_objs g) [] (pre ++ x :: es)) ->
    match gcache with Some c => cache_wf h c | None => True end ->
    fold_entries base prev (match base with Some l => l | None => [] end) pre = Ok mid ->
    unseen base prev (e_path x) -> e_idx x = IMatchPrev ->
    read_segment_objects_gen h pos toc np dp inc (pre ++ x :: es) prev gcache pseg = Err EValue.
Proof. exact GenSegStateTransport.forbidden_rejected_unseen_match_prev_gen. Qed.

Theorem forbidden_rejected_type_change_gen : forall prev om seg o r m t,
    sg_objs seg = o :: r ->
    alookup (so_path o) om = Some m -> om_dtype m = Some t -> so_dtype o <> Some t ->
    update_object_metadata_gen prev om seg = Err EValue.
Proof. exact GenSegStateTransport.forbidden_rejected_type_change_gen. Qed.

Theorem inheritance_transparent_step_gen : forall h pos toc np dp inc es prev gcache pseg p objs i n f c,
    prev_keys_ok prev -> prev_wf prev -> base_tracked (option_map gs_objs pseg) prev ->
    Forall entry_lexed es -> Forall entry_bufs es -> prev_bufs prev ->
    match pseg with Some g => bufs_nonneg (gs_objs g) | None => True end ->
    (toc_has toc TOC_META = true -> toc_has toc TOC_NEWLIST = false ->
     forall g, pseg = Some g -> hits_fresh (gs_objs g) [] es) ->
    match gcache with Some c0 => cache_wf h c0 | None => True end ->
    read_segment_objects_gen h pos toc np dp inc es prev gcache pseg = Ok (p, (objs, i, n, f, c)) ->
    (forall o, In o objs -> so_has_data o = true -> so_dtype o <> None) ->
    Forall entry_lexed (explicit_entries objs) ->
    exists p' i' c',
      read_segment_objects_gen h pos (explicit_toc toc) np dp inc (explicit_entries objs) prev gcache pseg
      = Ok (p', (objs, i', n, f, c')) /\ pview p' = [].
Proof. exact GenSegStateTransport.inheritance_transparent_step_gen. Qed.


(* ---- the segment loop of read_metadata on file bytes ------------------------------------------------------------------------ *)

(* one iteration of `while True:` is one unfolding of Model/Reader.v md_loop: it ends the loop exactly where md_loop
   stops (short lead-in, incomplete metadata), fails with the same error, or continues from the corresponding state *)
Theorem read_metadata_iteration_translated : forall src is_index file_size h,
    (forall p e es rest, parse_metadata e (drop p src) = Ok (es, rest) -> NoDup (map e_path es)) ->
    forall want prev om segs pseg segpos cache fpos ver,
    inv h want (prev, om, segs, pseg, segpos, cache, fpos) ->
    let mst := mkRstate (map seg_of segs) prev om (cview cache) ver in
    match read_metadata_iteration_gen h (lead_io src is_index file_size) (lexed_io src) prev om segs pseg segpos cache fpos is_index with
    | Ok None =>
      forall f, exists ver', md_loop (S f) src is_index file_size want fpos segpos (option_map gs_objs pseg) (pindex_of pseg) mst
                            = Ok (mkRstate (map seg_of segs) prev om (cview cache) ver')
    | Ok (Some st') =>
      inv h want st' /\
      exists ver', forall f,
          let '(prev', om', segs', pseg', segpos', cache', fpos') := st' in
          md_loop (S f) src is_index file_size want fpos segpos (option_map gs_objs pseg) (pindex_of pseg) mst
          = md_loop f src is_index file_size want fpos' segpos' (option_map gs_objs pseg') (pindex_of pseg')
                    (mkRstate (map seg_of segs') prev' om' (cview cache') ver')
    | Err e =>
      forall f, md_loop (S f) src is_index file_size want fpos segpos (option_map gs_objs pseg) (pindex_of pseg) mst = Err e
    end.
Proof. intros src is_index file_size h Hb. exact (iteration_eq src is_index file_size h Hb). Qed.

(* read_metadata as translated = rd_metadata of the model, on the bytes of the metadata source: the segments (objects,
   positions, indexes, chunk counts, overrides), the previous-object map, object_metadata and the index cache *)
Theorem read_metadata_translated : forall src is_index file_size h want,
    (forall p e es rest, parse_metadata e (drop p src) = Ok (es, rest) -> NoDup (map e_path es)) ->
    res_map view_state (read_metadata_gen h (lead_io src is_index file_size) (lexed_io src) (S (S (length src))) want is_index)
    = res_map view_rstate (rd_metadata src is_index file_size want).
Proof. intros src is_index file_size h want Hb. exact (read_metadata_gen_eq src is_index file_size h Hb want). Qed.

(* the side condition is decidable *)
Theorem blocks_listed_once_decidable : forall src,
    blocks_ok_b src = true ->
    forall p e es rest, parse_metadata e (drop p src) = Ok (es, rest) -> NoDup (map e_path es).
Proof. exact blocks_ok_b_sound. Qed.

(* nothing in the model's segment step returns EEof: the loop ends only where _read_lead_in says so *)
Theorem segment_step_raises_no_eof : forall toc inc np dp md prev pseg pindex want cache objs n f po om,
    model_segment toc inc np dp md prev pseg pindex want cache <> Err EEof /\
    update_object_metadata objs n f po om <> Err EEof.
Proof. intros. split; [apply model_segment_noeof|apply update_object_metadata_noeof]. Qed.

(* a three-segment file (little-endian segment with root, an Int32 and a string channel; big-endian segment that
   inherits the list, switches the string channel off and restates a property; a segment without metadata): the
   side condition holds and both sides evaluate to the same state.  The bytes are read by the real TdmsReader as
   this state (dev/c02_loop_instance.py) *)
Definition ex_file : bytes := hex "5444536d0e000000691200007c000000000000006e0000000000000003000000010000002fffffffff0100000001000000720300000001000000080000002f2767272f276127140000000300000001000000020000000000000000000000080000002f2767272f2762271c0000002000000001000000010000000000000006000000000000000000000001000000020000000200000068695444536d4a00000000001269000000000000004a000000000000003a00000002000000082f2767272f276227ffffffff00000000000000082f2767272f27612700000000000000010000000175000000200000000156000000030000000400000003000000045444536d0800000069120000080000000000000000000000000000000500000006000000"%string.

Example read_metadata_translated_instance :
  blocks_ok_b ex_file = true /\
  res_map (fun v => let '(segs, prev, om, cache) := v in
                    (map (fun g => (sg_nchunks g, map (fun o => (so_path o, so_has_data o)) (sg_objs g))) segs,
                     map (fun kv => (fst kv, om_len (snd kv), om_dtype (snd kv), map fst (om_props (snd kv)))) om, length cache))
          (res_map view_state (read_metadata_gen (fun q => Z.of_nat (length q)) (lead_io ex_file false (Some (blen ex_file))) (lexed_io ex_file)
                                                 (S (S (length ex_file))) true false))
  = Ok ([(1, [(hex "2f"%string, false); (hex "2f2767272f276127"%string, true); (hex "2f2767272f276227"%string, true)]);
         (2, [(hex "2f"%string, false); (hex "2f2767272f276127"%string, true); (hex "2f2767272f276227"%string, false)]);
         (1, [(hex "2f"%string, false); (hex "2f2767272f276127"%string, true); (hex "2f2767272f276227"%string, false)])],
        [(hex "2f"%string, 0, None, [hex "72"%string]); (hex "2f2767272f276127"%string, 8, Some 3, [hex "75"%string]);
         (hex "2f2767272f276227"%string, 1, Some 32, [])], 1%nat).
Proof. split; vm_compute; reflexivity. Qed.

(* ---- a concrete, non-trivial instance: hypotheses are satisfiable, both sides evaluate ------------------------------------ *)

(* previous segment: /'g'/'a' (Int32, 2 values, with data) and /'g'/'b' (no data, typed Float64 earlier);
   this segment (metadata, inherited list): a "matches previous", b "matches previous", a new string channel c,
   the group object with a property; index cache requested and holding the previous list *)
Definition ex_a : sobj := mkSobj (hex "2f2767272f276127"%string) true 2 8 (Some 3) None.
Definition ex_b : sobj := mkSobj (hex "2f2767272f276227"%string) false 3 24 (Some 10) None.
Definition ex_prev : alist sobj := [(so_path ex_a, ex_a); (so_path ex_b, ex_b)].
Definition ex_pseg : gseg := mkGseg 0 14 68 60 false [ex_a; ex_b] (Some [(so_path ex_a, 0); (so_path ex_b, 1)]) 1 None.
Definition ex_entries : list entry :=
  [mkEntry (so_path ex_b) IMatchPrev [];
   mkEntry (hex "2f2767272f276327"%string) (IFull 28 32 1 2 (Some 11)) [mkProp (hex "75"%string) 32 (hex "56"%string)];
   mkEntry (so_path ex_a) INoData [];
   mkEntry (hex "2f276727"%string) INoData [mkProp (hex "6b"%string) 3 (hex "07000000"%string)]].
Definition ex_hash (p : bytes) : Z := Z.of_nat (length p).
Definition ex_cache : hdict := [(([ex_a; ex_b], key_hash ex_hash [ex_a; ex_b]), [(so_path ex_a, 0); (so_path ex_b, 1)])].

Example read_segment_objects_translated_instance :
  Forall entry_lexed ex_entries /\ Forall entry_bufs ex_entries /\ prev_bufs ex_prev /\
  bufs_nonneg (gs_objs ex_pseg) /\ hits_fresh (gs_objs ex_pseg) [] ex_entries /\ cache_wf ex_hash ex_cache /\
  res_map gen_view (read_segment_objects_gen ex_hash 68 10 200 165 false ex_entries ex_prev (Some ex_cache) (Some ex_pseg))
  = Ok ([(hex "2f2767272f276327"%string, [mkProp (hex "75"%string) 32 (hex "56"%string)]);
         (hex "2f276727"%string, [mkProp (hex "6b"%string) 3 (hex "07000000"%string)])],
        ([set_has_data ex_a false; set_has_data ex_b true;
          mkSobj (hex "2f2767272f276327"%string) true 2 11 (Some 32) None;
          mkSobj (hex "2f276727"%string) false 0 0 None None],
         [(so_path ex_a, 0%nat); (so_path ex_b, 1%nat); (hex "2f2767272f276327"%string, 2%nat); (hex "2f276727"%string, 3%nat)],
         1, None,
         [([so_path ex_a; so_path ex_b], [(so_path ex_a, 0%nat); (so_path ex_b, 1%nat)]);
          ([so_path ex_a; so_path ex_b; hex "2f2767272f276327"%string; hex "2f276727"%string],
           [(so_path ex_a, 0%nat); (so_path ex_b, 1%nat); (hex "2f2767272f276327"%string, 2%nat); (hex "2f276727"%string, 3%nat)])])).
Proof.
  split; [repeat constructor; cbn; repeat split; discriminate|].
  split; [repeat constructor|].
  split; [intros p po; cbn [ex_prev alookup]; repeat (destruct (bytes_eqb p _); [intros [= <-]; exact I|]); discriminate|].
  split; [repeat constructor|].
  split; [cbn; repeat split; intro H; repeat (destruct H as [H|H]; [discriminate H|]); exact H|].
  split; [repeat constructor|].
  vm_compute. reflexivity.
Qed.

(* the forbidden "matches previous" of an unseen object, on the translated function *)
Example forbidden_rejected_unseen_match_prev_gen_instance :
  read_segment_objects_gen ex_hash 68 10 200 165 false
    (ex_entries ++ [mkEntry (hex "2f277a27"%string) IMatchPrev []]) ex_prev None (Some ex_pseg) = Err EValue.
Proof. vm_compute. reflexivity. Qed.

(* a type change, on the translated function *)
Example forbidden_rejected_type_change_gen_instance :
  update_object_metadata_gen [] [(so_path ex_a, mkOmeta [] (Some 10) None 4)] (mkSeg 0 10 68 60 false [ex_a] [] 1 None)
  = Err EValue /\
  update_object_metadata_gen [] [(so_path ex_a, mkOmeta [] (Some 3) None 4)] (mkSeg 0 10 68 60 false [ex_a] [] 1 None)
  = Ok ([(so_path ex_a, ex_a)], [(so_path ex_a, mkOmeta [] (Some 3) None 6)]).
Proof. split; vm_compute; reflexivity. Qed.

Print Assumptions lexed_blocks_qualify.
Print Assumptions listed_once_qualifies.
Print Assumptions new_object_translated.
Print Assumptions update_existing_object_translated.
Print Assumptions reuse_previous_object_translated.
Print Assumptions get_existing_object_translated.
Print Assumptions object_loop_translated.
Print Assumptions returned_properties_translated.
Print Assumptions object_list_key_eq_translated.
Print Assumptions get_index_translated.
Print Assumptions index_cache_transparent_gen.
Print Assumptions read_segment_objects_translated.
Print Assumptions model_segment_is_sm_loop_body.
Print Assumptions read_segment_objects_cache_wf.
Print Assumptions read_segment_objects_dup_refuted.
Print Assumptions calculate_chunks_no_attribute_error.
Print Assumptions update_object_metadata_translated.
Print Assumptions update_object_properties_translated.
Print Assumptions returned_properties_wf.
Print Assumptions forbidden_rejected_first_without_metadata_gen.
Print Assumptions forbidden_rejected_unseen_match_prev_gen.
Print Assumptions forbidden_rejected_type_change_gen.
Print Assumptions inheritance_transparent_step_gen.
Print Assumptions read_metadata_iteration_translated.
Print Assumptions read_metadata_translated.
Print Assumptions blocks_listed_once_decidable.
Print Assumptions segment_step_raises_no_eof.
Print Assumptions read_metadata_translated_instance.
Print Assumptions read_segment_objects_translated_instance.
Print Assumptions forbidden_rejected_unseen_match_prev_gen_instance.
Print Assumptions forbidden_rejected_type_change_gen_instance.
