(* C01 (companion) — the DATA DECODING path of the reader, TRANSLATED from nptdms/types.py, base_segment.py and
   tdms_segment.py on every run (harness/gen/gen_pyfuncs_decode.py -> Gen/PyFuncsDecode.v), equals the hand-written
   byte-level models (Model/Tokens.v property value parsing, Model/Layout.v read_values / read_contig_chunk /
   read_interleaved), and the read_values-level headline lemmas of Props/C01.v hold of the translated functions.
   Statements only; proofs: Proofs/GenDecodeEquiv.v, Proofs/GenDecodeTransport.v.

   Translated (from the AST; see the generator's docstring for the conventions): StructType.read / from_bytes,
   String.read / read_values / _decode, Boolean.read, TimeStamp.read / from_bytes, ComplexType.from_bytes, the
   dispatch of <class>.read / from_bytes / read_values over types.tds_data_types (method resolution REFLECTED),
   read_property, fromfile, read_interleaved_segment_bytes, TdmsSegmentObject.read_values,
   ContiguousDataReader._read_data_chunk / _read_channel_data_chunk, BaseDataReader.read_data_chunks (as inherited),
   InterleavedDataReader._read_interleaved_chunks / read_data_chunks / read_channel_data_chunks, the constructors of
   RawDataChunk / RawChannelDataChunk, data_chunk_to_channel_chunk.  CPython's struct and UTF-8 codec and NumPy's
   dtype / view / reshape / column selection are fixed-text primitives, run against the real ones (with every
   translated function: 8 600 cases on real bytes) whenever Gen/PyFuncsDecodeTest.v is built.

   The translated functions return Python-level values (struct values, str, arrays = dtype + raw bytes); the
   abstraction to the model's canonical value bytes is [pyval_toks], [arr_values], [pydata_values],
   [rawchunk_chunk], [chunks_abs], [rcdc_values] (Proofs/GenDecodeEquiv.v).  Where a str is involved the code's
   String._decode shows: [str_fix] is the identity on valid UTF-8 and CPython's errors='replace' otherwise; the
   chunk-level statements assume it is the identity on the strings read ([chunk_strings_valid], [decode_neutral]).

   V3 (nptdms/channel_data.py): get_data_receiver, _new_numpy_array and the four receiver classes are translated
   too; get_data_receiver is the model's receiver0, and append_data of the List / Numpy / Timestamp (raw) receivers
   stores the new values at the insert position of the preallocated array ([arr_values_upto]: the array seen up to
   the insert position is the model's growing value list, Model/Reader.v receive).  DaqmxDataReceiver
   .append_scaler_data is translated and self-tested; its equality with the model's scaler_append is NOT proved
   (the statement would be numpy_receiver_append_translated per scaler id).

   NOT translated here: TdmsFile._read_data, the DAQmx reader, and TdmsSegment._read_channel_data_chunks (the lazy
   generator interleaved with seeks). *)
From Coq Require Import String Ascii.
From Coq Require Import List ZArith.
Import ListNotations.
From NpTdms Require Import Base.Bytes Base.Res Model.Tokens Model.TokensWf Model.SegState Model.Layout Model.Reader
     Gen.PyFuncsDecode Proofs.LayoutProofs Proofs.GenDecodeEquiv Proofs.GenDecodeTransport Proofs.GenDecodeRecv.
Local Open Scope Z_scope.

(* ---- reflected class facts --------------------------------------------------------------------------------- *)

Theorem decode_tables_translated : forall ty,
    dec_tds_lookup ty = match tds_size ty with Some _ => Some ty | None => None end /\
    dec_cls_size ty = match tds_size ty with Some (Some k) => Some k | _ => None end /\
    is_none (dec_cls_struct_declaration ty) = negb (is_struct_type ty) /\
    is_none (dec_cls_nptype ty) = negb (has_nptype ty).
Proof.
  intros ty. exact (conj (dec_tds_lookup_eq ty) (conj (dec_cls_size_eq ty)
                   (conj (dec_struct_declaration_some ty) (dec_nptype_some ty)))).
Qed.

(* the item size of a class's NumPy dtype is the class's size *)
Theorem nptype_itemsize_translated : forall c d,
    dec_cls_nptype c = Some d ->
    tds_size c = Some (Some (dt_itemsize d)) /\ exists k o, d = DNum k (dt_itemsize d) o.
Proof. exact dec_nptype_itemsize. Qed.

(* ---- V1: types.py ---------------------------------------------------------------------------------------------- *)

(* <class>.read(file, endianness) for every class of tds_data_types = the model's property value parser: the same
   observable value, the same file position, the same exception *)
Theorem tds_read_translated : forall e ty bs,
    tds_size ty <> None ->
    mapr (fun p => (pyval_toks (fst p), snd p)) (tds_read_gen ty bs e)
    = mapr (fun p => (obs_prop_value ty (prop_fix ty (fst p)), snd p)) (parse_prop_value e ty bs).
Proof. exact tds_read_eq. Qed.

Theorem string_decode_translated : forall s,
    string_decode_gen s = Ok (str_fix s) /\ (utf8_valid s = true -> str_fix s = s).
Proof. intros s. exact (conj (string_decode_eq s) (str_fix_valid s)). Qed.

Theorem string_read_translated : forall e bs,
    string_read_gen bs e = do '(s, r) <- get_string e bs; Ok (str_fix s, r).
Proof. exact string_read_eq. Qed.

(* read_property = parse_prop *)
Theorem read_property_translated : forall e bs,
    mapr (fun p => (fst (fst p), pyval_toks (snd (fst p)), snd p)) (read_property_gen bs e)
    = mapr (fun p => (str_fix (p_name (fst p)),
                      obs_prop_value (p_type (fst p)) (prop_fix (p_type (fst p)) (p_val (fst p))), snd p))
           (parse_prop e bs).
Proof. exact read_property_eq. Qed.

Theorem read_property_roundtrip_translated : forall e p rest,
    wf_prop p = true -> utf8_valid (p_name p) = true -> (p_type p = T_STRING -> utf8_valid (p_val p) = true) ->
    mapr (fun x => (fst (fst x), pyval_toks (snd (fst x)), snd x)) (read_property_gen (ser_prop e p ++ rest) e)
    = Ok (p_name p, obs_prop_value (p_type p) (p_val p), rest).
Proof. exact read_property_roundtrip. Qed.

(* <class>.from_bytes: classes with a NumPy dtype keep the bytes under the class's dtype in the file's byte order;
   the values are the model's canonical values *)
Theorem numeric_from_bytes_translated : forall ty d sz raw e,
    dec_cls_nptype ty = Some d -> tds_size ty = Some (Some sz) ->
    tds_from_bytes_gen ty (mkArr U1 raw) e
    = (if blen raw mod sz =? 0 then Ok (mkArr (np_newbyteorder d e) raw) else Err EValue)
    /\ arr_values (mkArr (np_newbyteorder d e) raw) = Some (map (canon_value e ty) (items sz raw)).
Proof. exact numeric_from_bytes_eq. Qed.

(* TimeStamp.from_bytes: whole 16-byte items or ValueError; field order per byte order; canonical values *)
Theorem timestamp_from_bytes_translated : forall raw e,
    tds_from_bytes_gen T_TIME (mkArr U1 raw) e
    = (if blen raw mod 16 =? 0 then Ok (mkArr (ts_dtype e) raw) else Err EValue)
    /\ arr_values (mkArr (ts_dtype e) raw) = Some (map (canon_value e T_TIME) (items 16 raw)).
Proof. intros raw e. exact (conj (timestamp_from_bytes_eq raw e) (ts_values e raw)). Qed.

(* String.read_values = the string branch of the model's read_values (the offsets block, then the slices) *)
Theorem string_read_values_translated : forall c e n cur,
    string_read_values_gen c cur n e
    = do '(offs, cur1) <- parse_n (get_u32 e) n cur;
      let '(ss, cur2) := read_strings offs 0 cur1 in Ok (map str_fix ss, cur2).
Proof. exact string_read_values_eq. Qed.

(* ---- V2: base_segment.py, tdms_segment.py ---------------------------------------------------------------------- *)

(* fromfile: count items of the dtype, short at the end of the file, cut to whole items *)
Theorem fromfile_translated : forall cur d n,
    0 <= n -> 0 < dt_itemsize d ->
    fromfile_gen cur d n
    = Ok (mkArr d (take (blen (take (n * dt_itemsize d) cur) / dt_itemsize d * dt_itemsize d) (take (n * dt_itemsize d) cur)),
          drop (n * dt_itemsize d) cur).
Proof. exact fromfile_eq. Qed.

Theorem read_interleaved_segment_bytes_translated : forall cur w n,
    0 < w -> 0 <= n ->
    read_interleaved_segment_bytes_gen cur w n
    = Ok (mkArr2 U1 w (take (blen (take (w * n) cur) / w * w) (take (w * n) cur)), drop (w * n) cur).
Proof. exact read_interleaved_segment_bytes_eq. Qed.

(* TdmsSegmentObject.read_values = Model/Layout.v read_values *)
Theorem segobj_read_values_translated : forall e o n cur dt,
    so_dtype o = Some dt -> data_type_ok dt -> 0 <= n ->
    mapr (fun p => (pydata_values (fst p), snd p)) (segobj_read_values_gen o cur n e)
    = mapr (fun p => (Some (map (prop_fix dt) (fst p)), snd p)) (read_values e o n cur).
Proof. exact segobj_read_values_eq. Qed.

(* Props/C01.v read_values_fixed_roundtrip / _timestamp_ / _string_ on the translated function *)
Theorem read_values_roundtrip_translated : forall e o n vs rest,
    vals_ok n o vs -> decode_neutral o vs ->
    mapr (fun p => (pydata_values (fst p), snd p)) (segobj_read_values_gen o (enc_obj e o vs ++ rest) n e)
    = Ok (Some vs, rest).
Proof. exact segobj_read_values_roundtrip. Qed.

(* ContiguousDataReader._read_data_chunk = read_contig_chunk *)
Theorem contig_read_data_chunk_translated : forall e objs ci nc fin cur,
    Forall obj_ok objs -> Forall (fun o => 0 <= chunk_nvals o ci nc fin) objs ->
    chunk_strings_valid e objs ci nc fin cur ->
    mapr (fun p => (rawchunk_chunk (fst p), snd p)) (contig_read_data_chunk_gen nc fin e cur objs ci)
    = mapr (fun p => (Some (fst p), snd p)) (read_contig_chunk e objs ci nc fin cur []).
Proof. exact contig_read_data_chunk_eq. Qed.

(* Props/C01.v read_contig_chunk_roundtrip on the translated function *)
Theorem read_contig_chunk_roundtrip_translated : forall e ci nc fin ovs rest,
    Forall (fun ov => vals_ok (chunk_nvals (fst ov) ci nc fin) (fst ov) (snd ov)) ovs ->
    Forall (fun ov => decode_neutral (fst ov) (snd ov)) ovs ->
    NoDup (map (fun ov => so_path (fst ov)) ovs) ->
    mapr (fun p => (rawchunk_chunk (fst p), snd p))
         (contig_read_data_chunk_gen nc fin e (enc_chunk e ovs ++ rest) (map fst ovs) ci)
    = Ok (Some (chunk_of ovs), rest).
Proof. exact contig_read_data_chunk_roundtrip. Qed.

(* BaseDataReader.read_data_chunks as ContiguousDataReader inherits it = the model's chunk loop (any fuel that
   covers the chunk count) *)
Theorem contig_read_data_chunks_translated : forall e objs nc0 fin nc cur fuel,
    (Z.to_nat nc <= fuel)%nat ->
    Forall obj_ok objs -> (forall c, Forall (fun o => 0 <= chunk_nvals o c nc0 fin) objs) ->
    chunks_strings_valid e objs nc0 fin (py_range 0 nc) cur ->
    mapr (fun p => (chunks_abs (fst p), snd p)) (contig_read_data_chunks_gen nc0 fin e cur objs nc)
    = mapr (fun p => (Some (fst p), snd p))
           (read_chunks_loop fuel (fun c b => read_contig_chunk e objs c nc0 fin b []) 0 nc cur).
Proof. exact contig_read_data_chunks_eq. Qed.

(* ContiguousDataReader._read_channel_data_chunk: when the declared sizes are the real sizes, the seek-over walk
   returns the values the sequential decoder reads for the channel and leaves the file just after them *)
Theorem contig_read_channel_data_chunk_translated : forall e nc fin data pos objs ci path,
    0 <= pos -> Forall obj_ok objs -> Forall (fun o => 0 <= chunk_nvals o ci nc fin) objs ->
    sizes_real e objs ci nc fin path (drop pos data) ->
    mapr (fun p => (rcdc_values (fst p), pf_pos (snd p)))
         (contig_read_channel_data_chunk_gen nc fin e (mkPf data pos) objs ci path)
    = mapr (fun p => match fst p with
                     | Some vs => (Some vs, pos + (blen (drop pos data) - blen (snd p)))
                     | None => (Some [], pos)
                     end)
           (seq_channel_chunk e objs ci nc fin path (drop pos data)).
Proof. exact contig_read_channel_data_chunk_sim. Qed.

(* ... and what that walk returns is the channel's entry of the chunk read_contig_chunk decodes *)
Theorem seq_channel_chunk_is_chunk_entry : forall e ci nc fin path objs cur acc c rest,
    read_contig_chunk e objs ci nc fin cur acc = Ok (c, rest) ->
    NoDup (map so_path objs) -> In path (map so_path objs) ->
    exists vs cur1, seq_channel_chunk e objs ci nc fin path cur = Ok (Some vs, cur1)
                    /\ alookup path c = Some (CData vs).
Proof. exact seq_channel_chunk_is_entry. Qed.

(* InterleavedDataReader._read_interleaved_chunks: row width = sum of the sizes, number_values * num_chunks rows,
   one byte-column block per object *)
Theorem read_interleaved_chunks_translated : forall e cur o0 objs nchunks,
    Forall (fun o => sized o <> None) (o0 :: objs) -> 0 <= so_nvals o0 * nchunks ->
    mapr (fun p => (rawchunk_chunk (fst p), snd p)) (read_interleaved_chunks_gen e cur (o0 :: objs) nchunks)
    = mapr (fun p => (Some (fst p), snd p))
           (let width := zsum (map size_or0 (o0 :: objs)) in
            let '(rows, rest) := read_rows width (so_nvals o0 * nchunks) cur in
            do c <- interleaved_columns e (o0 :: objs) rows 0 []; Ok (c, rest)).
Proof. exact read_interleaved_chunks_eq. Qed.

(* InterleavedDataReader.read_data_chunks = read_interleaved *)
Theorem interleaved_read_data_chunks_translated : forall e cur objs nchunks,
    Forall (fun o => sized o <> None) objs ->
    (forall o0, hd_error objs = Some o0 -> 0 <= so_nvals o0 * nchunks) ->
    mapr (fun p => (chunks_abs (fst p), snd p)) (interleaved_read_data_chunks_gen e cur objs nchunks)
    = mapr (fun p => (Some (fst p), snd p)) (read_interleaved e objs nchunks cur).
Proof. exact interleaved_read_data_chunks_eq. Qed.

(* Props/C01.v read_interleaved_roundtrip on the translated function *)
Theorem read_interleaved_roundtrip_translated : forall e objs nchunks nv rows rest,
    objs <> [] ->
    Forall (fun o => so_nvals o = nv) objs ->
    Forall (fun o => sized o <> None) objs ->
    NoDup (map so_path objs) ->
    Forall (row_ok objs) rows ->
    nv * nchunks = Z.of_nat (length rows) ->
    mapr (fun p => (chunks_abs (fst p), snd p)) (interleaved_read_data_chunks_gen e (enc_rows e objs rows ++ rest) objs nchunks)
    = Ok (Some [cols_of objs rows], rest).
Proof. exact interleaved_read_data_chunks_roundtrip. Qed.

(* data_chunk_to_channel_chunk and InterleavedDataReader.read_channel_data_chunks *)
Theorem channel_of_chunk_translated : forall rc path c,
    data_chunk_to_channel_chunk_gen rc path = Ok (channel_of_chunk rc path) /\
    (rawchunk_chunk rc = Some c -> rcdc_values (channel_of_chunk rc path) = Some (chunk_vals path c)).
Proof. intros rc path c. exact (conj (data_chunk_to_channel_chunk_eq rc path) (channel_of_chunk_vals rc c path)). Qed.

Theorem interleaved_read_channel_data_chunks_translated : forall e cur objs path a b,
    interleaved_read_channel_data_chunks_gen e cur objs path a b
    = do '(cs, f) <- interleaved_read_data_chunks_gen e cur objs (b - a);
      Ok (map (fun c => channel_of_chunk c path) cs, f).
Proof. exact interleaved_read_channel_data_chunks_eq. Qed.

(* ---- V3: channel_data.py ------------------------------------------------------------------------------------------- *)

(* get_data_receiver: which receiver for which channel = the model's receiver0 (no data type: none; DAQmx: one
   array per scaler; TimeStamp: raw 16-byte items or datetime64; no NumPy dtype: a list; else a NumPy array) *)
Theorem get_data_receiver_translated : forall c n raw mm,
    0 <= n -> scalers_ok c ->
    mapr recv_opt_abs (get_data_receiver_gen c n raw mm) = mapr (fun o => Some o) (receiver0 c).
Proof. exact get_data_receiver_eq. Qed.

Theorem list_receiver_append_translated : forall data new,
    list_receiver_append_data_gen data new = Ok (data ++ new).
Proof. exact list_receiver_append_eq. Qed.

(* NumpyDataReceiver.append_data: data[pos : pos + len(new)] = new; pos += len(new) -- within the preallocated
   capacity the values seen so far grow by exactly the new values, whatever byte order the new array has *)
Theorem numpy_receiver_append_translated : forall path data pos new,
    same_items (a_dtype new) (a_dtype data) ->
    blen (a_raw data) mod dt_itemsize (a_dtype data) = 0 ->
    0 <= pos -> pos + np_len new <= np_len data ->
    exists data', numpy_receiver_append_data_gen path data pos new = Ok (data', pos + np_len new)
                  /\ a_dtype data' = a_dtype data
                  /\ blen (a_raw data') mod dt_itemsize (a_dtype data) = 0
                  /\ np_len data' = np_len data
                  /\ forall acc vs, arr_values_upto pos data = Some acc -> arr_values new = Some vs ->
                                    arr_values_upto (pos + np_len new) data' = Some (acc ++ vs).
Proof. exact numpy_receiver_append_eq. Qed.

(* TimestampDataReceiver.append_data with raw_timestamps: the two fields are copied BY NAME, so a chunk in either
   field order ('<': fractions, seconds; '>': seconds, fractions) lands in the receiver's little-endian layout *)
Theorem timestamp_receiver_append_translated : forall asdt path e data pos new,
    a_dtype data = ts_dtype LE -> a_dtype new = ts_dtype e ->
    blen (a_raw data) mod 16 = 0 -> blen (a_raw new) mod 16 = 0 ->
    0 <= pos -> pos + np_len new <= np_len data ->
    exists data', timestamp_receiver_append_data_gen asdt path true data pos new = Ok (data', pos + np_len new)
                  /\ a_dtype data' = ts_dtype LE /\ blen (a_raw data') mod 16 = 0 /\ np_len data' = np_len data
                  /\ forall acc vs, arr_values_upto pos data = Some acc -> arr_values new = Some vs ->
                                    arr_values_upto (pos + np_len new) data' = Some (acc ++ vs).
Proof. exact timestamp_receiver_append_eq. Qed.

(* ---- concrete instances (the hypotheses are satisfiable; the byte strings were also read by the real code in
        the self-test) ------------------------------------------------------------------------------------- *)
Section Examples.
Local Open Scope string_scope.

(* a big-endian int32 -5, a big-endian timestamp (seconds -3, fractions 7), a bool, a string with an invalid byte *)
Example c01_gen3_read_example :
  tds_read_gen 3 (hex "fffffffbaa") BE = Ok (PVs (SInt (-5)), hex "aa") /\
  tds_read_gen T_TIME (hex "fffffffffffffffd0000000000000007") BE = Ok (PVts (mkPyTs (-3) 7), []) /\
  tds_read_gen T_TIME (hex "0700000000000000fdffffffffffffff") LE = Ok (PVts (mkPyTs (-3) 7), []) /\
  tds_read_gen T_BOOL (hex "02") LE = Ok (PVb true, []) /\
  tds_read_gen T_STRING (hex "0300000061ff62") LE = Ok (PVstr (hex "61efbfbd62"), []) /\
  tds_read_gen T_C64 (hex "0000000000000000") LE = Err ENotImpl /\
  tds_read_gen 3 (hex "ffff") LE = Err EStruct.
Proof. vm_compute. repeat split. Qed.

(* the offsets block then the slices; a NUL inside a string stays *)
Example c01_gen3_strings_example :
  string_read_values_gen T_STRING (hex "000000020000000200000005" ++ hex "6162" ++ hex "630064" ++ hex "77")%list 3 BE
  = Ok ([hex "6162"; []; hex "630064"], hex "77").
Proof. vm_compute. reflexivity. Qed.

(* the contiguous example of Props/C01.v (big-endian int16 + string + complex128, two chunks) through the
   translated reader: the same chunks *)
Example c01_gen3_contig_example :
  let a := mkSobj (hex "2f2761") true 2 4 (Some 2) None in
  let b := mkSobj (hex "2f2762") true 2 0 (Some T_STRING) None in
  let c := mkSobj (hex "2f2763") true 1 16 (Some T_C128) None in
  let css := [ [ [hex "0102"; hex "0304"]; [hex "6869"; hex "21"];
                 [hex "000102030405060708090a0b0c0d0e0f"] ];
               [ [hex "1112"; hex "1314"]; [[]; hex "7a7a7a"];
                 [hex "101112131415161718191a1b1c1d1e1f"] ] ] in
  mapr (fun p => (chunks_abs (fst p), snd p))
       (contig_read_data_chunks_gen 2 None BE (enc_chunks BE [a; b; c] css ++ hex "aa")%list [a; b; c] 2)
  = Ok (Some [ [(hex "2f2761", CData [hex "0102"; hex "0304"]); (hex "2f2762", CData [hex "6869"; hex "21"]);
                (hex "2f2763", CData [hex "000102030405060708090a0b0c0d0e0f"])];
               [(hex "2f2761", CData [hex "1112"; hex "1314"]); (hex "2f2762", CData [[]; hex "7a7a7a"]);
                (hex "2f2763", CData [hex "101112131415161718191a1b1c1d1e1f"])] ], hex "aa").
Proof. vm_compute. reflexivity. Qed.

(* reading only channel c of the second chunk (which starts at byte 31): the walk skips 4 + 11 bytes of a and b
   (the string object's declared data_size), reads 16 bytes, and leaves the file at 62 *)
Example c01_gen3_channel_example :
  let a := mkSobj (hex "2f2761") true 2 4 (Some 2) None in
  let b := mkSobj (hex "2f2762") true 2 11 (Some T_STRING) None in
  let c := mkSobj (hex "2f2763") true 1 16 (Some T_C128) None in
  let css := [ [ [hex "0102"; hex "0304"]; [hex "6869"; hex "21"];
                 [hex "000102030405060708090a0b0c0d0e0f"] ];
               [ [hex "1112"; hex "1314"]; [[]; hex "7a7a7a"];
                 [hex "101112131415161718191a1b1c1d1e1f"] ] ] in
  mapr (fun p => (rcdc_values (fst p), pf_pos (snd p)))
       (contig_read_channel_data_chunk_gen 2 None BE (mkPf (enc_chunks BE [a; b; c] css) 31) [a; b; c] 1 (hex "2f2763"))
  = Ok (Some [hex "101112131415161718191a1b1c1d1e1f"], 62).
Proof. vm_compute. reflexivity. Qed.

(* the interleaved example of Props/C01.v through the translated reader *)
Example c01_gen3_interleaved_example :
  let a := mkSobj (hex "2f2761") true 3 6 (Some 2) None in
  let b := mkSobj (hex "2f2762") true 3 24 (Some T_C64) None in
  let c := mkSobj (hex "2f2763") true 3 3 (Some T_BOOL) None in
  let rows := [ [hex "0102"; hex "1112131415161718"; hex "01"];
                [hex "0304"; hex "2122232425262728"; hex "00"];
                [hex "0506"; hex "3132333435363738"; hex "01"] ] in
  mapr (fun p => (chunks_abs (fst p), snd p))
       (interleaved_read_data_chunks_gen BE (enc_rows BE [a; b; c] rows ++ hex "bbcc")%list [a; b; c] 1)
  = Ok (Some [ [(hex "2f2761", CData [hex "0102"; hex "0304"; hex "0506"]);
                (hex "2f2762", CData [hex "1112131415161718"; hex "2122232425262728"; hex "3132333435363738"]);
                (hex "2f2763", CData [hex "01"; hex "00"; hex "01"])] ], hex "bbcc").
Proof. vm_compute. reflexivity. Qed.

(* a big-endian timestamp chunk (seconds -3, fractions 7) appended to a raw timestamp receiver with room for two *)
Example c01_gen3_receiver_example :
  let c := mkChan [] [] (hex "2f27") (Some T_TIME) None 0 [] in
  get_data_receiver_gen c 2 true false
  = Ok (Some (RTimestamp (hex "2f27", true, mkArr (ts_dtype LE) (List.repeat Byte.x00 32), [], 0))) /\
  timestamp_receiver_append_data_gen (fun _ => Err EOther) (hex "2f27") true (mkArr (ts_dtype LE) (List.repeat Byte.x00 32)) 0
                                     (mkArr (ts_dtype BE) (hex "fffffffffffffffd0000000000000007"))
  = Ok (mkArr (ts_dtype LE) (hex "0700000000000000fdffffffffffffff" ++ List.repeat Byte.x00 16)%list, 1).
Proof. vm_compute. split; reflexivity. Qed.
End Examples.

Print Assumptions decode_tables_translated.
Print Assumptions nptype_itemsize_translated.
Print Assumptions tds_read_translated.
Print Assumptions string_decode_translated.
Print Assumptions string_read_translated.
Print Assumptions read_property_translated.
Print Assumptions read_property_roundtrip_translated.
Print Assumptions numeric_from_bytes_translated.
Print Assumptions timestamp_from_bytes_translated.
Print Assumptions string_read_values_translated.
Print Assumptions fromfile_translated.
Print Assumptions read_interleaved_segment_bytes_translated.
Print Assumptions segobj_read_values_translated.
Print Assumptions read_values_roundtrip_translated.
Print Assumptions contig_read_data_chunk_translated.
Print Assumptions read_contig_chunk_roundtrip_translated.
Print Assumptions contig_read_data_chunks_translated.
Print Assumptions contig_read_channel_data_chunk_translated.
Print Assumptions seq_channel_chunk_is_chunk_entry.
Print Assumptions read_interleaved_chunks_translated.
Print Assumptions interleaved_read_data_chunks_translated.
Print Assumptions read_interleaved_roundtrip_translated.
Print Assumptions channel_of_chunk_translated.
Print Assumptions interleaved_read_channel_data_chunks_translated.
Print Assumptions get_data_receiver_translated.
Print Assumptions list_receiver_append_translated.
Print Assumptions numpy_receiver_append_translated.
Print Assumptions timestamp_receiver_append_translated.
Print Assumptions c01_gen3_receiver_example.
Print Assumptions c01_gen3_read_example.
Print Assumptions c01_gen3_strings_example.
Print Assumptions c01_gen3_contig_example.
Print Assumptions c01_gen3_channel_example.
Print Assumptions c01_gen3_interleaved_example.
