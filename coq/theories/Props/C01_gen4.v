(* C01 on TRANSLATED code: the hierarchy TdmsFile._read_file builds.  Statements only; proofs in Proofs/GenHierEquiv.v.

   harness/gen/gen_pyfuncs_hier.py compiles, on every run, the hierarchy construction of nptdms/tdms.py
   (TdmsFile._read_file: the loop over object_metadata in order, root / group / channel by ObjectPath.from_string -
   Model/Path.v from_string -, groups created implicitly for channels, order of first appearance, the ValueError
   for other path shapes; TdmsChannel.__init__ / TdmsGroup.__init__ field wiring; TdmsFile.groups / __getitem__,
   TdmsGroup.channels / __getitem__) into Gen/PyFuncsHier.v.  Here it is proved EQUAL to the hand-written
   Model/Reader.v build_hierarchy for every object_metadata dictionary, so [read_correct] and the theorems composed
   from it speak about the hierarchy code as translated. *)
From Coq Require Import String.
From Coq Require Import List ZArith Bool.
From Coq Require Import Init.Byte.
Import ListNotations.
From NpTdms Require Import Base.Bytes Base.Res Model.Path Model.Tokens Model.SegState Model.Layout Model.Reader Model.FileSyn
     Gen.PyFuncsHier Proofs.SegStateProofs Proofs.ReadCorrect Proofs.GenHierEquiv.
Local Open Scope Z_scope.

(* the translated hierarchy construction is build_hierarchy; object_metadata is a dictionary (distinct keys) *)
Theorem hierarchy_translated : forall om,
    NoDup (map fst om) ->
    res_map hier_view (read_file_hierarchy_gen om tt tt tt) = build_hierarchy om.
Proof. exact read_file_hierarchy_gen_eq. Qed.

(* ... in particular for what the metadata pass leaves (the keys of rs_om are distinct: Proofs/ReadCorrect.v) *)
Theorem hierarchy_translated_file : forall segs w st,
    sm_run segs w = Ok st ->
    res_map hier_view (read_file_hierarchy_gen (rs_om st) tt tt tt) = build_hierarchy (rs_om st).
Proof.
  intros segs w st H. apply read_file_hierarchy_gen_eq.
  destruct (sm_run_trace segs w st H) as (_ & _ & Hnd & _). exact Hnd.
Qed.

(* the views: which field of the translated objects is which field of the model's records *)
Theorem hierarchy_views : forall c g,
    chan_view c = mkChan (gchan_group_name c) (gchan_name c) (gchan_path c) (gc_dtype c) (gc_scalers c) (gc_length c) (gc_props c) /\
    group_view g = mkGroup (ggroup_name g) (gg_props g) (map (fun kv => (fst kv, chan_view (snd kv))) (gg_chans g)).
Proof. intros c g. split; reflexivity. Qed.

(* TdmsChannel.__init__ / TdmsGroup.__init__: which argument lands in which field *)
Theorem constructors_translated : forall p dt sc n ps gps fps cs,
    tdms_channel_new p dt sc n ps gps fps tt tt tt = Ok (mkGchan p ps n dt sc gps fps) /\
    tdms_group_new p ps cs = Ok (mkGgroup p ps (dict_of_pairs (map (fun c => (gchan_name c, c)) cs))).
Proof. intros. split; reflexivity. Qed.

(* lookups *)
Theorem groups_translated : forall groups, tdms_file_groups_gen groups = Ok (map snd groups).
Proof. exact tdms_file_groups_eq. Qed.

Theorem file_getitem_translated : forall groups name,
    tdms_file_getitem_gen groups name = match alookup name groups with Some g => Ok g | None => Err EKey end.
Proof. exact tdms_file_getitem_eq. Qed.

Theorem channels_translated : forall g, tdms_group_channels_gen g = Ok (map snd (gg_chans g)).
Proof. exact tdms_group_channels_eq. Qed.

Theorem group_getitem_translated : forall g name,
    tdms_group_getitem_gen g name = match alookup name (gg_chans g) with Some c => Ok c | None => Err EKey end.
Proof. exact tdms_group_getitem_eq. Qed.

Theorem getitem_in_model : forall groups name,
    alookup name (groups_view groups) = option_map group_view (alookup name groups).
Proof. exact getitem_view. Qed.

(* ---- a concrete instance: a channel before its group object, an implied group, root properties --------------------- *)
Definition ex_pa : prop := mkProp (hex "70"%string) 3 (hex "01000000"%string).
Definition ex_pg : prop := mkProp (hex "71"%string) 3 (hex "02000000"%string).
Definition ex_pr : prop := mkProp (hex "72"%string) 3 (hex "03000000"%string).
Definition ex_om : alist ometa :=
  [(hex "2f2767272f276127"%string, mkOmeta [(hex "70"%string, ex_pa)] (Some 3) None 5);      (* /'g'/'a' *)
   (hex "2f2768272f276227"%string, mkOmeta [] (Some 10) None 2);                              (* /'h'/'b' : implied group h *)
   (hex "2f276727"%string, mkOmeta [(hex "71"%string, ex_pg)] None None 0);                   (* /'g' *)
   (hex "2f"%string, mkOmeta [(hex "72"%string, ex_pr)] None None 0)].                        (* / *)

Example hierarchy_translated_instance :
  NoDup (map fst ex_om) /\
  res_map hier_view (read_file_hierarchy_gen ex_om tt tt tt)
  = Ok (mkHier [(hex "72"%string, ex_pr)]
          [(hex "67"%string, mkGroup (hex "67"%string) [(hex "71"%string, ex_pg)]
              [(hex "61"%string, mkChan (hex "67"%string) (hex "61"%string) (hex "2f2767272f276127"%string) (Some 3) None 5
                                        [(hex "70"%string, ex_pa)])]);
           (hex "68"%string, mkGroup (hex "68"%string) []
              [(hex "62"%string, mkChan (hex "68"%string) (hex "62"%string) (hex "2f2768272f276227"%string) (Some 10) None 2 [])])]) /\
  build_hierarchy ((hex "2f2767272f2761272f276227"%string, ometa0) :: ex_om) = Err EValue /\
  read_file_hierarchy_gen ((hex "2f2767272f2761272f276227"%string, ometa0) :: ex_om) tt tt tt = Err EValue.
Proof.
  split; [repeat constructor; cbn; intuition discriminate|]. repeat split; vm_compute; reflexivity.
Qed.

Print Assumptions hierarchy_translated.
Print Assumptions hierarchy_translated_file.
Print Assumptions hierarchy_views.
Print Assumptions constructors_translated.
Print Assumptions groups_translated.
Print Assumptions file_getitem_translated.
Print Assumptions channels_translated.
Print Assumptions group_getitem_translated.
Print Assumptions getitem_in_model.
Print Assumptions hierarchy_translated_instance.
