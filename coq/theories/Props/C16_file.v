(* C16 carried through the file - names written are the names read, and
   distinct names are distinct channels with their own data.

   Representation.  Model/Writer.v takes NAMES, not paths: an object is
   WRoot props | WGroup g props | WChan g c dtype values props with g, c
   arbitrary byte strings (a Python str as its UTF-8 bytes; any bytes at all
   are allowed below, including 0x27 "'", 0x2F "/", the empty string and
   non-ASCII), and prints the object path itself with the C16 printer:
       obj_path (WChan g c ..) = components_to_path byte byte_eqb QUOTE SLASH (Some g) (Some c)
   ([writer_path_is_c16_printer], by reflexivity; Model/ByteStr.v path_of).
   The reader model's observation [rd_all] reports per channel the tokens
       TB name; TB group_name; TB path; TZ dtype; TZ len; properties; data
   (Model/Reader.v obs_channel_meta) under the group token TB group name.

   [names_preserved_file]   a channel written as (g, c) - in any call of any
       session of any accepted write sequence - is found by the reader under
       group key g and channel key c, and is reported with name c, group_name
       g and path = C16 printer (g, c), which the C16 parser maps back to
       (g, c); the token list rd_all returns contains the block
       [TB c; TB g; TB path; ...; its data].
   [names_never_alias_file] two channels written under DISTINCT name pairs are
       two different entries (lookup by each pair finds its own channel),
       their paths differ, their token blocks occupy disjoint places in the
       observation, and each one's data type / length / properties / values
       are exactly those written under ITS OWN name pair over all calls of all
       sessions in order ([channel_holds_own_data]: selection by NAME over the
       objects passed in - nothing written under another pair can leak in).
   [reported_names_file]    for EVERY channel of the observation: group keys
       pairwise distinct, channel keys within a group pairwise distinct, name
       and group_name are the keys, path is the printed pair and parses back
       to it; and a lookup succeeds ONLY for a pair that was written.
   [group_preserved_file]   the same for group objects (name, properties).

   Hypotheses are exactly those of write_read (Props/C07_read.v): wf_file,
   sizes_below_marker, dtypes_consistent, wr_file = Ok.  Route: write_read +
   content_tokens_of_calls selects by printed path ([at_path]); C16
   injectivity at bytes ([path_eqb_kind], from PathProofs via
   ByteStrProofs classify_root, _group, _chan) turns every such selection into a selection by
   name ([by_kind_obj_seq]).  Proofs in Proofs/NamesFile.v.

   Vocabulary (Proofs/NamesFile.v): [written ss] = all objects passed in, in
   call order; [named g c o] = o is a channel object created with group name g
   and channel name c; [chan_by_name W g c] = the channel record built from the
   objects of W named (g, c); [values_by_name], [dtypes_by_name],
   [props_by_kind] the corresponding selections; [file_tokens ss] =
   content_tokens_of_calls ss; [data_tokens ss ch] = the data tokens of ch;
   [has_block T B] / [has_two_blocks T B1 B2] = T contains B (B1 and B2,
   disjoint, in either order) as contiguous blocks; [well_keyed]. *)
From Coq Require Import List ZArith Bool.
From Coq Require Import Init.Byte.
Import ListNotations.
From NpTdms Require Import Base.Bytes Base.Res Model.Path Model.Tokens Model.TokensWf Model.ByteStr
  Model.StrictParse Model.Writer Proofs.WriterProofs.
From NpTdms Require Import Model.SegState Model.Layout Model.Reader
  Proofs.WriteReadSpec Proofs.WriteReadBytes Proofs.NamesFile.
Local Open Scope Z_scope.

(* the writer model prints paths from names with the C16 printer *)
Theorem writer_path_is_c16_printer : forall g c dt vs ps,
  obj_path (WChan g c dt vs ps) = components_to_path byte byte_eqb QUOTE SLASH (Some g) (Some c).
Proof. exact obj_path_is_printer. Qed.

Theorem names_preserved_file : forall sessions data index g c o,
  Writer.wf_file sessions = true ->
  sizes_below_marker sessions = true ->
  dtypes_consistent sessions = true ->
  wr_file sessions = Ok (data, index) ->
  In o (written sessions) -> named g c o = true ->
  let H := content_hierarchy (obj_seq sessions) in
  let ch := chan_by_name (written sessions) g c in
  rd_all data = Ok (file_tokens sessions, true) /\
  (exists G, alookup g (h_groups H) = Some G /\ g_name G = g /\ alookup c (g_chans G) = Some ch) /\
  ch_name ch = c /\ ch_group ch = g /\
  ch_path ch = components_to_path byte byte_eqb QUOTE SLASH (Some g) (Some c) /\
  from_string byte byte_eqb QUOTE SLASH (ch_path ch) = inr (Some g, Some c) /\
  has_block (file_tokens sessions) (chan_block (data_tokens sessions) ch).
Proof. exact names_preserved_lemma. Qed.

(* the block, written out: name, group name, printed path, then the data type,
   length, properties and values written under (g, c) *)
Theorem chan_block_written_out : forall D sessions g c,
  chan_block D (chan_by_name (written sessions) g c) =
  TB c :: TB g :: TB (components_to_path byte byte_eqb QUOTE SLASH (Some g) (Some c)) ::
  TZ (match hd_error (dtypes_by_name g c (written sessions)) with Some t => t | None => -1 end) ::
  TZ (Z.of_nat (length (values_by_name g c (written sessions)))) ::
  obs_props (merge_props (props_by_kind (KChan g c) (written sessions)) []) ++
  D (chan_by_name (written sessions) g c).
Proof. exact chan_block_names. Qed.

Theorem channel_holds_own_data : forall sessions g c,
  data_tokens sessions (chan_by_name (written sessions) g c) =
  obs_cdata match hd_error (dtypes_by_name g c (written sessions)) with
            | None => None
            | Some _ => Some (CData (values_by_name g c (written sessions)))
            end.
Proof. exact own_data. Qed.

Theorem names_never_alias_file : forall sessions data index g1 c1 o1 g2 c2 o2,
  Writer.wf_file sessions = true ->
  sizes_below_marker sessions = true ->
  dtypes_consistent sessions = true ->
  wr_file sessions = Ok (data, index) ->
  In o1 (written sessions) -> named g1 c1 o1 = true ->
  In o2 (written sessions) -> named g2 c2 o2 = true ->
  (g1, c1) <> (g2, c2) ->
  let H := content_hierarchy (obj_seq sessions) in
  let ch1 := chan_by_name (written sessions) g1 c1 in
  let ch2 := chan_by_name (written sessions) g2 c2 in
  rd_all data = Ok (file_tokens sessions, true) /\
  lookup_chan H g1 c1 = Some ch1 /\ lookup_chan H g2 c2 = Some ch2 /\
  ch_path ch1 <> ch_path ch2 /\
  has_two_blocks (file_tokens sessions)
                 (chan_block (data_tokens sessions) ch1) (chan_block (data_tokens sessions) ch2).
Proof. exact names_never_alias_lemma. Qed.

Theorem reported_names_file : forall sessions data index,
  Writer.wf_file sessions = true ->
  sizes_below_marker sessions = true ->
  dtypes_consistent sessions = true ->
  wr_file sessions = Ok (data, index) ->
  let H := content_hierarchy (obj_seq sessions) in
  rd_all data = Ok (file_tokens sessions, true) /\
  well_keyed H /\
  forall g c ch, lookup_chan H g c = Some ch ->
    (exists o, In o (written sessions) /\ named g c o = true) /\
    ch = chan_by_name (written sessions) g c.
Proof. exact reported_names_lemma. Qed.

Theorem group_preserved_file : forall sessions data index g ps,
  Writer.wf_file sessions = true ->
  sizes_below_marker sessions = true ->
  dtypes_consistent sessions = true ->
  wr_file sessions = Ok (data, index) ->
  In (WGroup g ps) (written sessions) ->
  let H := content_hierarchy (obj_seq sessions) in
  rd_all data = Ok (file_tokens sessions, true) /\
  exists G, alookup g (h_groups H) = Some G /\ g_name G = g /\
            g_props G = merge_props (props_by_kind (KGroup g) (written sessions)) [].
Proof. exact group_preserved_lemma. Qed.

(* selection by printed path = selection by name, for any projection [f] of
   the objects (the lemma behind the theorems above) *)
Theorem path_selects_by_name : forall B k (f : wobj -> list B) sessions,
  f (WRoot []) = [] -> (forall g, f (WGroup g []) = []) ->
  flat_map (at_path (kind_path k) f) (obj_seq sessions) = flat_map (by_kind k f) (written sessions).
Proof. exact @by_kind_obj_seq. Qed.

(* ---- non-vacuity: awkward names through the file ------------------------------------------------------- *)

Section Examples.
Import String.
Local Open Scope string_scope.

Definition n_slash : bytes := hex "612f62".      (* a/b *)
Definition n_quote : bytes := hex "612762".      (* a'b *)
Definition n_empty : bytes := [].                (* the empty string *)
Definition n_eacute : bytes := hex "c3a9".       (* e with acute accent, UTF-8 *)

(* one call with five int32 channels: (a/b, a'b), ("", ""), (e-acute, a/b) and
   the classic aliasing candidates (a, b'/'c) and (a'/'b, c), whose unescaped
   concatenations coincide; a second (append) session adds a value to ("", "") *)
Definition c16_sessions : wsessions :=
  [(4712, [[WChan n_slash n_quote 3 [hex "01000000"] [];
            WChan n_empty n_empty 3 [hex "02000000"] [];
            WChan n_eacute n_slash 3 [hex "03000000"] [];
            WChan (hex "61") (hex "62272f2763") 3 [hex "04000000"] [];
            WChan (hex "61272f2762") (hex "63") 3 [hex "05000000"] []]]);
   (4712, [[WChan n_empty n_empty 3 [hex "06000000"] []]])].

Definition c16_tokens : list tok :=
  [TZ 4712; TZ 0; TZ 5;
   TB n_empty; TZ 0; TZ 1;
     TB n_empty; TB n_empty; TB (hex "2f27272f2727"); TZ 3; TZ 2; TZ 0;
     TZ 0; TZ 2; TB (hex "02000000"); TB (hex "06000000");
   TB (hex "61"); TZ 0; TZ 1;
     TB (hex "62272f2763"); TB (hex "61"); TB (hex "2f2761272f276227272f27276327"); TZ 3; TZ 1; TZ 0;
     TZ 0; TZ 1; TB (hex "04000000");
   TB (hex "61272f2762"); TZ 0; TZ 1;
     TB (hex "63"); TB (hex "61272f2762"); TB (hex "2f276127272f272762272f276327"); TZ 3; TZ 1; TZ 0;
     TZ 0; TZ 1; TB (hex "05000000");
   TB n_slash; TZ 0; TZ 1;
     TB n_quote; TB n_slash; TB (hex "2f27612f62272f276127276227"); TZ 3; TZ 1; TZ 0;
     TZ 0; TZ 1; TB (hex "01000000");
   TB n_eacute; TZ 0; TZ 1;
     TB n_slash; TB n_eacute; TB (hex "2f27c3a9272f27612f6227"); TZ 3; TZ 1; TZ 0;
     TZ 0; TZ 1; TB (hex "03000000");
   TZ 0; TZ 0].

(* the hypotheses hold; the writer model's bytes are, byte for byte, what
   nptdms.TdmsWriter wrote for these calls (hex below produced by the real
   writer, /repo HEAD; TdmsFile.read on them reports the names, paths and
   values of c16_tokens); the reader model on them gives c16_tokens, which is
   the specification's value *)
Example c16_file_hyps :
  Writer.wf_file c16_sessions = true /\ sizes_below_marker c16_sessions = true /\
  dtypes_consistent c16_sessions = true /\
  file_tokens c16_sessions = c16_tokens /\
  match wr_file c16_sessions with
  | Ok (d, _) =>
    ByteStr.bytes_eqb d (hex "5444536d0e0000006812000043010000000000002f010000000000000b000000010000002fffffffff00000000030000002f2727ffffffff00000000040000002f276127ffffffff000000000a0000002f276127272f27276227ffffffff00000000060000002f27612f6227ffffffff00000000050000002f27c3a927ffffffff000000000d0000002f27612f62272f276127276227140000000300000001000000010000000000000000000000060000002f27272f27271400000003000000010000000100000000000000000000000b0000002f27c3a9272f27612f62271400000003000000010000000100000000000000000000000e0000002f2761272f276227272f272763271400000003000000010000000100000000000000000000000e0000002f276127272f272762272f27632714000000030000000100000001000000000000000000000001000000020000000300000004000000050000005444536d0e000000681200004600000000000000420000000000000003000000010000002fffffffff00000000030000002f2727ffffffff00000000060000002f27272f272714000000030000000100000001000000000000000000000006000000") &&
    match rd_all d with Ok (t, true) => toks_eqb t c16_tokens | _ => false end
  | Err _ => false
  end = true.
Proof. repeat split; vm_compute; reflexivity. Qed.

(* names_preserved_file on channel ("", ""): found under the empty group key and
   the empty channel key, path /''/'' , both values, in order *)
Example c16_empty_names :
  exists data index,
    wr_file c16_sessions = Ok (data, index) /\
    rd_all data = Ok (c16_tokens, true) /\
    lookup_chan (content_hierarchy (obj_seq c16_sessions)) n_empty n_empty
      = Some (mkChan n_empty n_empty (hex "2f27272f2727") (Some 3) None 2 []) /\
    has_block c16_tokens
      [TB n_empty; TB n_empty; TB (hex "2f27272f2727"); TZ 3; TZ 2; TZ 0;
       TZ 0; TZ 2; TB (hex "02000000"); TB (hex "06000000")].
Proof.
  destruct (wr_file c16_sessions) as [[d i]|e] eqn:E; [|vm_compute in E; discriminate].
  exists d, i. split; [reflexivity|].
  destruct c16_file_hyps as (Hwf & Hsz & Hdt & Htok & _).
  assert (Hin : In (WChan n_empty n_empty 3 [hex "06000000"] []) (written c16_sessions)).
  { vm_compute. do 5 right. left. reflexivity. }
  destruct (names_preserved_file c16_sessions d i n_empty n_empty _ Hwf Hsz Hdt E Hin eq_refl)
    as (Hrd & _ & _ & _ & _ & _ & Hblk).
  rewrite Htok in Hrd, Hblk. split; [exact Hrd|]. split; [vm_compute; reflexivity|].
  exact Hblk.
Qed.

(* names_never_alias_file on (a, b'/'c) and (a'/'b, c) *)
Example c16_no_alias :
  exists data index,
    wr_file c16_sessions = Ok (data, index) /\
    rd_all data = Ok (c16_tokens, true) /\
    has_two_blocks c16_tokens
      [TB (hex "62272f2763"); TB (hex "61"); TB (hex "2f2761272f276227272f27276327"); TZ 3; TZ 1; TZ 0;
       TZ 0; TZ 1; TB (hex "04000000")]
      [TB (hex "63"); TB (hex "61272f2762"); TB (hex "2f276127272f272762272f276327"); TZ 3; TZ 1; TZ 0;
       TZ 0; TZ 1; TB (hex "05000000")].
Proof.
  destruct (wr_file c16_sessions) as [[d i]|e] eqn:E; [|vm_compute in E; discriminate].
  exists d, i. split; [reflexivity|].
  destruct c16_file_hyps as (Hwf & Hsz & Hdt & Htok & _).
  assert (Hin1 : In (WChan (hex "61") (hex "62272f2763") 3 [hex "04000000"] []) (written c16_sessions)).
  { vm_compute. do 3 right. left. reflexivity. }
  assert (Hin2 : In (WChan (hex "61272f2762") (hex "63") 3 [hex "05000000"] []) (written c16_sessions)).
  { vm_compute. do 4 right. left. reflexivity. }
  destruct (names_never_alias_file c16_sessions d i (hex "61") (hex "62272f2763") _
              (hex "61272f2762") (hex "63") _ Hwf Hsz Hdt E Hin1 eq_refl Hin2 eq_refl)
    as (Hrd & _ & _ & _ & Hblk); [vm_compute; discriminate|].
  rewrite Htok in Hrd, Hblk. split; [exact Hrd|]. exact Hblk.
Qed.

End Examples.

Print Assumptions writer_path_is_c16_printer.
Print Assumptions names_preserved_file.
Print Assumptions chan_block_written_out.
Print Assumptions channel_holds_own_data.
Print Assumptions names_never_alias_file.
Print Assumptions reported_names_file.
Print Assumptions group_preserved_file.
Print Assumptions path_selects_by_name.
Print Assumptions c16_file_hyps.
Print Assumptions c16_empty_names.
Print Assumptions c16_no_alias.
