(* C12 (companion) -- TdmsChannel.time_track TRANSLATED from the source equals the binary64 model, and the rounding
   theorems of Props/C12_round.v hold of the translated function.  Statements only; proofs in
   Proofs/GenTimeTrackEquiv.v.

   Gen/PyFuncsTimeTrack.v is regenerated from nptdms/tdms.py by harness/gen/gen_pyfuncs_timetrack.py on every run
   (fail-closed; self-test Gen/PyFuncsTimeTrackTest.v: time_track() and time_track(absolute_time=True, accuracy=a)
   of real TdmsFile objects -- 196 reads of TdmsWriter-made files, eager and lazy, raw_timestamps on and off --
   bit for bit, KeyError paths included).  Derived from the source: WHICH properties are read and in which
   order, the KeyError handlers, len(self) as the number of points, the np.linspace arguments offset,
   offset + (len(self) - 1) * increment, len(self), the isinstance(start_time, TdmsTimestamp) ->
   as_datetime64(accuracy) conversion (through the translated TdmsTimestamp.as_datetime64 of Gen/PyFuncsTime.v), the
   unit_correction table, the multiplication, .astype('timedelta64[accuracy]'), the addition to the start time.
   Prelude primitives (harness/gen/timetrack_sem.py): np.linspace = Model/TimeTrackF.linspace_list (tied bit for
   bit by harness/c12.py linspace_tie), the cast double -> int64 = trunc_f, datetime64[u] + timedelta64[u].

   tpval: a property value (TVFloat = Python float, TVTimestamp s f = TdmsTimestamp, TVDatetime c = datetime64[us]).
   Not modelled (Err EOther in the translation, not in the self-test grid): integer-typed wf_increment /
   wf_start_offset, a datetime64[us] start time with an accuracy other than 'us' (NumPy's unit promotion),
   accuracies outside s / ms / us / ns (the code raises KeyError for them after converting the start time). *)
From Coq Require Import String.
From Coq Require Import Reals ZArith List Bool.
From Coq Require Import PrimFloat.
From Flocq Require Import Core.
Import ListNotations.
From NpTdms Require Import Base.Res Model.Timestamp Model.TimeTrackF Gen.PyFuncsTime Gen.PyFuncsTimeTrack
     Gen.PyFuncsTimeTrackTest.
From NpTdms Require Import Proofs.GenTimeEquiv Proofs.HornerRound Proofs.TimeTrackRound Proofs.GenTimeTrackEquiv.
Local Open Scope Z_scope.

(* ---- 1. equality with the model ---------------------------------------------------------------------------- *)

Theorem time_track_translated : forall p o c,
  tp_get "wf_increment" p = Some (TVFloat c) -> tp_get "wf_start_offset" p = Some (TVFloat o) -> forall n, 0 <= n ->
  time_track_rel_gen p n = Ok (time_track_fl o c n).
Proof. exact time_track_rel_eq. Qed.

(* len(self) is the stored number of values *)
Theorem time_track_len_translated : forall n, tt_len_gen n = Ok n.
Proof. exact tt_len_eq. Qed.

Theorem time_track_absolute_translated : forall p o c,
  tp_get "wf_increment" p = Some (TVFloat c) -> tp_get "wf_start_offset" p = Some (TVFloat o) ->
  forall n r s f start,
  tp_get "wf_start_time" p = Some (TVTimestamp s f) -> scalar_as_datetime64_gen r s f = Ok start -> 0 <= n ->
  time_track_abs_gen p n r = Ok (map (time_track_abs_f start r o c n) (zrange n)).
Proof. exact time_track_abs_eq. Qed.

(* the start count is the model's conversion of the timestamp (Props/C12.v conv_scalar) *)
Theorem time_track_absolute_conv_translated : forall p o c,
  tp_get "wf_increment" p = Some (TVFloat c) -> tp_get "wf_start_offset" p = Some (TVFloat o) ->
  forall n r s f,
  tp_get "wf_start_time" p = Some (TVTimestamp s f) -> representable r s (frac_steps_scalar r f) -> 0 <= n ->
  time_track_abs_gen p n r = Ok (map (time_track_abs_f (conv_scalar r s f) r o c n) (zrange n)).
Proof. exact time_track_abs_conv. Qed.

Theorem time_track_absolute_us_translated : forall p o c,
  tp_get "wf_increment" p = Some (TVFloat c) -> tp_get "wf_start_offset" p = Some (TVFloat o) ->
  forall n start, tp_get "wf_start_time" p = Some (TVDatetime start) -> 0 <= n ->
  time_track_abs_gen p n Rus = Ok (map (time_track_abs_f start Rus o c n) (zrange n)).
Proof. exact time_track_abs_us_eq. Qed.

(* ---- 2. the KeyError paths, in source order --------------------------------------------------------------- *)

Theorem time_track_no_increment : forall p n r,
  tp_get "wf_increment" p = None -> time_track_rel_gen p n = Err EKey /\ time_track_abs_gen p n r = Err EKey.
Proof. intros p n r H. split; [apply time_track_rel_no_increment|apply time_track_abs_no_increment]; exact H. Qed.

Theorem time_track_no_offset : forall p n r v,
  tp_get "wf_increment" p = Some v -> tp_get "wf_start_offset" p = None ->
  time_track_rel_gen p n = Err EKey /\ time_track_abs_gen p n r = Err EKey.
Proof.
  intros p n r v H1 H2. split; [eapply time_track_rel_no_offset|eapply time_track_abs_no_offset]; eassumption.
Qed.

Theorem time_track_no_start_time : forall p o c,
  tp_get "wf_increment" p = Some (TVFloat c) -> tp_get "wf_start_offset" p = Some (TVFloat o) ->
  forall n r, tp_get "wf_start_time" p = None -> 0 <= n -> time_track_abs_gen p n r = Err EKey.
Proof. exact time_track_abs_no_start. Qed.

(* ---- 3. Props/C12_round.v on the translated function --------------------------------------------------------- *)

Theorem time_track_rounding_translated : forall p o c,
  tp_get "wf_increment" p = Some (TVFloat c) -> tp_get "wf_start_offset" p = Some (TVFloat o) ->
  forall n i l y,
  time_track_rel_gen p n = Ok l -> nth_error l (Z.to_nat i) = Some y ->
  Ffin o -> Ffin c -> (2 <= n <= 2 ^ 53)%Z -> (0 <= i < n)%Z ->
  (Rabs (FR o) + IZR (n - 1) * Rabs (FR c) <= ovf64 / 2)%R ->
  Ffin y /\
  (Rabs (FR y - (FR o + IZR i * FR c)) <= tt_eps (Rabs (FR o)) (IZR (n - 1) * Rabs (FR c)) (IZR i))%R.
Proof. exact time_track_rounding_gen. Qed.

Theorem time_track_absolute_rounding_translated : forall p o c,
  tp_get "wf_increment" p = Some (TVFloat c) -> tp_get "wf_start_offset" p = Some (TVFloat o) ->
  forall n i r s f start l,
  tp_get "wf_start_time" p = Some (TVTimestamp s f) -> scalar_as_datetime64_gen r s f = Ok start ->
  time_track_abs_gen p n r = Ok l ->
  Ffin o -> Ffin c -> (2 <= n <= 2 ^ 53)%Z -> (0 <= i < n)%Z ->
  (IZR (Z.abs start) + (Rabs (FR o) + IZR (n - 1) * Rabs (FR c)) * unit_correction r
    <= 9223372036854775808 - 16384)%R ->
  let P := FR (time_track_f o c n i * uc_f r)%float in
  let T := ((FR o + IZR i * FR c) * unit_correction r)%R in
  let E := tt_eps_abs (Rabs (FR o)) (IZR (n - 1) * Rabs (FR c)) (IZR i) (unit_correction r) in
  nth_error l (Z.to_nat i) = Some (Some (start + Ztrunc P)%Z) /\
  (Rabs (IZR (start + Ztrunc P) - (IZR start + T)) < 1 + E)%R.
Proof. exact time_track_absolute_rounding_gen. Qed.

(* ---- non-vacuity ------------------------------------------------------------------------------------------------ *)

(* a waveform channel: offset 1.5, increment 0.25, ten values, started 2020-01-01T00:00:00 (TdmsTimestamp) *)
Definition ex_props : list (string * tpval) :=
  [("unit_string", TVStr "V"); ("wf_increment", TVFloat 0x1p-2); ("wf_start_offset", TVFloat 0x1.8p+0);
   ("wf_start_time", TVTimestamp 3660681600 0); ("wf_samples", TVInt 1)]%string.

Example ex_rel :
  time_track_rel_gen ex_props 10
  = Ok [0x1.8p+0; 0x1.cp+0; 0x1p+1; 0x1.2p+1; 0x1.4p+1; 0x1.6p+1; 0x1.8p+1; 0x1.ap+1; 0x1.cp+1; 0x1.ep+1]%float.
Proof. vm_compute. reflexivity. Qed.

Example ex_abs :
  scalar_as_datetime64_gen Rns 3660681600 0 = Ok 1577836800000000000 /\
  exists l, time_track_abs_gen ex_props 10 Rns = Ok l /\ nth_error l 3 = Some (Some 1577836802250000000).
Proof. split; [vm_compute; reflexivity|]. eexists. split; [vm_compute; reflexivity|reflexivity]. Qed.

Example ex_missing :
  time_track_abs_gen (firstn 3 ex_props) 10 Rns = Err EKey /\ time_track_rel_gen (firstn 2 ex_props) 10 = Err EKey.
Proof. split; vm_compute; reflexivity. Qed.

Definition c12_gen2_statements :=
  (time_track_translated, time_track_len_translated, time_track_absolute_translated,
   time_track_absolute_conv_translated, time_track_absolute_us_translated, time_track_no_increment,
   time_track_no_offset, time_track_no_start_time, time_track_rounding_translated,
   time_track_absolute_rounding_translated, ex_rel, ex_abs, ex_missing).
Print Assumptions c12_gen2_statements.
