(* C01 — Reading returns exactly the content the file encodes.

   FULL STATEMENT (not yet proved as one theorem; see DESIGN.md section 7 C01):
     read_correct : forall f, wf f -> rd_all (ser f) = Ok (meaning f).
   What is proved below are the layers of its refinement chain that are
   finished; the composed statement is therefore PARTIAL and the evidence file
   says so.  The executable model Model/Reader.v (rd_all) is tied to the
   implementation by the correspondence check on every run.

   Finished layers:
     1. fixed-width integer fields (both byte orders);
     5. raw data: the decoders of Model/Layout.v invert the raw data ENCODERS of
        Proofs/LayoutProofs.v (enc_values, enc_strings, enc_chunk(s), enc_rows)
        for every sized type incl. complex and timestamps, strings, contiguous
        chunks (one chunk with or without final-chunk override; all chunks of a
        segment; read_segment_chunks for the contiguous layout) and interleaved
        rows (read_interleaved; read_segment_chunks for the interleaved layout),
        in both byte orders and with arbitrary bytes following.
     4 (part). _calculate_chunks on a whole number of chunks returns that number
        and no override; composed with layer 5 for contiguous and interleaved
        segments (contig_segment_roundtrip, interleaved_segment_roundtrip).
   Still open for the composed statement: layers 2-3 (lexing the segment
   sequence by position, the object state machine producing the sobj records
   with so_dsize / so_nvals as assumed here), the truncated-last-segment case
   of layer 4, and 6 (receivers / hierarchy); layer 1's metadata part is in
   Proofs/TokensRoundtrip.v. *)
From Coq Require Import List ZArith.
Import ListNotations.
From NpTdms Require Import Base.Bytes Base.Res Model.Tokens Model.SegState Model.Layout Model.Reader
     Proofs.LayoutProofs.
Local Open Scope Z_scope.

(* layer 1: every fixed-width integer field decodes to what was encoded, in
   either byte order (struct pack/unpack for B H L Q and b h l q) *)
Theorem unsigned_field_roundtrip : forall e n z,
    0 <= z < 256 ^ Z.of_nat n -> u_dec e (u_enc e n z) = z.
Proof. exact u_dec_enc. Qed.

Theorem signed_field_roundtrip : forall e n z,
    (0 < n)%nat -> - (256 ^ Z.of_nat n / 2) <= z < 256 ^ Z.of_nat n / 2 ->
    s_dec e (s_enc e n z) = z.
Proof. exact s_dec_enc. Qed.

Theorem field_bytes_roundtrip : forall e l, u_enc e (length l) (u_dec e l) = l.
Proof. exact u_enc_dec. Qed.

Example c01_u32_example : u_dec BE (u_enc BE 4 0xDEADBEEF) = 0xDEADBEEF.
Proof. vm_compute. reflexivity. Qed.

Print Assumptions unsigned_field_roundtrip.
Print Assumptions signed_field_roundtrip.
Print Assumptions field_bytes_roundtrip.
Print Assumptions c01_u32_example.

(* ---- layer 5: raw data ------------------------------------------------------ *)

(* stored value bytes <-> canonical value bytes: an involution, for every type
   (complex types swap each component), any length *)
Theorem value_canon_store : forall e ty v, canon_value e ty (store_value e ty v) = v.
Proof. exact store_then_canon. Qed.

Theorem value_canon_length : forall e ty v, length (canon_value e ty v) = length v.
Proof. exact canon_value_length. Qed.

(* complete items of a byte buffer; trailing incomplete bytes are dropped *)
Theorem items_roundtrip_tail : forall sz vs tail,
    0 < sz -> Forall (fun v => blen v = sz) vs -> blen tail < sz ->
    items sz (concat vs ++ tail) = vs.
Proof. exact LayoutProofs.items_roundtrip_tail. Qed.

(* TdmsSegmentObject.read_values on the encoding of [vs], any sized type
   (NumPy types and TimeStamp), either byte order, anything following *)
Theorem read_values_fixed_roundtrip : forall e o dt sz vs rest,
    so_dtype o = Some dt -> tds_size dt = Some (Some sz) ->
    Forall (fun v => blen v = sz) vs ->
    read_values e o (Z.of_nat (length vs)) (enc_values e dt vs ++ rest) = Ok (vs, rest).
Proof. exact LayoutProofs.read_values_fixed_roundtrip. Qed.

Theorem read_values_timestamp_roundtrip : forall e o vs rest,
    so_dtype o = Some T_TIME ->
    Forall (fun v => blen v = 16) vs ->
    read_values e o (Z.of_nat (length vs)) (enc_values e T_TIME vs ++ rest) = Ok (vs, rest).
Proof. exact LayoutProofs.read_values_timestamp_roundtrip. Qed.

(* String.read_values: offset table then the bytes *)
Theorem read_values_string_roundtrip : forall e o ss rest,
    so_dtype o = Some T_STRING ->
    zsum (map blen ss) < 2 ^ 32 ->
    read_values e o (Z.of_nat (length ss)) (enc_strings e ss ++ rest) = Ok (ss, rest).
Proof. exact LayoutProofs.read_values_string_roundtrip. Qed.

(* ContiguousDataReader._read_data_chunk: each object's path maps to exactly the
   values encoded for it, in object order; the cursor is left after the chunk.
   The count per object is what _get_channel_number_values gives for this chunk
   (final-chunk override included). *)
Theorem read_contig_chunk_roundtrip : forall e ci nchunks final ovs rest,
    Forall (fun ov => vals_ok (chunk_nvals (fst ov) ci nchunks final) (fst ov) (snd ov)) ovs ->
    NoDup (map (fun ov => so_path (fst ov)) ovs) ->
    read_contig_chunk e (map fst ovs) ci nchunks final (enc_chunk e ovs ++ rest) []
    = Ok (chunk_of ovs, rest).
Proof. exact read_contig_chunk_roundtrip_final. Qed.

Theorem chunk_of_lookup : forall ovs o vs,
    NoDup (map (fun ov => so_path (fst ov)) ovs) -> In (o, vs) ovs ->
    alookup (so_path o) (chunk_of ovs) = Some (CData vs).
Proof. exact LayoutProofs.chunk_of_lookup. Qed.

(* all chunks of a contiguous segment, one after another *)
Theorem read_contig_chunks_roundtrip : forall e objs final css rest fuel,
    NoDup (map so_path objs) ->
    (forall k vss, nth_error css k = Some vss ->
                   chunk_vals_ok objs (Z.of_nat (length css)) final k vss) ->
    (length css <= fuel)%nat ->
    read_chunks_loop fuel
                     (fun ci c => read_contig_chunk e objs ci (Z.of_nat (length css)) final c [])
                     0 (Z.of_nat (length css)) (enc_chunks e objs css ++ rest)
    = Ok (map (fun vss => chunk_of (combine objs vss)) css, rest).
Proof. exact read_contig_chunks_roundtrip_final. Qed.

(* TdmsSegment.read_raw_data, contiguous layout, no truncation; the model's
   fuel suffices when no chunk is empty (a segment whose chunk size is 0 has
   nchunks = 0 in _calculate_chunks) *)
Theorem read_segment_chunks_contig_roundtrip : forall s css rest,
    seg_layout s = Ok LContig ->
    sg_final s = None ->
    sg_nchunks s = Z.of_nat (length css) ->
    NoDup (map so_path (data_objs (sg_objs s))) ->
    Forall (fun vss => Forall2 (fun o vs => vals_ok (so_nvals o) o vs) (data_objs (sg_objs s)) vss) css ->
    Forall (fun vss => enc_chunk (toc_endian (sg_toc s)) (combine (data_objs (sg_objs s)) vss) <> []) css ->
    read_segment_chunks s (enc_chunks (toc_endian (sg_toc s)) (data_objs (sg_objs s)) css ++ rest)
    = Ok (map (fun vss => chunk_of (combine (data_objs (sg_objs s)) vss)) css, rest).
Proof. exact LayoutProofs.read_segment_chunks_contig_roundtrip. Qed.

(* InterleavedDataReader: width * nrows bytes are taken, the rest is left; ONE
   chunk; object j gets column j of the encoded value matrix *)
Theorem read_interleaved_roundtrip : forall e objs nchunks nv rows rest,
    objs <> [] ->
    Forall (fun o => so_nvals o = nv) objs ->
    Forall (fun o => sized o <> None) objs ->
    NoDup (map so_path objs) ->
    Forall (row_ok objs) rows ->
    nv * nchunks = Z.of_nat (length rows) ->
    read_interleaved e objs nchunks (enc_rows e objs rows ++ rest) = Ok ([cols_of objs rows], rest).
Proof. exact LayoutProofs.read_interleaved_roundtrip. Qed.

Theorem cols_of_nth : forall objs rows j o,
    nth_error objs j = Some o ->
    nth_error (cols_of objs rows) j = Some (so_path o, CData (map (fun row => nth j row []) rows)).
Proof. exact LayoutProofs.cols_of_nth. Qed.

Theorem read_segment_chunks_interleaved_roundtrip : forall s nv rows rest,
    seg_layout s = Ok LInterleaved ->
    data_objs (sg_objs s) <> [] ->
    Forall (fun o => so_nvals o = nv) (data_objs (sg_objs s)) ->
    Forall (fun o => sized o <> None) (data_objs (sg_objs s)) ->
    NoDup (map so_path (data_objs (sg_objs s))) ->
    Forall (row_ok (data_objs (sg_objs s))) rows ->
    nv * sg_nchunks s = Z.of_nat (length rows) ->
    read_segment_chunks s (enc_rows (toc_endian (sg_toc s)) (data_objs (sg_objs s)) rows ++ rest)
    = Ok ([cols_of (data_objs (sg_objs s)) rows], rest).
Proof. exact LayoutProofs.read_segment_chunks_interleaved_roundtrip. Qed.

(* ---- layer 4 meets layer 5: chunk count from the data length ------------------- *)

(* _calculate_chunks on a whole number of chunks: that number, no override *)
Theorem calculate_chunks_exact : forall toc incomplete objs csize n,
    chunk_size objs = Ok csize -> 0 < csize -> 0 <= n ->
    calculate_chunks toc incomplete objs (n * csize) = Ok (n, None).
Proof. exact LayoutProofs.calculate_chunks_exact. Qed.

(* a contiguous segment whose (nchunks, override) come from _calculate_chunks on
   the length of its raw data; [dsize_ok e o vs] : so_dsize o = blen (enc_obj e o vs) *)
Theorem contig_segment_roundtrip : forall s css rest,
    let e := toc_endian (sg_toc s) in
    let dobjs := data_objs (sg_objs s) in
    seg_layout s = Ok LContig ->
    calculate_chunks (sg_toc s) (sg_incomplete s) (sg_objs s) (blen (enc_chunks e dobjs css))
    = Ok (sg_nchunks s, sg_final s) ->
    0 < zsum (map so_dsize dobjs) ->
    NoDup (map so_path dobjs) ->
    Forall (fun vss => Forall2 (fun o vs => vals_ok (so_nvals o) o vs) dobjs vss) css ->
    Forall (Forall2 (dsize_ok e) dobjs) css ->
    read_segment_chunks s (enc_chunks e dobjs css ++ rest)
    = Ok (map (fun vss => chunk_of (combine dobjs vss)) css, rest).
Proof. exact LayoutProofs.contig_segment_roundtrip. Qed.

Theorem interleaved_segment_roundtrip : forall s nv m rows rest,
    let e := toc_endian (sg_toc s) in
    let dobjs := data_objs (sg_objs s) in
    seg_layout s = Ok LInterleaved ->
    calculate_chunks (sg_toc s) (sg_incomplete s) (sg_objs s) (blen (enc_rows e dobjs rows))
    = Ok (sg_nchunks s, sg_final s) ->
    dobjs <> [] -> 0 < nv -> 0 <= m ->
    Forall (fun o => so_nvals o = nv /\ so_dsize o = so_nvals o * size_or0 o) dobjs ->
    Forall (fun o => sized o <> None) dobjs ->
    NoDup (map so_path dobjs) ->
    Forall (row_ok dobjs) rows ->
    Z.of_nat (length rows) = nv * m ->
    read_segment_chunks s (enc_rows e dobjs rows ++ rest) = Ok ([cols_of dobjs rows], rest).
Proof. exact LayoutProofs.interleaved_segment_roundtrip. Qed.

(* concrete instances: big-endian int16 + string + complex128 in two contiguous
   chunks; big-endian interleaved int16 / complex64 / bool, three rows.  (The
   encoded bytes are spelled out in Proofs/LayoutProofs.v.) *)
Section Examples.
Import String.
Local Open Scope string_scope.
Example c01_contig_example :
  let a := mkSobj (hex "2f2761") true 2 4 (Some 2) None in
  let b := mkSobj (hex "2f2762") true 2 0 (Some T_STRING) None in
  let c := mkSobj (hex "2f2763") true 1 16 (Some T_C128) None in
  let css := [ [ [hex "0102"; hex "0304"]; [hex "6869"; hex "21"];
                 [hex "000102030405060708090a0b0c0d0e0f"] ];
               [ [hex "1112"; hex "1314"]; [[]; hex "7a7a7a"];
                 [hex "101112131415161718191a1b1c1d1e1f"] ] ] in
  let s := mkSeg 0 (2 + 4 + 8 + 64) 0 0 false [a; b; c] [] 2 None in
  read_segment_chunks s (enc_chunks BE [a; b; c] css ++ hex "aa")%list =
    Ok ([ [(hex "2f2761", CData [hex "0102"; hex "0304"]); (hex "2f2762", CData [hex "6869"; hex "21"]);
           (hex "2f2763", CData [hex "000102030405060708090a0b0c0d0e0f"])];
          [(hex "2f2761", CData [hex "1112"; hex "1314"]); (hex "2f2762", CData [[]; hex "7a7a7a"]);
           (hex "2f2763", CData [hex "101112131415161718191a1b1c1d1e1f"])] ], hex "aa").
Proof. exact (proj2 read_contig_chunks_example). Qed.

Example c01_interleaved_example :
  let a := mkSobj (hex "2f2761") true 3 6 (Some 2) None in
  let b := mkSobj (hex "2f2762") true 3 24 (Some T_C64) None in
  let c := mkSobj (hex "2f2763") true 3 3 (Some T_BOOL) None in
  let rows := [ [hex "0102"; hex "1112131415161718"; hex "01"];
                [hex "0304"; hex "2122232425262728"; hex "00"];
                [hex "0506"; hex "3132333435363738"; hex "01"] ] in
  let s := mkSeg 0 (2 + 4 + 8 + 32 + 64) 0 0 false [a; b; c] [] 1 None in
  read_segment_chunks s (enc_rows BE [a; b; c] rows ++ hex "bbcc")%list =
    Ok ([ [(hex "2f2761", CData [hex "0102"; hex "0304"; hex "0506"]);
           (hex "2f2762", CData [hex "1112131415161718"; hex "2122232425262728"; hex "3132333435363738"]);
           (hex "2f2763", CData [hex "01"; hex "00"; hex "01"])] ], hex "bbcc").
Proof. exact (proj2 read_interleaved_example). Qed.
End Examples.

Print Assumptions value_canon_store.
Print Assumptions value_canon_length.
Print Assumptions items_roundtrip_tail.
Print Assumptions read_values_fixed_roundtrip.
Print Assumptions read_values_timestamp_roundtrip.
Print Assumptions read_values_string_roundtrip.
Print Assumptions read_contig_chunk_roundtrip.
Print Assumptions chunk_of_lookup.
Print Assumptions read_contig_chunks_roundtrip.
Print Assumptions read_segment_chunks_contig_roundtrip.
Print Assumptions read_interleaved_roundtrip.
Print Assumptions cols_of_nth.
Print Assumptions read_segment_chunks_interleaved_roundtrip.
Print Assumptions calculate_chunks_exact.
Print Assumptions contig_segment_roundtrip.
Print Assumptions interleaved_segment_roundtrip.
Print Assumptions c01_contig_example.
Print Assumptions c01_interleaved_example.

