(* C01 — Reading returns exactly the content the file encodes.

   FULL STATEMENT (not yet proved as one theorem; see DESIGN.md section 7 C01):
     Theorem read_correct : forall f, wf f -> rd_all (ser f) = Ok (meaning f).
   What is proved below are the layers of its refinement chain that are
   finished; the composed statement is therefore PARTIAL and the evidence file
   says so.  The executable model Model/Reader.v (rd_all) is tied to the
   implementation by the correspondence check on every run. *)
From Coq Require Import List ZArith.
Import ListNotations.
From NpTdms Require Import Base.Bytes Base.Res Model.Tokens Model.SegState Model.Layout Model.Reader.
Local Open Scope Z_scope.

(* layer 1: every fixed-width integer field decodes to what was encoded, in
   either byte order (struct pack/unpack for B H L Q and b h l q) *)
Theorem unsigned_field_roundtrip : forall e n z,
    0 <= z < 256 ^ Z.of_nat n -> u_dec e (u_enc e n z) = z.
Proof. exact u_dec_enc. Qed.

Theorem signed_field_roundtrip : forall e n z,
    (0 < n)%nat -> - (256 ^ Z.of_nat n / 2) <= z < 256 ^ Z.of_nat n / 2 ->
    s_dec e (s_enc e n z) = z.
Proof. exact s_dec_enc. Qed.

Theorem field_bytes_roundtrip : forall e l, u_enc e (length l) (u_dec e l) = l.
Proof. exact u_enc_dec. Qed.

Example c01_u32_example : u_dec BE (u_enc BE 4 0xDEADBEEF) = 0xDEADBEEF.
Proof. vm_compute. reflexivity. Qed.

Print Assumptions unsigned_field_roundtrip.
Print Assumptions signed_field_roundtrip.
Print Assumptions field_bytes_roundtrip.
