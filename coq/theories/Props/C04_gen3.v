(* C04 (companion) — TdmsReader.read_raw_data_for_channel, the WHOLE lazy per-channel generator, TRANSLATED from
   nptdms/reader.py on every run (harness/gen/gen_pyfuncs_lazyloop.py -> Gen/PyFuncsLazyLoop.v: metadata guard, index
   table lookup with _build_index on a miss, window arithmetic, start / end segment search, the loop over
   self._segments[start_segment:end_segment + 1] with the tag check, the per-segment chunk range -- the fragment already
   translated as read_chunk_range_gen, re-used, its place in the loop body checked statement by statement --, the inner
   loop over the segment's chunk generator with the skip / trim / values_read accounting and _trim_channel_chunk)
   EQUALS Model/LazyRead.v lz_gen (repaired variant; lz_loop inside) on the abstract view of the file, and Props/C04.v
   window_correct holds OF THE TRANSLATED GENERATOR.  Statements only; proofs: Proofs/GenLazyLoopEquiv.v.
   The plan theorem (Props/C19.v plan_exact_chunks) on the same translated function is in Props/C19_gen2.v.

   GENERATORS.  A generator is modelled as the list of values it yields when run to its end, together with the state
   (index table, file) afterwards.  The loop body of this generator does no I/O of its own between two chunks of a
   segment, so this covers every consumer that exhausts the generator and does not use the file between two chunks:
   TdmsChannel._read_channel_data (read_data, slices, integer indices through _read_slice) and the chunk streams run
   to their end.  Not covered: a consumer that abandons the generator (read_channel_chunk_for_index takes one chunk with
   next(); that path is translated separately, Props/C04_gen2.v).

   I/O is a parameter of the translated function (an abstract file state threaded through every call); here it is
   instantiated with the world of Proofs/GenLazyIdxEquiv.v: the file state is the log of (segment position, chunk) reads,
   [w_chunks] (what list(segment.read_raw_data_for_channel(file, path, chunk_offset, num_chunks)) returns) is the model's
   seg_fetch on the segment's view.  The view of a segment is the TRANSLATED metadata view (seg_view: number_values /
   has_data of the segment object found through object_index, num_chunks, final_chunk_lengths_override) together with
   [data_of s] (layout kind and the values of each chunk).

   PARTIAL with respect to the task "the lazy per-channel path": of the SEGMENT-level generator
   (nptdms/tdms_segment.py TdmsSegment.read_raw_data_for_channel + _read_channel_data_chunks) only the part of
   read_raw_data_for_channel before its delegation is translated ([segment_channel_window_translated]: the empty
   chunk without kTocRawData, the position data_position + chunk_size * chunk_offset, stop_chunk).  MISSING: the loop
   of _read_channel_data_chunks (reader dispatch of _get_data_reader, initial_position = file.tell(), the per-chunk
   reads through the data reader INTERLEAVED with the re-seek to initial_position + (i + 1) * chunk_size after every
   yield, final-chunk handling inside the per-chunk readers) as a translated function on bytes, and its equality with
   seg_fetch on the view Model/LazyBytes.v segv_of computes.  That part remains the hand model (Model/LazyRead.v
   seg_fetch, Model/LazyRanges.v lz_ranges), tied by the correspondence checks of C04 / C19 (values, and recorded read
   lists compared for equality); the per-chunk readers it calls are translated (Props/C01_gen3.v
   contig_read_channel_data_chunk / interleaved_read_channel_data_chunks, Props/C11_gen3.v). *)
From Coq Require Import List ZArith Bool.
Import ListNotations.
From NpTdms Require Import Base.Bytes Base.Res Base.PySlice Model.Tokens Model.SegState Model.LazyRead
     Gen.PyFuncsReader Gen.PyFuncsLazyIdx Gen.PyFuncsLazyLoop
     Proofs.GenReaderLazy Proofs.GenLazyIdxEquiv Proofs.GenLazyLoopEquiv.
Local Open Scope Z_scope.

(* nptdms/tdms_segment.py TdmsSegment.read_raw_data_for_channel UP TO ITS DELEGATION to _read_channel_data_chunks,
   translated as arithmetic on the file position (segment_channel_window_gen; f.seek(p) sets the position,
   f.seek(d, os.SEEK_CUR) adds to it): the chunk range handed on is [chunk_offset, num_chunks + chunk_offset) -- the
   range seg_fetch reads -- or [chunk_offset, segment.num_chunks) for num_chunks = None; the file stands at
   data_position + chunk_size * chunk_offset; one empty chunk is yielded first exactly when kTocRawData is unset *)
Theorem segment_channel_window_translated : forall s pos0 co nc,
    segment_channel_window_gen s pos0 co nc
    = do cs <- get_chunk_size_gen s;
      Ok (co, match nc with None => sg_nchunks s | Some n => n + co end, cs,
          if co >? 0 then sg_data s + cs * co else sg_data s,
          if Z.land (sg_toc s) 8 =? 0 then 1 else 0).
Proof. exact segment_channel_window_eq. Qed.

Section C04_gen3.
  Variable V : Type.
  Variable path : bytes.
  Variable data_of : segment -> seg_data V.

  (* THE SEGMENT LOOP = lz_loop: yielded chunks appended, reads appended to the file log, same exception (the final
     values_read counter is internal to both) *)
  Theorem segment_loop_translated : forall start offs first en off ei length xs k f vr ys,
      mapr (proj3 V)
           (read_raw_data_for_channel_gen_loop1 iolog V w_verify (w_chunks V path data_of) start path offs first en off ei length
                                                xs k f vr ys)
      = mapr (fun p => (ys ++ fst p, f ++ snd p))
             (lz_loop V true true first offs start en off length ei (views V path data_of xs) (start + k) (start + k) vr).
  Proof. exact (segment_loop_eq V path data_of). Qed.

  Variable segs : list segment.
  Hypothesis Hok : forallb (seg_ok path) segs = true.
  Hypothesis Hfit : zsum (seg_nums unit (seg_views segs path)) < 2 ^ 63.

  Let svs := views V path data_of segs.

  (* THE WHOLE GENERATOR = lz_gen, for every offset and length (negative ones included), every index table that is
     empty for the channel or holds its index, every file state *)
  Theorem read_raw_data_for_channel_translated : forall tbl om f offset length,
      tbl_ok segs path tbl ->
      alookup path om = Some (total_values V svs) ->
      exists tbl', tbl_ok segs path tbl' /\
        read_raw_data_for_channel_gen iolog V w_verify (w_chunks V path data_of) (Some segs) tbl om f path offset length
        = mapr (fun p => (fst p, tbl', f ++ snd p)) (lz_gen V true true svs offset length).
  Proof. exact (read_raw_data_for_channel_eq V path data_of segs Hok Hfit). Qed.

  (* Props/C04.v window_correct ON THE TRANSLATED GENERATOR: it runs without exception, and appending the chunks it
     yields to the receiver TdmsChannel._read_channel_data allocates (its size computed by the translated validation)
     gives full[offs : offs + len] *)
  Theorem window_correct_translated : forall (zero : V) rk tbl om f offs len,
      tbl_ok segs path tbl -> alookup path om = Some (total_values V svs) ->
      wf V svs = true -> 0 <= offs -> (match len with None => True | Some l => 0 <= l end) ->
      exists outs log tbl' dt,
        tbl_ok segs path tbl' /\
        read_raw_data_for_channel_gen iolog V w_verify (w_chunks V path data_of) (Some segs) tbl om f path offs len
        = Ok (outs, tbl', f ++ log) /\
        lz_plan V svs offs len = Ok log /\
        exists n, read_channel_data_alloc_gen (Some dt) false (total_values V svs) offs len = Ok (Some n) /\
                  receive V zero rk n outs = Ok (match len with
                                                 | None => zskipn offs (full V svs)
                                                 | Some l => zfirstn l (zskipn offs (full V svs))
                                                 end).
  Proof. exact (window_correct_gen V path data_of segs Hok Hfit). Qed.
End C04_gen3.

(* the file of Props/C04_gen2.v (channel a in segments 0 and 2, absent from segment 1; the last chunk of segment 2
   truncated to 2 values; 14 values): the hypotheses hold; read_data(4, 7) fetches chunk 1 of segment 0 and chunks 0, 1
   of segment 2, builds the index table on the way, and yields [5,6] [7,8,9] [10,11]; the model agrees; a reader
   whose metadata has not been read raises RuntimeError *)
Example c04_gen3_example :
  (forallb (seg_ok ex_path) ex_segs = true /\
   zsum (seg_nums unit (seg_views ex_segs ex_path)) < 2 ^ 63 /\
   wf Z (views Z ex_path ex_data_of ex_segs) = true /\
   total_values Z (views Z ex_path ex_data_of ex_segs) = 14 /\
   full Z (views Z ex_path ex_data_of ex_segs) = [1; 2; 3; 4; 5; 6; 7; 8; 9; 10; 11; 12; 13; 14]) /\
  read_raw_data_for_channel_gen iolog Z w_verify (w_chunks Z ex_path ex_data_of) (Some ex_segs) [] [(ex_path, 14)] []
                                ex_path 4 (Some 7)
  = Ok ([[5; 6]; [7; 8; 9]; [10; 11]], [(ex_path, (0, [6; 6; 14]))], [(0, 1); (2, 0); (2, 1)]) /\
  lz_gen Z true true (views Z ex_path ex_data_of ex_segs) 4 (Some 7)
  = Ok ([[5; 6]; [7; 8; 9]; [10; 11]], [(0, 1); (2, 0); (2, 1)]) /\
  read_raw_data_for_channel_gen iolog Z w_verify (w_chunks Z ex_path ex_data_of) None [] [(ex_path, 14)] []
                                ex_path 4 (Some 7) = Err ERuntime.
Proof. split; [exact ex_loop_hyps|exact ex_loop_run]. Qed.

Print Assumptions segment_channel_window_translated.
Print Assumptions segment_loop_translated.
Print Assumptions read_raw_data_for_channel_translated.
Print Assumptions window_correct_translated.
Print Assumptions c04_gen3_example.
