(* C14 - channel.dtype describes what reads return.
   Statements only; proofs in Proofs/DtypeProofs.v.
   Models: Model/ScaleDtype.v over the NumPy promotion tables reflected into
   Gen/NumpyPromote.v (regenerated from the installed NumPy by every check, so the
   theorems are re-proved about this NumPy).

   [declared true] / [actual true] mirror the code after fixes D8, D9, D11, D12;
   [declared false] / [actual false] mirror the unchanged code and are refuted below.

   Dtypes are compared as NumPy dtypes modulo byte order (see DESIGN.md, C14).
   "A full read has exactly len(channel) elements" is a statement about the reader
   (C01/C06 accounting); it is checked on the implementation by harness/c14.py and not
   restated here. *)
From Coq Require Import ZArith List Bool String PrimFloat.
Import ListNotations.
From NpTdms Require Import Gen.NumpyPromote Model.ScaleGraph Model.ScaleDtype
     Proofs.ScaleProofs Proofs.DtypeProofs.

(* Whenever the scalings of a channel produce an array at all, its dtype is the one
   TdmsChannel.dtype computes symbolically - for every raw type (13 numeric dtypes,
   strings, timestamps in both modes, DAQmx scaler types), every graph over every scale
   type (no well-formedness needed: on a cyclic graph neither side terminates).
   The one exclusion is the recorded finding dtype-nonnumeric-arith-scale:
   datetime64 - datetime64 is a timedelta64, which np.result_type cannot express. *)
Theorem dtype_agrees : forall g k raw_ts scalers d,
  actual true g k raw_ts scalers = Ok d -> d <> XTimedelta64 ->
  declared true g k raw_ts scalers = Ok d.
Proof. exact dtype_agrees_proof. Qed.

(* for numeric raw data and for DAQmx channels there is no exclusion *)
Theorem dtype_agrees_numeric : forall g d0 raw_ts scalers d,
  actual true g (RNum d0) raw_ts scalers = Ok d -> declared true g (RNum d0) raw_ts scalers = Ok d.
Proof. exact dtype_agrees_numeric_proof. Qed.

Theorem dtype_agrees_daqmx : forall g raw_ts scalers d,
  actual true g RDaqmx raw_ts scalers = Ok d -> declared true g RDaqmx raw_ts scalers = Ok d.
Proof. exact dtype_agrees_daqmx_proof. Qed.

(* [actual] is not a second opinion: it is the dtype of the array the C13 evaluator
   returns (typed arrays, promotion through the same generated tables) *)
Theorem eval_has_actual_dtype : forall g raw raw_ts v,
  eval g raw = Ok v ->
  actual true g (kind_of_raw raw) raw_ts (scaler_dtypes raw) = Ok (XNum (dtype_of v)).
Proof. exact eval_dtype_proof. Qed.

(* every read operation - data, read_data with any window, every branch of _read_slice,
   chunks with and without data for the channel - returns channel.dtype ... *)
Theorem reads_have_channel_dtype : forall c op d,
  read_dtype true c op = Ok d -> d <> XTimedelta64 -> chan_dtype true c = Ok d.
Proof. exact reads_have_channel_dtype_proof. Qed.

(* ... hence empty results (built from channel.dtype) and non-empty ones (built by the
   arithmetic) carry the same dtype *)
Theorem empty_results_same_dtype : forall c op1 op2 d1 d2,
  read_dtype true c op1 = Ok d1 -> read_dtype true c op2 = Ok d2 ->
  d1 <> XTimedelta64 -> d2 <> XTimedelta64 -> d1 = d2.
Proof. exact empty_results_same_dtype_proof. Qed.

(* timestamps: datetime64[us] unless raw timestamps were requested; strings: object *)
Theorem timestamp_dtype : forall raw_ts scalers op,
  let c := {| ckind := RTimestamp; craw_ts := raw_ts; cscaling := None; cscalers := scalers |} in
  chan_dtype true c = Ok (if raw_ts then XTimestampStruct else XDatetime64) /\
  read_dtype true c op = chan_dtype true c.
Proof. intros raw_ts scalers op. destruct raw_ts, op as [| | | |[]]; split; reflexivity. Qed.

Theorem string_dtype : forall raw_ts scalers op,
  let c := {| ckind := RString; craw_ts := raw_ts; cscaling := None; cscalers := scalers |} in
  chan_dtype true c = Ok XObject /\ read_dtype true c op = Ok XObject.
Proof. intros raw_ts scalers op. destruct op as [| | | |[]]; split; reflexivity. Qed.

(* ---- the unchanged code does not satisfy the property ---------------------------------- *)

(* D8: float32 channel with a Linear (RTD, Thermocouple) scale declares float64, returns
   float32; complex64 with a Linear scale declares float64, returns complex64 *)
Lemma dtype_agrees_refuted_D8 :
  (actual false [Linear 2 1 Raw]%float (RNum Float32) false [] = Ok (XNum Float32) /\
   declared false [Linear 2 1 Raw]%float (RNum Float32) false [] = Ok (XNum Float64)) /\
  (actual false [Sensor SRtd Raw] (RNum Float32) false [] = Ok (XNum Float32) /\
   declared false [Sensor SRtd Raw] (RNum Float32) false [] = Ok (XNum Float64)) /\
  (actual false [Sensor SThermocouple Raw] (RNum Float32) false [] = Ok (XNum Float32) /\
   declared false [Sensor SThermocouple Raw] (RNum Float32) false [] = Ok (XNum Float64)) /\
  (actual false [Linear 2 1 Raw]%float (RNum Complex64) false [] = Ok (XNum Complex64) /\
   declared false [Linear 2 1 Raw]%float (RNum Complex64) false [] = Ok (XNum Float64)).
Proof. repeat split; vm_compute; reflexivity. Qed.

(* D9: AdvancedAPI scale fed by another scale declares the raw dtype, returns float64 *)
Lemma dtype_agrees_refuted_D9 :
  actual false [Linear 2 1 Raw; NoOp (Idx 0)]%float (RNum Int32) false [] = Ok (XNum Float64) /\
  declared false [Linear 2 1 Raw; NoOp (Idx 0)]%float (RNum Int32) false [] = Ok (XNum Int32).
Proof. split; vm_compute; reflexivity. Qed.

(* D11: string / timestamp channel under a pass-through scale: dtype is None *)
Lemma dtype_agrees_refuted_D11 :
  (actual false [NoOp Raw] RString false [] = Ok XObject /\
   declared false [NoOp Raw] RString false [] = Ok XNone) /\
  (actual false [NoOp Raw] RTimestamp false [] = Ok XDatetime64 /\
   declared false [NoOp Raw] RTimestamp false [] = Ok XNone).
Proof. repeat split; vm_compute; reflexivity. Qed.

(* D12: raw timestamps requested: dtype still says datetime64[us]; an empty slice built from
   it differs from every non-empty read *)
Lemma dtype_agrees_refuted_D12 :
  let c := {| ckind := RTimestamp; craw_ts := true; cscaling := None; cscalers := [] |} in
  chan_dtype false c = Ok XDatetime64 /\
  read_dtype false c OpReadData = Ok XTimestampStruct /\
  read_dtype false c OpSliceEmpty = Ok XDatetime64.
Proof. repeat split; reflexivity. Qed.

(* the same witnesses on the fixed code *)
Lemma witnesses_fixed :
  declared true [Linear 2 1 Raw]%float (RNum Float32) false [] = actual true [Linear 2 1 Raw]%float (RNum Float32) false [] /\
  declared true [Linear 2 1 Raw]%float (RNum Complex64) false [] = Ok (XNum Complex128) /\
  actual true [Linear 2 1 Raw]%float (RNum Complex64) false [] = Ok (XNum Complex128) /\
  declared true [Linear 2 1 Raw; NoOp (Idx 0)]%float (RNum Int32) false [] = Ok (XNum Float64) /\
  declared true [NoOp Raw] RString false [] = Ok XObject /\
  declared true [NoOp Raw] RTimestamp true [] = Ok XTimestampStruct.
Proof. repeat split; vm_compute; reflexivity. Qed.

(* the recorded finding (still true after the fixes): this is why dtype_agrees excludes
   timedelta64 *)
Lemma nonnumeric_arith_refuted :
  actual true [Subtract Raw Raw] RTimestamp false [] = Ok XTimedelta64 /\
  declared true [Subtract Raw Raw] RTimestamp false [] = Ok XDatetime64.
Proof. split; vm_compute; reflexivity. Qed.

(* ---- non-vacuity ------------------------------------------------------------------------ *)

(* a depth-3 graph with several scales reading the raw data produces an array for every
   one of the 13 numeric raw dtypes except bool (bool - bool raises in NumPy), and the
   declared dtype is that array's dtype *)
Definition ex_graph : graph :=
  [Linear 2 1 Raw; NoOp (Idx 0); Add Raw Raw; Subtract (Idx 2) Raw; Add (Idx 1) (Idx 3)]%float.

Example ex_all_dtypes :
  forallb (fun d =>
    match actual true ex_graph (RNum d) false [], declared true ex_graph (RNum d) false [] with
    | Ok a, Ok b => xdt_eqb a b
    | Err EType, Ok _ => dtype_eqb d Bool
    | _, _ => false
    end) all_dtypes = true.
Proof. vm_compute. reflexivity. Qed.

Example ex_complex : actual true ex_graph (RNum Complex64) false [] = Ok (XNum Complex128).
Proof. vm_compute. reflexivity. Qed.

(* DAQmx: two scalers of different types added: int16 + uint16 -> int32 *)
Example ex_daqmx :
  actual true [DaqmxScaler 0; DaqmxScaler 1; Add (Idx 0) (Idx 1)] RDaqmx false [(0, Int16); (1, UInt16)]
  = Ok (XNum Int32) /\
  declared true [DaqmxScaler 0; DaqmxScaler 1; Add (Idx 0) (Idx 1)] RDaqmx false [(0, Int16); (1, UInt16)]
  = Ok (XNum Int32).
Proof. split; vm_compute; reflexivity. Qed.

(* the evaluator's array really has that dtype *)
Example ex_eval_dtype :
  exists v, eval ex_graph {| rdata := Some (VS [1.5; -2]%float); rscalers := [] |} = Ok v /\
            dtype_of v = Float64.
Proof. eexists. split; [vm_compute; reflexivity|reflexivity]. Qed.

Print Assumptions dtype_agrees.
Print Assumptions dtype_agrees_numeric.
Print Assumptions dtype_agrees_daqmx.
Print Assumptions eval_has_actual_dtype.
Print Assumptions reads_have_channel_dtype.
Print Assumptions empty_results_same_dtype.
Print Assumptions timestamp_dtype.
Print Assumptions string_dtype.
Print Assumptions dtype_agrees_refuted_D8.
Print Assumptions dtype_agrees_refuted_D9.
Print Assumptions dtype_agrees_refuted_D11.
Print Assumptions dtype_agrees_refuted_D12.
Print Assumptions nonnumeric_arith_refuted.
