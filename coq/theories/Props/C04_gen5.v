(* C04 (companion) — the translated per-chunk lazy loop (Props/C04_gen4.v; Gen/PyFuncsLazySeg.v, translated from
   nptdms/tdms_segment.py TdmsSegment.read_raw_data_for_channel / _read_channel_data_chunks on every run) AGAINST THE VIEW the
   hand model reads from: Model/LazyBytes.v segv_of and Model/LazyRead.v seg_fetch.  Statements only; proofs:
   Proofs/GenLazySegView.v.  This closes gaps (1) and (2) of the header of Props/C04_gen4.v and gives the loop theorem of (3).

   WHAT IS PROVED.
   * [chunk_view_is_view_entry_translated]  the POSITIONAL view of Props/C04_gen4.v -- the channel's values the sequential
     decoder reads when chunk ci starts at data_position + chunk_size * ci -- is chunk_at sv ci, the ci-th entry of
     sv_vals (segv_of data path s);
   * [contig_read_raw_data_for_channel_translated]  on a contiguous segment the translated
     TdmsSegment.read_raw_data_for_channel(f, path, chunk_offset, num_chunks) returns exactly the chunks
     seg_fetch (segv_of data path s) chunk_offset num_chunks returns (after the empty chunk of a segment without kTocRawData),
     leaves the file's bytes alone and the position at the start of the chunk after the last one read.  All data types,
     strings included (no restriction to fixed width was needed).
   HYPOTHESES (beyond those of Props/C04_gen4.v contig_read_raw_data_for_channel_translated_partial):
     - segv_of data path s = Ok sv with sv_chunk sv <> 0: the channel has values in this segment -- Model/LazyRead.v lz_loop
       calls seg_fetch for no other segment (a segment with sv_chunk = 0 is skipped);
     - the request ends inside the segment (stop <= num_chunks; seg_fetch is an error outside, the code would read foreign bytes);
     - the paths of the segment's data objects are distinct (segv_of takes the LAST listing of a path in a chunk dictionary, the
       seek-over walk the FIRST: finding F1 of DESIGN 13.6);
     - [chunks_aligned]: every chunk BEFORE the last one of the request occupies exactly chunk_size bytes, i.e. decoding chunk j
       sequentially from data_position + chunk_size * j ends at data_position + chunk_size * (j + 1) (for j + 1 < stop).  This is
       the semantic form of "the declared sizes are the real sizes" for whole chunks; [chunks_aligned_serialised] derives it
       for serialised segments.
   The Example instantiates every hypothesis on the real file of Props/C01_gen5.v opened with the object index
   (string channel b, chunk 1 of the contiguous segment) and obtains the generator's result THROUGH the theorem.

   * [chunks_aligned_serialised]  [chunks_aligned] HOLDS on serialised contiguous segments (the se_contig case of
     Proofs/ReadCorrect.v seg_encodes, the domain of Props/C03_read.v lazy_is_window_of_eager): any lead-in, the encoded chunks
     (Proofs/LayoutProofs.v enc_chunks) of values of the declared numbers and sizes, anything behind them, distinct paths, no
     final-chunk override.
   * [interleaved_read_raw_data_for_channel_translated]  (gap (2) of Props/C04_gen4.v) INTERLEAVED segments, ANY chunk offset
     co >= 0: the translated read_raw_data_for_channel returns the ONE chunk seg_fetch returns on the view segv_of computes
     -- the concatenation of entries co .. stop-1 of split_chunks of the whole column --, and leaves the file at
     data_position + chunk_size * co + chunk_size (one re-seek).  Hypotheses: the channel has values here (0 < sv_chunk sv),
     chunk_size = row width * values per chunk (Proofs/LayoutProofs.v interleaved_chunk_bytes gives it from
     data_size = number_values * size), co <= stop <= num_chunks, and the bytes of the request are in the file
     (data_position + chunk_size * stop <= len).  No distinct-paths hypothesis is needed here.
   * DAQmx segments (gap (3)): [daqmx_read_channel_data_chunks_translated] the loop with its re-seeks, and
     [daqmx_read_raw_data_for_channel_translated_partial]: chunk ci of the request is the channel's entry (data or scaler
     dictionary; None = RawChannelDataChunk.empty()) of the chunk Model/Layout.v read_daqmx_chunk decodes WHOLE at
     data_position + chunk_size * ci; the file ends at the start of the chunk after the last one read.  Domain
     Proofs/GenDaqmxEquiv.v daqmx_objs_ok.  [daqmx_chunk_view_is_segment_entry_translated]: under [dq_chunks_aligned] that entry
     is the entry of the ci-th chunk the EAGER Model/Reader.v read_segment decodes.
     PARTIAL because there is nothing to compare with on the lazy side: Model/LazyBytes.v segv_of has no view of scaler
     dictionaries (chunk_vals ignores CScalers; "DAQmx scalers are not windows of a single value list"), so no seg_fetch
     statement exists for DAQmx segments; and [dq_chunks_aligned] is not derived for serialised DAQmx segments.
   * [contig_read_raw_data_for_channel_serialised_translated]  the contiguous theorem with BOTH semantic hypotheses
     ([sizes_real] of Props/C04_gen4.v and [chunks_aligned]) DISCHARGED for a serialised segment: the file is any lead-in, then
     enc_chunks of values of the declared numbers/sizes (vals_ok, dsize_ok: the se_contig case of seg_encodes), valid UTF-8
     strings (decode_neutral), then anything; data_position = length of the lead-in, num_chunks = number of encoded chunks, no
     final-chunk override (complete segments; a truncated last chunk is not covered by this corollary, only by the general
     theorem through its semantic hypotheses).  What remains hypotheses are facts about the segment's metadata only (layout, chunk
     size = sum of data sizes, known data types, distinct paths) and segv_of = Ok sv with sv_chunk sv <> 0.
   * [contig_read_raw_data_for_channel_seg_at_translated]  the same in the vocabulary of Props/C03_read.v /
     Proofs/ReadCorrect.v: the file is pre0 ++ ser_seg TAG_DATA true s ++ rest for a well-formed syntactic segment s whose raw
     data are encoded chunks (the se_contig case of seg_encodes g (fs_data s) _), and g is the record the metadata pass builds
     for s at offset |pre0| (seg_at): data_position, num_chunks = number of encoded chunks and "no final-chunk override" are
     now DERIVED (calculate_chunks on a whole number of chunks).
     NOT done: the quantification over the segments of ser_file segs from (wf_file segs, sm_run segs false = Ok st,
     segs_encode (rs_segments st) segs chunkss) -- i.e. splitting ser_file segs around its k-th segment (segs_at) and obtaining
     obj_ok / get_chunk_size_gen / sv_chunk <> 0 from the metadata pass.
   The interleaved Example is a 3-chunk, 2-channel segment (request chunk 1 of 3); the same request on a real file built with
   the same rows was run against /repo: values [0x13, 0x14], f.tell() = data_position + 32.  The DAQmx Example is the
   big-endian segment of Props/C11.v behind a lead-in tag (channel /b, chunk 1 of 2). *)
From Coq Require Import String Ascii.
From Coq Require Import List ZArith.
Import ListNotations.
From NpTdms Require Import Base.Bytes Base.Res Base.PySlice Model.Tokens Model.SegState Model.Layout Model.Reader Model.FileSyn
     Model.LazyRead Model.LazyBytes
     Gen.PyFuncsReader Gen.PyFuncsDecode Gen.PyFuncsDaqmxRead Gen.PyFuncsDaqmxLoop Gen.PyFuncsEagerLoop Gen.PyFuncsLazySeg
     Proofs.LayoutProofs Proofs.FileSynProofs Proofs.ReadCorrect Proofs.DaqmxProofs Proofs.GenReaderEquiv Proofs.GenDecodeEquiv Proofs.GenDecodeRecv Proofs.GenDaqmxEquiv
     Proofs.GenDaqmxLoopEquiv Proofs.GenEagerEquiv Proofs.GenLazySegEquiv Proofs.GenLazySegView.
Local Open Scope Z_scope.

Theorem chunk_view_is_view_entry_translated : forall s data path sv cs stop ci,
    segv_of data path s = Ok sv -> sv_chunk sv <> 0 -> seg_layout s = Ok LContig ->
    NoDup (map so_path (data_objs (sg_objs s))) ->
    chunks_aligned (toc_endian (sg_toc s)) (data_objs (sg_objs s)) (sg_nchunks s) (sg_final s) data (sg_data s) cs stop ->
    0 <= ci < stop -> stop <= sg_nchunks s ->
    chunk_view (toc_endian (sg_toc s)) (data_objs (sg_objs s)) (sg_nchunks s) (sg_final s) path data (sg_data s + cs * ci) ci
    = chunk_at bytes sv ci.
Proof. exact chunk_view_is_view_entry. Qed.

Theorem contig_read_raw_data_for_channel_translated : forall sg data p0 path co nc cs sv,
    seg_layout sg = Ok LContig -> get_chunk_size_gen sg = Ok cs ->
    0 <= sg_data sg -> 0 <= cs -> 0 <= co ->
    Forall obj_ok (data_objs (sg_objs sg)) ->
    let e := toc_endian (sg_toc sg) in
    let objs := data_objs (sg_objs sg) in
    let stop := match nc with None => sg_nchunks sg | Some n => n + co end in
    (forall ci, co <= ci < stop ->
                Forall (fun o => 0 <= chunk_nvals o ci (sg_nchunks sg) (sg_final sg)) objs /\
                sizes_real e objs ci (sg_nchunks sg) (sg_final sg) path (drop (sg_data sg + cs * ci) data)) ->
    segv_of data path sg = Ok sv -> sv_chunk sv <> 0 ->
    NoDup (map so_path objs) ->
    chunks_aligned e objs (sg_nchunks sg) (sg_final sg) data (sg_data sg) cs stop ->
    stop <= sg_nchunks sg ->
    mapr (fun p => (chunks_values (fst p), pf_data (snd p), pf_pos (snd p)))
         (segment_read_raw_data_for_channel_gen sg (mkPf data p0) path co nc)
    = mapr (fun vss => (Some ((if toc_has (sg_toc sg) TOC_RAW then [] else [[]]) ++ vss), data,
                        if stop <=? co then sg_data sg + cs * co else sg_data sg + cs * stop))
           (seg_fetch bytes sv co (match nc with None => sg_nchunks sg - co | Some n => n end)).
Proof. exact contig_read_raw_data_for_channel_view. Qed.

Theorem chunks_aligned_serialised : forall e objs nc pre css rest stop,
    NoDup (map so_path objs) ->
    Forall (fun vss => Forall2 (fun o vs => vals_ok (so_nvals o) o vs) objs vss) css ->
    Forall (Forall2 (dsize_ok e) objs) css ->
    stop <= Z.of_nat (length css) + 1 ->
    chunks_aligned e objs nc None (pre ++ enc_chunks e objs css ++ rest) (blen pre) (zsum (map so_dsize objs)) stop.
Proof. exact chunks_aligned_encoded. Qed.

Theorem contig_read_raw_data_for_channel_serialised_translated : forall sg pre css rest p0 path co nc sv,
    let e := toc_endian (sg_toc sg) in
    let objs := data_objs (sg_objs sg) in
    let cs := zsum (map so_dsize objs) in
    let data := (pre ++ enc_chunks e objs css ++ rest)%list in
    let stop := match nc with None => sg_nchunks sg | Some n => n + co end in
    seg_layout sg = Ok LContig -> get_chunk_size_gen sg = Ok cs -> 0 <= cs ->
    sg_data sg = blen pre -> sg_nchunks sg = Z.of_nat (length css) -> sg_final sg = None ->
    0 <= co -> Forall obj_ok objs -> NoDup (map so_path objs) ->
    Forall (fun vss => Forall2 (fun o vs => vals_ok (so_nvals o) o vs) objs vss) css ->
    Forall (Forall2 (dsize_ok e) objs) css ->
    Forall (Forall2 decode_neutral objs) css ->
    segv_of data path sg = Ok sv -> sv_chunk sv <> 0 -> stop <= sg_nchunks sg ->
    mapr (fun p => (chunks_values (fst p), pf_data (snd p), pf_pos (snd p)))
         (segment_read_raw_data_for_channel_gen sg (mkPf data p0) path co nc)
    = mapr (fun vss => (Some ((if toc_has (sg_toc sg) TOC_RAW then [] else [[]]) ++ vss), data,
                        if stop <=? co then sg_data sg + cs * co else sg_data sg + cs * stop))
           (seg_fetch bytes sv co (match nc with None => sg_nchunks sg - co | Some n => n end)).
Proof. exact contig_read_raw_data_for_channel_serialised. Qed.

Theorem contig_read_raw_data_for_channel_seg_at_translated : forall g s pre0 css rest p0 path co nc sv,
    let e := toc_endian (sg_toc g) in
    let objs := data_objs (sg_objs g) in
    let cs := zsum (map so_dsize objs) in
    let data := (pre0 ++ ser_seg TAG_DATA true s ++ rest)%list in
    let stop := match nc with None => sg_nchunks g | Some n => n + co end in
    FileSynProofs.wf_fseg s = true -> seg_at (blen pre0) s g ->
    seg_layout g = Ok LContig -> get_chunk_size_gen g = Ok cs -> 0 < cs ->
    fs_data s = enc_chunks e objs css ->
    0 <= co -> Forall obj_ok objs -> NoDup (map so_path objs) ->
    Forall (fun vss => Forall2 (fun o vs => vals_ok (so_nvals o) o vs) objs vss) css ->
    Forall (Forall2 (dsize_ok e) objs) css ->
    Forall (Forall2 decode_neutral objs) css ->
    segv_of data path g = Ok sv -> sv_chunk sv <> 0 -> stop <= sg_nchunks g ->
    mapr (fun p => (chunks_values (fst p), pf_data (snd p), pf_pos (snd p)))
         (segment_read_raw_data_for_channel_gen g (mkPf data p0) path co nc)
    = mapr (fun vss => (Some ((if toc_has (sg_toc g) TOC_RAW then [] else [[]]) ++ vss), data,
                        if stop <=? co then sg_data g + cs * co else sg_data g + cs * stop))
           (seg_fetch bytes sv co (match nc with None => sg_nchunks g - co | Some n => n end)).
Proof. exact contig_read_raw_data_for_channel_seg_at. Qed.

Theorem interleaved_read_raw_data_for_channel_translated : forall sg data p0 path co nc cs sv,
    seg_layout sg = Ok LInterleaved -> get_chunk_size_gen sg = Ok cs ->
    0 <= sg_data sg -> 0 <= co ->
    let e := toc_endian (sg_toc sg) in
    let objs := data_objs (sg_objs sg) in
    let stop := match nc with None => sg_nchunks sg | Some n => n + co end in
    Forall (fun o => sized o <> None) objs ->
    segv_of data path sg = Ok sv -> 0 < sv_chunk sv ->
    cs = zsum (map size_or0 objs) * sv_chunk sv ->
    co <= stop -> stop <= sg_nchunks sg ->
    sg_data sg + cs * stop <= blen data ->
    mapr (fun p => (chunks_values (fst p), pf_data (snd p), pf_pos (snd p)))
         (segment_read_raw_data_for_channel_gen sg (mkPf data p0) path co nc)
    = mapr (fun vss => (Some ((if toc_has (sg_toc sg) TOC_RAW then [] else [[]]) ++ vss), data, sg_data sg + cs * co + cs))
           (seg_fetch bytes sv co (match nc with None => sg_nchunks sg - co | Some n => n end)).
Proof. exact interleaved_read_raw_data_for_channel_view. Qed.

Theorem daqmx_read_channel_data_chunks_translated : forall sg objs path data pos co stop cs,
    seg_layout sg = Ok LDaqmx -> 0 <= pos -> 0 <= cs -> daqmx_objs_ok objs ->
    mapr (fun p => (chunks_entries (fst p), pf_data (snd p), pf_pos (snd p)))
         (segment_read_channel_data_chunks_gen sg (mkPf data pos) objs path co stop cs)
    = mapr (fun vs => (Some vs, data, match py_range co stop with [] => pos | _ => pos + zlen (py_range co stop) * cs end))
           (dq_pos_chunks (toc_endian (sg_toc sg)) objs path data pos cs (py_range co stop) 0).
Proof. exact daqmx_read_channel_data_chunks_eq. Qed.

Theorem daqmx_read_raw_data_for_channel_translated_partial : forall sg data p0 path co nc cs,
    seg_layout sg = Ok LDaqmx -> get_chunk_size_gen sg = Ok cs ->
    0 <= sg_data sg -> 0 <= cs -> 0 <= co ->
    daqmx_objs_ok (data_objs (sg_objs sg)) ->
    let e := toc_endian (sg_toc sg) in
    let objs := data_objs (sg_objs sg) in
    let stop := match nc with None => sg_nchunks sg | Some n => n + co end in
    mapr (fun p => (chunks_entries (fst p), pf_data (snd p), pf_pos (snd p)))
         (segment_read_raw_data_for_channel_gen sg (mkPf data p0) path co nc)
    = mapr (fun vs => (Some ((if toc_has (sg_toc sg) TOC_RAW then [] else [None]) ++ vs), data,
                       if stop <=? co then sg_data sg + cs * co else sg_data sg + cs * stop))
           (mapM (fun ci => dq_chunk_view e objs path data (sg_data sg + cs * ci)) (py_range co stop)).
Proof. exact daqmx_read_raw_data_for_channel_eq. Qed.

Theorem daqmx_chunk_view_is_segment_entry_translated : forall s data path chunks cs stop ci,
    read_segment data s = Ok chunks -> seg_layout s = Ok LDaqmx ->
    dq_chunks_aligned (toc_endian (sg_toc s)) (data_objs (sg_objs s)) data (sg_data s) cs stop ->
    0 <= ci < stop -> stop <= sg_nchunks s ->
    exists c, nth_error chunks (Z.to_nat ci) = Some c /\
              dq_chunk_view (toc_endian (sg_toc s)) (data_objs (sg_objs s)) path data (sg_data s + cs * ci) = Ok (alookup path c).
Proof. exact dq_chunk_view_is_segment_entry. Qed.

Section Examples.
Import String.
Local Open Scope string_scope.
Example c04_gen5_hypotheses :
  (seg_layout ex_segx = Ok LContig /\ get_chunk_size_gen ex_segx = Ok 14 /\ Forall obj_ok (data_objs (sg_objs ex_segx)) /\
   (forall ci, 1 <= ci < sg_nchunks ex_segx ->
               Forall (fun o => 0 <= chunk_nvals o ci (sg_nchunks ex_segx) (sg_final ex_segx)) (data_objs (sg_objs ex_segx)) /\
               sizes_real (toc_endian (sg_toc ex_segx)) (data_objs (sg_objs ex_segx)) ci (sg_nchunks ex_segx) (sg_final ex_segx)
                          ex_path_b (drop (sg_data ex_segx + 14 * ci) ex_file))) /\
  (segv_of ex_file ex_path_b ex_segx = Ok ex_view_b /\ sv_chunk ex_view_b <> 0 /\
   sv_vals ex_view_b = [[hex "6869"]; [hex "796f"]] /\
   NoDup (map so_path (data_objs (sg_objs ex_segx))) /\
   chunks_aligned (toc_endian (sg_toc ex_segx)) (data_objs (sg_objs ex_segx)) (sg_nchunks ex_segx) (sg_final ex_segx)
                  ex_file (sg_data ex_segx) 14 (sg_nchunks ex_segx) /\
   seg_fetch bytes ex_view_b 1 (sg_nchunks ex_segx - 1) = Ok [[hex "796f"]]).
Proof. exact (conj ex_view_base_hyps ex_view_hyps). Qed.

Example c04_gen5_example :
  mapr (fun p => (chunks_values (fst p), pf_data (snd p), pf_pos (snd p)))
       (segment_read_raw_data_for_channel_gen ex_segx (mkPf ex_file 7) ex_path_b 1 None)
  = Ok (Some [[hex "796f"]], ex_file, 140).
Proof. exact ex_view_gen. Qed.

Example c04_gen5_interleaved_hypotheses :
  seg_layout ex_il_seg = Ok LInterleaved /\ get_chunk_size_gen ex_il_seg = Ok 16 /\
  Forall (fun o => sized o <> None) (data_objs (sg_objs ex_il_seg)) /\
  segv_of ex_il_data ex_il_pb ex_il_seg = Ok ex_il_view /\ 0 < sv_chunk ex_il_view /\
  16 = zsum (map size_or0 (data_objs (sg_objs ex_il_seg))) * sv_chunk ex_il_view /\
  sg_data ex_il_seg + 16 * (1 + 1) <= blen ex_il_data /\
  sv_vals ex_il_view = [[hex "11000000"; hex "12000000"]; [hex "13000000"; hex "14000000"]; [hex "15000000"; hex "16000000"]] /\
  seg_fetch bytes ex_il_view 1 1 = Ok [[hex "13000000"; hex "14000000"]].
Proof. exact ex_il_hyps. Qed.

Example c04_gen5_interleaved_example :
  mapr (fun p => (chunks_values (fst p), pf_data (snd p), pf_pos (snd p)))
       (segment_read_raw_data_for_channel_gen ex_il_seg (mkPf ex_il_data 0) ex_il_pb 1 (Some 1))
  = Ok (Some [[hex "13000000"; hex "14000000"]], ex_il_data, 36).
Proof. exact ex_il_gen. Qed.

Example c04_gen5_daqmx_hypotheses :
  seg_layout ex_dq_seg = Ok LDaqmx /\ get_chunk_size_gen ex_dq_seg = Ok 17 /\
  daqmx_objs_ok (data_objs (sg_objs ex_dq_seg)) /\
  dq_chunks_aligned (toc_endian (sg_toc ex_dq_seg)) (data_objs (sg_objs ex_dq_seg)) ex_dq_data (sg_data ex_dq_seg) 17 2 /\
  (exists chunks, read_segment ex_dq_data ex_dq_seg = Ok chunks /\
                  option_map (alookup (hex "2f2762")) (nth_error chunks 1) = Some (Some (CScalers [(0, [hex "04"; hex "ff"; hex "01"])]))).
Proof. exact ex_dq_hyps. Qed.

Example c04_gen5_daqmx_example :
  mapr (fun p => (chunks_entries (fst p), pf_data (snd p), pf_pos (snd p)))
       (segment_read_raw_data_for_channel_gen ex_dq_seg (mkPf ex_dq_data 0) (hex "2f2762") 1 None)
  = Ok (Some [Some (CScalers [(0, [hex "04"; hex "ff"; hex "01"])])], ex_dq_data, 38).
Proof. exact ex_dq_gen. Qed.

Example c04_gen5_serialised_hypotheses :
  NoDup (map so_path ex_en_objs) /\
  Forall (fun vss => Forall2 (fun o vs => vals_ok (so_nvals o) o vs) ex_en_objs vss) ex_en_css /\
  Forall (Forall2 (dsize_ok LE) ex_en_objs) ex_en_css /\
  zsum (map so_dsize ex_en_objs) = 14 /\
  enc_chunks LE ex_en_objs ex_en_css = hex "0100000002000000020000006869030000000400000002000000796f".
Proof. exact ex_en_hyps. Qed.

Example c04_gen5_serialised_segment_hypotheses :
  seg_layout ex_en_seg = Ok LContig /\
  get_chunk_size_gen ex_en_seg = Ok (zsum (map so_dsize (data_objs (sg_objs ex_en_seg)))) /\
  Forall obj_ok (data_objs (sg_objs ex_en_seg)) /\
  Forall (Forall2 decode_neutral (data_objs (sg_objs ex_en_seg))) ex_en_css /\
  segv_of ex_en_data (hex "2f2762") ex_en_seg = Ok ex_en_view /\ sv_chunk ex_en_view <> 0 /\
  sv_vals ex_en_view = [[hex "6869"]; [hex "796f"]].
Proof. exact ex_en_seg_hyps. Qed.

Example c04_gen5_serialised_example :
  mapr (fun p => (chunks_values (fst p), pf_data (snd p), pf_pos (snd p)))
       (segment_read_raw_data_for_channel_gen ex_en_seg (mkPf ex_en_data 0) (hex "2f2762") 1 None)
  = Ok (Some [[hex "796f"]], ex_en_data, 32).
Proof. exact ex_en_gen. Qed.

Example c04_gen5_seg_at_hypotheses :
  FileSynProofs.wf_fseg ex_at_s = true /\ seg_at (blen []) ex_at_s ex_at_g /\
  seg_layout ex_at_g = Ok LContig /\
  get_chunk_size_gen ex_at_g = Ok (zsum (map so_dsize (data_objs (sg_objs ex_at_g)))) /\
  fs_data ex_at_s = enc_chunks (toc_endian (sg_toc ex_at_g)) (data_objs (sg_objs ex_at_g)) ex_en_css /\
  segv_of ex_at_data (hex "2f2762") ex_at_g = Ok ex_at_view /\ sv_chunk ex_at_view <> 0 /\
  sv_vals ex_at_view = [[hex "6869"]; [hex "796f"]].
Proof. exact ex_at_hyps. Qed.

Example c04_gen5_seg_at_example :
  mapr (fun p => (chunks_values (fst p), pf_data (snd p), pf_pos (snd p)))
       (segment_read_raw_data_for_channel_gen ex_at_g (mkPf ex_at_data 0) (hex "2f2762") 1 None)
  = Ok (Some [[hex "796f"]], ex_at_data, 56).
Proof. exact ex_at_gen. Qed.
End Examples.

Print Assumptions chunk_view_is_view_entry_translated.
Print Assumptions contig_read_raw_data_for_channel_translated.
Print Assumptions c04_gen5_hypotheses.
Print Assumptions c04_gen5_example.
Print Assumptions chunks_aligned_serialised.
Print Assumptions interleaved_read_raw_data_for_channel_translated.
Print Assumptions daqmx_read_channel_data_chunks_translated.
Print Assumptions daqmx_read_raw_data_for_channel_translated_partial.
Print Assumptions daqmx_chunk_view_is_segment_entry_translated.
Print Assumptions c04_gen5_interleaved_hypotheses.
Print Assumptions c04_gen5_interleaved_example.
Print Assumptions c04_gen5_daqmx_hypotheses.
Print Assumptions c04_gen5_daqmx_example.
Print Assumptions c04_gen5_serialised_hypotheses.
Print Assumptions contig_read_raw_data_for_channel_serialised_translated.
Print Assumptions c04_gen5_serialised_segment_hypotheses.
Print Assumptions c04_gen5_serialised_example.
Print Assumptions contig_read_raw_data_for_channel_seg_at_translated.
Print Assumptions c04_gen5_seg_at_hypotheses.
Print Assumptions c04_gen5_seg_at_example.
