(* C06 (value level) — a file cut short by a crash reads as a prefix of the
   complete file: the decoded VALUES.

   Statements only; proofs: Proofs/TruncValuesLayout.v (L1, decoders),
   Proofs/TruncValuesFile.v (L2 file level, L3 status),
   Proofs/TruncValuesExamples.v (instances).  Props/C06.v has the arithmetic and
   the segment list of a cut file; Props/C01_read.v the complete file.

   MAIN THEOREM  truncation_values_prefix.  Hypotheses: exactly those of
   C01_read.read_correct for the file syntax [segs] (wf_file; the metadata pass
   sm_run and build_hierarchy succeed on the COMPLETE file; every raw data block
   is the contiguous / interleaved encoding of the chunk values [chunkss] for the
   object list the pass computed; channel paths canonical; typed objects are
   channels) and a cut offset 4 <= k <= blen (ser_file segs).  Conclusion: there
   are a reader state [stc], a hierarchy [hc] and chunks [chunks_c] such that

     rd_all (take k (ser_file segs)) = Ok (expected_tokens stc hc chunks_c, true)

   i.e. reading the cut BYTES does not fail, the observation is version ::
   hierarchy [hc] with, for each typed channel c, the data
   CData (chan_values (ch_path c) chunks_c) :: file status of [stc], and the
   [true] says every receiver got exactly len(channel) values; and

   (hierarchy)  hc is, up to the channel lengths ([hier_sim]: same root
                properties, same groups in the same order with the same
                properties, same channels in the same order with the same names,
                paths, data types and properties), the hierarchy of the run
                sm_run (firstn (meta_count 0 segs k) segs): the segments whose
                lead-in and metadata lie wholly before the cut — properties
                written by later segments are not seen, nothing else changes;
   (prefix)     for every path p, chan_values p chunks_c is a prefix of
                chan_values p (concat chunkss), the channel's values in the
                complete file ...
   (no loss)    ... and has chan_values p (concat (firstn (whole_count 0 segs k)
                chunkss)) as a prefix: every value of the segments lying wholly
                before the cut (end <= k) is there;
   (length)     for every channel c of hc, ch_len c = the number of values
                returned, length (chan_values (ch_path c) chunks_c);
   (status)     obs_status stc starts with TZ 1 exactly when [cut_in_data 0 segs k]:
                the cut lies in some segment's raw data, data position <= k < end
                ([cut_in_data_spec]); this is file_status.incomplete_final_segment.

   Not assumed: that anything about the cut file succeeds.  In particular the
   metadata pass accepts EVERY cut of a file it accepts, whatever the raw data
   is, DAQmx included ([cut_calculate_chunks_ok], [cut_metadata_succeeds]).
   No model failure was found: no exclusion hypothesis was needed.

   Layers, each stated below:
   L1  cut_segment_decodes (from cut_contig_decodes, cut_interleaved_decodes): a
       segment whose raw data block encodes [chunks], cut to its first j bytes, is
       decoded by read_segment_chunks — with the chunk count and final-chunk
       override _calculate_chunks computes for j bytes and the incomplete flag —
       into chunks whose values are, per path, a prefix of those of [chunks], in
       number exactly what the metadata pass credits (seg_total).  What happens
       to the partial chunk: contiguous with a string channel among the data
       objects: nobody gets a value from it (override = {}); contiguous, sized
       types: whole leading channels, the complete values of the first channel
       that does not fit, nothing for later channels; interleaved: complete rows.
   L2  rd_metadata_cut: the metadata pass on the cut BYTES is the function
       cut_loop of the syntax and the cut offset; cut_metadata_succeeds: it
       succeeds and finds the records [cut_segs]: those of the complete file for
       segments wholly before the cut, then the cut record (same objects,
       incomplete, chunk arithmetic for the surviving bytes) when the cut is in
       raw data; build_hierarchy_sim: the hierarchy depends on the per-object
       metadata only up to lengths.
   L3  the status clause above.

   NOT covered (stated, not hidden):
   - lazy reads (TdmsFile.open) of the cut file: lazy = eager is C03/C04's window
     theorem on the model and is checked on the implementation for every cut by
     ./check C06; it is not re-proved here;
   - DAQmx segments, contiguous segments of chunk size 0 with data objects, and
     a last lead-in carrying the length-unknown marker: they are outside
     seg_encodes / ser_file, exactly as for C01_read.read_correct;
   - the rest of file_status (the per-channel expected/read lengths) is part of
     expected_tokens via obs_status stc but is not characterised separately.

   Replay on the implementation: every cut offset 4..len of the three example
   files below (618 cut files) was read with PYTHONPATH=/repo nptdms (eager and
   lazy) and compared token by token with rd_all evaluated in Coq: all agree
   (dev/c06_values_replay.py). *)
From Coq Require Import List ZArith.
Import ListNotations.
From NpTdms Require Import Base.Bytes Base.Res Model.Tokens Model.TokensWf Model.SegState
     Model.Layout Model.Reader Model.FileSyn Proofs.LayoutProofs Proofs.FileSynProofs
     Proofs.TruncProofs Proofs.ReadCorrect Proofs.TruncValuesLayout Proofs.TruncValuesFile
     Proofs.TruncValuesExamples.
Local Open Scope Z_scope.

(* ---- L1: the decoders on a truncated raw data block ---------------------------- *)

(* cutting a byte string made of sz-byte blocks: whole blocks, then part of one *)
Theorem take_blocks : forall {X} (enc : X -> bytes) (sz : Z),
    0 < sz -> forall (xs : list X) (j : Z),
      Forall (fun x => blen (enc x) = sz) xs ->
      0 <= j <= Z.of_nat (length xs) * sz ->
      take j (flat_map enc xs) =
      flat_map enc (firstn (Z.to_nat (j / sz)) xs) ++
      take (j mod sz) (match nth_error xs (Z.to_nat (j / sz)) with Some x => enc x | None => [] end).
Proof. exact @TruncValuesLayout.take_blocks. Qed.

(* _calculate_chunks never fails on a shorter length (any object list) *)
Theorem cut_calculate_chunks_ok : forall toc inc inc' objs total j x,
    calculate_chunks toc inc objs total = Ok x ->
    0 <= j <= total ->
    exists y, calculate_chunks toc inc' objs j = Ok y.
Proof. exact TruncValuesLayout.cut_calculate_chunks_ok. Qed.

Theorem cut_contig_decodes : forall g gc css j,
    seg_layout g = Ok LContig ->
    0 < zsum (map so_dsize (data_objs (sg_objs g))) ->
    NoDup (map so_path (data_objs (sg_objs g))) ->
    Forall (fun vss => Forall2 (fun o vs => vals_ok (so_nvals o) o vs) (data_objs (sg_objs g)) vss) css ->
    Forall (Forall2 (dsize_ok (toc_endian (sg_toc g))) (data_objs (sg_objs g))) css ->
    0 <= j < blen (enc_chunks (toc_endian (sg_toc g)) (data_objs (sg_objs g)) css) ->
    sg_toc gc = sg_toc g -> sg_objs gc = sg_objs g ->
    calculate_chunks (sg_toc g) true (sg_objs g) j = Ok (sg_nchunks gc, sg_final gc) ->
    exists chunks' leftover,
      read_segment_chunks gc (take j (enc_chunks (toc_endian (sg_toc g)) (data_objs (sg_objs g)) css))
      = Ok (chunks', leftover) /\
      Forall only_cdata chunks' /\
      (forall c kv, In c chunks' -> In kv c ->
                    exists o, In o (sg_objs g) /\ so_path o = fst kv /\ so_dtype o <> None) /\
      (forall p, is_prefix (chan_values p chunks')
                           (chan_values p (map (fun vss => chunk_of (combine (data_objs (sg_objs g)) vss)) css))) /\
      (forall p, Z.of_nat (length (chan_values p chunks')) = seg_total p gc).
Proof. exact TruncValuesLayout.cut_contig_decodes. Qed.

Theorem cut_interleaved_decodes : forall g gc nv m rows j,
    seg_layout g = Ok LInterleaved ->
    data_objs (sg_objs g) <> [] -> 0 < nv -> 0 <= m ->
    Forall (fun o => so_nvals o = nv /\ so_dsize o = so_nvals o * size_or0 o) (data_objs (sg_objs g)) ->
    Forall (fun o => sized o <> None) (data_objs (sg_objs g)) ->
    NoDup (map so_path (data_objs (sg_objs g))) ->
    Forall (row_ok (data_objs (sg_objs g))) rows ->
    Z.of_nat (length rows) = nv * m ->
    0 <= j < blen (enc_rows (toc_endian (sg_toc g)) (data_objs (sg_objs g)) rows) ->
    sg_toc gc = sg_toc g -> sg_objs gc = sg_objs g ->
    calculate_chunks (sg_toc g) true (sg_objs g) j = Ok (sg_nchunks gc, sg_final gc) ->
    exists chunks' leftover,
      read_segment_chunks gc (take j (enc_rows (toc_endian (sg_toc g)) (data_objs (sg_objs g)) rows))
      = Ok (chunks', leftover) /\
      Forall only_cdata chunks' /\
      (forall c kv, In c chunks' -> In kv c ->
                    exists o, In o (sg_objs g) /\ so_path o = fst kv /\ so_dtype o <> None) /\
      (forall p, is_prefix (chan_values p chunks')
                           (chan_values p [cols_of (data_objs (sg_objs g)) rows])) /\
      (forall p, Z.of_nat (length (chan_values p chunks')) = seg_total p gc).
Proof. exact TruncValuesLayout.cut_interleaved_decodes. Qed.

(* any encoded raw data block, any cut strictly inside it *)
Theorem cut_segment_decodes : forall g gc data chunks j,
    seg_encodes g data chunks ->
    0 <= j < blen data ->
    sg_toc gc = sg_toc g -> sg_objs gc = sg_objs g ->
    calculate_chunks (sg_toc g) true (sg_objs g) j = Ok (sg_nchunks gc, sg_final gc) ->
    exists chunks' leftover,
      read_segment_chunks gc (take j data) = Ok (chunks', leftover) /\
      Forall only_cdata chunks' /\
      (forall c kv, In c chunks' -> In kv c ->
                    exists o, In o (sg_objs g) /\ so_path o = fst kv /\ so_dtype o <> None) /\
      (forall p, is_prefix (chan_values p chunks') (chan_values p chunks)) /\
      (forall p, Z.of_nat (length (chan_values p chunks')) = seg_total p gc).
Proof. exact TruncValuesLayout.cut_segment_decodes. Qed.

(* ---- L2: the metadata pass and the hierarchy of a cut file ---------------------- *)

(* reading the cut BYTES is [cut_loop] on the syntax *)
Theorem rd_metadata_cut : forall segs k w,
    wf_file segs -> 0 <= k <= blen (ser_file segs) ->
    rd_metadata (take k (ser_file segs)) false (Some k) w = cut_loop segs k w 0 None [] rstate0.
Proof. exact TruncValuesFile.rd_metadata_cut. Qed.

Theorem cut_metadata_succeeds : forall segs w st k,
    wf_file segs ->
    sm_run segs w = Ok st ->
    0 <= k <= blen (ser_file segs) ->
    exists stc gsc n,
      rd_metadata (take k (ser_file segs)) false (Some k) w = Ok stc /\
      rs_segments stc = gsc /\
      cut_segs 0 segs k (rs_segments st) gsc n /\
      n = whole_count 0 segs k /\
      (forall p, om_len (get_ometa p (rs_om stc)) = zsum (map (seg_total p) gsc)) /\
      om_ext (rs_om stc) (rs_om st).
Proof. exact TruncValuesFile.cut_metadata_succeeds. Qed.

(* the hierarchy depends on the per-object metadata only up to the lengths *)
Theorem build_hierarchy_sim : forall om om' h,
    om_sim om om' -> build_hierarchy om = Ok h ->
    exists h', build_hierarchy om' = Ok h' /\ hier_sim h h'.
Proof. exact TruncValuesFile.build_hierarchy_sim. Qed.

(* ---- L3: the meaning of the status flag ------------------------------------------ *)

Theorem cut_in_data_spec : forall segs pos k,
    cut_in_data pos segs k = true <->
    exists i s, nth_error segs i = Some s /\
                pos + seg_offset segs i + 28 + blen (fs_meta_bytes s) <= k
                < pos + seg_offset segs i + fseg_len s.
Proof. exact TruncValuesFile.cut_in_data_spec. Qed.

(* ---- the composed statement ------------------------------------------------------- *)

Theorem truncation_values_prefix : forall segs st h chunkss k,
    wf_file segs ->
    sm_run segs false = Ok st ->
    build_hierarchy (rs_om st) = Ok h ->
    segs_encode (rs_segments st) segs chunkss ->
    om_paths_canonical (rs_om st) ->
    typed_objects_are_channels (rs_om st) ->
    4 <= k <= blen (ser_file segs) ->
    exists stc hc chunks_c stp hp,
      rd_all (take k (ser_file segs)) = Ok (expected_tokens stc hc chunks_c, true) /\
      sm_run (firstn (meta_count 0 segs k) segs) false = Ok stp /\
      build_hierarchy (rs_om stp) = Ok hp /\
      hier_sim hc hp /\
      (forall p, is_prefix (chan_values p chunks_c) (chan_values p (concat chunkss)) /\
                 is_prefix (chan_values p (concat (firstn (whole_count 0 segs k) chunkss)))
                           (chan_values p chunks_c)) /\
      (forall c, In c (all_channels hc) ->
                 ch_len c = Z.of_nat (length (chan_values (ch_path c) chunks_c))) /\
      exists rest, obs_status stc = TZ (if cut_in_data 0 segs k then 1 else 0) :: rest.
Proof. exact TruncValuesFile.truncation_values_prefix. Qed.

(* the same from offset 0 (below 28 bytes the reader finds no segment), with the
   reader state named as the result of the metadata pass on the cut bytes *)
Theorem truncation_values_prefix_any_offset : forall segs st h chunkss k,
    wf_file segs ->
    sm_run segs false = Ok st ->
    build_hierarchy (rs_om st) = Ok h ->
    segs_encode (rs_segments st) segs chunkss ->
    om_paths_canonical (rs_om st) ->
    typed_objects_are_channels (rs_om st) ->
    0 <= k <= blen (ser_file segs) ->
    exists stc hc chunks_c,
      rd_metadata (take k (ser_file segs)) false (Some k) false = Ok stc /\
      build_hierarchy (rs_om stc) = Ok hc /\
      rd_all (take k (ser_file segs)) = Ok (expected_tokens stc hc chunks_c, true) /\
      (forall p, is_prefix (chan_values p chunks_c) (chan_values p (concat chunkss)) /\
                 is_prefix (chan_values p (concat (firstn (whole_count 0 segs k) chunkss)))
                           (chan_values p chunks_c)) /\
      (forall c, In c (all_channels hc) ->
                 ch_len c = Z.of_nat (length (chan_values (ch_path c) chunks_c))).
Proof. exact TruncValuesFile.truncation_values_prefix_any_offset. Qed.

(* ---- the hypotheses are satisfiable; the conclusion computes --------------------- *)

(* The theorem applies to every cut of the three example files: tv_file (int32 +
   int16 channels, contiguous, two segments), rc_file (int32 + STRING channels,
   two segments, the second without metadata), rc2_file (INTERLEAVED int16 + bool,
   then a metadata-only segment). *)
Example c06_values_applies_tv : forall k, 4 <= k <= blen (ser_file tv_file) ->
    exists stc hc chunks_c stp hp,
      rd_all (take k (ser_file tv_file)) = Ok (expected_tokens stc hc chunks_c, true) /\
      sm_run (firstn (meta_count 0 tv_file k) tv_file) false = Ok stp /\
      build_hierarchy (rs_om stp) = Ok hp /\
      hier_sim hc hp /\
      (forall p, is_prefix (chan_values p chunks_c) (chan_values p (concat tv_chunks)) /\
                 is_prefix (chan_values p (concat (firstn (whole_count 0 tv_file k) tv_chunks)))
                           (chan_values p chunks_c)) /\
      (forall c, In c (all_channels hc) ->
                 ch_len c = Z.of_nat (length (chan_values (ch_path c) chunks_c))) /\
      exists rest, obs_status stc = TZ (if cut_in_data 0 tv_file k then 1 else 0) :: rest.
Proof.
  exact (fun k => TruncValuesFile.truncation_values_prefix tv_file tv_st tv_h tv_chunks k
                    tv_wf tv_run tv_hier tv_encodes tv_canonical tv_typed_channels).
Qed.

Example c06_values_applies_rc : forall k, 4 <= k <= blen (ser_file rc_file) ->
    exists stc hc chunks_c,
      rd_metadata (take k (ser_file rc_file)) false (Some k) false = Ok stc /\
      build_hierarchy (rs_om stc) = Ok hc /\
      rd_all (take k (ser_file rc_file)) = Ok (expected_tokens stc hc chunks_c, true) /\
      (forall p, is_prefix (chan_values p chunks_c) (chan_values p (concat rc_chunks)) /\
                 is_prefix (chan_values p (concat (firstn (whole_count 0 rc_file k) rc_chunks)))
                           (chan_values p chunks_c)) /\
      (forall c, In c (all_channels hc) ->
                 ch_len c = Z.of_nat (length (chan_values (ch_path c) chunks_c))).
Proof.
  intros k Hk.
  apply (TruncValuesFile.truncation_values_prefix_any_offset rc_file rc_st rc_h rc_chunks k
           rc_wf rc_run rc_hier rc_encodes rc_canonical rc_typed_channels).
  split; [apply Z.le_trans with 4; [discriminate|apply Hk]|apply Hk].
Qed.

Example c06_values_applies_rc2 : forall k, 4 <= k <= blen (ser_file rc2_file) ->
    exists stc hc chunks_c,
      rd_metadata (take k (ser_file rc2_file)) false (Some k) false = Ok stc /\
      build_hierarchy (rs_om stc) = Ok hc /\
      rd_all (take k (ser_file rc2_file)) = Ok (expected_tokens stc hc chunks_c, true) /\
      (forall p, is_prefix (chan_values p chunks_c) (chan_values p (concat rc2_chunks)) /\
                 is_prefix (chan_values p (concat (firstn (whole_count 0 rc2_file k) rc2_chunks)))
                           (chan_values p chunks_c)) /\
      (forall c, In c (all_channels hc) ->
                 ch_len c = Z.of_nat (length (chan_values (ch_path c) chunks_c))).
Proof.
  intros k Hk.
  apply (TruncValuesFile.truncation_values_prefix_any_offset rc2_file rc2_st rc2_h rc2_chunks k
           rc2_wf rc2_run rc2_hier rc2_encodes rc2_canonical rc2_typed_channels).
  split; [apply Z.le_trans with 4; [discriminate|apply Hk]|apply Hk].
Qed.

(* Segment positions (position, data position, end, chunks) and the
   classification of the cut offsets used below: segments wholly before the cut,
   segments whose metadata is before the cut, cut inside raw data. *)
Example c06_values_geometry :
  (map (fun g => (sg_pos g, sg_data g, sg_next g, sg_nchunks g)) (rs_segments tv_st)
   = [(0, 133, 157, 2); (157, 185, 197, 1)] /\
   map (fun k => (k, whole_count 0 tv_file k, meta_count 0 tv_file k, cut_in_data 0 tv_file k))
       [152; 157; 170; 190; 197]
   = [(152, 0%nat, 1%nat, true); (157, 1%nat, 1%nat, false); (170, 1%nat, 1%nat, false);
      (190, 1%nat, 2%nat, true); (197, 2%nat, 2%nat, false)]) /\
  (map (fun g => (sg_pos g, sg_data g, sg_next g, sg_nchunks g)) (rs_segments rc_st)
   = [(0, 169, 207, 2); (207, 235, 254, 1)] /\
   map (fun k => (k, whole_count 0 rc_file k, meta_count 0 rc_file k, cut_in_data 0 rc_file k))
       [190; 207; 220; 250; 254]
   = [(190, 0%nat, 1%nat, true); (207, 1%nat, 1%nat, false); (220, 1%nat, 1%nat, false);
      (250, 1%nat, 2%nat, true); (254, 2%nat, 2%nat, false)]) /\
  (map (fun g => (sg_pos g, sg_data g, sg_next g, sg_nchunks g)) (rs_segments rc2_st)
   = [(0, 104, 113, 1); (113, 176, 176, 0)] /\
   map (fun k => (k, whole_count 0 rc2_file k, meta_count 0 rc2_file k, cut_in_data 0 rc2_file k))
       [108; 113; 150; 176]
   = [(108, 0%nat, 1%nat, true); (113, 1%nat, 1%nat, false); (150, 1%nat, 1%nat, false);
      (176, 2%nat, 2%nat, false)]).
Proof. exact (conj tv_geometry (conj rc_geometry rc2_geometry)). Qed.

Section Tokens.
Import String.
Local Open Scope string_scope.

(* rc_file cut at three offsets, both sides evaluated.
   190: inside segment 1's raw data, in the middle of a value of chunk 2 (a string
        channel is present, so the partial chunk gives nothing): a = 1,2 ;
        b = "ab","c" ; len 2 ; incomplete.
   207: the boundary between the segments;  220: inside the lead-in of segment 2
        (which has no metadata block): the content of segment 1, a = 1..4,
        b = "ab","c","","xyz", complete.
   The complete file has a = 1..6, b = "ab","c","","xyz","q","rs" (C01_read). *)
Example c06_values_rc_cut_mid_value :
  rd_all (take 190 (ser_file rc_file)) =
  Ok ([TZ 4713; TZ 0; TZ 1; TB (hex "67"); TZ 1; TB (hex "6e"); TZ 3; TB (hex "6869"); TZ 2;
       TB (hex "61"); TB (hex "67"); TB rc_path_a; TZ 3; TZ 2; TZ 1; TB (hex "70"); TZ 0; TZ 7;
       TZ 0; TZ 2; TB (hex "01000000"); TB (hex "02000000");
       TB (hex "62"); TB (hex "67"); TB rc_path_b; TZ 32; TZ 2; TZ 0;
       TZ 0; TZ 2; TB (hex "6162"); TB (hex "63");
       TZ 1; TZ 1; TZ 2; TB rc_path_a; TZ 2; TZ 0; TB rc_path_b; TZ 2; TZ 0], true).
Proof. exact rc_cut_mid_value. Qed.

Example c06_values_rc_cut_boundary_and_leadin :
  rd_all (take 207 (ser_file rc_file)) = rd_all (take 220 (ser_file rc_file)) /\
  rd_all (take 207 (ser_file rc_file)) =
  Ok ([TZ 4713; TZ 0; TZ 1; TB (hex "67"); TZ 1; TB (hex "6e"); TZ 3; TB (hex "6869"); TZ 2;
       TB (hex "61"); TB (hex "67"); TB rc_path_a; TZ 3; TZ 4; TZ 1; TB (hex "70"); TZ 0; TZ 7;
       TZ 0; TZ 4; TB (hex "01000000"); TB (hex "02000000"); TB (hex "03000000"); TB (hex "04000000");
       TB (hex "62"); TB (hex "67"); TB rc_path_b; TZ 32; TZ 4; TZ 0;
       TZ 0; TZ 4; TB (hex "6162"); TB (hex "63"); TB []; TB (hex "78797a");
       TZ 0; TZ 0], true).
Proof. exact rc_cut_boundary_and_leadin. Qed.

Example c06_values_rc_prefixes :
  chan_values rc_path_a (List.concat rc_chunks)
  = [hex "01000000"; hex "02000000"; hex "03000000"; hex "04000000"; hex "05000000"; hex "06000000"] /\
  chan_values rc_path_b (List.concat rc_chunks)
  = [hex "6162"; hex "63"; []; hex "78797a"; hex "71"; hex "7273"] /\
  is_prefix [hex "01000000"; hex "02000000"] (chan_values rc_path_a (List.concat rc_chunks)) /\
  is_prefix [hex "6162"; hex "63"] (chan_values rc_path_b (List.concat rc_chunks)) /\
  chan_values rc_path_b (List.concat (firstn (whole_count 0 rc_file 220) rc_chunks))
  = [hex "6162"; hex "63"; []; hex "78797a"].
Proof. exact rc_cut_prefixes. Qed.

(* tv_file (sized types only) cut at 152: chunk 1 and 7 bytes of chunk 2 survive:
   "a" keeps the one complete int32 of chunk 2, the 3 bytes of its next value
   credit nothing to "b": a = 1,2,3 (len 3), b = 10,11 (len 2); incomplete, the
   chunk status says a: 2 expected / 1 read, b: 2 / 0. *)
Example c06_values_tv_cut_mid_value :
  rd_all (take 152 (ser_file tv_file)) =
  Ok ([TZ 4713; TZ 0; TZ 1; TB (hex "67"); TZ 0; TZ 2;
       TB (hex "61"); TB (hex "67"); TB rc_path_a; TZ 3; TZ 3; TZ 0;
       TZ 0; TZ 3; TB (hex "01000000"); TB (hex "02000000"); TB (hex "03000000");
       TB (hex "62"); TB (hex "67"); TB rc_path_b; TZ 2; TZ 2; TZ 0;
       TZ 0; TZ 2; TB (hex "0a00"); TB (hex "0b00");
       TZ 1; TZ 1; TZ 2; TB rc_path_a; TZ 2; TZ 1; TB rc_path_b; TZ 2; TZ 0], true).
Proof. exact tv_cut_mid_value. Qed.

Example c06_values_tv_cut_boundary_and_leadin :
  rd_all (take 157 (ser_file tv_file)) = rd_all (take 170 (ser_file tv_file)) /\
  rd_all (take 157 (ser_file tv_file)) =
  Ok ([TZ 4713; TZ 0; TZ 1; TB (hex "67"); TZ 0; TZ 2;
       TB (hex "61"); TB (hex "67"); TB rc_path_a; TZ 3; TZ 4; TZ 0;
       TZ 0; TZ 4; TB (hex "01000000"); TB (hex "02000000"); TB (hex "03000000"); TB (hex "04000000");
       TB (hex "62"); TB (hex "67"); TB rc_path_b; TZ 2; TZ 4; TZ 0;
       TZ 0; TZ 4; TB (hex "0a00"); TB (hex "0b00"); TB (hex "0c00"); TB (hex "0d00");
       TZ 0; TZ 0], true).
Proof. exact tv_cut_boundary_and_leadin. Qed.

Example c06_values_tv_prefixes :
  chan_values rc_path_a (List.concat tv_chunks)
  = [hex "01000000"; hex "02000000"; hex "03000000"; hex "04000000"; hex "05000000"; hex "06000000"] /\
  chan_values rc_path_b (List.concat tv_chunks)
  = [hex "0a00"; hex "0b00"; hex "0c00"; hex "0d00"; hex "0e00"; hex "0f00"] /\
  is_prefix [hex "01000000"; hex "02000000"; hex "03000000"] (chan_values rc_path_a (List.concat tv_chunks)) /\
  is_prefix [hex "0a00"; hex "0b00"] (chan_values rc_path_b (List.concat tv_chunks)) /\
  chan_values rc_path_a (List.concat (firstn (whole_count 0 tv_file 170) tv_chunks))
  = [hex "01000000"; hex "02000000"; hex "03000000"; hex "04000000"].
Proof. exact tv_cut_prefixes. Qed.

(* rc2_file (interleaved) cut at 108: one complete row and one byte of the next;
   cut at 150: inside the METADATA of the later, metadata-only segment: its group
   property is not seen (group "g": 0 properties), segment 1's values are. *)
Example c06_values_rc2_cut_mid_row :
  rd_all (take 108 (ser_file rc2_file)) =
  Ok ([TZ 4713; TZ 0; TZ 1; TB (hex "67"); TZ 0; TZ 2;
       TB (hex "61"); TB (hex "67"); TB rc_path_a; TZ 2; TZ 1; TZ 0;
       TZ 0; TZ 1; TB (hex "0102");
       TB (hex "62"); TB (hex "67"); TB rc_path_b; TZ 33; TZ 1; TZ 0;
       TZ 0; TZ 1; TB (hex "01");
       TZ 1; TZ 1; TZ 2; TB rc_path_a; TZ 3; TZ 1; TB rc_path_b; TZ 3; TZ 1], true).
Proof. exact rc2_cut_mid_row. Qed.

Example c06_values_rc2_cut_in_later_metadata :
  rd_all (take 150 (ser_file rc2_file)) = rd_all (take 113 (ser_file rc2_file)) /\
  rd_all (take 150 (ser_file rc2_file)) =
  Ok ([TZ 4713; TZ 0; TZ 1; TB (hex "67"); TZ 0; TZ 2;
       TB (hex "61"); TB (hex "67"); TB rc_path_a; TZ 2; TZ 3; TZ 0;
       TZ 0; TZ 3; TB (hex "0102"); TB (hex "0304"); TB (hex "0506");
       TB (hex "62"); TB (hex "67"); TB rc_path_b; TZ 33; TZ 3; TZ 0;
       TZ 0; TZ 3; TB (hex "01"); TB (hex "00"); TB (hex "01");
       TZ 0; TZ 0], true).
Proof. exact rc2_cut_in_later_metadata. Qed.
End Tokens.

(* every cut offset 4..len of the three files: rd_all succeeds with flag true *)
Example c06_values_all_cuts :
  all_cuts_ok tv_file = true /\ all_cuts_ok rc_file = true /\ all_cuts_ok rc2_file = true.
Proof. exact all_cuts_of_the_examples. Qed.

Print Assumptions take_blocks.
Print Assumptions cut_calculate_chunks_ok.
Print Assumptions cut_contig_decodes.
Print Assumptions cut_interleaved_decodes.
Print Assumptions cut_segment_decodes.
Print Assumptions rd_metadata_cut.
Print Assumptions cut_metadata_succeeds.
Print Assumptions build_hierarchy_sim.
Print Assumptions cut_in_data_spec.
Print Assumptions truncation_values_prefix.
Print Assumptions truncation_values_prefix_any_offset.
Print Assumptions c06_values_applies_tv.
Print Assumptions c06_values_applies_rc.
Print Assumptions c06_values_applies_rc2.
Print Assumptions c06_values_geometry.
Print Assumptions c06_values_rc_cut_mid_value.
Print Assumptions c06_values_rc_cut_boundary_and_leadin.
Print Assumptions c06_values_rc_prefixes.
Print Assumptions c06_values_tv_cut_mid_value.
Print Assumptions c06_values_tv_cut_boundary_and_leadin.
Print Assumptions c06_values_tv_prefixes.
Print Assumptions c06_values_rc2_cut_mid_row.
Print Assumptions c06_values_rc2_cut_in_later_metadata.
Print Assumptions c06_values_all_cuts.
