(* C19 (companion) -- the I/O clauses of channel[i] on the TRANSLATED TdmsChannel._read_at_index /
   TdmsReader.read_channel_chunk_for_index (Gen/PyFuncsLazyIdx.v, regenerated from nptdms/tdms.py and
   nptdms/reader.py on every run).  File I/O is a parameter of the translated functions, threaded
   through an abstract file state, so "what was read" is the state the function returns.
   Statements only (proofs: Proofs/GenLazyIdxEquiv.v).  Hypotheses: see Props/C04_gen2.v. *)
From Coq Require Import List ZArith Bool.
Import ListNotations.
From NpTdms Require Import Base.Bytes Base.Res Base.PySlice Model.Tokens Model.SegState Model.LazyRead
     Gen.PySlice_gen Gen.PyFuncsReader Gen.PyFuncsLazyIdx
     Proofs.LazyIndexProofs Proofs.LazyReadProofs Proofs.LazyTopProofs Proofs.GenReaderLazy Proofs.GenLazyIdxEquiv.
Local Open Scope Z_scope.

(* indexing inside the cached chunk's bounds `bounds[0] <= index < bounds[1]` touches neither the file
   nor the index table nor the cache -- for ANY file state, chunk source, conversion and scaling *)
Theorem cache_hit_reads_nothing_translated :
  forall F C V io_verify io_next convert scale sg tbl (f : F) path n cached b0 b1 i r,
    let i' := if i <? 0 then n + i else i in
    b0 <= i' < b1 ->
    read_at_index_gen F C V io_verify io_next convert scale sg tbl f path n (Some cached) (Some (b0, b1)) i = Ok r ->
    snd r = (cached, Some (b0, b1), tbl, f).
Proof. exact cache_hit_reads_nothing_gen. Qed.

Section C19_gen.
  Variable V : Type.
  Variable segs : list segment.
  Variable path : bytes.
  Variable dat : list (seg_data V).
  Hypothesis Hlen : length dat = length segs.
  Hypothesis Hok : forallb (seg_ok path) segs = true.
  Hypothesis Hfit : zsum (seg_nums unit (seg_views segs path)) < 2 ^ 63.

  Let svs := lviews V segs path dat.

  (* a successful channel[i] appended to the file log nothing, or exactly the one chunk that holds i *)
  Theorem index_fetches_one_chunk_translated : forall st cc cb tbl f i x c' b' tbl' f',
      wf V svs = true -> cache_inv V svs st -> cache_rel V st cc cb -> tbl_ok segs path tbl ->
      read_at_index_gen (iolog) (list V) V (w_verify) (w_next V svs) (fun c => Ok c) (fun c => Ok c)
                        (Some segs) tbl f path (total_values V svs) cc cb i
      = Ok (x, (c', b', tbl', f')) ->
      f' = f \/
      exists j c sv, f' = f ++ [(j, c)] /\ 0 <= j /\ nth_error svs (Z.to_nat j) = Some sv /\
                     sv_chunk sv <> 0 /\ 0 <= c < sv_nchunks sv /\
                     let i' := if i <? 0 then i + total_values V svs else i in
                     chunk_start V (pre V svs j) sv c <= i' < chunk_end V (pre V svs j) sv c.
  Proof. exact (index_fetches_one_chunk_gen V segs path dat Hlen Hok Hfit). Qed.
End C19_gen.

(* the example of Props/C04_gen2.v: the miss logs chunk (2, 1) only; the next index inside [9, 12) logs nothing *)
Example c19_gen_example :
  let g := read_at_index_gen (iolog) (list Z) Z (w_verify) (w_next Z (lviews Z ex_segs ex_path ex_dat))
                             (fun c => Ok c) (fun c => Ok c) (Some ex_segs) in
  g [] [] ex_path 14 None None (-3)
  = Ok (12, ([10; 11; 12], Some (9, 12), [(ex_path, (0, [6; 6; 14]))], [(2, 1)])) /\
  g [(ex_path, (0, [6; 6; 14]))] [(2, 1)] ex_path 14 (Some [10; 11; 12]) (Some (9, 12)) 9
  = Ok (10, ([10; 11; 12], Some (9, 12), [(ex_path, (0, [6; 6; 14]))], [(2, 1)])) /\
  g [] [] ex_path 14 None None 14 = Err EIndex.
Proof. exact ex_index_run. Qed.

Print Assumptions cache_hit_reads_nothing_translated.
Print Assumptions index_fetches_one_chunk_translated.
Print Assumptions c19_gen_example.
