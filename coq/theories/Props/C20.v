(* C20 - npTDMS closes the files it opened, only those, and fails loudly
   afterwards.  Statements only; proofs live in Proofs/ResourceProofs.v.

   The theorems are about the ownership model Model/Resource.v (which mirrors
   TdmsReader / TdmsFile / TdmsWriter statement by statement).  Descriptor
   lifetime itself is runtime behaviour (CPython, the OS): the tie between
   model and code is the measured agreement of harness/c20.py, so the claim
   for C20 is PARTIAL by construction.

   [fx] selects the code variant: false = /repo as it is, true = with
   dev/patches/D19_C20_unclosed_on_failure.patch applied.  Where a statement needs a side condition for the
   unpatched code, the full statement is refuted for it by a witness
   (theorems *_refuted): that witness, replayed on the implementation, is
   defect D19. *)
From Coq Require Import List Bool Arith.
Import ListNotations.
From NpTdms Require Import Model.Resource Proofs.ResourceProofs.

(* ---- no handle the library opened stays open --------------------------- *)

(* After TdmsFile.read / TdmsFile.read_metadata returns or raises: for every
   kind of source, with or without an index file beside it, whatever stage
   the parsing fails at (or none), whichever open() fails.
   Full statement (no side condition) holds for the patched code; for the
   code as it is the case "second open() of the constructor fails" is
   excluded and refuted below. *)
Theorem no_owned_handle_after_read : forall fx a src index_beside cf fc,
    a <> ApiOpen -> fx = true \/ cf <> CIndexOpenFails ->
    owned_open (co (snd (tf_init fx a src index_beside cf fc))) = [].
Proof. exact init_closed_api_quiet. Qed.

Theorem no_owned_handle_after_read_refuted : forall a fc,
    fst (tf_init false a Path true CIndexOpenFails fc) = Raise EOpen /\
    owned_open (co (snd (tf_init false a Path true CIndexOpenFails fc))) = [DataFile].
Proof. exact ctor_index_open_fails_unpatched_leaks. Qed.

(* After close() or leaving the with-block (normally or by an exception), at
   any point of any history of operations on a file object obtained from
   TdmsFile.open / read / read_metadata: close does not raise and nothing the
   library opened is open. *)
Theorem no_owned_handle_after_close : forall fx sc o,
    fst (sc_init fx sc) = Done -> is_close o = true ->
    fst (step (sc_fc sc) (sc_final fx sc) o) = Done /\
    owned_open (co (snd (step (sc_fc sc) (sc_final fx sc) o))) = [].
Proof. exact sc_close_no_owned. Qed.

(* ... and it stays that way whatever is done afterwards: a history that
   started with read / read_metadata or contains a close ends with nothing
   owned open and the reader closed. *)
Theorem no_owned_handle_once_closed : forall fx sc,
    fst (sc_init fx sc) = Done -> closed_history sc = true ->
    owned_open (co (sc_final fx sc)) = [] /\ ensure_open (co (sc_final fx sc)) = false.
Proof. exact sc_closed_history_no_owned. Qed.

(* TdmsFile.open raising (the caller gets no object to close).
   Patched code: nothing owned stays open.  Code as it is: refuted - the data
   file opened by path is left to the garbage collector (D19); this happens
   for path sources only. *)
Theorem no_owned_handle_after_open_raises_patched : forall src index_beside cf fc,
    fst (tf_init true ApiOpen src index_beside cf fc) <> Done ->
    owned_open (co (snd (tf_init true ApiOpen src index_beside cf fc))) = [].
Proof. exact init_open_raise_patched. Qed.

Theorem no_owned_handle_after_open_raises_refuted :
  exists src index_beside fc,
    fst (tf_init false ApiOpen src index_beside CNoFault fc) = Raise EParse /\
    owned_open (co (snd (tf_init false ApiOpen src index_beside CNoFault fc))) = [DataFile].
Proof. exact init_open_raise_unpatched_leaks. Qed.

Theorem open_raises_leak_only_for_paths : forall src index_beside cf fc,
    fst (tf_init false ApiOpen src index_beside cf fc) <> Done ->
    owned_open (co (snd (tf_init false ApiOpen src index_beside cf fc))) <> [] ->
    src = Path.
Proof. exact init_open_unpatched_leak_char. Qed.

(* ---- caller-supplied streams are never closed --------------------------- *)

(* Invariant over all scenarios and all operation histories (sc_ops is an
   arbitrary list, so every intermediate state is the final state of a
   shorter history), returning or raising, both code variants. *)
Theorem caller_streams_never_closed : forall fx sc,
    no_caller_closed (co (sc_final fx sc)) = true.
Proof. exact sc_caller_streams_never_closed. Qed.

(* ---- reads after close fail loudly -------------------------------------- *)

(* Once the file was closed, every read call that is not answered from memory
   (arrays of TdmsFile.read, the channel's cached chunk, an in-flight
   generator over the caller's own still-open stream) ends in an error caused
   by the closed state - never in data. *)
Theorem read_after_close_raises : forall fx sc o,
    fst (sc_init fx sc) = Done -> closed_history sc = true -> is_close o = false ->
    from_memory (sc_final fx sc) o = false ->
    closed_error (fst (step (sc_fc sc) (sc_final fx sc) o)) = true.
Proof. exact sc_read_after_close_raises. Qed.

Theorem data_after_close_is_from_memory : forall fx sc o,
    fst (sc_init fx sc) = Done -> closed_history sc = true -> is_close o = false ->
    fst (step (sc_fc sc) (sc_final fx sc) o) = Done ->
    from_memory (sc_final fx sc) o = true.
Proof. exact sc_read_after_close_data_is_from_memory. Qed.

(* ---- close() may be called repeatedly ----------------------------------- *)

Theorem close_idempotent : forall fx sc o1 o2,
    fst (sc_init fx sc) = Done -> is_close o1 = true -> is_close o2 = true ->
    let w1 := snd (step (sc_fc sc) (sc_final fx sc) o1) in
    fst (step (sc_fc sc) (sc_final fx sc) o1) = Done /\
    step (sc_fc sc) w1 o2 = (Done, w1).
Proof. exact sc_close_idempotent. Qed.

(* TdmsReader.close itself, on every state (reachable or not) *)
Theorem reader_close_idempotent : forall c,
    snd (reader_close (snd (reader_close c))) = snd (reader_close c).
Proof. exact reader_close_idem. Qed.

(* ---- TdmsWriter --------------------------------------------------------- *)

(* After the with-block of a writer - entered after any history of earlier
   with-blocks / close / write calls, left normally, by an exception inside
   the block, or because __enter__ raised - nothing the library opened is
   open, nothing was left to the finaliser, no caller stream is closed.
   Side condition for the code as it is: the open() of the index file does
   not fail after the data file was opened (refuted below, D19). *)
Theorem writer_with_block_closes : forall fx t ops wf b,
    Forall (wop_fault_free fx) ops -> wfault_free fx wf ->
    let s' := snd (w_with fx wf b (w_run fx (w_init t) ops)) in
    w_no_owned s' = true /\ w_left_to_finaliser s' = (0, 0) /\ w_no_caller_closed s' = true.
Proof. exact w_history_with_block. Qed.

Theorem writer_with_block_closes_refuted :
  fst (w_with false WIndexOpenFails [] (w_init (WPath true))) = Raise EOpen /\
  lib_open (wdata (snd (w_with false WIndexOpenFails [] (w_init (WPath true))))) = true.
Proof. exact w_open_index_fails_unpatched_leaks. Qed.

(* an exception raised inside the with-block is not swallowed *)
Theorem writer_exception_propagates : forall fx wf b s,
    fst (w_open fx wf s) = Done ->
    fst (w_body b (snd (w_open fx wf s))) <> Done ->
    fst (w_with fx wf b s) <> Done.
Proof. exact w_with_propagates. Qed.

(* caller streams: every history, every fault, both variants *)
Theorem writer_caller_streams_never_closed : forall fx t ops,
    w_no_caller_closed (w_run fx (w_init t) ops) = true.
Proof. exact w_history_no_caller_closed. Qed.

(* TdmsWriter.close() leaves the same state when repeated ... *)
Theorem writer_close_idempotent_state : forall s,
    snd (w_close (snd (w_close s))) = snd (w_close s).
Proof. exact w_close_idem_state. Qed.

(* ... but (observation, outside the property text, which speaks of the
   reader's close()) the second call raises AttributeError for a path target *)
Theorem writer_second_close_raises_on_path : forall ix,
    let s := snd (w_with false WNoFault [] (w_init (WPath ix))) in
    w_close s = (Raise ENone, s).
Proof. exact w_second_close_raises_on_path. Qed.

(* TdmsWriter.defragment: source and destination *)
Theorem defragment_closes : forall fx src index_beside cf fc t wf b,
    fx = true \/ cf <> CIndexOpenFails -> wfault_free fx wf ->
    let '(o, w, s) := defragment fx src index_beside cf fc t wf b in
    owned_open (co w) = [] /\ w_no_owned s = true /\
    no_caller_closed (co w) = true /\ w_no_caller_closed s = true.
Proof. exact defragment_no_owned. Qed.

(* ---- Non-vacuity --------------------------------------------------------- *)

(* A concrete history: open by path with an index file beside it, read a
   value, start a generator, close, then try every kind of read, close again.
   The hypotheses of the theorems hold for it and the model's trace shows the
   non-trivial behaviour: the index file is closed as soon as the metadata is
   read (and the reader still references the closed object), the data file
   stays open until close(), reads after close raise except the one answered
   from the cached chunk. *)
Definition ex_fc : fcond := mkfcond true true true true true true [2; 1].
Definition ex_sc : scenario :=
  mkscenario Path true CNoFault ex_fc ApiOpen
             [OReadIndex 0; OGenStart; OClose; OReadAll; OGenNext; OReadIndex 0;
              OReadIndex 1; OFileChunks; OClose].

Example c20_example_hyps :
  fst (sc_init false ex_sc) = Done /\ closed_history ex_sc = true /\
  index (co (snd (sc_init false ex_sc))) = Obj Lib Closed true /\
  view (data (co (snd (sc_init false ex_sc)))) = VOpenOwned.
Proof. repeat split. Qed.

Example c20_example_trace :
  sc_trace false ex_sc =
  [ (Done, (true, false, false, false));          (* TdmsFile.open *)
    (Done, (true, false, false, false));          (* channel[0] *)
    (Done, (true, false, false, false));          (* g = data_chunks(); next(g) *)
    (Done, (false, false, false, false));         (* close() *)
    (Raise EClosed, (false, false, false, false));(* channel[:] *)
    (Raise EIO, (false, false, false, false));    (* next(g): the captured file is closed *)
    (Done, (false, false, false, false));         (* channel[0]: cached chunk *)
    (Raise EClosed, (false, false, false, false));(* channel[2]: other chunk *)
    (Raise ENone, (false, false, false, false));  (* tdms_file.data_chunks(): _reader is None *)
    (Done, (false, false, false, false)) ].       (* close() again *)
Proof. vm_compute. reflexivity. Qed.

(* a caller's stream: released by close(), never closed; the generator started
   before close() keeps yielding from the caller's open stream *)
Definition ex_sc_stream : scenario :=
  mkscenario Stream false CNoFault ex_fc ApiOpen [OGenStart; OClose; OGenNext; OGenNext; OReadAll].

Example c20_example_stream :
  sc_trace false ex_sc_stream =
  [ (Done, (false, false, false, false));
    (Done, (false, false, false, false));
    (Done, (false, false, false, false));
    (Done, (false, false, false, false));          (* second chunk of segment 1 *)
    (Raise ENone, (false, false, false, false));   (* next segment: self._file is None *)
    (Raise EClosed, (false, false, false, false)) ] /\
  view (data (co (sc_final false ex_sc_stream))) = VReleased.
Proof. vm_compute. split; reflexivity. Qed.

Example c20_example_writer :
  let s := snd (w_with false WNoFault [BWrite true; BRaise; BWrite true] (w_init (WPath true))) in
  fst (w_with false WNoFault [BWrite true; BRaise; BWrite true] (w_init (WPath true))) = Raise EUser /\
  view (wdata s) = VClosedOwned /\ view (windex s) = VClosedOwned.
Proof. vm_compute. repeat split. Qed.

Print Assumptions no_owned_handle_after_read.
Print Assumptions no_owned_handle_after_read_refuted.
Print Assumptions no_owned_handle_after_close.
Print Assumptions no_owned_handle_once_closed.
Print Assumptions no_owned_handle_after_open_raises_patched.
Print Assumptions no_owned_handle_after_open_raises_refuted.
Print Assumptions open_raises_leak_only_for_paths.
Print Assumptions caller_streams_never_closed.
Print Assumptions read_after_close_raises.
Print Assumptions data_after_close_is_from_memory.
Print Assumptions close_idempotent.
Print Assumptions reader_close_idempotent.
Print Assumptions writer_with_block_closes.
Print Assumptions writer_with_block_closes_refuted.
Print Assumptions writer_exception_propagates.
Print Assumptions writer_caller_streams_never_closed.
Print Assumptions writer_close_idempotent_state.
Print Assumptions writer_second_close_raises_on_path.
Print Assumptions defragment_closes.
Print Assumptions c20_example_trace.
