(* C13 (companion) -- the scaling CLASSES, TRANSLATED from nptdms/scaling.py on every run
   (harness/gen/gen_pyfuncs_scaleeval.py + scale_sem.py -> Gen/PyFuncsScaleEval.v; self-tested against the real
   classes, Gen/PyFuncsScaleEvalTest.v: 386 boundary cases), equal the hand model Model/ScaleGraph.v that the
   dataflow theorems of Props/C13.v are about.  Statements only (proofs: Proofs/GenScaleEvalEquiv.v).

   What is derived from the source text on every run and therefore pinned by these equalities:
     - from_properties of every class: WHICH property names are read ("NI_Scale[%d]_..." with the scale index), in
       which order, which are optional (try / except KeyError, properties.get) with which default
       (RAW_DATA_INPUT_SOURCE, 4 coefficients, thermocouple type 10072), the size properties and the coefficient /
       table loops with their order, the table-size comparison;
     - __init__: which argument becomes which attribute; TableScaling's monotonicity test, the flip of BOTH arrays
       for descending scaled values and the ValueError; ThermocoupleScaling's table of type codes;
     - the construction loop of _get_channel_scaling: count, 'scaled' status, DAQmx scaler for a missing
       Scale_Type, the dispatch on the Scale_Type string, unsupported type -> no scaling, empty list -> no scaling;
     - the scale methods: slope and intercept (two rounded operations), the empty-coefficients branch and the
       coefficient list handed to polyval in constructor order, np.interp's argument order (input_values,
       output_values), left + right, RIGHT - LEFT;
     - MultiScaling._compute_scaled_data: the RAW_DATA_INPUT_SOURCE test, DAQmx scaler by scale id, which input
       source feeds which operand; MultiScaling.scale: the last scale is the output.
   [forget] maps an object of the translation (a constructor of scaling_py carrying the attributes its __init__
   assigns) to the model's scaling; [sg_lift] renders the model's errors as exception classes (EUnmodelled and the
   internal kinds: EOther); [rmapS r] = the object of r, forgotten, under Some.
   Typed reads: a property that flows into an attribute declared float / int is type-tested where it is read, as
   ScaleGraph.get_float / get_int do (another Python type is outside the model's scope on both sides).
   The sensor classes' scale methods are not in this file (the evaluator takes them as the parameter [sens]; the
   evaluation theorems are for graphs over the structural types, as in Props/C13.v). *)
From Coq Require Import String.
From Coq Require Import List ZArith Bool PrimFloat.
Import ListNotations.
From NpTdms Require Import Base.Res Gen.NumpyPromote Gen.ThermoTables Gen.PyFuncsScaling Gen.PyFuncsScaleEval
     Proofs.GenScalingEquiv Proofs.GenScaleEvalEquiv.
From NpTdms Require Gen.PyFuncsScaleEvalTest.
From NpTdms Require Model.ScaleGraph.
Local Open Scope Z_scope.

(* ---- from_properties = the branch of ScaleGraph.scaling_at for that scale type --------------------------------- *)

Theorem linear_from_properties_translated : forall p i,
  rmapS (LinearScaling_from_properties_gen p (Z.of_nat i))
  = sg_lift (SG.bind (SG.get_source_default p (SG.skey i "_Linear_Input_Source")) (fun s =>
             SG.bind (SG.get_float p (SG.skey i "_Linear_Y_Intercept")) (fun b =>
             SG.bind (SG.get_float p (SG.skey i "_Linear_Slope")) (fun a => SG.Ok (Some (SG.Linear a b s)))))).
Proof. exact linear_from_properties. Qed.

Theorem polynomial_from_properties_translated : forall p i,
  rmapS (PolynomialScaling_from_properties_gen p (Z.of_nat i))
  = sg_lift (SG.bind (match SG.pget (SG.skey i "_Polynomial_Coefficients_Size") p with
                      | None => SG.Ok 4 | Some (SG.PInt z) => SG.Ok z | Some _ => SG.Err SG.EUnmodelled end) (fun n =>
             SG.bind (SG.get_source_default p (SG.skey i "_Polynomial_Input_Source")) (fun s =>
             SG.bind (SG.get_floats p (fun j => SG.skey i ("_Polynomial_Coefficients[" ++ SG.dec j ++ "]")) (SG.range n))
                     (fun cs => SG.Ok (Some (SG.Polynomial cs s)))))).
Proof. exact polynomial_from_properties. Qed.

Theorem table_from_properties_translated : forall p i,
  rmapS (TableScaling_from_properties_gen p (Z.of_nat i))
  = sg_lift (SG.bind (SG.get_source_default p (SG.skey i "_Table_Input_Source")) (fun s =>
             SG.bind (SG.get_int p (SG.skey i "_Table_Pre_Scaled_Values_Size")) (fun n1 =>
             SG.bind (SG.get_int p (SG.skey i "_Table_Scaled_Values_Size")) (fun n2 =>
             if negb (n1 =? n2) then SG.Err SG.EValue else
             SG.bind (SG.get_floats p (fun j => SG.skey i ("_Table_Pre_Scaled_Values[" ++ SG.dec j ++ "]")) (SG.range n1)) (fun pre =>
             SG.bind (SG.get_floats p (fun j => SG.skey i ("_Table_Scaled_Values[" ++ SG.dec j ++ "]")) (SG.range n2)) (fun sc =>
             SG.bind (SG.mk_table pre sc s) (fun t => SG.Ok (Some t)))))))).
Proof. exact table_from_properties. Qed.

(* TableScaling.__init__: ascending scaled values are kept, descending ones flip BOTH arrays, anything else raises *)
Theorem table_init_translated : forall pre sc z,
  rmap forget (TableScaling_new_gen pre sc z) = sg_lift (SG.mk_table pre sc (SG.src_of_int z)).
Proof. exact table_new. Qed.

Theorem add_from_properties_translated : forall p i,
  rmapS (AddScaling_from_properties_gen p (Z.of_nat i))
  = sg_lift (SG.bind (SG.get_source p (SG.skey i "_Add_Left_Operand_Input_Source")) (fun l =>
             SG.bind (SG.get_source p (SG.skey i "_Add_Right_Operand_Input_Source")) (fun r => SG.Ok (Some (SG.Add l r))))).
Proof. exact add_from_properties. Qed.

Theorem subtract_from_properties_translated : forall p i,
  rmapS (SubtractScaling_from_properties_gen p (Z.of_nat i))
  = sg_lift (SG.bind (SG.get_source p (SG.skey i "_Subtract_Left_Operand_Input_Source")) (fun l =>
             SG.bind (SG.get_source p (SG.skey i "_Subtract_Right_Operand_Input_Source")) (fun r => SG.Ok (Some (SG.Subtract l r))))).
Proof. exact subtract_from_properties. Qed.

Theorem noop_from_properties_translated : forall p i,
  rmapS (NoOpScaling_from_properties_gen p (Z.of_nat i) "AdvancedAPI")
  = sg_lift (SG.bind (SG.get_source_default p (SG.skey i "_AdvancedAPI_Input_Source")) (fun s => SG.Ok (Some (SG.NoOp s)))).
Proof. exact noop_from_properties. Qed.

(* the sensor classes: every parameter is required (KeyError for a missing one, in this order), the input source
   is an int; the thermocouple type defaults to 10072 and must be one of the eight codes of the class's table *)
Theorem rtd_from_properties_translated : forall p i,
  rmapS (RtdScaling_from_properties_gen p (Z.of_nat i))
  = sg_lift (SG.bind (SG.require_all p (map (fun x => SG.skey i ("_RTD_" ++ x))
               ["Current_Excitation"; "R0_Nominal_Resistance"; "A"; "B"; "C"; "Lead_Wire_Resistance";
                "Resistance_Configuration"]%string)) (fun _ =>
             SG.bind (SG.get_source p (SG.skey i "_RTD_Input_Source")) (fun s => SG.Ok (Some (SG.Sensor SG.SRtd s))))).
Proof. exact rtd_from_properties. Qed.

Theorem strain_from_properties_translated : forall p i,
  rmapS (StrainScaling_from_properties_gen p (Z.of_nat i))
  = sg_lift (SG.bind (SG.require_all p (map (fun x => SG.skey i ("_Strain_" ++ x))
               ["Configuration"; "Poisson_Ratio"; "Gage_Resistance"; "Lead_Wire_Resistance";
                "Initial_Bridge_Voltage"; "Gage_Factor"; "Bridge_Shunt_Calibration_Gain_Adjustment";
                "Voltage_Excitation"]%string)) (fun _ =>
             SG.bind (SG.get_source p (SG.skey i "_Strain_Input_Source")) (fun s => SG.Ok (Some (SG.Sensor SG.SStrain s))))).
Proof. exact strain_from_properties. Qed.

Theorem thermistor_from_properties_translated : forall p i,
  rmapS (ThermistorScaling_from_properties_gen p (Z.of_nat i))
  = sg_lift (SG.bind (SG.require_all p (map (fun x => SG.skey i ("_Thermistor_" ++ x))
               ["Excitation_Type"; "Excitation_Value"; "Resistance_Configuration";
                "R1_Reference_Resistance"; "Lead_Wire_Resistance"; "A"; "B"; "C";
                "Temperature_Offset"]%string)) (fun _ =>
             SG.bind (SG.get_source p (SG.skey i "_Thermistor_Input_Source")) (fun s => SG.Ok (Some (SG.Sensor SG.SThermistor s))))).
Proof. exact thermistor_from_properties. Qed.

Theorem thermocouple_from_properties_translated : forall p i,
  rmapS (ThermocoupleScaling_from_properties_gen p (Z.of_nat i))
  = sg_lift (SG.bind (SG.get_source_default p (SG.skey i "_Thermocouple_Input_Source")) (fun s =>
             SG.bind (match SG.pget (SG.skey i "_Thermocouple_Thermocouple_Type") p with
                      | None => SG.Ok 10072 | Some (SG.PInt z) => SG.Ok z | Some _ => SG.Err SG.EUnmodelled end) (fun tc =>
             if SG.thermocouple_type_ok tc then SG.Ok (Some (SG.Sensor SG.SThermocouple s)) else SG.Err SG.EKey))).
Proof. exact thermocouple_from_properties. Qed.

(* ---- _get_channel_scaling, all of it; get_scaling over the three levels ------------------------------------------ *)

(* [view]: no scaling, or the graph of the objects (every entry of the list set) *)
Theorem get_channel_scaling_translated : forall p,
  view (get_channel_scaling_gen p) = sg_lift (SG.get_channel_scaling p).
Proof. exact get_channel_scaling_eq. Qed.

Theorem get_scaling_translated2 : forall c g f,
  view (get_scaling_gen _ get_channel_scaling_gen c g f) = sg_lift (SG.get_scaling c g f).
Proof. exact get_scaling_eq2. Qed.

(* lookup_order (Props/C13.v) on the translated functions: the first level that defines a scaling wins, the later
   levels are not looked at *)
Theorem lookup_order_translated : forall c g f,
  (forall s, get_channel_scaling_gen c = Ok (Some s) -> get_scaling_gen _ get_channel_scaling_gen c g f = Ok (Some s)) /\
  (forall s, get_channel_scaling_gen c = Ok None -> get_channel_scaling_gen g = Ok (Some s) ->
             get_scaling_gen _ get_channel_scaling_gen c g f = Ok (Some s)) /\
  (get_channel_scaling_gen c = Ok None -> get_channel_scaling_gen g = Ok None ->
   get_scaling_gen _ get_channel_scaling_gen c g f = get_channel_scaling_gen f).
Proof.
  intros c g f. unfold get_scaling_gen. cbn [py_first_some]. repeat split.
  - intros s ->. reflexivity.
  - intros s -> ->. reflexivity.
  - intros -> ->. cbn [bind]. destruct (get_channel_scaling_gen f) as [[x|]|e]; reflexivity.
Qed.

(* ---- the scale methods (through the dynamic dispatch x.scale(..)) ---------------------------------------------------- *)

Theorem linear_scale_translated : forall sens b a s v,
  dispatch_scale1 sens (PyLinearScaling b a s) v = sg_lift (SG.scale_linear a b v).
Proof. exact linear_scale. Qed.

Theorem polynomial_scale_translated : forall sens cs s v,
  dispatch_scale1 sens (PyPolynomialScaling cs s) v = sg_lift (SG.scale_polynomial cs v).
Proof. exact polynomial_scale. Qed.

Theorem table_scale_translated : forall sens xs ys s v,
  dispatch_scale1 sens (PyTableScaling xs ys s) v = sg_lift (SG.scale_table xs ys v).
Proof. exact table_scale. Qed.

Theorem noop_scale_translated : forall sens s v, dispatch_scale1 sens (PyNoOpScaling s) v = Ok v.
Proof. exact noop_scale. Qed.

Theorem add_scale_translated : forall l r a b,
  dispatch_scale2 (PyAddScaling l r) a b = sg_lift (SG.scale_add a b).
Proof. exact add_scale. Qed.

(* right minus left *)
Theorem subtract_scale_translated : forall l r a b,
  dispatch_scale2 (PySubtractScaling l r) a b = sg_lift (SG.scale_subtract a b).
Proof. exact subtract_scale. Qed.

(* ---- the evaluator ------------------------------------------------------------------------------------------------------- *)

(* ONE call of _compute_scaled_data is ONE unfolding of the model's eval_src, whatever the recursive call does
   ([rec] in the translation, [recm] in the model), provided they agree on the inputs of the scale looked at.
   [eval_body] is eval_src with its recursive calls replaced by recm (eval_src_unfolds below). *)
Theorem compute_scaled_data_translated : forall sens rec recm objs raw z,
  z <> 4294967295 ->
  (forall o, SG.py_index objs z = Some o ->
     id_ok o /\ structural o /\ forall zc, In zc (srcs o) -> rec zc raw = sg_lift (recm (SG.src_of_int zc))) ->
  compute_scaled_data_gen sens rec (map Some objs) z raw
  = sg_lift (eval_body recm (map forget objs) raw (SG.Idx z)).
Proof. exact compute_step. Qed.

Theorem compute_scaled_data_raw_translated : forall sens rec objs raw,
  compute_scaled_data_gen sens rec (map Some objs) 4294967295 raw
  = sg_lift (eval_body (fun _ => SG.Err SG.EFuel) (map forget objs) raw SG.Raw).
Proof. exact compute_raw. Qed.

Theorem eval_src_unfolds : forall fuel g raw s,
  SG.eval_src (S fuel) g raw s = eval_body (SG.eval_src fuel g raw) g raw s.
Proof. exact eval_src_S. Qed.

(* MultiScaling.scale = eval for acyclic definitions over the structural types, with any sufficient recursion
   bound.  (A cyclic definition recurses without bound in Python; 2^32 scalings: see Hlen in the proof file.) *)
Theorem multiscaling_scale_translated : forall sens objs raw,
  Forall id_ok objs -> Forall structural objs -> SG.wf_graph (map forget objs) ->
  Z.of_nat (length objs) <= 4294967295 ->
  forall fuel, (length objs <= fuel)%nat ->
  MultiScaling_scale_fuel sens fuel (map Some objs) raw = sg_lift (SG.eval (map forget objs) raw).
Proof. exact scale_fuel_eq. Qed.

(* from the properties to the scaled data: what the translated construction returns is the model's graph, with
   natural scale ids, and evaluating it is the model's eval *)
Theorem scaled_channel_translated : forall p l,
  get_channel_scaling_gen p = Ok (Some l) ->
  exists objs, l = map Some objs /\ SG.get_channel_scaling p = SG.Ok (Some (map forget objs)) /\
    (Forall structural objs -> SG.wf_graph (map forget objs) -> Z.of_nat (length objs) <= 4294967295 ->
     forall sens raw fuel, (length objs <= fuel)%nat ->
       MultiScaling_scale_fuel sens fuel l raw = sg_lift (SG.eval (map forget objs) raw)).
Proof. exact scaled_channel_eq. Qed.

(* eval_is_dataflow (Props/C13.v) transported to the translated evaluator *)
Theorem eval_is_dataflow_translated : forall sens objs raw v fuel,
  Forall id_ok objs -> Forall structural objs -> SG.wf_graph (map forget objs) ->
  Z.of_nat (length objs) <= 4294967295 -> (length objs <= fuel)%nat ->
  (MultiScaling_scale_fuel sens fuel (map Some objs) raw = Ok v
   <-> SG.flows (map forget objs) raw (SG.final_src (map forget objs)) v).
Proof. exact eval_is_dataflow_gen. Qed.

(* ---- non-vacuity: the example of Props/C13.v through the translated functions ------------------------------------ *)

Definition ex_props : SG.props :=
  [("NI_Scale[0]_Scale_Type", SG.PStr "Linear");
   ("NI_Scale[0]_Linear_Slope", SG.PFloat 2); ("NI_Scale[0]_Linear_Y_Intercept", SG.PFloat 1);
   ("NI_Scale[1]_Scale_Type", SG.PStr "Polynomial");
   ("NI_Scale[1]_Polynomial_Coefficients_Size", SG.PInt 2);
   ("NI_Scale[1]_Polynomial_Coefficients[0]", SG.PFloat 0.5);
   ("NI_Scale[1]_Polynomial_Coefficients[1]", SG.PFloat 3);
   ("NI_Scale[2]_Scale_Type_Extra", SG.PStr "ignored");
   ("NI_Scale[2]_Scale_Type", SG.PStr "Subtract");
   ("NI_Scale[2]_Subtract_Left_Operand_Input_Source", SG.PInt 0);
   ("NI_Scale[2]_Subtract_Right_Operand_Input_Source", SG.PInt 1)]%float%string.

Definition ex_objs : list scaling_py :=
  [PyLinearScaling 1 2 4294967295; PyPolynomialScaling [0.5; 3] 4294967295; PySubtractScaling 0 1]%float.

Definition ex_raw : SG.rawdata := {| SG.rdata := Some (SG.VI SG.I16 [1; -2; 300]); SG.rscalers := [] |}.

Example ex_construct : get_channel_scaling_gen ex_props = Ok (Some (map Some ex_objs)).
Proof. vm_compute. reflexivity. Qed.

(* right minus left: (0.5 + 3x) - (2x + 1); the hypotheses of the evaluation theorems hold for it *)
Example ex_scale :
  MultiScaling_scale_fuel (fun _ _ => Err EOther) 3 (map Some ex_objs) ex_raw = Ok (SG.VD [0.5; -2.5; 299.5]%float) /\
  Forall id_ok ex_objs /\ Forall structural ex_objs /\ SG.wf_graph (map forget ex_objs).
Proof.
  split; [vm_compute; reflexivity|]. split; [repeat constructor|]. split; [repeat constructor|].
  apply ScaleProofs.wf_graphb_wf. reflexivity.
Qed.

(* a descending table is flipped, both arrays; Table with input source 0; an unsupported type gives no scaling *)
Example ex_table :
  TableScaling_new_gen [1; 2; 3]%float [40; 20; 10]%float 0 = Ok (PyTableScaling [10; 20; 40]%float [3; 2; 1]%float 0) /\
  TableScaling_new_gen [1; 2; 3]%float [40; 10; 20]%float 0 = Err EValue /\
  get_channel_scaling_gen [("NI_Scale[0]_Scale_Type"%string, SG.PStr "Logarithmic")] = Ok None.
Proof. vm_compute. repeat split; reflexivity. Qed.

Print Assumptions linear_from_properties_translated.
Print Assumptions polynomial_from_properties_translated.
Print Assumptions table_from_properties_translated.
Print Assumptions table_init_translated.
Print Assumptions add_from_properties_translated.
Print Assumptions subtract_from_properties_translated.
Print Assumptions noop_from_properties_translated.
Print Assumptions rtd_from_properties_translated.
Print Assumptions strain_from_properties_translated.
Print Assumptions thermistor_from_properties_translated.
Print Assumptions thermocouple_from_properties_translated.
Print Assumptions get_channel_scaling_translated.
Print Assumptions get_scaling_translated2.
Print Assumptions lookup_order_translated.
Print Assumptions linear_scale_translated.
Print Assumptions polynomial_scale_translated.
Print Assumptions table_scale_translated.
Print Assumptions noop_scale_translated.
Print Assumptions add_scale_translated.
Print Assumptions subtract_scale_translated.
Print Assumptions compute_scaled_data_translated.
Print Assumptions compute_scaled_data_raw_translated.
Print Assumptions eval_src_unfolds.
Print Assumptions multiscaling_scale_translated.
Print Assumptions scaled_channel_translated.
Print Assumptions eval_is_dataflow_translated.
Print Assumptions ex_construct.
Print Assumptions ex_scale.
Print Assumptions ex_table.
