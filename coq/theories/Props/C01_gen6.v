(* C01_gen6 -- [read_data_fits] (the hypothesis of Props/C01_gen5.v tdmsfile_read_data_translated_partial: every append of
   the translated run is dtype-compatible with the receiver's preallocated array and fits into it) DERIVED for a
   serialised well-formed file, and the translated TdmsFile._read_data composed with Props/C01_read.v.

   WHAT IS PROVED.
   * [chunks_fit_of_static]: the run-dependent condition [chunks_fit] (receivers `as they are when the item is reached')
     follows from a condition on the INITIAL receivers and the chunk list alone ([static_ok]): plain data items; every
     value has the SHAPE of its path's receiver; per receiver, the TOTAL number of values all chunks hold for its path
     is at most the receiver's room.  Shape, well-formedness and room-minus-demand are invariants of append_data
     ([append_data_invariants]).
   * Allocation ([get_data_receiver_concrete], [allocation_sizes], [get_data_receiver_shape]): every receiver the
     allocation loop creates is well formed, not a DAQmx receiver, has the shape its channel's data type prescribes and
     -- unless it is a list receiver -- room for exactly len(channel) values.
   * Counting ([all_chunks_of_ser_file], [total_demand_le_values]): the chunk stream of ser_file segs holds, per path,
     exactly the values of concat chunkss; the total demand of a path is at most the number of values the model's
     chunks hold for it; with ReadCorrect.om_len_counts_values that number is len(channel).
   * Typing ([channel_dtype_of_segment_object], [reader_typed_of_plain_layouts], [segs_encode_plain_layouts]): the
     metadata pass gives a channel the data type of every typed segment object under its path; the translated
     contiguous AND interleaved chunk readers yield, per object, arrays of the dtype the object's data type prescribes
     (fromfile / from_bytes; strings for String); every segment of an encoded file has one of these two layouts.
   * [read_data_fits_of_run_typed], [run_typed_of_wf]: the two halves, and
     [read_data_fits_of_wf_partial]: under the hypotheses of C01_read.read_correct (its sixth, typed_objects_are_channels,
     is not needed here) the translated run satisfies read_data_fits.
   * [tdmsfile_read_data_translated_ser_partial]: under read_correct's hypotheses the translated _read_data on
     ser_file segs SUCCEEDS, leaves the file's bytes, sets the flag True, its receivers are exactly rd_eager's, every
     channel's receiver holds the values the file encodes for it (expected_data: the content read_correct's tokens show),
     and the receivers are handed over to the channels.  NO read_data_fits (and no run_typed) hypothesis.

   WHAT IS MISSING (why the last two are _partial).  Two hypotheses beyond read_correct's bundle remain:
   (1) [segs_data_ok (ser_file segs) (rs_segments st)], the domain of the chunk readers' equalities of C01_gen5.  It is
       already a separate hypothesis of C01_gen5's theorem; it is used here to identify the translated chunk stream with
       the model's.  It is NOT derived from wf_file / segs_encode, and as a whole it CANNOT be: its clause
       chunks_strings_valid (every string value is left unchanged by String._decode, i.e. is valid UTF-8) is independent
       of read_correct's hypotheses (segs_encode allows arbitrary bytes in string values).  Its other clauses (typed data
       objects of a supported type, non-negative chunk value counts, sized objects in interleaved segments, the model's
       fuel bound num_chunks <= 2 + remaining bytes) should follow from seg_at / seg_encodes but are not derived.
   (2) raw_timestamps = True, or no channel of type TimeStamp.  This one is NECESSARY for read_data_fits, not a gap:
       [data_fits] has no case for a timestamp receiver with raw_timestamps = False (as_datetime64 is not modelled).
   DAQmx files are outside read_correct's hypotheses (segs_encode has no DAQmx case; no_daqmx_channels_ser). *)
From Coq Require Import String Ascii.
From Coq Require Import List ZArith.
Import ListNotations.
From NpTdms Require Import Base.Bytes Base.Res Model.Tokens Model.SegState Model.Layout Model.Reader Model.FileSyn
     Gen.PyFuncsReader Gen.PyFuncsDecode Gen.PyFuncsDaqmxRead Gen.PyFuncsDaqmxLoop Gen.PyFuncsEagerLoop
     Proofs.FileSynProofs Proofs.ReadCorrect Proofs.GenReaderEquiv Proofs.GenDecodeEquiv Proofs.GenDecodeRecv
     Proofs.GenDaqmxEquiv Proofs.GenDaqmxLoopEquiv Proofs.GenEagerEquiv Proofs.GenEagerFits.
Local Open Scope Z_scope.

(* ---- appends: what never changes, and the static condition -------------------------------------------------------------- *)

Theorem append_data_invariants : forall asdt r v r',
    recv_wf r -> val_ok (shape r) v -> demand v <= room r ->
    receiver_append_data_gen asdt r v = Ok r' ->
    shape r' = shape r /\ recv_wf r' /\ room r' = room r - demand v.
Proof. exact append_static. Qed.

Theorem chunks_fit_of_static : forall asdt l cd, static_ok cd (all_items l) -> chunks_fit asdt l cd.
Proof. exact GenEagerFits.chunks_fit_of_static. Qed.

(* ---- allocation ------------------------------------------------------------------------------------------------------------ *)

Theorem get_data_receiver_concrete : forall c n raw mm r,
    0 <= n -> ch_dtype c <> Some T_DAQMX ->
    get_data_receiver_gen c n raw mm = Ok (Some r) ->
    recv_wf r /\ shape r <> SDaq /\ ch_dtype c <> None /\ (shape r = SList \/ room r = n).
Proof. exact GenEagerFits.get_data_receiver_concrete. Qed.

(* the preallocated length of every array receiver is len(channel) *)
Theorem allocation_sizes : forall raw mm CH groups cd cd',
    Forall (Forall (chan_plain CH)) groups -> alloc_inv CH cd ->
    tdmsfile_read_data_gen_loop5 raw mm groups cd = Ok cd' -> alloc_inv CH cd'.
Proof. exact alloc_outer_inv. Qed.

(* ---- the chunk stream of a serialised file, and the total demand ------------------------------------------------------------ *)

Theorem all_chunks_of_ser_file : forall data segs gs chunkss pre,
    wf_file segs -> data = pre ++ ser_file segs -> segs_at (blen pre) segs gs -> segs_encode gs segs chunkss ->
    exists cs, all_chunks data gs = Ok cs /\ (forall p, chan_values p cs = chan_values p (concat chunkss)) /\
               Forall only_cdata cs.
Proof. exact all_chunks_ser. Qed.

Theorem total_demand_le_values : forall p its kvs,
    Forall2 item_abs its kvs ->
    (forall rc v vs, In (p, rc) its -> rc_data rc = Some v -> pydata_values v = Some vs -> demand v <= Z.of_nat (length vs)) ->
    items_demand p its <= Z.of_nat (length (flat_map (entry_values p) kvs)).
Proof. exact demand_of_abs. Qed.

(* len(channel) >= 0 and no DAQmx scalers: C01_gen5's [chan_ok] holds for every channel *)
Theorem chan_ok_of_wf : forall segs st h chunkss,
    sm_run segs false = Ok st -> build_hierarchy (rs_om st) = Ok h -> segs_encode (rs_segments st) segs chunkss ->
    om_paths_canonical (rs_om st) -> Forall chan_ok (all_channels h).
Proof. exact GenEagerFits.chan_ok_of_wf. Qed.

(* ---- typing ----------------------------------------------------------------------------------------------------------------------- *)

Theorem get_data_receiver_shape : forall c n raw mm r dt,
    0 <= n -> ch_dtype c = Some dt -> dt <> T_DAQMX ->
    get_data_receiver_gen c n raw mm = Ok (Some r) -> shape r = chan_shape dt raw.
Proof. exact GenEagerFits.get_data_receiver_shape. Qed.

Theorem channel_dtype_of_segment_object : forall segs w st h,
    sm_run segs w = Ok st -> build_hierarchy (rs_om st) = Ok h -> om_paths_canonical (rs_om st) ->
    forall g o d c, In g (rs_segments st) -> In o (sg_objs g) -> so_dtype o = Some d ->
                    In c (all_channels h) -> ch_path c = so_path o -> ch_dtype c = Some d.
Proof. exact GenEagerFits.channel_dtype_of_segment_object. Qed.

(* TdmsReader.read_raw_data over segments of the contiguous or interleaved layout: every data value yielded under a path
   comes from a typed object of that path and has the dtype the object's data type prescribes *)
Theorem reader_typed_of_plain_layouts : forall segs f0,
    (forall g, In g segs -> plain_layout g) -> reader_typed segs f0.
Proof. exact reader_typed_plain. Qed.

Theorem segs_encode_plain_layouts : forall gs segs chunkss,
    segs_encode gs segs chunkss -> forall g, In g gs -> plain_layout g.
Proof. exact segs_encode_plain. Qed.

Theorem run_typed_of_wf : forall segs st h chunkss raw mm f0,
    sm_run segs false = Ok st -> build_hierarchy (rs_om st) = Ok h -> segs_encode (rs_segments st) segs chunkss ->
    om_paths_canonical (rs_om st) ->
    (raw = true \/ forall c, In c (all_channels h) -> ch_dtype c <> Some dec_cls_TimeStamp) ->
    run_typed (groups_of h) raw mm (rs_segments st) f0.
Proof. exact run_typed_plain. Qed.

(* ---- read_data_fits, and the whole function ------------------------------------------------------------------------------------ *)

Theorem read_data_fits_of_run_typed : forall segs st h chunkss,
    wf_file segs ->
    sm_run segs false = Ok st ->
    build_hierarchy (rs_om st) = Ok h ->
    segs_encode (rs_segments st) segs chunkss ->
    om_paths_canonical (rs_om st) ->
    forall asdt raw mm p0,
    segs_data_ok (ser_file segs) (rs_segments st) ->
    run_typed (groups_of h) raw mm (rs_segments st) (mkPf (ser_file segs) p0) ->
    read_data_fits asdt (groups_of h) raw mm (rs_segments st) (mkPf (ser_file segs) p0).
Proof. exact read_data_fits_of_wf_typed. Qed.

Theorem read_data_fits_of_wf_partial : forall segs st h chunkss asdt raw mm p0,
    wf_file segs ->
    sm_run segs false = Ok st ->
    build_hierarchy (rs_om st) = Ok h ->
    segs_encode (rs_segments st) segs chunkss ->
    om_paths_canonical (rs_om st) ->
    segs_data_ok (ser_file segs) (rs_segments st) ->
    (raw = true \/ forall c, In c (all_channels h) -> ch_dtype c <> Some dec_cls_TimeStamp) ->
    read_data_fits asdt (groups_of h) raw mm (rs_segments st) (mkPf (ser_file segs) p0).
Proof. exact read_data_fits_of_wf_plain. Qed.

Theorem tdmsfile_read_data_translated_ser_partial : forall segs st h chunkss asdt raw mm p0,
    wf_file segs ->
    sm_run segs false = Ok st ->
    build_hierarchy (rs_om st) = Ok h ->
    segs_encode (rs_segments st) segs chunkss ->
    om_paths_canonical (rs_om st) ->
    typed_objects_are_channels (rs_om st) ->
    segs_data_ok (ser_file segs) (rs_segments st) ->
    (raw = true \/ forall c, In c (all_channels h) -> ch_dtype c <> Some dec_cls_TimeStamp) ->
    exists cd rawd f recv,
      tdmsfile_read_data_gen asdt (groups_of h) [] raw mm (Some (rs_segments st)) (mkPf (ser_file segs) p0) tt
      = Ok (cd, rawd, true, f) /\
      pf_data f = ser_file segs /\
      cd_abs cd = Some recv /\ rd_eager st h (ser_file segs) = Ok recv /\
      (forall c, In c (all_channels h) -> alookup (ch_path c) recv = Some (expected_data (concat chunkss) c)) /\
      fold_left (handover_step cd) (concat (groups_of h)) (Ok []) = Ok rawd.
Proof. exact tdmsfile_read_data_ser_plain. Qed.

(* the hypotheses are satisfiable, and the translated run is computed:
   - ReadCorrect.rc_file (two contiguous segments, int32 channel "a" and string channel "b", three chunks, the second
     segment without a metadata block), read with raw_timestamps = True;
   - ReadCorrect.rc2_file (an INTERLEAVED segment, int16 channel "a" and bool channel "b", three rows, then a
     metadata-only segment), read with raw_timestamps = False: no channel has the timestamp type *)
Section Examples.
Import String.
Local Open Scope string_scope.
Example c01_gen6_example :
  wf_file rc_file /\ sm_run rc_file false = Ok rc_st /\ build_hierarchy (rs_om rc_st) = Ok rc_h /\
  segs_encode (rs_segments rc_st) rc_file rc_chunks /\ om_paths_canonical (rs_om rc_st) /\
  typed_objects_are_channels (rs_om rc_st) /\
  segs_data_ok (ser_file rc_file) (rs_segments rc_st) /\
  run_typed (groups_of rc_h) true false (rs_segments rc_st) (mkPf (ser_file rc_file) 0) /\
  mapr (fun r => let '(cd, rawd, flag, f) := r in (cd_abs cd, map fst rawd, flag))
       (tdmsfile_read_data_gen (fun _ => Err EFuel) (groups_of rc_h) [] true false (Some (rs_segments rc_st))
                               (mkPf (ser_file rc_file) 0) tt)
  = Ok (Some [(rc_path_a, Some (CData [hex "01000000"; hex "02000000"; hex "03000000"; hex "04000000"; hex "05000000"; hex "06000000"]));
              (rc_path_b, Some (CData [hex "6162"; hex "63"; []; hex "78797a"; hex "71"; hex "7273"]))],
        [rc_path_a; rc_path_b], true).
Proof. exact rc_read_data_gen. Qed.

Example c01_gen6_example_interleaved :
  wf_file rc2_file /\ sm_run rc2_file false = Ok rc2_st /\ build_hierarchy (rs_om rc2_st) = Ok rc2_h /\
  segs_encode (rs_segments rc2_st) rc2_file rc2_chunks /\ om_paths_canonical (rs_om rc2_st) /\
  typed_objects_are_channels (rs_om rc2_st) /\
  segs_data_ok (ser_file rc2_file) (rs_segments rc2_st) /\
  (forall c, In c (all_channels rc2_h) -> ch_dtype c <> Some dec_cls_TimeStamp) /\
  mapr (fun r => let '(cd, rawd, flag, f) := r in (cd_abs cd, map fst rawd, flag))
       (tdmsfile_read_data_gen (fun _ => Err EFuel) (groups_of rc2_h) [] false false (Some (rs_segments rc2_st))
                               (mkPf (ser_file rc2_file) 0) tt)
  = Ok (Some [(rc_path_a, Some (CData [hex "0102"; hex "0304"; hex "0506"]));
              (rc_path_b, Some (CData [hex "01"; hex "00"; hex "01"]))],
        [rc_path_a; rc_path_b], true).
Proof. exact rc2_read_data_gen. Qed.
End Examples.

Print Assumptions append_data_invariants.
Print Assumptions chunks_fit_of_static.
Print Assumptions get_data_receiver_concrete.
Print Assumptions allocation_sizes.
Print Assumptions all_chunks_of_ser_file.
Print Assumptions total_demand_le_values.
Print Assumptions chan_ok_of_wf.
Print Assumptions get_data_receiver_shape.
Print Assumptions channel_dtype_of_segment_object.
Print Assumptions reader_typed_of_plain_layouts.
Print Assumptions segs_encode_plain_layouts.
Print Assumptions run_typed_of_wf.
Print Assumptions read_data_fits_of_run_typed.
Print Assumptions read_data_fits_of_wf_partial.
Print Assumptions tdmsfile_read_data_translated_ser_partial.
Print Assumptions c01_gen6_example.
Print Assumptions c01_gen6_example_interleaved.
