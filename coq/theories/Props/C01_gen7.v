(* C01_gen7 -- the reader-domain hypothesis [segs_data_ok] of Props/C01_gen5.v / C01_gen6.v, DERIVED clause by clause for
   the segments the metadata pass records on a serialised well-formed file; the translated TdmsFile._read_data composed
   with it.

   [segs_data_ok data gs] says for every segment g of gs (cur = data from sg_data g on):
     (1) 0 <= sg_pos g                     (2) 0 <= sg_data g
     (3) Z.to_nat (sg_nchunks g) <= 2 + length cur                                   (the model's loop fuel)
     and, by layout:
     contiguous   (4) every data object has a supported data type (obj_ok)
                  (5) for every chunk index, every data object's value count is >= 0
                  (6) chunks_strings_valid: every string read is left unchanged by String._decode (valid UTF-8)
     interleaved  (7) every data object is sized      (8) 0 <= so_nvals (first data object) * sg_nchunks g
     DAQmx        (9) daqmx_objs_ok                   (never the layout of an encoded segment: segs_encode_plain_layouts)

   WHAT IS PROVED, from seg_at (sm_run's trace) and seg_encodes (the hypotheses of C01_read.read_correct):
   * (1), (2) and `the reader sees fs_data s ++ rest' [seg_at_positions]; (3) [calculate_chunks_bounds]: any result of
     _calculate_chunks has 0 <= num_chunks <= 1 + data size; (7), (8) from se_interleaved; (9) does not arise.
   * (6) from the UTF-8 hypothesis stated on the chunk VALUES of the file syntax ([strings_utf8 gs chunkss]: every value a
     chunk holds under the path of a string-typed data object of its segment is valid UTF-8; checker strings_utf8_b):
     [enc_chunks_strings_valid].
   * (4), (5) for every contiguous segment that has AT LEAST ONE chunk (from the values' well-formedness vals_ok).
   * [seg_data_ok_encoded] (one segment), [segs_data_ok_of_wf_partial], [tdmsfile_read_data_translated_ser_utf8_partial]:
     segs_data_ok itself, with ONE residual hypothesis (next paragraph).

   THE CLAUSE THAT IS NOT DERIVABLE, AND HOW IT IS REMOVED.  Clauses (4) and (5) for a contiguous segment that has data
   objects but NO chunk (empty raw data) do not follow: [segs_data_ok_of_wf_partial] carries the hypothesis
   [Forall empty_contig_ok (rs_segments st)] for them, and [segs_data_ok_of_wf_refuted] gives a well-formed file satisfying
   all of read_correct's hypotheses, without any string, on which segs_data_ok is FALSE (rc3_file: a channel declared
   without raw data index gets `same as previous' in a later segment that has no raw data; the metadata pass makes it a
   data object WITHOUT data type; 0 chunks; real npTDMS reads the file: channel b, no data type, 0 values).  The defect is in
   the DOMAIN predicate seg_data_ok of C01_gen5 (it asks (4), (5) whatever the number of chunks), not in the reader.
   So the domain is weakened here, in new definitions only: [seg_data_ok0 sg cur] = seg_data_ok sg cur, OR sg is contiguous
   with 0 chunks ([segs_data_ok0], implied by segs_data_ok: segs_data_ok_weaken).  The translated reader does not touch the
   objects of such a segment ([segment_read_data_chunks_eq0]); C01_gen5's and C01_gen6's theorems consume segs_data_ok only
   through reader_read_raw_data_eq and are re-proved over the weaker domain with the same scripts
   ([reader_read_raw_data_weaker_domain], [tdmsfile_read_data_translated_weaker_domain]).  Then
   * [segs_data_ok0_of_wf]: the weaker domain holds under read_correct's hypotheses + the UTF-8 hypothesis, NOTHING else;
   * [read_data_fits_of_wf], [tdmsfile_read_data_translated_ser]: C01_gen6's two _partial theorems with segs_data_ok
     REPLACED by the UTF-8 hypothesis strings_utf8 (which is genuinely independent: segs_encode allows arbitrary bytes in
     string values).  Not _partial any more w.r.t. the domain.  The remaining restriction on timestamps (raw_timestamps =
     True or no TimeStamp channel) is C01_gen6's and is NECESSARY for read_data_fits (as_datetime64 is not modelled). *)
From Coq Require Import String Ascii.
From Coq Require Import List ZArith.
Import ListNotations.
From NpTdms Require Import Base.Bytes Base.Res Model.Tokens Model.SegState Model.Layout Model.Reader Model.FileSyn
     Gen.PyFuncsReader Gen.PyFuncsDecode Gen.PyFuncsDaqmxRead Gen.PyFuncsDaqmxLoop Gen.PyFuncsEagerLoop
     Proofs.LayoutProofs Proofs.FileSynProofs Proofs.ReadCorrect Proofs.GenReaderEquiv Proofs.GenDecodeEquiv Proofs.GenDecodeRecv
     Proofs.GenDaqmxEquiv Proofs.GenDaqmxLoopEquiv Proofs.GenEagerEquiv Proofs.GenEagerFits Proofs.GenEagerDomain.
Local Open Scope Z_scope.

(* ---- clauses (1), (2), (3) ----------------------------------------------------------------------------------------------------- *)

Theorem seg_at_positions : forall pre s rest g,
    wf_fseg s = true -> seg_at (blen pre) s g ->
    0 <= sg_pos g /\ 0 <= sg_data g /\
    drop (sg_data g) (pre ++ ser_seg TAG_DATA true s ++ rest) = fs_data s ++ rest.
Proof. exact GenEagerDomain.seg_at_positions. Qed.

Theorem calculate_chunks_bounds : forall toc inc objs total n f,
    calculate_chunks toc inc objs total = Ok (n, f) -> 0 <= n <= 1 + total.
Proof. exact GenEagerDomain.calculate_chunks_bounds. Qed.

(* ---- clause (6) from the UTF-8 hypothesis on the encoded values ------------------------------------------------------------------ *)

Theorem enc_chunks_strings_valid : forall e objs nc css ci rest,
    ci + Z.of_nat (length css) = nc ->
    NoDup (map so_path objs) ->
    Forall (fun vss => Forall2 (fun o vs => vals_ok (so_nvals o) o vs) objs vss) css ->
    Forall (Forall2 decode_neutral objs) css ->
    chunks_strings_valid e objs nc None (py_range ci nc) (enc_chunks e objs css ++ rest).
Proof. exact GenEagerDomain.enc_chunks_strings_valid. Qed.

Theorem strings_utf8_b_sound : forall gs chunkss, strings_utf8_b gs chunkss = true -> strings_utf8 gs chunkss.
Proof. exact GenEagerDomain.strings_utf8_b_sound. Qed.

(* ---- one segment, all segments ---------------------------------------------------------------------------------------------------- *)

Theorem seg_data_ok_encoded : forall g data cs rest,
    seg_encodes g data cs ->
    calculate_chunks (sg_toc g) (sg_incomplete g) (sg_objs g) (blen data) = Ok (sg_nchunks g, sg_final g) ->
    Forall (chunk_utf8 (data_objs (sg_objs g))) cs ->
    empty_contig_ok g ->
    seg_data_ok g (data ++ rest).
Proof. exact GenEagerDomain.seg_data_ok_encoded. Qed.

Theorem segs_data_ok_of_wf_partial : forall segs st chunkss,
    wf_file segs -> sm_run segs false = Ok st -> segs_encode (rs_segments st) segs chunkss ->
    strings_utf8 (rs_segments st) chunkss -> Forall empty_contig_ok (rs_segments st) ->
    segs_data_ok (ser_file segs) (rs_segments st).
Proof. exact GenEagerDomain.segs_data_ok_of_wf_partial. Qed.

(* without the residual hypothesis the statement is false *)
Theorem segs_data_ok_of_wf_refuted :
  exists segs st h chunkss,
    wf_file segs /\ sm_run segs false = Ok st /\ build_hierarchy (rs_om st) = Ok h /\
    segs_encode (rs_segments st) segs chunkss /\ om_paths_canonical (rs_om st) /\
    typed_objects_are_channels (rs_om st) /\ strings_utf8 (rs_segments st) chunkss /\
    ~ segs_data_ok (ser_file segs) (rs_segments st).
Proof. exact GenEagerDomain.segs_data_ok_of_wf_refuted. Qed.

(* ---- the whole function ------------------------------------------------------------------------------------------------------------ *)

Theorem tdmsfile_read_data_translated_ser_utf8_partial : forall segs st h chunkss asdt raw mm p0,
    wf_file segs ->
    sm_run segs false = Ok st ->
    build_hierarchy (rs_om st) = Ok h ->
    segs_encode (rs_segments st) segs chunkss ->
    om_paths_canonical (rs_om st) ->
    typed_objects_are_channels (rs_om st) ->
    strings_utf8 (rs_segments st) chunkss ->
    Forall empty_contig_ok (rs_segments st) ->
    (raw = true \/ forall c, In c (all_channels h) -> ch_dtype c <> Some dec_cls_TimeStamp) ->
    exists cd rawd f recv,
      tdmsfile_read_data_gen asdt (groups_of h) [] raw mm (Some (rs_segments st)) (mkPf (ser_file segs) p0) tt
      = Ok (cd, rawd, true, f) /\
      pf_data f = ser_file segs /\
      cd_abs cd = Some recv /\ rd_eager st h (ser_file segs) = Ok recv /\
      (forall c, In c (all_channels h) -> alookup (ch_path c) recv = Some (expected_data (concat chunkss) c)) /\
      fold_left (handover_step cd) (concat (groups_of h)) (Ok []) = Ok rawd.
Proof. exact tdmsfile_read_data_ser_utf8_partial. Qed.

(* ---- the weaker domain: derived without residue; the theorems that consumed segs_data_ok, over it -------------------------------- *)

Theorem segs_data_ok_weaken : forall data gs, segs_data_ok data gs -> segs_data_ok0 data gs.
Proof. exact GenEagerDomain.segs_data_ok_weaken. Qed.

Theorem segment_read_data_chunks_eq0 : forall sg cur,
    seg_data_ok0 sg cur ->
    mapr (fun p => (chunks_abs_dq (fst p), snd p))
         (segment_read_data_chunks_gen sg cur (data_objs (sg_objs sg)) (sg_nchunks sg))
    = mapr (fun p => (Some (fst p), snd p)) (read_segment_chunks sg cur).
Proof. exact GenEagerDomain.segment_read_data_chunks_eq0. Qed.

Theorem reader_read_raw_data_weaker_domain : forall data segs p0,
    segs_data_ok0 data segs ->
    mapr (fun p => (chunks_abs_dq (fst p), pf_data (snd p))) (reader_read_raw_data_gen (Some segs) (mkPf data p0))
    = mapr (fun cs => (Some cs, data)) (all_chunks data segs).
Proof. exact reader_read_raw_data_eq0. Qed.

(* Props/C01_gen5.v tdmsfile_read_data_translated_partial over the weaker domain *)
Theorem tdmsfile_read_data_translated_weaker_domain : forall asdt st h data raw mm p0,
    Forall chan_ok (all_channels h) ->
    segs_data_ok0 data (rs_segments st) ->
    read_data_fits asdt (groups_of h) raw mm (rs_segments st) (mkPf data p0) ->
    res_agree (mapr (fun r => let '(cd, rawd, flag, f) := r in (cd_abs cd, flag, pf_data f))
                    (tdmsfile_read_data_gen asdt (groups_of h) [] raw mm (Some (rs_segments st)) (mkPf data p0) tt))
              (mapr (fun recv => (Some recv, true, data)) (rd_eager st h data)).
Proof. exact tdmsfile_read_data_eq0. Qed.

Theorem seg_data_ok0_encoded : forall g data cs rest,
    seg_encodes g data cs ->
    calculate_chunks (sg_toc g) (sg_incomplete g) (sg_objs g) (blen data) = Ok (sg_nchunks g, sg_final g) ->
    Forall (chunk_utf8 (data_objs (sg_objs g))) cs ->
    seg_data_ok0 g (data ++ rest).
Proof. exact GenEagerDomain.seg_data_ok0_encoded. Qed.

Theorem segs_data_ok0_of_wf : forall segs st chunkss,
    wf_file segs -> sm_run segs false = Ok st -> segs_encode (rs_segments st) segs chunkss ->
    strings_utf8 (rs_segments st) chunkss ->
    segs_data_ok0 (ser_file segs) (rs_segments st).
Proof. exact GenEagerDomain.segs_data_ok0_of_wf. Qed.

Theorem read_data_fits_of_wf : forall segs st h chunkss asdt raw mm p0,
    wf_file segs ->
    sm_run segs false = Ok st ->
    build_hierarchy (rs_om st) = Ok h ->
    segs_encode (rs_segments st) segs chunkss ->
    om_paths_canonical (rs_om st) ->
    strings_utf8 (rs_segments st) chunkss ->
    (raw = true \/ forall c, In c (all_channels h) -> ch_dtype c <> Some dec_cls_TimeStamp) ->
    read_data_fits asdt (groups_of h) raw mm (rs_segments st) (mkPf (ser_file segs) p0).
Proof. exact read_data_fits_of_wf_utf8. Qed.

Theorem tdmsfile_read_data_translated_ser : forall segs st h chunkss asdt raw mm p0,
    wf_file segs ->
    sm_run segs false = Ok st ->
    build_hierarchy (rs_om st) = Ok h ->
    segs_encode (rs_segments st) segs chunkss ->
    om_paths_canonical (rs_om st) ->
    typed_objects_are_channels (rs_om st) ->
    strings_utf8 (rs_segments st) chunkss ->
    (raw = true \/ forall c, In c (all_channels h) -> ch_dtype c <> Some dec_cls_TimeStamp) ->
    exists cd rawd f recv,
      tdmsfile_read_data_gen asdt (groups_of h) [] raw mm (Some (rs_segments st)) (mkPf (ser_file segs) p0) tt
      = Ok (cd, rawd, true, f) /\
      pf_data f = ser_file segs /\
      cd_abs cd = Some recv /\ rd_eager st h (ser_file segs) = Ok recv /\
      (forall c, In c (all_channels h) -> alookup (ch_path c) recv = Some (expected_data (concat chunkss) c)) /\
      fold_left (handover_step cd) (concat (groups_of h)) (Ok []) = Ok rawd.
Proof. exact tdmsfile_read_data_ser_utf8. Qed.

(* the hypotheses are satisfiable (ReadCorrect.rc_file: two contiguous segments, int32 channel "a" and STRING channel "b",
   three chunks; rc2_file: an interleaved segment and a metadata-only segment), the derived domain holds, and the UTF-8
   hypothesis is not vacuous on strings (a non-UTF-8 value is rejected); the refutation's witness still reads correctly *)
Section Examples.
Import String.
Local Open Scope string_scope.
Example c01_gen7_example :
  wf_file rc_file /\ sm_run rc_file false = Ok rc_st /\ build_hierarchy (rs_om rc_st) = Ok rc_h /\
  segs_encode (rs_segments rc_st) rc_file rc_chunks /\ om_paths_canonical (rs_om rc_st) /\
  typed_objects_are_channels (rs_om rc_st) /\
  strings_utf8 (rs_segments rc_st) rc_chunks /\ Forall empty_contig_ok (rs_segments rc_st) /\
  segs_data_ok (ser_file rc_file) (rs_segments rc_st).
Proof.
  split; [exact rc_wf|]. split; [exact rc_run|]. split; [exact rc_hier|]. split; [exact rc_encodes|].
  split; [exact rc_canonical|]. split; [exact rc_typed_channels|]. split; [exact rc_strings_utf8|].
  split; [exact rc_empty_contig_ok|]. exact rc_segs_data_ok_derived.
Qed.

Example c01_gen7_example_interleaved :
  wf_file rc2_file /\ sm_run rc2_file false = Ok rc2_st /\ build_hierarchy (rs_om rc2_st) = Ok rc2_h /\
  segs_encode (rs_segments rc2_st) rc2_file rc2_chunks /\ om_paths_canonical (rs_om rc2_st) /\
  typed_objects_are_channels (rs_om rc2_st) /\
  strings_utf8 (rs_segments rc2_st) rc2_chunks /\ Forall empty_contig_ok (rs_segments rc2_st) /\
  (forall c, In c (all_channels rc2_h) -> ch_dtype c <> Some dec_cls_TimeStamp).
Proof.
  split; [exact rc2_wf|]. split; [exact rc2_run|]. split; [exact rc2_hier|]. split; [exact rc2_encodes|].
  split; [exact rc2_canonical|]. split; [exact rc2_typed_channels|]. split; [exact rc2_strings_utf8|].
  split; [exact rc2_empty_contig_ok|]. exact rc2_no_timestamps.
Qed.

Example c01_gen7_utf8_rejects :
  chunk_utf8_b [mkSobj rc_path_b true 1 5 (Some T_STRING) None] [(rc_path_b, CData [hex "ff"])] = false.
Proof. exact strings_utf8_b_rejects. Qed.

Example c01_gen7_witness_agrees :
  mapr (fun r => let '(cd, rawd, flag, f) := r in (cd_abs cd, flag))
       (tdmsfile_read_data_gen (fun _ => Err EFuel) (groups_of rc3_h) [] true false (Some (rs_segments rc3_st))
                               (mkPf (ser_file rc3_file) 0) tt)
  = mapr (fun recv => (Some recv, true)) (rd_eager rc3_st rc3_h (ser_file rc3_file)) /\
  rd_eager rc3_st rc3_h (ser_file rc3_file) = Ok [(rc_path_a, Some (CData [hex "01000000"])); (rc_path_b, None)].
Proof. exact rc3_read_data_agrees. Qed.

(* the refutation's witness satisfies the hypotheses of the full theorem (and the weaker domain holds on it) *)
Example c01_gen7_example_witness :
  wf_file rc3_file /\ sm_run rc3_file false = Ok rc3_st /\ build_hierarchy (rs_om rc3_st) = Ok rc3_h /\
  segs_encode (rs_segments rc3_st) rc3_file rc3_chunks /\ om_paths_canonical (rs_om rc3_st) /\
  typed_objects_are_channels (rs_om rc3_st) /\ strings_utf8 (rs_segments rc3_st) rc3_chunks /\
  ~ segs_data_ok (ser_file rc3_file) (rs_segments rc3_st) /\ segs_data_ok0 (ser_file rc3_file) (rs_segments rc3_st).
Proof.
  split; [exact rc3_wf|]. split; [exact rc3_run|]. split; [exact rc3_hier|]. split; [exact rc3_encodes|].
  split; [exact rc3_canonical|]. split; [exact rc3_typed_channels|]. split; [exact rc3_strings_utf8|].
  split; [exact rc3_not_segs_data_ok|exact rc3_segs_data_ok0].
Qed.
End Examples.

Print Assumptions seg_at_positions.
Print Assumptions calculate_chunks_bounds.
Print Assumptions enc_chunks_strings_valid.
Print Assumptions strings_utf8_b_sound.
Print Assumptions seg_data_ok_encoded.
Print Assumptions segs_data_ok_of_wf_partial.
Print Assumptions segs_data_ok_of_wf_refuted.
Print Assumptions tdmsfile_read_data_translated_ser_utf8_partial.
Print Assumptions segs_data_ok_weaken.
Print Assumptions segment_read_data_chunks_eq0.
Print Assumptions reader_read_raw_data_weaker_domain.
Print Assumptions tdmsfile_read_data_translated_weaker_domain.
Print Assumptions seg_data_ok0_encoded.
Print Assumptions segs_data_ok0_of_wf.
Print Assumptions read_data_fits_of_wf.
Print Assumptions tdmsfile_read_data_translated_ser.
Print Assumptions c01_gen7_example.
Print Assumptions c01_gen7_example_witness.
Print Assumptions c01_gen7_example_interleaved.
Print Assumptions c01_gen7_utf8_rejects.
Print Assumptions c01_gen7_witness_agrees.
