(* C16 — Object names are arbitrary strings and never alias.
   Statements only; proofs live in Proofs/PathProofs.v. *)
From Coq Require Import List NArith.
Import ListNotations.
From NpTdms Require Import Model.Path Model.PathN Proofs.PathProofs.

Section C16.
  Variable A : Type.
  Variable eqb : A -> A -> bool.
  Variables q s : A.
  Hypothesis eqb_eq : forall a b, eqb a b = true <-> a = b.
  Hypothesis q_ne_s : q <> s.

  (* names -> path -> names is the identity, for every pair of strings over
     every alphabet (quotes, slashes, empty strings included) *)
  Theorem path_roundtrip_channel : forall g c : list A,
      from_string A eqb q s (components_to_path A eqb q s (Some g) (Some c))
      = inr (Some g, Some c).
  Proof. exact (from_string_channel A eqb q s eqb_eq q_ne_s). Qed.

  Theorem path_roundtrip_group : forall g : list A,
      from_string A eqb q s (components_to_path A eqb q s (Some g) None)
      = inr (Some g, None).
  Proof. exact (from_string_group A eqb q s eqb_eq q_ne_s). Qed.

  Theorem path_roundtrip_root :
      from_string A eqb q s (components_to_path A eqb q s None None)
      = inr (None, None).
  Proof. exact (from_string_root A eqb q s eqb_eq q_ne_s). Qed.

  (* the scanner inverts the printer for any number of components *)
  Theorem path_components_roundtrip : forall cs : list (list A),
      path_components A eqb q s (components_to_path_list A eqb q s cs) = inr cs.
  Proof. exact (path_components_to_path_list A eqb q s eqb_eq q_ne_s). Qed.

  (* distinct identities (root / group / channel-in-group) give distinct paths *)
  Theorem path_injective : forall g c g' c' : option (list A),
      (g = None -> c = None) -> (g' = None -> c' = None) ->
      components_to_path A eqb q s g c = components_to_path A eqb q s g' c' ->
      g = g' /\ c = c'.
  Proof. exact (to_path_injective A eqb q s eqb_eq q_ne_s). Qed.
End C16.

(* Non-vacuity: the instance the harness runs (code points, "'" and "/")
   satisfies the hypotheses, and a concrete awkward name round-trips. *)
Example c16_instance_hyps :
  (forall a b : N, N.eqb a b = true <-> a = b) /\ QUOTE <> SLASH.
Proof. split; [exact N.eqb_eq | discriminate]. Qed.

Example c16_instance_channel : forall g c : list N,
  from_stringN (to_pathN (Some g) (Some c)) = inr (Some g, Some c).
Proof.
  exact (path_roundtrip_channel N N.eqb QUOTE SLASH N.eqb_eq
           (proj2 c16_instance_hyps)).
Qed.

Example c16_awkward :
  from_stringN (to_pathN (Some [39; 47; 39; 39]%N) (Some [47; 39]%N))
  = inr (Some [39; 47; 39; 39]%N, Some [47; 39]%N).
Proof. vm_compute. reflexivity. Qed.

Print Assumptions path_roundtrip_channel.
Print Assumptions path_roundtrip_group.
Print Assumptions path_roundtrip_root.
Print Assumptions path_components_roundtrip.
Print Assumptions path_injective.
Print Assumptions c16_instance_channel.
