(* C18 (companion) -- the EVALUATION LOGIC of nptdms/thermocouples.py and ThermocoupleScaling (nptdms/scaling.py),
   TRANSLATED from the source on every run (harness/gen/gen_pyfuncs_thermoeval.py, gen_pyfuncs_sensoreval.py,
   gen_pyfuncs_scaleeval.py + scale_sem.py -> Gen/PyFuncsThermoEval.v, Gen/PyFuncsSensorEval.v, Gen/PyFuncsScaleEval.v;
   self-tested bit for bit against the real classes and numpy.piecewise, np.exp replayed), equals the element-wise
   hand model Model/ThermoF.v that the theorems of Props/C18.v are about.  Statements only (proofs:
   Proofs/GenThermoEvalEquiv.v, GenSensorEvalEquiv.v, GenScaleEvalEquiv.v).

   Pinned by these equalities, from the source text: the constructors' checks (both ends None, start >= end,
   contiguity `start != prev_end` in table order); Range.within_range's three returns on arrays; polyval's
   coefficient list; np.piecewise's condition and function lists in table order with np.nan as the extra entry; the
   type-K exponential term as a PER-ELEMENT mask `temperature >= 0` (not "if any element"), its formula and the 0.0
   elsewhere, ADDED to the voltage; ThermocoupleScaling: which type code is which thermocouple, direction == 1 ->
   1000.0 * celsius_to_mv(data), otherwise mv_to_celsius(data / 1000.0) computed on a NEW array.
   np.piecewise is the fixed-text model np_piecewise (functions applied to the selected sub-array); np.exp is a
   parameter (PrimFloat has no exp): [eval_fwd np_exp] gives ThermoF's symbolic PlusExp its value. *)
From Coq Require Import String.
From Coq Require Import List ZArith Bool PrimFloat.
Import ListNotations.
From NpTdms Require Import Base.Res Gen.ThermoTables Gen.PyFuncsScaling Gen.PyFuncsThermoEval Gen.PyFuncsSensorEval
     Gen.PyFuncsScaleEval Proofs.GenThermoEvalEquiv Proofs.GenSensorEvalEquiv.
From NpTdms Require Proofs.GenScaleEvalEquiv.
From NpTdms Require Gen.PyFuncsThermoEvalTest Gen.PyFuncsSensorEvalTest.
From NpTdms Require Model.ScaleGraph Model.ThermoF.

(* ---- constructors -------------------------------------------------------------------------------------------------- *)

Theorem range_constructor_translated : forall s e,
  Range_new_gen s e = tlift (rmapT obj_range (TF.mk_range s e)).
Proof. exact range_new_eq. Qed.

(* _verify_contiguous: the loop over the table *)
Theorem verify_contiguous_translated : forall ps,
  verify_contiguous_gen (map obj_poly ps)
  = if TF.verify_contiguous None ps then Ok (last_end None ps) else Err EValue.
Proof. exact verify_eq. Qed.

(* the module-level literals through the translated constructors = the model's objects, all eight types *)
Theorem thermocouple_constructor_translated : forall fwd inv e,
  build_tc fwd inv e = tlift (rmapT obj_tc (TF.mk_thermocouple fwd inv e)).
Proof. exact build_tc_eq. Qed.

Theorem module_objects_translated : forall T,
  build_tc (code_fwdF T) (code_invF T) (code_expF T) = tlift (rmapT obj_tc (TF.type_tc T)).
Proof. exact build_type_tc. Qed.

(* ---- the methods on arrays ------------------------------------------------------------------------------------------- *)

Theorem within_range_translated : forall r xs,
  Range_within_range_gen (obj_range r) xs = Ok (map (TF.within_range r) xs).
Proof. exact within_range_eq. Qed.

Theorem apply_translated : forall p xs,
  Polynomial_apply_gen (obj_poly p) xs
  = match TF.coefficients p with [] => Err EIndex | c :: cs => Ok (map (TF.horner c cs) xs) end.
Proof. exact apply_eq. Qed.

(* np.piecewise over a table = the model's piecewise per element (NaN exactly where no piece selects) *)
Theorem piecewise_translated : forall xs ps, ps <> [] -> nonempty ps ->
  (do conditions <- mapM (fun p => do t <- Polynomial_within_range_gen p xs; Ok t) (map obj_poly ps);
   np_piecewise xs conditions (map (fun p => PwFun (Polynomial_apply_gen p)) (map obj_poly ps) ++ [PwConst nan]))
  = mapM (fun x => tlift (TF.piecewise x ps)) xs.
Proof. exact piecewise_table_eq. Qed.

Theorem mv_to_celsius_translated : forall tc xs, good_tc tc ->
  Thermocouple_mv_to_celsius_gen (obj_tc tc) xs = mapM (fun x => tlift (TF.mv_to_celsius tc x)) xs.
Proof. exact mv_to_celsius_eq. Qed.

(* the exponential term is decided PER ELEMENT (ThermoF.celsius_to_mv tests exp_condF on the element) *)
Theorem celsius_to_mv_translated : forall np_exp tc xs, good_tc tc ->
  Thermocouple_celsius_to_mv_gen np_exp (obj_tc tc) xs
  = mapM (fun x => tlift (rmapT (eval_fwd np_exp) (TF.celsius_to_mv tc x))) xs.
Proof. exact celsius_to_mv_eq. Qed.

(* [good_tc] (non-empty tables, no empty coefficient list) holds for the eight objects *)
Theorem module_objects_good : forall T tc, TF.type_tc T = TF.Ok tc -> good_tc tc.
Proof. exact type_tc_good. Qed.

(* ---- ThermocoupleScaling ---------------------------------------------------------------------------------------------- *)

(* which NI type code is which thermocouple (any other code: KeyError) *)
Theorem thermocouple_type_codes_translated : forall code dir z,
  ThermocoupleScaling_new_gen code dir z
  = match find (fun T => Z.eqb (GenScaleEvalEquiv.ni_type_code T) code) all_types with
    | Some T => Ok (PyThermocoupleScaling T dir z)
    | None => Err EKey
    end.
Proof. exact GenScaleEvalEquiv.thermocouple_type_table. Qed.

Theorem thermocouple_scale_translated : forall np_exp T tc dir src v, TF.type_tc T = TF.Ok tc ->
  ThermocoupleScaling_scale_gen np_exp T (ScaleGraph.PInt dir) src v
  = mapM (fun x => tlift (TF.scale tc dir (fun t => rmapT (eval_fwd np_exp) (TF.celsius_to_mv tc t)) x))
         (ScaleGraph.astype_f64 v).
Proof. exact thermocouple_scale_eq. Qed.

(* ---- conversions_never_default (Props/C18.v) transported to the translated array functions ---------------------- *)

Theorem conversions_never_default_translated : forall T, exists tc, TF.type_tc T = TF.Ok tc /\
  forall np_exp xs, Forall (fun x => is_nan x = false) xs ->
    (exists vs, Thermocouple_celsius_to_mv_gen np_exp (obj_tc tc) xs = Ok vs /\
       Forall2 (fun x v => exists p c cs r,
                  In p (TF.forward_polynomials tc) /\ TF.within_range (TF.applicable_range p) x = true /\
                  TF.coefficients p = c :: cs /\ TF.celsius_to_mv_poly tc x = TF.Ok (TF.horner c cs x) /\
                  TF.celsius_to_mv tc x = TF.Ok r /\ v = eval_fwd np_exp r) xs vs) /\
    (exists vs, Thermocouple_mv_to_celsius_gen (obj_tc tc) xs = Ok vs /\
       Forall2 (fun x v => exists p c cs,
                  In p (TF.inverse_polynomials tc) /\ TF.within_range (TF.applicable_range p) x = true /\
                  TF.coefficients p = c :: cs /\ v = TF.horner c cs x) xs vs).
Proof. exact conversions_never_default_gen. Qed.

(* ---- non-vacuity ------------------------------------------------------------------------------------------------------ *)

(* type K, an array mixing signs, with a stand-in for exp that makes the term visible: the exponential term is
   added to the non-negative elements only *)
Example ex_type_k_mask :
  match build_tc (code_fwdF TK) (code_invF TK) (code_expF TK) with
  | Ok tc => match Thermocouple_celsius_to_mv_gen (fun _ => 1000%float) tc [-10; 10]%float,
                   Thermocouple_celsius_to_mv_gen (fun _ => 0%float) tc [-10; 10]%float with
             | Ok [a1; a2], Ok [b1; b2] => (a1 =? b1)%float && (b2 <? a2)%float
             | _, _ => false
             end
  | Err _ => false
  end = true.
Proof. vm_compute. reflexivity. Qed.

(* direction 1 multiplies by 1000, the other direction divides first; types R and S are different objects *)
Example ex_scale_directions :
  ThermocoupleScaling_scale_gen (fun _ => 0%float) TJ (ScaleGraph.PInt 1) 4294967295 (ScaleGraph.VD [0; 100]%float)
    = Ok [0x0p+0; 0x1.494ea84709362p+12]%float /\
  ThermocoupleScaling_scale_gen (fun _ => 0%float) TJ (ScaleGraph.PInt 0) 4294967295 (ScaleGraph.VD [0x1.494ea84709362p+12]%float)
    = Ok [0x1.901429121f8dbp+6]%float /\
  ThermocoupleScaling_new_gen 10082 (ScaleGraph.PInt 0) 0 = Ok (PyThermocoupleScaling TR (ScaleGraph.PInt 0) 0) /\
  ThermocoupleScaling_new_gen 10085 (ScaleGraph.PInt 0) 0 = Ok (PyThermocoupleScaling TS (ScaleGraph.PInt 0) 0) /\
  ThermocoupleScaling_new_gen 10084 (ScaleGraph.PInt 0) 0 = Err EKey.
Proof. vm_compute. repeat split; reflexivity. Qed.

Print Assumptions range_constructor_translated.
Print Assumptions verify_contiguous_translated.
Print Assumptions thermocouple_constructor_translated.
Print Assumptions module_objects_translated.
Print Assumptions within_range_translated.
Print Assumptions apply_translated.
Print Assumptions piecewise_translated.
Print Assumptions mv_to_celsius_translated.
Print Assumptions celsius_to_mv_translated.
Print Assumptions module_objects_good.
Print Assumptions thermocouple_type_codes_translated.
Print Assumptions thermocouple_scale_translated.
Print Assumptions conversions_never_default_translated.
Print Assumptions ex_type_k_mask.
Print Assumptions ex_scale_directions.
