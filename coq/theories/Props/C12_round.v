(* C12 (companion) -- the binary64 rounding of TdmsChannel.time_track(), closing the gap named
   in the manifest entry of C12 ("the float linspace is not bounded by theorem").
   Statements only; proofs live in Proofs/TimeTrackRound.v, the binary64 model in
   Model/TimeTrackF.v (the float operations of numpy/_core/function_base.py linspace for two
   float64 scalars, in NumPy's order, incl. the step == 0 branch and y[-1] = stop; the stop
   offset + (len - 1) * increment as tdms.py computes it; the C cast double -> int64 of
   .astype(timedelta64[..])).  The model is compared bit for bit with np.linspace / time_track()
   / astype on every run (harness/c12.py, linspace_tie).

   Vocabulary (Proofs/HornerRound.v):  FR x = B2R (Prim2B x), the real number a primitive float
   denotes through Flocq's bridge IEEE754/PrimFloat.v;  Ffin x = x is a finite binary64 number;
   u64 = 2^-53, eta64 = 2^-1075, ovf64 = 2^1024; rnd = round to nearest even in binary64.
   Proofs/TimeTrackRound.v, with A = |offset|, B = (n-1) |increment|:
     tt_eps A B i      = (1 + 3 u64) (u64 (2 A + 6 B) + (i + 6) eta64)
     tt_eps_stop A B   = (1 + u64) (u64 (A + 2 B) + 2 eta64)
     tt_eps_abs A B i U = U ((1 + u64) tt_eps A B i + u64 (A + B)) + eta64
   i.e. the constant is 2 on |offset| and 6 on (n-1)|increment| (one rounding each for
   (n-1)*increment, offset + .., stop - start, delta / div, i * step, .. + start; i/(n-1) <= 1
   keeps n out of the relative part); the eta64 terms are below 10^-307 for n <= 2^53.

   Hypotheses: offset and increment finite float64, 2 <= n <= 2^53 (so that n - 1 and i convert
   exactly), and no overflow in the form |offset| + (n-1) |increment| <= 2^1023.  Outside it the
   statements fail: c12_first_point_overflow.  n = 1 and n <= 0 are stated separately.
   Integer-typed wf_increment / wf_start_offset properties and accuracy 'ps' are not modelled. *)
From Coq Require Import Reals ZArith List Bool.
From Coq Require Import PrimFloat.
From Flocq Require Import Core.
Import ListNotations.
From NpTdms Require Import Model.Timestamp Model.TimeTrackF.
From NpTdms Require Import Proofs.HornerRound Proofs.TimeTrackRound.
Open Scope R_scope.

(* ---- 1. the array ----------------------------------------------------------------------------- *)

Theorem time_track_float_length : forall o c n, length (time_track_fl o c n) = Z.to_nat n.
Proof. exact time_track_fl_length_proof. Qed.

Theorem time_track_float_nth : forall o c n i, (0 <= i < n)%Z ->
  nth_error (time_track_fl o c n) (Z.to_nat i) = Some (time_track_f o c n i).
Proof. exact time_track_fl_nth_proof. Qed.

(* len = 0: the empty array *)
Theorem time_track_float_empty : forall o c n, (n <= 0)%Z -> time_track_fl o c n = [].
Proof. exact time_track_fl_empty_proof. Qed.

(* len = 1: linspace returns [0.0 * (stop - start) + start], which for finite offset and
   increment is the offset *)
Theorem time_track_float_single : forall o c, Ffin o -> Ffin c ->
  Ffin (time_track_f o c 1 0) /\ FR (time_track_f o c 1 0) = FR o.
Proof. exact time_track_one_proof. Qed.

(* ---- 2. the relative track ------------------------------------------------------------------- *)

(* every point is finite and within tt_eps of offset + i * increment *)
Theorem time_track_rounding : forall (o c : float) (n i : Z),
  Ffin o -> Ffin c -> (2 <= n <= 2 ^ 53)%Z -> (0 <= i < n)%Z ->
  Rabs (FR o) + IZR (n - 1) * Rabs (FR c) <= ovf64 / 2 ->
  Ffin (time_track_f o c n i) /\
  Rabs (FR (time_track_f o c n i) - (FR o + IZR i * FR c))
    <= tt_eps (Rabs (FR o)) (IZR (n - 1) * Rabs (FR c)) (IZR i).
Proof. exact time_track_rounding_proof. Qed.

(* the same bound in the form  c u (|offset| + n |increment|) + small,  c = 6.01 *)
Theorem time_track_rounding_coarse : forall (o c : float) (n i : Z),
  Ffin o -> Ffin c -> (2 <= n <= 2 ^ 53)%Z -> (0 <= i < n)%Z ->
  Rabs (FR o) + IZR (n - 1) * Rabs (FR c) <= ovf64 / 2 ->
  Rabs (FR (time_track_f o c n i) - (FR o + IZR i * FR c))
    <= 6.01 * u64 * (Rabs (FR o) + IZR n * Rabs (FR c)) + 1.01 * (IZR n + 5) * eta64.
Proof. exact time_track_rounding_coarse_proof. Qed.

(* the first point is the offset exactly (as a number; the bit pattern of an offset -0.0 can
   become +0.0: c12_first_point_negzero).  It is exact because 0 * step is a zero whenever step
   is finite, i.e. under the no-overflow hypothesis, and only then: c12_first_point_overflow *)
Theorem time_track_first : forall (o c : float) (n : Z),
  Ffin o -> Ffin c -> (2 <= n <= 2 ^ 53)%Z ->
  Rabs (FR o) + IZR (n - 1) * Rabs (FR c) <= ovf64 / 2 ->
  Ffin (time_track_f o c n 0) /\ FR (time_track_f o c n 0) = FR o.
Proof. exact time_track_first_proof. Qed.

(* the last point is the stop the caller computed, fl(offset + fl((n-1) * increment)) *)
Theorem time_track_last : forall (o c : float) (n : Z),
  Ffin o -> Ffin c -> (2 <= n <= 2 ^ 53)%Z ->
  Rabs (FR o) + IZR (n - 1) * Rabs (FR c) <= ovf64 / 2 ->
  time_track_f o c n (n - 1) = time_track_stop o c n /\
  Ffin (time_track_stop o c n) /\
  FR (time_track_stop o c n) = rnd (FR o + rnd (IZR (n - 1) * FR c)) /\
  Rabs (FR (time_track_stop o c n) - (FR o + IZR (n - 1) * FR c))
    <= tt_eps_stop (Rabs (FR o)) (IZR (n - 1) * Rabs (FR c)).
Proof. exact time_track_last_proof. Qed.

(* composed with Props/C12.v (time_track_point): the float array against the array of the
   exact-arithmetic model time_track_R, point by point *)
Theorem time_track_rounding_vs_R : forall (o c : float) (n i : Z),
  Ffin o -> Ffin c -> (2 <= n <= 2 ^ 53)%Z -> (0 <= i < n)%Z ->
  Rabs (FR o) + IZR (n - 1) * Rabs (FR c) <= ovf64 / 2 ->
  exists y x,
    nth_error (time_track_fl o c n) (Z.to_nat i) = Some y /\
    nth_error (time_track_R (FR o) (FR c) (Z.to_nat n)) (Z.to_nat i) = Some x /\
    Ffin y /\
    Rabs (FR y - x) <= tt_eps (Rabs (FR o)) (IZR (n - 1) * Rabs (FR c)) (IZR i).
Proof. exact time_track_rounding_vs_R_proof. Qed.

(* ---- 3. the absolute track ------------------------------------------------------------------- *)

(* .astype(timedelta64[..]) of a finite float64 of magnitude below 2^63 is Flocq's Ztrunc of
   its value (NaN, infinities, and values beyond are NaT / undefined: trunc_f = None) ... *)
Theorem cast_truncates : forall x, Ffin x -> Rabs (FR x) < 9223372036854775808 ->
  trunc_f x = Some (Ztrunc (FR x)).
Proof. exact trunc_f_spec. Qed.

(* ... and Ztrunc rounds towards zero *)
Theorem truncation_toward_zero : forall y,
  (0 <= y -> IZR (Ztrunc y) <= y < IZR (Ztrunc y) + 1) /\
  (y <= 0 -> IZR (Ztrunc y) - 1 < y <= IZR (Ztrunc y)).
Proof. exact Ztrunc_toward_zero. Qed.

(* start : the int64 count of start_time as a datetime64[accuracy].  If |start| plus the
   track's extent in units stays 2^14 below 2^63 (no NaT, no int64 wrap-around), the i-th
   absolute point is start + trunc(P), P = fl(relative_i * unit_correction), P within tt_eps_abs
   units of (offset + i increment) in units; hence the point is within 1 + tt_eps_abs units of
   start_time + (offset + i increment): "at the requested accuracy" *)
Theorem time_track_absolute_rounding : forall (start : Z) (r : resolution) (o c : float) (n i : Z),
  Ffin o -> Ffin c -> (2 <= n <= 2 ^ 53)%Z -> (0 <= i < n)%Z ->
  IZR (Z.abs start) + (Rabs (FR o) + IZR (n - 1) * Rabs (FR c)) * unit_correction r
    <= 9223372036854775808 - 16384 ->
  let P := FR (time_track_f o c n i * uc_f r)%float in
  let T := (FR o + IZR i * FR c) * unit_correction r in
  let E := tt_eps_abs (Rabs (FR o)) (IZR (n - 1) * Rabs (FR c)) (IZR i) (unit_correction r) in
  Ffin (time_track_f o c n i * uc_f r)%float /\
  Rabs (P - T) <= E /\
  time_track_abs_f start r o c n i = Some (start + Ztrunc P)%Z /\
  Rabs (IZR (start + Ztrunc P) - (IZR start + T)) < 1 + E.
Proof. exact time_track_absolute_proof. Qed.

(* under that hypothesis the rounding part is below 8000 units (it is u64 * 2^63 * 7 at the
   edge of the int64 range; for tracks of realistic extent it is far below one unit, see
   c12_quarter_absolute) *)
Theorem time_track_absolute_eps_small : forall A B ii U,
  0 <= A -> 0 <= B -> 0 <= ii <= 9007199254740992 -> 1 <= U <= 1000000000 ->
  (A + B) * U <= 9223372036854775808 ->
  0 <= tt_eps_abs A B ii U <= 8000.
Proof. exact tt_eps_abs_small. Qed.

(* ---- 4. instances (the hypotheses are satisfiable; numbers) ---------------------------------- *)

(* offset 1.5, increment 0.25, n = 10: the array, and the theorem's bound for every point *)
Example c12_quarter_track :
  time_track_fl 0x1.8p+0 0x1p-2 10
  = [0x1.8p+0; 0x1.cp+0; 0x1p+1; 0x1.2p+1; 0x1.4p+1; 0x1.6p+1; 0x1.8p+1; 0x1.ap+1; 0x1.cp+1; 0x1.ep+1]%float.
Proof. exact ex_quarter_list. Qed.

Example c12_quarter_bound : forall i, (0 <= i < 10)%Z ->
  Ffin (time_track_f 0x1.8p+0 0x1p-2 10 i) /\
  Rabs (FR (time_track_f 0x1.8p+0 0x1p-2 10 i) - (1.5 + IZR i * 0.25)) <= 2e-15.
Proof. exact ex_quarter_bound. Qed.

(* the same channel, absolute at 'ns' from 2020-01-01T00:00:00 *)
Example c12_quarter_absolute :
  time_track_abs_f 1577836800000000000 Rns 0x1.8p+0 0x1p-2 10 3 = Some 1577836802250000000%Z /\
  forall i, (0 <= i < 10)%Z ->
    exists z, time_track_abs_f 1577836800000000000 Rns 0x1.8p+0 0x1p-2 10 i = Some z /\
      Rabs (IZR z - (1577836800000000000 + (1.5 + IZR i * 0.25) * 1000000000)) < 1 + 3e-6.
Proof. exact (conj ex_quarter_abs ex_quarter_abs_bound). Qed.

(* offset 0, increment the float64 nearest to 1e-6, n = 10^6 *)
Example c12_micro_track :
  time_track_f 0 c_1em6 1000000 123456 = 0x1.f9acffa7eb6bfp-4%float /\
  forall i, (0 <= i < 1000000)%Z ->
    Ffin (time_track_f 0 c_1em6 1000000 i) /\
    Rabs (FR (time_track_f 0 c_1em6 1000000 i) - IZR i * FR c_1em6) <= 6.7e-16 /\
    Rabs (FR (time_track_f 0 c_1em6 1000000 i) - IZR i * 1e-6) <= 7.2e-16.
Proof. exact (conj ex_micro_point ex_micro_bound). Qed.

(* outside the no-overflow hypothesis: 2 * 1e308 overflows, step is infinite, and the first
   point 0 * inf + 0 is NaN (np.linspace(0, inf, 3) = [nan, inf, inf]) *)
Example c12_first_point_overflow :
  PrimFloat.is_nan (time_track_f 0 0x1.1ccf385ebc8ap+1023 3 0) = true /\
  time_track_f 0 0x1.1ccf385ebc8ap+1023 3 1 = infinity.
Proof. exact ex_first_point_overflow. Qed.

(* an offset -0.0 comes back as +0.0 (equal as numbers) *)
Example c12_first_point_negzero :
  time_track_f (-0)%float 1 3 0 = 0%float /\ (-0)%float <> 0%float.
Proof. exact ex_first_point_negzero. Qed.

(* One traversal of the Interval / Flocq libraries for all statements: the output is the
   union of their assumptions. *)
Definition c12_round_statements :=
  (time_track_float_length, time_track_float_nth, time_track_float_empty, time_track_float_single,
   time_track_rounding, time_track_rounding_coarse, time_track_first, time_track_last,
   time_track_rounding_vs_R, cast_truncates, truncation_toward_zero,
   time_track_absolute_rounding, time_track_absolute_eps_small,
   c12_quarter_track, c12_quarter_bound, c12_quarter_absolute, c12_micro_track,
   c12_first_point_overflow, c12_first_point_negzero).
Print Assumptions c12_round_statements.
