(* C14 (reader side) — a full read has exactly len(channel) elements.

   For a serialised file meeting the hypotheses of [read_correct]
   (Props/C01_read.v) with distinct object paths per segment (Props/C03_read.v),
   and EVERY channel c of the hierarchy (typed or not):

     full_read_length          ch_len c (= len(channel): object_metadata.num_values
                               accumulated by the metadata pass) is
                                 - the number of values the eager read
                                   (TdmsFile.read, [read_correct]) holds for c, and
                                 - the number of values of the full lazy read
                                   (TdmsFile.open, channel[:] / read_data()),
                                   which succeeds.
     view_total_is_len         the value count of the lazy reader's own index
                               (_build_index / total_values of the per-channel view
                               computed from the bytes) is len(channel) as well, so
                               the receiver it preallocates is exactly filled.

   Derived from om_len_counts_values (C01: the metadata pass's per-object count
   is the number of values the raw data blocks encode) and lazy_full_eq_eager
   (C03_read).  NOT covered: truncated last segments (C06: checked on the
   implementation for every cut), DAQmx, scaled reads (their length is that of
   the raw read: C13 elementwise). *)
From Coq Require Import List ZArith.
Import ListNotations.
From NpTdms Require Import Base.Bytes Base.Res Model.Tokens Model.SegState Model.Layout Model.Reader
     Model.FileSyn Model.LazyRead Model.LazyBytes Proofs.FileSynProofs Proofs.ReadCorrect
     Proofs.LazyEagerView Proofs.LazyEagerTop Proofs.LazyEagerExamples.
Local Open Scope Z_scope.

Theorem full_read_length : forall segs st h chunkss c,
    wf_file segs ->
    sm_run segs false = Ok st ->
    build_hierarchy (rs_om st) = Ok h ->
    segs_encode (rs_segments st) segs chunkss ->
    om_paths_canonical (rs_om st) ->
    Forall (fun g => NoDup (map so_path (sg_objs g))) (rs_segments st) ->
    In c (all_channels h) ->
    Z.of_nat (length (chan_values (ch_path c) (concat chunkss))) = ch_len c /\
    exists vs, lz_read_bytes (ser_file segs) (ch_path c) 0 None = Ok vs /\
               Z.of_nat (length vs) = ch_len c.
Proof.
  intros segs st h chunkss c H1 H2 H3 H4 H5 H6 H7.
  exact (LazyEagerTop.full_read_length_ser segs st h chunkss H1 H2 H3 H4 H5 H6 c H7).
Qed.

Theorem view_total_is_len : forall segs st h chunkss c,
    wf_file segs ->
    sm_run segs false = Ok st ->
    build_hierarchy (rs_om st) = Ok h ->
    segs_encode (rs_segments st) segs chunkss ->
    om_paths_canonical (rs_om st) ->
    Forall (fun g => NoDup (map so_path (sg_objs g))) (rs_segments st) ->
    In c (all_channels h) ->
    exists svs, channel_view (ser_file segs) (ch_path c) = Ok (svs, ch_dtype c) /\
                wf bytes svs = true /\
                full bytes svs = chan_values (ch_path c) (concat chunkss) /\
                total_values bytes svs = ch_len c.
Proof.
  intros segs st h chunkss c H1 H2 H3 H4 H5 H6 H7.
  exact (LazyEagerTop.channel_view_channel segs st h chunkss H1 H2 H3 H4 H5 H6 c H7).
Qed.

(* instance: le_file (three segments, interleaved / channel absent / contiguous):
   len(a) = 6, len(b) = 13, and both reads have that many values *)
Example c14_read_le :
  ch_len (rc_chan le_h 0) = 6 /\ ch_len (rc_chan le_h 1) = 13 /\
  Z.of_nat (length (chan_values rc_path_a (concat le_chunks))) = 6 /\
  Z.of_nat (length (chan_values rc_path_b (concat le_chunks))) = 13.
Proof. exact le_lengths. Qed.

Example c14_read_le_lazy :
  exists va vb,
    lz_read_bytes (ser_file le_file) rc_path_a 0 None = Ok va /\ Z.of_nat (length va) = 6 /\
    lz_read_bytes (ser_file le_file) rc_path_b 0 None = Ok vb /\ Z.of_nat (length vb) = 13.
Proof. exact le_lengths_lazy. Qed.

Print Assumptions full_read_length.
Print Assumptions view_total_is_len.
Print Assumptions c14_read_le.
Print Assumptions c14_read_le_lazy.
