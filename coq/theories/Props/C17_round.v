(* C17 (companion) -- rounding of PolynomialScaling.scale in binary64.
   Statements only; proofs live in Proofs/HornerRound.v and Proofs/HornerSensors.v.

   Props/C17.v proves over R that PolynomialScaling.scale is the sum of c_i x^i.  Here the
   binary64 evaluation that np.polynomial.polynomial.polyval performs (c0 = c[-1] + x*0;
   c0 = c[-i] + c0*x -- HornerRound.polynomial_scale_F, the same `horner` as the thermocouple
   model, checked bit for bit against NumPy by the C18 correspondence) is bounded against that
   real value, for ARBITRARY finite coefficients and finite x with |x| <= X:

     |float result - sum c_i x^i| <= he_list coefficients X

   he_list is the recursive bound of Proofs/HornerRound.v (he): per operation the standard
   model  rnd z = z(1+eps)+eta, |eps| <= 2^-53, |eta| <= 2^-1075 (round to nearest even,
   gradual underflow).  The side condition hsafe_list says that the magnitude bound of every
   partial Horner value stays below the overflow threshold 2^1024; without it the float
   result can be an infinity and no bound holds.

   Not covered: polynomial_scale_F is not exercised by the C17 harness (the thermocouple
   harness C18 exercises the same `horner` against numpy.polyval); data.astype(float64) of
   the input is the identity on binary64 and is not modelled. *)
From Coq Require Import Reals ZArith List Lra.
From Coq Require Import PrimFloat.
From Interval Require Import Tactic.
Import ListNotations.
From NpTdms Require Import Model.ThermoF.
From NpTdms Require Model.SensorsR.
From NpTdms Require Import Proofs.HornerRound.
From NpTdms Require Import Proofs.HornerSensors.
Open Scope R_scope.

(* against the real-number model of Props/C17.v *)
Theorem polynomial_scaling_rounding_model :
  forall (coefficients : list float) (x : float) (X : R),
  Ffin x -> Forall Ffin coefficients ->
  Rabs (FR x) <= X ->
  hsafe_list (map FR coefficients) X ->
  Ffin (polynomial_scale_F coefficients x) /\
  Rabs (FR (polynomial_scale_F coefficients x)
        - SensorsR.polynomial_scale (map FR coefficients) (FR x))
    <= he_list (map FR coefficients) X.
Proof. exact polynomial_scaling_rounding_all. Qed.

(* against the sum of powers *)
Theorem polynomial_scaling_rounding :
  forall (coefficients : list float) (x : float) (X : R),
  Ffin x -> Forall Ffin coefficients ->
  Rabs (FR x) <= X ->
  hsafe_list (map FR coefficients) X ->
  Ffin (polynomial_scale_F coefficients x) /\
  Rabs (FR (polynomial_scale_F coefficients x)
        - SensorsR.sum_powers (map FR coefficients) (FR x))
    <= he_list (map FR coefficients) X.
Proof. exact polynomial_scaling_rounding_sum. Qed.

(* ---- non-vacuity: coefficients 0.1, 0.2, 0.3 at x = 0.7 (none exactly representable) ------- *)

Example c17_polynomial_rounding :
  Ffin (polynomial_scale_F [0x1.999999999999ap-4; 0x1.999999999999ap-3; 0x1.3333333333333p-2]
                           0x1.6666666666666p-1)%float /\
  Rabs (FR (polynomial_scale_F [0x1.999999999999ap-4; 0x1.999999999999ap-3; 0x1.3333333333333p-2]
                               0x1.6666666666666p-1)%float
        - SensorsR.sum_powers [0x1.999999999999ap-4; 0x1.999999999999ap-3; 0x1.3333333333333p-2]
                              0x1.6666666666666p-1) <= 2e-16.
Proof.
  assert (E1 : FR 0x1.999999999999ap-4%float = 0x1.999999999999ap-4) by fr_lit.
  assert (E2 : FR 0x1.999999999999ap-3%float = 0x1.999999999999ap-3) by fr_lit.
  assert (E3 : FR 0x1.3333333333333p-2%float = 0x1.3333333333333p-2) by fr_lit.
  assert (E4 : FR 0x1.6666666666666p-1%float = 0x1.6666666666666p-1) by fr_lit.
  destruct (polynomial_scaling_rounding
              [0x1.999999999999ap-4; 0x1.999999999999ap-3; 0x1.3333333333333p-2]%float
              0x1.6666666666666p-1%float 0.75) as [Hf Hb].
  - apply Ffin_prim. vm_compute. reflexivity.
  - repeat (apply Forall_cons; [apply Ffin_prim; vm_compute; reflexivity|]). apply Forall_nil.
  - rewrite E4. interval.
  - cbn [map hsafe_list hsafe hb]. rewrite E1, E2, E3. unfold ovf64, u64, eta64. repeat split; interval.
  - split; [exact Hf|].
    cbn [map he_list he hb] in Hb. rewrite E1, E2, E3, E4 in Hb.
    eapply Rle_trans; [exact Hb|]. unfold u64, eta64. interval.
Qed.

Definition c17_round_statements :=
  (polynomial_scaling_rounding_model, polynomial_scaling_rounding, c17_polynomial_rounding).
Print Assumptions c17_round_statements.
