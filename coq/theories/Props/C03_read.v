(* C03 / C04 (end to end, on BYTES) — lazy = eager.

   For a serialised file [ser_file segs] meeting the hypotheses of
   [read_correct] (Props/C01_read.v: wf_file, the metadata pass and the
   hierarchy construction succeed, every raw data block encodes its chunks
   [chunkss], canonical channel paths) and
        seg_paths_distinct st    no segment's object list names a path twice
   (implied by "no metadata block lists a path twice", [listed_once_distinct];
   DESIGN Appendix B lists it among the well-formedness conditions), for EVERY
   channel c of the hierarchy:

     lazy_is_window_of_eager    lz_read_bytes (ser_file segs) (ch_path c) offs len
                                = Ok (E[offs:]) resp. Ok (E[offs:offs+len])
                                where E = chan_values (ch_path c) (concat chunkss)
                                is exactly the data [read_correct] says
                                TdmsFile.read returns for c.
   [lz_read_bytes] (Model/LazyBytes.v) is what TdmsFile.open + read_data(offs, len)
   does: metadata pass WITH segment indexes on the bytes, per-segment view through
   get_segment_object and the chunk decoders, then the line-by-line model of
   read_raw_data_for_channel and the receivers (Model/LazyRead.v).  Untyped
   channels are included (both sides are empty).
     lazy_rejects_negative      negative offset / length: ValueError
     lazy_full_eq_eager         channel[:] / read_data() on the open file = E
     lazy_eq_eager_read         the two MODELS side by side: rd_eager's receiver
                                for c holds [full], the lazy full read is [full],
                                |full| = len(channel), every window is full's
     lazy_slice_correct         channel[start:stop:step]: the plan of the
                                TRANSLATED _read_slice (regenerated from /repo on
                                every run) executed on the bytes = Python slice
                                semantics on the EAGER array, step 0 = ValueError
     lazy_index_correct         channel[i] through the one-chunk cache = NumPy
                                indexing of the eager array, IndexError outside
   Layers (each stated below):
     (1) sm_run_with_index      the pass with object indexes = the pass without,
                                plus sg_index = {path: position} per segment
         segment_object_find    get_segment_object = search of the object list
     (2) split_chunks_exact, segv_of_encoded
                                per segment, segv_of on the bytes succeeds with
                                chunk size number_values, sg_nchunks chunks, no
                                final override, chunk lists of exactly that size
                                (contiguous: one per decoded chunk; interleaved:
                                the column cut into its pieces) = LazyRead.wf_seg,
                                holding chan_values p cs
     (3,5) channel_view_ser     the whole view: wf, full = chan_values p (concat
                                chunkss), total_values = om_len
     (4) Props/C04.v window_correct / slice_plan_correct / index_correct.

   NECESSITY of seg_paths_distinct ([lazy_eq_eager_refuted], a FINDING): with a
   path listed twice in one new-object-list segment (full index, then "no
   data"; legal for the reader, all hypotheses of read_correct hold) the lazy
   read skips the segment because object_index maps the path to the LAST object:
   model  lz_read_bytes = [1;2]      eager = [1;2;3;4]
   /repo  TdmsFile.open(...)[:] = [1 2 0 0]   TdmsFile.read(...)[:] = [1 2 3 4].

   NOT covered: as read_correct (DAQmx, truncated last segments, zero-size
   contiguous chunks); memmap_dir / raw_timestamps / path-vs-stream
   configurations (differential run, harness/c03.py); scaled data (C13). *)
From Coq Require Import List ZArith.
Import ListNotations.
From NpTdms Require Import Base.Bytes Base.Res Base.PySlice Model.Tokens Model.TokensWf Model.SegState
     Model.Layout Model.Reader Model.FileSyn Model.LazyRead Model.LazyBytes
     Proofs.LayoutProofs Proofs.FileSynProofs Proofs.ReadCorrect Proofs.SliceProofs Proofs.LazyTopProofs
     Proofs.LazyEagerIndex Proofs.LazyEagerView Proofs.LazyEagerTop Proofs.LazyEagerExamples.
From NpTdms Require Proofs.SegStateExplicit.
Local Open Scope Z_scope.

(* ---- (1) the metadata pass with segment indexes ---------------------------------- *)

Theorem sm_run_with_index : forall segs st,
    sm_run segs false = Ok st ->
    exists st', sm_run segs true = Ok st' /\
                rs_segments st' = map with_index (rs_segments st) /\
                rs_prev_objs st' = rs_prev_objs st /\
                rs_om st' = rs_om st /\
                rs_version st' = rs_version st.
Proof. exact LazyEagerIndex.sm_run_with_index. Qed.

(* on bytes: TdmsFile.open's metadata pass on the serialised file *)
Theorem rd_metadata_with_index : forall segs st,
    wf_file segs ->
    sm_run segs false = Ok st ->
    exists st', rd_metadata (ser_file segs) false (Some (blen (ser_file segs))) true = Ok st' /\
                rs_segments st' = map with_index (rs_segments st) /\
                rs_om st' = rs_om st.
Proof. exact LazyEagerTop.rd_metadata_with_index. Qed.

(* segment.get_segment_object(path): the object of the list with that path *)
Theorem segment_object_find : forall g p,
    sg_index g = fresh_index (map so_path (sg_objs g)) ->
    NoDup (map so_path (sg_objs g)) ->
    segment_object g p = find (fun o => bytes_eqb p (so_path o)) (sg_objs g).
Proof. exact LazyEagerIndex.segment_object_find. Qed.

(* ---- (2) one segment ----------------------------------------------------------------- *)

(* cutting the column of m chunks of n values into pieces of n gives the m pieces *)
Theorem split_chunks_exact : forall n, 0 < n -> forall (m : nat) (vs : list bytes) (fuel : nat),
    length vs = (Z.to_nat n * m)%nat -> (m <= fuel)%nat ->
    concat (split_chunks fuel n vs) = vs /\
    length (split_chunks fuel n vs) = m /\
    Forall (fun c => zlen c = n) (split_chunks fuel n vs).
Proof. exact LazyEagerView.split_chunks_exact. Qed.

Theorem segv_of_encoded : forall pre s rest g cs p,
    wf_fseg s = true ->
    seg_at (blen pre) s g ->
    seg_encodes g (fs_data s) cs ->
    NoDup (map so_path (sg_objs g)) ->
    sg_index g = fresh_index (map so_path (sg_objs g)) ->
    Forall (fun o => 0 <= so_nvals o) (sg_objs g) ->
    exists sv, segv_of (pre ++ ser_seg TAG_DATA true s ++ rest) p g = Ok sv /\
               wf_seg bytes sv = true /\
               seg_vals bytes sv = chan_values p cs /\
               number_of_segment_values bytes sv = seg_total p g.
Proof. exact LazyEagerView.segv_of_encoded. Qed.

(* number_values is never negative in a well-formed file (used above) *)
Theorem sm_run_nvals_nonneg : forall segs w st,
    wf_file segs -> sm_run segs w = Ok st ->
    forall g, In g (rs_segments st) -> Forall (fun o => 0 <= so_nvals o) (sg_objs g).
Proof. exact LazyEagerIndex.sm_run_nvals_nonneg. Qed.

(* ---- (3), (5) the whole view ------------------------------------------------------- *)

Theorem channel_view_ser : forall segs st chunkss p,
    wf_file segs ->
    sm_run segs false = Ok st ->
    segs_encode (rs_segments st) segs chunkss ->
    Forall (fun g => NoDup (map so_path (sg_objs g))) (rs_segments st) ->
    exists svs,
      channel_view (ser_file segs) p =
      Ok (svs, match alookup p (rs_om st) with Some m => om_dtype m | None => None end) /\
      wf bytes svs = true /\
      full bytes svs = chan_values p (concat chunkss) /\
      total_values bytes svs = om_len (get_ometa p (rs_om st)).
Proof. exact LazyEagerView.channel_view_ser. Qed.

(* ---- the property -------------------------------------------------------------------- *)

Theorem lazy_is_window_of_eager : forall segs st h chunkss c offs len,
    wf_file segs ->
    sm_run segs false = Ok st ->
    build_hierarchy (rs_om st) = Ok h ->
    segs_encode (rs_segments st) segs chunkss ->
    om_paths_canonical (rs_om st) ->
    Forall (fun g => NoDup (map so_path (sg_objs g))) (rs_segments st) ->
    In c (all_channels h) ->
    0 <= offs ->
    (match len with None => True | Some l => 0 <= l end) ->
    lz_read_bytes (ser_file segs) (ch_path c) offs len =
    Ok (match len with
        | None => zskipn offs (chan_values (ch_path c) (concat chunkss))
        | Some l => zfirstn l (zskipn offs (chan_values (ch_path c) (concat chunkss)))
        end).
Proof.
  intros segs st h chunkss c offs len H1 H2 H3 H4 H5 H6 H7 H8 H9.
  exact (LazyEagerTop.lazy_is_window_of_eager segs st h chunkss H1 H2 H3 H4 H5 H6 c offs len H7 H8 H9).
Qed.

Theorem lazy_rejects_negative : forall segs st h chunkss c offs len,
    wf_file segs ->
    sm_run segs false = Ok st ->
    build_hierarchy (rs_om st) = Ok h ->
    segs_encode (rs_segments st) segs chunkss ->
    om_paths_canonical (rs_om st) ->
    Forall (fun g => NoDup (map so_path (sg_objs g))) (rs_segments st) ->
    In c (all_channels h) -> ch_dtype c <> None ->
    offs < 0 \/ (exists l, len = Some l /\ l < 0) ->
    lz_read_bytes (ser_file segs) (ch_path c) offs len = Err EValue.
Proof.
  intros segs st h chunkss c offs len H1 H2 H3 H4 H5 H6 H7 H8 H9.
  exact (LazyEagerTop.lazy_rejects_negative segs st h chunkss H1 H2 H3 H4 H5 H6 c offs len H7 H8 H9).
Qed.

(* channel[:] on the lazily opened file = the data TdmsFile.read holds for the channel *)
Theorem lazy_full_eq_eager : forall segs st h chunkss c,
    wf_file segs ->
    sm_run segs false = Ok st ->
    build_hierarchy (rs_om st) = Ok h ->
    segs_encode (rs_segments st) segs chunkss ->
    om_paths_canonical (rs_om st) ->
    Forall (fun g => NoDup (map so_path (sg_objs g))) (rs_segments st) ->
    In c (all_channels h) ->
    lz_read_bytes (ser_file segs) (ch_path c) 0 None = Ok (chan_values (ch_path c) (concat chunkss)).
Proof.
  intros segs st h chunkss c H1 H2 H3 H4 H5 H6 H7.
  exact (LazyEagerTop.lazy_full_eq_eager segs st h chunkss H1 H2 H3 H4 H5 H6 c H7).
Qed.

(* both reader models on the same bytes: the eager pass's receiver for c and the
   lazy reads of c *)
Theorem lazy_eq_eager_read : forall segs st h chunkss,
    wf_file segs ->
    sm_run segs false = Ok st ->
    build_hierarchy (rs_om st) = Ok h ->
    segs_encode (rs_segments st) segs chunkss ->
    om_paths_canonical (rs_om st) ->
    Forall (fun g => NoDup (map so_path (sg_objs g))) (rs_segments st) ->
    typed_objects_are_channels (rs_om st) ->
    exists recv,
      rd_eager st h (ser_file segs) = Ok recv /\
      forall c, In c (all_channels h) -> ch_dtype c <> None ->
        exists full_vals,
          alookup (ch_path c) recv = Some (Some (CData full_vals)) /\
          Z.of_nat (length full_vals) = ch_len c /\
          lz_read_bytes (ser_file segs) (ch_path c) 0 None = Ok full_vals /\
          forall offs len, 0 <= offs -> (match len with None => True | Some l => 0 <= l end) ->
            lz_read_bytes (ser_file segs) (ch_path c) offs len =
            Ok (match len with
                | None => zskipn offs full_vals
                | Some l => zfirstn l (zskipn offs full_vals)
                end).
Proof. exact LazyEagerTop.lazy_eq_eager_read. Qed.

(* slices: the translated _read_slice on bytes = Python's slice of the eager array *)
Theorem lazy_slice_correct : forall segs st h chunkss c start stop step,
    wf_file segs ->
    sm_run segs false = Ok st ->
    build_hierarchy (rs_om st) = Ok h ->
    segs_encode (rs_segments st) segs chunkss ->
    om_paths_canonical (rs_om st) ->
    Forall (fun g => NoDup (map so_path (sg_objs g))) (rs_segments st) ->
    In c (all_channels h) ->
    run_slice (fun a b => lz_read_bytes (ser_file segs) (ch_path c) a (Some b)) (ch_len c) start stop step
    = py_slice3 (chan_values (ch_path c) (concat chunkss)) start stop step.
Proof.
  intros segs st h chunkss c start stop step H1 H2 H3 H4 H5 H6 H7.
  exact (LazyEagerTop.lazy_slice_correct segs st h chunkss H1 H2 H3 H4 H5 H6 c start stop step H7).
Qed.

(* integer indices: the view computed from the bytes, read through the cache *)
Theorem lazy_index_correct : forall segs st h chunkss c,
    wf_file segs ->
    sm_run segs false = Ok st ->
    build_hierarchy (rs_om st) = Ok h ->
    segs_encode (rs_segments st) segs chunkss ->
    om_paths_canonical (rs_om st) ->
    Forall (fun g => NoDup (map so_path (sg_objs g))) (rs_segments st) ->
    In c (all_channels h) -> ch_dtype c <> None ->
    exists svs dt,
      channel_view (ser_file segs) (ch_path c) = Ok (svs, Some dt) /\
      total_values bytes svs = ch_len c /\
      forall cst i, cache_inv bytes svs cst ->
        match py_index (chan_values (ch_path c) (concat chunkss)) i with
        | Ok x => exists cst' log, read_at_index bytes svs cst i = Ok (x, cst', log) /\
                                   cache_inv bytes svs cst'
        | Err _ => read_at_index bytes svs cst i = Err EIndex
        end.
Proof.
  intros segs st h chunkss c H1 H2 H3 H4 H5 H6 H7 H8.
  exact (LazyEagerTop.lazy_index_correct segs st h chunkss H1 H2 H3 H4 H5 H6 c H7 H8).
Qed.

(* the extra hypothesis from the syntax: no metadata block lists a path twice *)
Theorem listed_once_distinct : forall segs w st,
    sm_run segs w = Ok st ->
    Forall (fun s => match fs_meta s with Some es => NoDup (map e_path es) | None => True end) segs ->
    Forall (fun g => NoDup (map so_path (sg_objs g))) (rs_segments st).
Proof. exact LazyEagerTop.listed_once_distinct. Qed.

Section Instances.
Import String.
Local Open Scope string_scope.

(* ... and it is necessary: a path listed twice in one segment (FINDING, see header) *)
Theorem lazy_eq_eager_refuted :
  exists segs st h chunkss c,
    wf_file segs /\ sm_run segs false = Ok st /\ build_hierarchy (rs_om st) = Ok h /\
    segs_encode (rs_segments st) segs chunkss /\ om_paths_canonical (rs_om st) /\
    typed_objects_are_channels (rs_om st) /\
    In c (all_channels h) /\ ch_dtype c <> None /\
    rd_all (ser_file segs) = Ok (expected_tokens st h (List.concat chunkss), true) /\
    chan_values (ch_path c) (List.concat chunkss) =
      [hex "01000000"; hex "02000000"; hex "03000000"; hex "04000000"] /\
    ch_len c = 4 /\
    lz_read_bytes (ser_file segs) (ch_path c) 0 None = Ok [hex "01000000"; hex "02000000"] /\
    lz_read_bytes (ser_file segs) (ch_path c) 0 None <> Ok (chan_values (ch_path c) (List.concat chunkss)).
Proof. exact LazyEagerExamples.lazy_eq_eager_refuted. Qed.

(* ---- the hypotheses are satisfiable, and both sides compute ------------------------- *)

(* le_file (Proofs/LazyEagerExamples.v): an interleaved segment of TWO chunks
   (a int16, b bool, 2 values per chunk), a segment with b only (a absent), a
   contiguous segment of two chunks (3 x b, 1 x a). *)
Example c03_read_hyps :
  wf_file le_file /\ sm_run le_file false = Ok le_st /\ build_hierarchy (rs_om le_st) = Ok le_h /\
  segs_encode (rs_segments le_st) le_file le_chunks /\ om_paths_canonical (rs_om le_st) /\
  typed_objects_are_channels (rs_om le_st) /\
  Forall (fun g => NoDup (map so_path (sg_objs g))) (rs_segments le_st) /\
  rd_all (ser_file le_file) = Ok (expected_tokens le_st le_h (List.concat le_chunks), true).
Proof.
  exact (conj le_wf (conj le_run (conj le_hier (conj le_encodes (conj le_canonical
        (conj le_typed_channels (conj le_distinct le_read_correct))))))).
Qed.

(* by the theorem: all windows of both channels *)
Example c03_read_le_windows : forall offs len, 0 <= offs -> (match len with None => True | Some l => 0 <= l end) ->
  lz_read_bytes (ser_file le_file) rc_path_a offs len =
  Ok (window_of offs len (chan_values rc_path_a (List.concat le_chunks))) /\
  lz_read_bytes (ser_file le_file) rc_path_b offs len =
  Ok (window_of offs len (chan_values rc_path_b (List.concat le_chunks))).
Proof. exact le_lazy_windows. Qed.

(* by evaluation of the byte-level model: windows crossing the chunk boundary of the
   interleaved segment, the segment without the channel, and the chunk boundaries
   of the contiguous segment *)
Example c03_read_le_a_1_4 :
  lz_read_bytes (ser_file le_file) rc_path_a 1 (Some 4) =
  Ok [hex "0304"; hex "0506"; hex "0708"; hex "0a0b"] /\
  window_of 1 (Some 4) (chan_values rc_path_a (List.concat le_chunks)) =
  [hex "0304"; hex "0506"; hex "0708"; hex "0a0b"].
Proof. exact le_window_a_1_4. Qed.

Example c03_read_le_a_3_end :
  lz_read_bytes (ser_file le_file) rc_path_a 3 None = Ok [hex "0708"; hex "0a0b"; hex "0c0d"] /\
  window_of 3 None (chan_values rc_path_a (List.concat le_chunks)) = [hex "0708"; hex "0a0b"; hex "0c0d"].
Proof. exact le_window_a_3_end. Qed.

Example c03_read_le_b_3_6 :
  lz_read_bytes (ser_file le_file) rc_path_b 3 (Some 6) =
  Ok [hex "00"; hex "01"; hex "01"; hex "01"; hex "00"; hex "01"] /\
  window_of 3 (Some 6) (chan_values rc_path_b (List.concat le_chunks)) =
  [hex "00"; hex "01"; hex "01"; hex "01"; hex "00"; hex "01"].
Proof. exact le_window_b_3_6. Qed.

Example c03_read_le_edges :
  lz_read_bytes (ser_file le_file) rc_path_a 5 (Some 0) = Ok [] /\
  lz_read_bytes (ser_file le_file) rc_path_a 4 (Some 100) = Ok [hex "0a0b"; hex "0c0d"] /\
  lz_read_bytes (ser_file le_file) rc_path_a 9 None = Ok [] /\
  lz_read_bytes (ser_file le_file) rc_path_a (-1) None = Err EValue.
Proof. exact le_window_edge. Qed.

Example c03_read_le_slice :
  run_slice (fun o l => lz_read_bytes (ser_file le_file) rc_path_a o (Some l)) 6 (Some (-1)) None (Some (-2))
  = Ok [hex "0c0d"; hex "0708"; hex "0304"] /\
  py_slice3 (chan_values rc_path_a (List.concat le_chunks)) (Some (-1)) None (Some (-2))
  = Ok [hex "0c0d"; hex "0708"; hex "0304"].
Proof. exact le_slice_a. Qed.

(* rc_file and rc2_file of Props/C01_read.v: contiguous int32 + string channels over
   a metadata-less second segment; interleaved segment + segment without data objects *)
Example c03_read_rc_windows : forall offs len, 0 <= offs -> (match len with None => True | Some l => 0 <= l end) ->
  lz_read_bytes (ser_file rc_file) rc_path_a offs len =
  Ok (window_of offs len (chan_values rc_path_a (List.concat rc_chunks))) /\
  lz_read_bytes (ser_file rc_file) rc_path_b offs len =
  Ok (window_of offs len (chan_values rc_path_b (List.concat rc_chunks))).
Proof. exact rc_lazy_windows. Qed.

Example c03_read_rc_a_1_4 :
  lz_read_bytes (ser_file rc_file) rc_path_a 1 (Some 4) =
  Ok [hex "02000000"; hex "03000000"; hex "04000000"; hex "05000000"] /\
  window_of 1 (Some 4) (chan_values rc_path_a (List.concat rc_chunks)) =
  [hex "02000000"; hex "03000000"; hex "04000000"; hex "05000000"].
Proof. exact rc_window_a_eval. Qed.

Example c03_read_rc_b_3_end :
  lz_read_bytes (ser_file rc_file) rc_path_b 3 None = Ok [hex "78797a"; hex "71"; hex "7273"] /\
  window_of 3 None (chan_values rc_path_b (List.concat rc_chunks)) = [hex "78797a"; hex "71"; hex "7273"].
Proof. exact rc_window_b_eval. Qed.

Example c03_read_rc_full :
  lz_read_bytes (ser_file rc_file) rc_path_a 0 None = Ok (chan_values rc_path_a (List.concat rc_chunks)).
Proof. exact rc_full_a_eval. Qed.

Example c03_read_rc2_windows : forall offs len, 0 <= offs -> (match len with None => True | Some l => 0 <= l end) ->
  lz_read_bytes (ser_file rc2_file) rc_path_a offs len =
  Ok (window_of offs len (chan_values rc_path_a (List.concat rc2_chunks))).
Proof. exact rc2_lazy_windows. Qed.

Example c03_read_rc2_a_1_5 :
  lz_read_bytes (ser_file rc2_file) rc_path_a 1 (Some 5) = Ok [hex "0304"; hex "0506"] /\
  window_of 1 (Some 5) (chan_values rc_path_a (List.concat rc2_chunks)) = [hex "0304"; hex "0506"].
Proof. exact rc2_window_a_eval. Qed.

End Instances.

Print Assumptions sm_run_with_index.
Print Assumptions rd_metadata_with_index.
Print Assumptions segment_object_find.
Print Assumptions split_chunks_exact.
Print Assumptions segv_of_encoded.
Print Assumptions sm_run_nvals_nonneg.
Print Assumptions channel_view_ser.
Print Assumptions lazy_is_window_of_eager.
Print Assumptions lazy_rejects_negative.
Print Assumptions lazy_full_eq_eager.
Print Assumptions lazy_eq_eager_read.
Print Assumptions lazy_slice_correct.
Print Assumptions lazy_index_correct.
Print Assumptions listed_once_distinct.
Print Assumptions lazy_eq_eager_refuted.
Print Assumptions c03_read_hyps.
Print Assumptions c03_read_le_windows.
Print Assumptions c03_read_le_a_1_4.
Print Assumptions c03_read_le_a_3_end.
Print Assumptions c03_read_le_b_3_6.
Print Assumptions c03_read_le_edges.
Print Assumptions c03_read_le_slice.
Print Assumptions c03_read_rc_windows.
Print Assumptions c03_read_rc_a_1_4.
Print Assumptions c03_read_rc_b_3_end.
Print Assumptions c03_read_rc_full.
Print Assumptions c03_read_rc2_windows.
Print Assumptions c03_read_rc2_a_1_5.
