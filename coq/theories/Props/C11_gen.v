(* C11 (companion) — the DAQmx buffer arithmetic TRANSLATED from nptdms/daqmx.py equals the
   hand-written model (Model/SegState.v buffer_dims, chunk_size, daqmx_final).
   Statements only (proofs: Proofs/GenReaderEquiv.v, GenReaderTrunc.v).  See Props/C01_gen.v for the
   conventions of the translation and the precondition [bufs_nonneg]. *)
From Coq Require Import List ZArith.
Import ListNotations.
From NpTdms Require Import Base.Bytes Base.Res Model.Tokens Model.SegState
     Gen.TypeTable Gen.PyFuncsReader Proofs.GenReaderEquiv Proofs.GenReaderTrunc.
Local Open Scope Z_scope.

(* daqmx._lists_are_equal *)
Theorem lists_are_equal_translated : forall a b, lists_are_equal_gen a b = Ok (zlist_eqb a b).
Proof. exact lists_are_equal_eq. Qed.

(* daqmx.get_buffer_dimensions: (number of values, width) per raw buffer *)
Theorem get_buffer_dimensions_translated : forall objs,
    bufs_nonneg objs -> get_buffer_dimensions_gen objs = buffer_dims objs.
Proof. exact get_buffer_dimensions_eq. Qed.

(* daqmx.get_daqmx_chunk_size *)
Theorem get_daqmx_chunk_size_translated : forall objs,
    bufs_nonneg objs ->
    get_daqmx_chunk_size_gen objs
    = do dims <- buffer_dims objs; Ok (zsum (map (fun d => fst d * snd d) dims)).
Proof. exact get_daqmx_chunk_size_eq. Qed.

(* daqmx.get_daqmx_final_chunk_lengths *)
Theorem get_daqmx_final_chunk_lengths_translated : forall objs rem,
    bufs_nonneg objs -> get_daqmx_final_chunk_lengths_gen objs rem = daqmx_final objs rem.
Proof. exact get_daqmx_final_chunk_lengths_eq. Qed.

(* C06 A4 on the translated function: every buffer keeps whole rows, never more than it
   has, within the bytes that remain; each object gets the length of its buffer *)
Theorem daqmx_final_lengths_translated : forall objs rem dims,
    bufs_nonneg objs -> get_buffer_dimensions_gen objs = Ok dims ->
    (forall d, In d dims -> 0 <= fst d /\ 0 < snd d) -> 0 <= rem ->
    exists lens,
      Forall2 (fun len d => 0 <= len <= fst d) lens dims /\
      zsum (map (fun p => fst p * snd (snd p)) (combine lens dims)) <= rem /\
      get_daqmx_final_chunk_lengths_gen objs rem = Ok (fold_left (daqmx_assign lens) objs []).
Proof. exact daqmx_final_lengths_gen. Qed.

(* two DAQmx channels, buffers of widths 4 and 2 bytes: 4 rows each, 24 bytes per chunk;
   a final chunk of 6 / 21 bytes *)
Example c11_gen_example :
  bufs_nonneg (sg_objs (ex_dseg 30)) /\
  get_buffer_dimensions_gen (sg_objs (ex_dseg 30)) = Ok [(4, 4); (4, 2)] /\
  get_chunk_size_gen (ex_dseg 30) = Ok 24 /\
  calculate_chunks_gen (ex_dseg 30) = Ok (2, Some [(so_path ex_q2, 0)]) /\
  calculate_chunks_gen (ex_dseg 45) = Ok (2, Some [(so_path ex_q2, 2)]).
Proof. exact ex_c11_values. Qed.

Print Assumptions lists_are_equal_translated.
Print Assumptions get_buffer_dimensions_translated.
Print Assumptions get_daqmx_chunk_size_translated.
Print Assumptions get_daqmx_final_chunk_lengths_translated.
Print Assumptions daqmx_final_lengths_translated.
Print Assumptions c11_gen_example.
