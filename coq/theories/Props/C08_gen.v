(* C08 (companion, also serves C07) — the writer's size / index / lead-in logic TRANSLATED from
   nptdms/writer.py on every run (harness/gen/gen_pyfuncs_wsize.py -> Gen/PyFuncsWSize.v) equals
   the hand-written model (Model/Writer.v with Model/Tokens.v's serialisers), for all inputs.
   Statements only; proofs: Proofs/GenWSizeEquiv.v.

   Translated (Python `ast`): _has_raw_data, object_data_size, TdmsSegment.raw_data_index,
   _data_size, metadata, leadin, and TdmsSegment.write up to the raw data; toc_properties as a
   table; the struct layout of Uint32 / Int32 / Uint64, the enum values of String / Void and the
   size table are REFLECTED from nptdms.types.  Conventions (see the generator): a TdmsType
   instance is its `.bytes`; a class is its enum_value; a Python str is its UTF-8 bytes;
   struct.error for a value outside its field is not translated (as in Model/Writer.v, whose
   theorems exclude it by wf_file); property values arrive typed.  Every translated function is
   compared with the real one on real RootObject / GroupObject / ChannelObject / TdmsSegment
   instances each time the generated file is built.

   The Python code builds lists of field values, the model builds syntax and serialises it:
   [idx_fields], [entry_fields], [metadata_fields] (Proofs/GenWSizeEquiv.v) are the fields of a
   piece of syntax, and their concatenation is the model's serialisation. *)
From Coq Require Import List ZArith.
From Coq Require Import Init.Byte.
Import ListNotations.
From NpTdms Require Import Base.Bytes Base.Res Model.Tokens Model.ByteStr Model.StrictParse Model.Writer
     Proofs.StrictClauses Proofs.WriterProofs Proofs.WriterClauses Gen.PyFuncsWSize Proofs.GenWSizeEquiv.
Local Open Scope Z_scope.

(* ---- reflected tables ------------------------------------------------------------------------ *)

Theorem class_table_translated : forall ty,
    cls_size ty = match tds_size ty with Some (Some k) => Some k | _ => None end.
Proof. exact cls_size_eq. Qed.

Theorem class_constants_translated : cls_String = T_STRING /\ cls_Void = T_VOID.
Proof. exact cls_constants_eq. Qed.

(* toc_properties, and the mask of the three flags TdmsSegment.write passes *)
Theorem toc_flags_translated :
  toc_properties_tbl F_kTocMetaData = TOC_META /\ toc_properties_tbl F_kTocRawData = TOC_RAW /\
  toc_properties_tbl F_kTocDAQmxRawData = TOC_DAQMX /\ toc_properties_tbl F_kTocInterleavedData = TOC_INTERLEAVED /\
  toc_properties_tbl F_kTocBigEndian = TOC_BIGENDIAN /\ toc_properties_tbl F_kTocNewObjList = TOC_NEWLIST.
Proof. exact toc_tbl_eq. Qed.

Theorem writer_toc_translated : toc_mask_of WRITER_TOC 0 = TOC_WRITER.
Proof. exact writer_toc_eq. Qed.

(* ---- sizes --------------------------------------------------------------------------------------- *)

(* _has_raw_data: a channel whose type is not Void *)
Theorem has_raw_data_translated : forall o, has_raw_data_gen o = Ok (has_raw o).
Proof. exact has_raw_data_eq. Qed.

(* object_data_size: 4n + sum of the UTF-8 lengths for strings, size * count otherwise,
   TypeError when the type has no size *)
Theorem object_data_size_translated : forall g c dt vals ps,
    dt <> T_VOID -> object_data_size_gen dt vals = obj_data_size (WChan g c dt vals ps).
Proof. exact object_data_size_eq. Qed.

(* TdmsSegment._data_size *)
Theorem data_size_translated : forall objs, data_size_gen objs = data_size objs.
Proof. exact data_size_eq. Qed.

(* ---- raw data index: header 20 / 28, type, dimension 1, count, total size for strings ------------- *)

Theorem raw_data_index_translated : forall o,
    raw_data_index_gen o = Ok (idx_fields (idx_of o)) /\
    concat (idx_fields (idx_of o)) = ser_idx LE (idx_of o) /\
    obj_idx true o = Ok (idx_of o).
Proof. exact raw_data_index_full. Qed.

(* ---- metadata: the fields in order; joined, they are the model's serialised metadata ---------------- *)

Theorem metadata_translated : forall objs,
    metadata_gen objs = Ok (metadata_fields objs) /\
    concat (metadata_fields objs) = ser_metadata LE (map entry_of objs) /\
    mapM (wr_entry true) objs = Ok (map entry_of objs).
Proof. exact metadata_full. Qed.

(* ---- lead-in: tag, ToC mask, version, next_segment_offset = metadata_size + data_size, raw_data_offset *)

Theorem leadin_translated : forall objs is_index version toc msize,
    leadin_gen objs is_index version toc msize
    = do d <- data_size objs;
      Ok [tag_of is_index; tv_Int32 (toc_mask_of toc 0); tv_Int32 version; tv_Uint64 (msize + d); tv_Uint64 msize].
Proof. exact leadin_eq. Qed.

Theorem leadin_bytes_translated : forall is_index version next raw,
    concat [tag_of is_index; tv_Int32 TOC_WRITER; tv_Int32 version; tv_Uint64 next; tv_Uint64 raw]
    = ser_leadin (mkLeadin (tag_of is_index) TOC_WRITER version next raw).
Proof. exact concat_leadin_fields. Qed.

(* ---- TdmsSegment.write: everything written before the raw data ------------------------------------------ *)

Theorem write_head_translated : forall objs is_index version,
    write_head_gen objs is_index version
    = do d <- data_size objs;
      let meta := ser_metadata LE (map entry_of objs) in
      Ok (ser_leadin (mkLeadin (tag_of is_index) TOC_WRITER version (blen meta + d) (blen meta)) ++ meta).
Proof. exact write_head_eq. Qed.

(* the model's segment writer is the translated head plus the raw data, for the data file and the
   index file *)
Theorem wr_segment_bytes_translated : forall version objs,
    wr_segment_bytes_tr version objs = wr_segment_bytes true version objs.
Proof. exact wr_segment_bytes_tr_eq. Qed.

Theorem wr_file_translated : forall sessions, wr_file_tr sessions = wr_file sessions.
Proof. exact wr_file_tr_eq. Qed.

(* ---- C08's headline theorem on the writer assembled from the translated functions -------------------------- *)

Theorem writer_structurally_valid_translated : forall sessions data index,
  wf_file sessions = true ->
  wr_file_tr sessions = Ok (data, index) ->
  exists segs,
    strict_parse data = Some segs /\
    Forall segment_consistent segs /\
    first_segment_declares_root segs /\
    groups_declared_before_channels segs /\
    data = flat_map ser_segment segs /\
    index = flat_map ser_index_segment segs /\
    strip_raw_and_retag data = Some index.
Proof. exact writer_structurally_valid_gen. Qed.

(* ---- non-vacuity: a string channel (index length 28, total 4*3 + 4 = 16) and an int32 channel ----------------
   lead-in of the written head: ToC 14, next_segment_offset = raw_data_offset + 24, raw_data_offset =
   length of the metadata *)
Example c08_gen_example :
  raw_data_index_gen ex_str
  = Ok [put_u32 LE 28; put_u32 LE 32; put_u32 LE 1; put_u64 LE 3; put_u64 LE 16] /\
  raw_data_index_gen ex_i32 = Ok [put_u32 LE 20; put_u32 LE 3; put_u32 LE 1; put_u64 LE 2] /\
  data_size_gen [WRoot []; ex_str; ex_i32] = Ok 24 /\
  (exists hd, write_head_gen [WRoot []; ex_str; ex_i32] false 4712 = Ok hd /\
              read_at 4 4 hd = u_enc LE 4 14 /\
              u_dec LE (read_at 12 8 hd) = u_dec LE (read_at 20 8 hd) + 24 /\
              u_dec LE (read_at 20 8 hd) = blen hd - 28).
Proof. exact ex_wsize_values. Qed.

(* the hypotheses of the headline theorem are satisfiable *)
Example c08_gen_example_file :
  exists data index,
    wf_file [(4712, [[WRoot []; ex_str; ex_i32]])] = true /\
    wr_file_tr [(4712, [[WRoot []; ex_str; ex_i32]])] = Ok (data, index).
Proof. exact ex_wsize_file. Qed.

Print Assumptions class_table_translated.
Print Assumptions class_constants_translated.
Print Assumptions toc_flags_translated.
Print Assumptions writer_toc_translated.
Print Assumptions has_raw_data_translated.
Print Assumptions object_data_size_translated.
Print Assumptions data_size_translated.
Print Assumptions raw_data_index_translated.
Print Assumptions metadata_translated.
Print Assumptions leadin_translated.
Print Assumptions leadin_bytes_translated.
Print Assumptions write_head_translated.
Print Assumptions wr_segment_bytes_translated.
Print Assumptions wr_file_translated.
Print Assumptions writer_structurally_valid_translated.
Print Assumptions c08_gen_example.
Print Assumptions c08_gen_example_file.
