(* C19, byte level -- Partial reads touch only the part of the file they need.
   Statements only; proofs live in Proofs/LazyRangesSeg.v, LazyRangesTop.v, LazyRangesExample.v.

   Props/C19.v fixes WHICH chunks a lazy read fetches (plan_exact_chunks).  This file fixes
   what the fetch COSTS IN BYTES.  Model/LazyRanges.v [lz_ranges st data path offs len] is the
   exact ordered list of reads (position, bytes returned) that channel.read_data(offs, len)
   issues on a lazily opened file -- the 4-byte tag check of every visited segment where
   reader.read_raw_data_for_channel performs it, the array reads of base_segment.fromfile
   with their zero-length terminating readinto, the seek arithmetic of
   ContiguousDataReader._read_channel_data_chunk, the single read of
   InterleavedDataReader, the per-buffer reads of DaqmxDataReader -- computed from the
   reader state [st] of the metadata pass (Model/Reader.v rd_metadata) without decoding any
   raw data.  harness/c19.py compares this list for EQUALITY with the reads a recording
   stream logs while nptdms serves the same request on the same bytes.

   Notions used below (Model/LazyRanges.v, Proofs/LazyRangesTop.v):
     meta_views st path      the per-channel view of LazyRead.v (chunk length, chunk count,
                             final-chunk length, layout kind per segment) from metadata only
     seg_visited views offs len j
                             segment j lies between the first and the last segment whose
                             values meet the request: offs < values up to and including j, and
                             values before j < max(end of window, offs + 1)
     chunk_window path g c   the byte interval [lo, hi) of chunk c of segment g a read of
                             [path] may touch: contiguous layout -- the bytes of the channel
                             itself, sg_data + c * chunk_bytes + (bytes of the data objects
                             before it) for (its own bytes in that chunk); interleaved and
                             DAQmx layout -- the chunk, sg_data + c * chunk_bytes for chunk_bytes
     ranges_inv st data path the structural invariants of the state (hypothesis), see below.

   Strings: a string block is listed as ONE read of its declared size (the n offset reads and
   n body reads the implementation issues back to back are merged; their individual sizes
   depend on the data).  The theorems hold for the merged list as for any other.

   Not covered: an exception raised AFTER some reads were issued (the model then returns Err
   and lists nothing; under ranges_inv it returns Ok); what the OS or a buffered file object
   prefetches below the stream interface. *)
From Coq Require Import ZArith List Bool.
From Coq Require Import Init.Byte.
From NpTdms Require Import Base.Bytes Base.Res Base.PySlice Model.Tokens Model.SegState Model.Layout
     Model.Reader Model.LazyRead Model.LazyBytes Model.LazyRanges
     Proofs.LazyIndexProofs Proofs.LazyReadProofs Proofs.LazyWindowProofs Proofs.LazyTopProofs
     Model.FileSyn Proofs.FileSynProofs
     Proofs.LazyRangesSeg Proofs.LazyRangesTop Proofs.LazyRangesExample Proofs.LazyRangesSer
     Proofs.LazyRangesLink.
Import ListNotations.
Open Scope Z_scope.

(* ---- the hypothesis, spelled out ------------------------------------------------------------
   ranges_inv st data path = every segment g of the state satisfies seg_inv:
     * the 4 bytes at sg_pos g are b'TDSm' (the metadata pass read them there);
     * sg_nchunks g >= 0, the channel's chunk length chan_chunk path g >= 0;
     * where the channel has data (chan_chunk <> 0):
         - final_inv: with a truncated final chunk there is at least one chunk and the
           channel's final length is between 0 and its chunk length;
         - layout_inv: chunk size and layout are defined (no mixed DAQmx / plain objects, ...);
           contiguous: every data object has number_values, data_size >= 0, a data type,
             data_size = number_values * size for a sized type, final length in
             [0, number_values] (0 or all for a string object);
           interleaved: the same, every object sized, all with the same number_values;
           DAQmx: the buffer dimensions are defined and non-negative.
   It is decidable (a boolean); harness/c19.py evaluates it on the state of every generated file. *)
Theorem ranges_inv_spec : forall st data path,
    ranges_inv st data path = true <->
    forall g, In g (rs_segments st) -> seg_inv data path g = true.
Proof. intros. unfold ranges_inv. apply forallb_forall. Qed.

(* ---- the hypothesis on SERIALISED files (partial) --------------------------------------------
   For the bytes of any well-formed file syntax (Model/FileSyn.v ser_file, wf_file as in
   Props/C01_file.v) the state of TdmsFile.open is sm_run on the syntax, and the POSITIONAL half
   of ranges_inv holds by proof: the tag b'TDSm' stands at every recorded segment position and
   every chunk count is non-negative (Proofs/ReadCorrect.v R1, sm_segment_positions).
   MISSING for the full statement `wf_file segs -> sm_run segs w = Ok st -> ranges_inv ...`: the
   object-level half objects_inv (final_inv, layout_inv) is NOT derived from wf_file.  It cannot
   be derived in this generality: an object first listed without data and later switched on by
   a "matches previous" index has no data type; the lazy reader skips it (0 values, 0 bytes),
   but obj_inv excludes it -- ranges_inv is a sufficient condition, not a necessary one.
   objects_inv is decidable and is evaluated (inside ranges_inv) on every generated file. *)
Theorem ranges_inv_serialised_partial : forall segs w st path,
    wf_file segs -> sm_run segs w = Ok st ->
    forallb (objects_inv path) (rs_segments st) = true ->
    ranges_inv st (ser_file segs) path = true.
Proof. exact LazyRangesSer.ranges_inv_ser. Qed.

Theorem open_state_serialised : forall segs, wf_file segs -> open_state (ser_file segs) = sm_run segs true.
Proof. exact LazyRangesSer.open_state_ser. Qed.

Example ex_serialised_objects_inv :
    match sm_run ex_file true with
    | Ok st => forallb (fun p => forallb (objects_inv p) (rs_segments st))
                       (map so_path (flat_map sg_objs (rs_segments st))) = true /\
               (exists p, In p (map so_path (flat_map sg_objs (rs_segments st))))
    | Err _ => False
    end.
Proof. exact LazyRangesSer.ex_file_objects_inv. Qed.

(* the witness for "sufficient, not necessary": a well-formed two-segment file whose state fails
   ranges_inv for its channel while the model lists -- and nptdms issues, checked against /repo --
   exactly the channel's own bytes and two tag checks *)
Theorem ranges_inv_not_necessary :
    wf_file odd_file /\
    match sm_run odd_file true with
    | Ok st =>
      ranges_inv st (ser_file odd_file) odd_path = false /\
      forallb (objects_inv odd_path) (rs_segments st) = false /\
      lz_ranges st (ser_file odd_file) odd_path 0 None
      = Ok [(0, 4); (88, 8); (96, 0); (96, 4); (148, 8); (156, 0)]
    | Err _ => False
    end.
Proof. exact LazyRangesSer.odd_file_facts. Qed.

(* ---- every read is a tag check of a visited segment or lies inside the window of a chunk
        that overlaps the request --------------------------------------------------------------- *)
Theorem ranges_within_request : forall st data path offs len,
    ranges_inv st data path = true -> 0 <= offs -> (match len with None => True | Some l => 0 <= l end) ->
    exists views rs,
      meta_views st path = Ok views /\ wf unit views = true /\
      lz_ranges st data path offs len = Ok rs /\
      forall pos n, In (pos, n) rs ->
        (* the 4-byte tag check at the start of a visited segment *)
        (exists j g, seg_visited views offs len j /\
                     nth_error (rs_segments st) (Z.to_nat j) = Some g /\ pos = sg_pos g /\ n = 4) \/
        (* or: every byte fetched lies in the window of a chunk (j, c) of a segment holding the
           channel whose value range [chunk_start, chunk_end) meets the request (the
           characterisation of the plan in Props/C19.v plan_exact_chunks) *)
        (0 <= n /\ forall b, pos <= b < pos + n ->
           exists j c sv g lo hi,
             0 <= j /\ nth_error views (Z.to_nat j) = Some sv /\
             nth_error (rs_segments st) (Z.to_nat j) = Some g /\
             sv_chunk sv <> 0 /\ 0 <= c < sv_nchunks sv /\
             chunk_start unit (pre unit views j) sv c < win_end (total_values unit views) offs len /\
             offs < chunk_end unit (pre unit views j) sv c /\
             chunk_window path g c = Some (lo, hi) /\ lo <= b < hi).
Proof. exact LazyRangesTop.ranges_within_request_proof. Qed.

(* ---- the bytes fetched are bounded by the request, not by the file -------------------------
   4 bytes per visited segment (segments s..e, all of them visited in the sense above) plus,
   for each planned chunk -- each listed once, and planned exactly when it overlaps the
   request -- its window: the channel's own bytes (contiguous) or the chunk (interleaved,
   DAQmx).  Nothing in the bound depends on the size of the file or on other channels'
   segments outside [s, e]. *)
Corollary bytes_bounded_by_request : forall st data path offs len,
    ranges_inv st data path = true -> 0 <= offs -> (match len with None => True | Some l => 0 <= l end) ->
    exists views plan rs s e,
      meta_views st path = Ok views /\ lz_plan unit views offs len = Ok plan /\ NoDup plan /\
      (forall j c, In (j, c) plan <->
         exists sv, 0 <= j /\ nth_error views (Z.to_nat j) = Some sv /\
                    sv_chunk sv <> 0 /\ 0 <= c < sv_nchunks sv /\
                    chunk_start unit (pre unit views j) sv c < win_end (total_values unit views) offs len /\
                    offs < chunk_end unit (pre unit views j) sv c) /\
      lz_ranges st data path offs len = Ok rs /\
      (forall j, s <= j <= e -> seg_visited views offs len j) /\
      total_bytes rs <= 4 * Z.max 0 (e - s + 1) + SegState.zsum (map (chunk_cost st path) plan).
Proof. exact LazyRangesTop.bytes_bounded_proof. Qed.

(* what chunk_cost is: the length of the chunk's window (0 for a chunk without one) *)
Theorem chunk_cost_spec : forall st path j c g,
    nth_error (rs_segments st) (Z.to_nat j) = Some g ->
    chunk_cost st path (j, c) = match chunk_window path g c with Some (lo, hi) => hi - lo | None => 0 end.
Proof. intros st path j c g H. unfold chunk_cost. cbn [fst snd]. rewrite H. reflexivity. Qed.

(* ---- the reads of ONE segment (used for both read_data and channel[i]) ---------------------
   reading chunks [co, co + nc) of segment g stays inside the windows of these chunks, and
   returns at most the sum of their lengths *)
Theorem segment_reads_within_chunks : forall fsz path g co nc l,
    seg_reads fsz path g co nc = Ok l -> layout_inv g = true -> (0 < nc -> 0 <= co) ->
    (forall p n, In (p, n) l ->
       0 <= n /\ forall b, p <= b < p + n ->
                   exists c lo hi, co <= c < co + nc /\ chunk_window path g c = Some (lo, hi) /\ lo <= b < hi) /\
    0 <= total_bytes l <= SegState.zsum (map (seg_cost path g) (zrange co (co + nc))).
Proof. exact LazyRangesSeg.seg_reads_spec. Qed.

(* ---- channel[i]: a cache miss costs the tag check of the one segment and the window of the
        one chunk that holds the index; a hit costs nothing ----------------------------------- *)
Theorem index_reads_within_chunk : forall st data path views c i x c' log,
    ranges_inv st data path = true -> meta_views st path = Ok views -> cache_inv unit views c ->
    read_at_index unit views c i = Ok (x, c', log) ->
    exists rs, lz_index_ranges st data path views c i = Ok (rs, c') /\
      ((log = [] /\ rs = []) \/
       exists j cc sv g,
         log = [(j, cc)] /\ 0 <= j /\ nth_error views (Z.to_nat j) = Some sv /\
         nth_error (rs_segments st) (Z.to_nat j) = Some g /\
         sv_chunk sv <> 0 /\ 0 <= cc < sv_nchunks sv /\
         (let i' := if i <? 0 then i + total_values unit views else i in
          chunk_start unit (pre unit views j) sv cc <= i' < chunk_end unit (pre unit views j) sv cc) /\
         (forall p n, In (p, n) rs ->
            (p = sg_pos g /\ n = 4) \/
            (0 <= n /\ forall b, p <= b < p + n -> in_chunk_window st path (j, cc) b)) /\
         total_bytes rs <= 4 + chunk_cost st path (j, cc)).
Proof. exact LazyRangesTop.index_ranges_top. Qed.

Theorem index_hit_reads_nothing : forall st data path views cached b0 b1 i r,
    let i' := if i <? 0 then total_values unit views + i else i in
    b0 <= i' < b1 ->
    lz_index_ranges st data path views (Some (cached, (b0, b1))) i = Ok r ->
    fst r = [] /\ snd r = Some (cached, (b0, b1)).
Proof. exact LazyRangesTop.index_hit_reads_nothing. Qed.

(* ---- the plan does not depend on the values: the chunks bounded above are the chunks
        LazyBytes.lz_read_bytes (Props/C03.v, C04.v) decodes the values from -------------------- *)
Theorem plan_independent_of_values : forall (V W : Type) (A : list (segv V)) (B : list (segv W)) offs len,
    Forall2 (same_shape V W) A B -> lz_plan V A offs len = lz_plan W B offs len.
Proof. exact LazyRangesLink.lz_plan_shape. Qed.

Theorem plan_on_bytes_is_plan_on_metadata : forall data path offs len st svs dt,
    open_state data = Ok st -> ranges_inv st data path = true ->
    channel_view data path = Ok (svs, dt) ->
    exists views, meta_views st path = Ok views /\
                  lz_plan bytes svs offs len = lz_plan unit views offs len /\
                  lz_plan_bytes data path offs len = lz_plan_meta st path offs len.
Proof. exact LazyRangesLink.plan_bytes_is_plan_meta. Qed.

(* ---- the naive reading "a tag check only of a segment that has a planned chunk" is FALSE
        of the code: an empty window at a chunk boundary inside a segment visits the segment
        (4 bytes) and plans nothing.  nptdms logs exactly [(0, 4)] for read_data(4, 0) here. --- *)
Theorem tag_check_without_planned_chunk :
    lz_ranges_bytes ex_bytes ex_path_a 4 (Some 0) = Ok [(0, 4)] /\
    match open_state ex_bytes with
    | Ok st => lz_plan_meta st ex_path_a 4 (Some 0) = Ok []
    | Err _ => False
    end.
Proof. exact LazyRangesExample.ex_a_4_0. Qed.

(* ---- non-vacuity: the hypotheses hold on two concrete multi-segment files (contiguous +
        interleaved + truncated contiguous with a string channel; DAQmx with two buffers, cut
        inside its last chunk), and on them the model computes exactly the reads nptdms issued
        (logs of the recording stream, verbatim; see Proofs/LazyRangesExample.v) ------------ *)
Example ex_inv_holds : inv_on ex_bytes [ex_path_a; ex_path_b; ex_path_c] = true.
Proof. exact LazyRangesExample.ex_inv. Qed.

Example ex_daqmx_inv_holds : inv_on exq_bytes [exq_path_c0; exq_path_c1] = true.
Proof. exact LazyRangesExample.exq_inv. Qed.

Example ex_window_reads :
    lz_ranges_bytes ex_bytes ex_path_a 13 (Some 14) = Ok [(355, 4); (459, 240); (699, 0); (699, 4); (803, 16); (819, 0)].
Proof. exact LazyRangesExample.ex_a_13_14. Qed.

Example ex_last_object_reads :
    lz_ranges_bytes ex_bytes ex_path_c 13 (Some 14) =
    Ok [(355, 4); (539, 160); (699, 0); (699, 4); (819, 48); (867, 0); (883, 48); (931, 0); (947, 16); (963, 0)].
Proof. exact LazyRangesExample.ex_c_13_14. Qed.

Example ex_string_reads :
    lz_ranges_bytes ex_bytes ex_path_b 5 (Some 3) = Ok [(0, 4); (233, 21); (302, 21)] /\
    norm_reads [(0, 4); (233, 4); (237, 4); (241, 4); (245, 3); (248, 3); (251, 3);
                (302, 4); (306, 4); (310, 4); (314, 3); (317, 3); (320, 3)] = [(0, 4); (233, 21); (302, 21)].
Proof. exact LazyRangesExample.ex_b_5_3. Qed.

Example ex_daqmx_reads :
    lz_ranges_bytes exq_bytes exq_path_c1 17 (Some 1) = Ok [(339, 4); (387, 4); (391, 0); (391, 10); (401, 0)].
Proof. exact LazyRangesExample.exq_c1_17_1. Qed.

(* the theorem applied to the concrete state: the reads of read_data(13, 14) on a exist and
   every one of them is a tag check or inside a window *)
Example ex_theorem_applies :
    match open_state ex_bytes with
    | Ok st =>
      exists views rs, meta_views st ex_path_a = Ok views /\
                       lz_ranges st ex_bytes ex_path_a 13 (Some 14) = Ok rs /\ In (459, 240) rs
    | Err _ => False
    end.
Proof.
  pose proof LazyRangesExample.ex_inv as Hinv. unfold inv_on in Hinv.
  pose proof LazyRangesExample.ex_a_13_14 as Hr. unfold lz_ranges_bytes in Hr.
  destruct (open_state ex_bytes) as [st|]; [|discriminate].
  cbn [forallb] in Hinv. apply andb_prop in Hinv. destruct Hinv as [Ha _].
  destruct (ranges_within_request st ex_bytes ex_path_a 13 (Some 14) Ha) as (views & rs & Hv & _ & Hrs & _);
    [discriminate|discriminate|].
  cbn [bind] in Hr. destruct (chan_dtype st ex_path_a); [|discriminate].
  exists views, rs. split; [exact Hv|]. split; [exact Hrs|].
  rewrite Hrs in Hr. injection Hr as ->. cbn. tauto.
Qed.

Print Assumptions ranges_inv_spec.
Print Assumptions ranges_inv_serialised_partial.
Print Assumptions open_state_serialised.
Print Assumptions ranges_inv_not_necessary.
Print Assumptions ranges_within_request.
Print Assumptions bytes_bounded_by_request.
Print Assumptions chunk_cost_spec.
Print Assumptions segment_reads_within_chunks.
Print Assumptions plan_independent_of_values.
Print Assumptions plan_on_bytes_is_plan_on_metadata.
Print Assumptions index_reads_within_chunk.
Print Assumptions index_hit_reads_nothing.
Print Assumptions tag_check_without_planned_chunk.
Print Assumptions ex_theorem_applies.
