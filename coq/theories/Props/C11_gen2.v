(* C11 (companion) — the DAQmx index checks and the scaler field arithmetic TRANSLATED from
   nptdms/daqmx.py on every run (harness/gen/gen_pyfuncs_index.py -> Gen/PyFuncsIndex.v) equal the
   hand-written model (Model/SegState.v new_object on a DAQmx index, Model/Layout.v scaler_values /
   digital_bit).  Statements only; proofs: Proofs/GenIndexEquiv.v.

   Translated: DaqMxScaler.__init__ / DigitalLineScaler.__init__ after the unpack (DAQMX_TYPES
   lookup, KeyError), DaqMxMetadata.__init__'s checks (dimension, exactly one scaler of the
   channel's type unless the channel is DaqMxRawData) with the scalers built by the translated
   constructors, byte_offset of both scaler classes (`raw_bit_offset // 8`), and
   DigitalLineScaler.postprocess_data per element (`% 8`, shift, `& 1`).  Values read from
   the file are parameters; DAQMX_TYPES, the class registered per header and the type table are
   REFLECTED.  Compared with the real classes fed with real bytes / real arrays at build time. *)
From Coq Require Import List ZArith.
Import ListNotations.
From NpTdms Require Import Base.Bytes Base.Res Model.Tokens Model.SegState Model.Layout
     Gen.PyFuncsIndex Proofs.GenIndexEquiv.
Local Open Scope Z_scope.

Theorem daqmx_tables_translated : forall code, idx_daqmx_types code = daqmx_type code.
Proof. exact idx_daqmx_types_eq. Qed.

Theorem daqmx_constants_translated :
  idx_cls_String = T_STRING /\ idx_cls_DaqMxRawData = T_DAQMX /\ idx_DIGITAL_LINE_SCALER = DIGITAL_LINE_SCALER.
Proof. exact idx_constants_eq. Qed.

(* both scaler constructors resolve the type code through DAQMX_TYPES *)
Theorem scaler_init_translated : forall code,
    daqmx_scaler_init_gen code = need EKey (daqmx_type code) /\
    digital_scaler_init_gen code = need EKey (daqmx_type code).
Proof. exact scaler_init_eq. Qed.

(* DaqMxMetadata.__init__: same acceptance, same exception, as the model's new_object; the scalers
   it keeps are the raw fields with their resolved types *)
Theorem daqmx_metadata_init_translated : forall path kind dt dim n scalers widths,
    tds_size dt <> None ->
    match daqmx_metadata_init_gen dim (Z.of_nat (length scalers)) kind scalers dt with
    | Ok rs =>
      resolved rs scalers /\
      new_object path (IDaqmx kind dt dim n scalers widths)
      = Ok (mkSobj path true n 0 (Some dt) (Some (mkDq kind scalers widths)))
    | Err e => new_object path (IDaqmx kind dt dim n scalers widths) = Err e
    end.
Proof. exact daqmx_metadata_init_eq. Qed.

(* the column a scaler is read from (Model/Layout.v scaler_values) *)
Theorem byte_offset_translated : forall kind s,
    (if kind =? DIGITAL_LINE_SCALER then digital_byte_offset_gen (sc_off s) else daqmx_byte_offset_gen (sc_off s))
    = Ok (if kind =? DIGITAL_LINE_SCALER then sc_off s / 8 else sc_off s).
Proof. exact byte_offset_eq. Qed.

(* DigitalLineScaler.postprocess_data (shift, then `& 1`; /repo 4b9c684) on an element of ANY integer
   dtype of w >= 1 bytes, signed or unsigned: never raises, and ... *)
Theorem digital_postprocess_translated : forall w sg off v,
    (0 < w)%nat ->
    digital_postprocess_gen w sg off v = Ok (Z.land (Z.shiftr v (off mod 8)) 1).
Proof. exact digital_postprocess_all. Qed.

(* ... returns the addressed bit (of the two's complement value) for EVERY integer raw type,
   int8 bit 7 included *)
Theorem digital_postprocess_returns_bit : forall w sg off v,
    (0 < w)%nat ->
    digital_postprocess_gen w sg off v = Ok (Z.b2z (Z.testbit v (off mod 8))).
Proof. exact digital_postprocess_bit. Qed.

(* ... which is the model's digital_bit (mask, then shift) on the value's bytes *)
Theorem digital_bit_is_translated : forall off (v : bytes) sg,
    (0 < length v)%nat ->
    match digital_postprocess_gen (length v) sg off (le_dec v) with
    | Ok x => digital_bit (off mod 8) v = le_enc (length v) x
    | Err _ => False
    end.
Proof. exact digital_bit_translated. Qed.

Theorem daqmx_postprocess_translated : forall v, daqmx_postprocess_gen v = Ok v.
Proof. exact daqmx_postprocess_eq. Qed.

(* the case that raised OverflowError before repair 4b9c684 (np.bitwise_and(int8 array, 128)):
   int8, bit 7 -- checked against the real code by the self-test of the generated file *)
Theorem digital_postprocess_int8_top_bit_value :
  digital_postprocess_gen 1 true 7 (-128) = Ok 1 /\ digital_postprocess_gen 1 true 7 (-1) = Ok 1 /\
  digital_postprocess_gen 1 true 7 127 = Ok 0.
Proof. exact digital_postprocess_int8_top_bit. Qed.

(* two format-changing scalers of types int16 / int32 under a DaqMxRawData channel; a typed channel
   needs exactly one scaler of its type; an unknown type code and dimension 2 are refused *)
Example c11_gen2_example :
  (exists rs, daqmx_metadata_init_gen 1 2 FORMAT_CHANGING_SCALER [mkScaler 3 0 0 0 0; mkScaler 5 0 2 0 1] T_DAQMX = Ok rs /\
              map rs_dtype rs = [2; 3]) /\
  daqmx_metadata_init_gen 1 2 FORMAT_CHANGING_SCALER [mkScaler 3 0 0 0 0; mkScaler 5 0 2 0 1] 2 = Err EValue /\
  (exists rs, daqmx_metadata_init_gen 1 1 DIGITAL_LINE_SCALER [mkScaler 0 0 9 0 0] 5 = Ok rs) /\
  daqmx_metadata_init_gen 1 1 DIGITAL_LINE_SCALER [mkScaler 99 0 9 0 0] T_DAQMX = Err EKey /\
  daqmx_metadata_init_gen 2 1 DIGITAL_LINE_SCALER [mkScaler 0 0 9 0 0] T_DAQMX = Err EValue.
Proof. exact ex_daqmx_init. Qed.

Print Assumptions daqmx_tables_translated.
Print Assumptions daqmx_constants_translated.
Print Assumptions scaler_init_translated.
Print Assumptions daqmx_metadata_init_translated.
Print Assumptions byte_offset_translated.
Print Assumptions digital_postprocess_translated.
Print Assumptions digital_bit_is_translated.
Print Assumptions daqmx_postprocess_translated.
Print Assumptions digital_postprocess_returns_bit.
Print Assumptions digital_postprocess_int8_top_bit_value.
Print Assumptions c11_gen2_example.
