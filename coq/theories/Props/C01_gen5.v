(* C01 (companion) — the EAGER READ PATH TRANSLATED from the source on every run
   (harness/gen/gen_pyfuncs_eagerloop.py -> Gen/PyFuncsEagerLoop.v:
     nptdms/tdms_segment.py  TdmsSegment._have_interleaved_data, _get_data_reader, _get_data_objects, _read_data_chunks,
                             read_raw_data
     nptdms/reader.py        TdmsReader._verify_segment_start, read_raw_data
     nptdms/tdms.py          TdmsFile._read_data)
   equals Model/Layout.v seg_layout / read_segment_chunks and Model/Reader.v read_segment / rd_eager, and Props/C01_read.v
   R4 (receive_chunks_concat) holds OF THE TRANSLATED chunk loop of TdmsFile._read_data.
   Statements only; proofs: Proofs/GenEagerEquiv.v.  This closes "the eager path read_raw_data / _read_data_chunks /
   TdmsFile._read_data" of the "still hand-modelled only" list of DESIGN 13.6.

   Conventions of the translation (see the driver's header): a reader object is (class code, num_chunks, override, byte
   order flag), which class's read_data_chunks runs is reflected; a generator is the list it yields when read to its end
   plus the file afterwards; in-place updates of a receiver are written back to the dictionary slot it lives in;
   channel._set_raw_data(r) is recorded per channel path.

   Abstractions: [chunks_abs_dq] (Proofs/GenDaqmxLoopEquiv.v: a NumPy array is (dtype, raw bytes), its values the
   canonical little-endian value bytes; plain data and scaler dictionaries), [cd_abs] / [recv_abs] (a preallocated array
   up to its insert position).

   WHAT IS EQUAL TO WHAT.
   * Reader dispatch, data objects, the chunk stream of a segment and of the whole file: equal to the model with the
     same exception, including the file position after a segment ([segment_read_raw_data_translated]); the model ignores
     the empty chunk a segment without kTocRawData yields first -- the statements carry it explicitly ([empty_chunks]).
     Domain [seg_data_ok]: that of the chunk readers' equalities (Props/C01_gen3.v, C11_gen3.v) per layout, plus the
     model's fuel bound.
   * TdmsFile._read_data against rd_eager: [res_agree] -- same success and then the same receivers; a failing run fails
     in both, but WHICH exception comes first is not preserved (the translated generator is read to its end before its
     chunks are consumed; the code and rd_eager interleave reading and receiving).

   [tdmsfile_read_data_translated_partial] is PARTIAL in this sense: its hypothesis [read_data_fits] -- every append made
   during the run is dtype-compatible with the receiver's preallocated array and fits into it, stated on the translated
   run itself -- is not DERIVED from file-level hypotheses (it is what `every receiver gets exactly len(channel) values`,
   the flag of rd_all, and `segment object and channel have the same type` amount to; deriving it needs the composition
   with Props/C01_read.v lengths_consistent_ser, which is not done).  Not covered by [item_fits]: a chunk carrying an EMPTY
   scaler dictionary for a channel whose receiver is None or not a DAQmx receiver (the code does nothing, the model
   answers EOther), and value / receiver class combinations npTDMS never produces (the driver's Err EFuel marker). *)
From Coq Require Import String Ascii.
From Coq Require Import List ZArith.
Import ListNotations.
From NpTdms Require Import Base.Bytes Base.Res Model.Tokens Model.SegState Model.Layout Model.Reader
     Gen.PyFuncsReader Gen.PyFuncsDecode Gen.PyFuncsDaqmxRead Gen.PyFuncsDaqmxLoop Gen.PyFuncsEagerLoop
     Proofs.ReadCorrect Proofs.GenReaderEquiv Proofs.GenDecodeEquiv Proofs.GenDecodeRecv Proofs.GenDaqmxEquiv
     Proofs.GenDaqmxLoopEquiv Proofs.GenEagerEquiv.
Local Open Scope Z_scope.

(* ---- the segment's reader --------------------------------------------------------------------------------------------- *)

Theorem have_interleaved_data_translated : forall s,
    have_interleaved_data_gen s = have_interleaved (sg_toc s) (data_objs (sg_objs s)).
Proof. exact have_interleaved_data_eq. Qed.

(* _get_data_reader: the class is the model's layout (DAQmx before interleaved before contiguous, with the same
   exceptions), the attributes are num_chunks, the final-chunk override and the byte order of the ToC *)
Theorem get_data_reader_translated : forall s,
    get_data_reader_gen s = mapr (reader_of s) (seg_layout s).
Proof. exact get_data_reader_eq. Qed.

Theorem get_data_objects_translated : forall s, get_data_objects_gen s = Ok (data_objs (sg_objs s)).
Proof. exact get_data_objects_eq. Qed.

(* ---- the chunk streams ---------------------------------------------------------------------------------------------------- *)

(* _read_data_chunks = read_segment_chunks: same chunks (each dictionary in order), same rest of the file, same exception *)
Theorem segment_read_data_chunks_translated : forall sg cur,
    seg_data_ok sg cur ->
    mapr (fun p => (chunks_abs_dq (fst p), snd p))
         (segment_read_data_chunks_gen sg cur (data_objs (sg_objs sg)) (sg_nchunks sg))
    = mapr (fun p => (Some (fst p), snd p)) (read_segment_chunks sg cur).
Proof. exact segment_read_data_chunks_eq. Qed.

(* read_raw_data: the empty chunk when there is no kTocRawData, then the chunks read from data_position; the file is left
   after the last byte read, wherever it was before *)
Theorem segment_read_raw_data_translated : forall sg f,
    0 <= sg_data sg ->
    seg_data_ok sg (drop (sg_data sg) (pf_data f)) ->
    mapr (fun p => (chunks_abs_dq (fst p), snd p)) (segment_read_raw_data_gen sg f)
    = mapr (fun p => (Some (empty_chunks (sg_toc sg) ++ fst p),
                      mkPf (pf_data f) (sg_data sg + (blen (drop (sg_data sg) (pf_data f)) - blen (snd p)))))
           (read_segment_chunks sg (drop (sg_data sg) (pf_data f))).
Proof. exact segment_read_raw_data_eq. Qed.

(* _verify_segment_start: the four bytes at the segment's position must be b'TDSm' (ValueError otherwise) *)
Theorem verify_segment_start_translated : forall f sg,
    0 <= sg_pos sg ->
    mapr pf_data (verify_segment_start_gen f sg)
    = if negb (bytes_eqb (read_at (sg_pos sg) 4 (pf_data f)) TAG_DATA) then Err EValue else Ok (pf_data f).
Proof. exact verify_segment_start_eq. Qed.

(* TdmsReader.read_raw_data: per segment the tag check and the segment's chunks = Model/Reader.v read_segment, in file
   order, with the same exception; where the file was before does not matter *)
Theorem reader_read_raw_data_translated : forall data segs p0,
    segs_data_ok data segs ->
    mapr (fun p => (chunks_abs_dq (fst p), pf_data (snd p))) (reader_read_raw_data_gen (Some segs) (mkPf data p0))
    = mapr (fun cs => (Some cs, data)) (all_chunks data segs).
Proof. exact reader_read_raw_data_eq. Qed.

Theorem reader_read_raw_data_needs_metadata : forall f, reader_read_raw_data_gen None f = Err ERuntime.
Proof. exact reader_read_raw_data_no_metadata. Qed.

(* [all_chunks] is what rd_eager's loop over the segments consumes *)
Theorem rd_eager_consumes_all_chunks : forall data segs recv,
    res_agree (do cs <- all_chunks data segs; fold_left recv_step cs (Ok recv))
              (fold_left (eager_seg_step data) segs (Ok recv)).
Proof. exact eager_fold_agree. Qed.

(* ---- TdmsFile._read_data ------------------------------------------------------------------------------------------------------ *)

(* one receiver per channel: the allocation loop over self.groups() / group.channels() with the translated
   get_data_receiver(channel, len(channel), ..) = the model's receiver0 fold *)
Theorem read_data_allocation_translated : forall raw mm groups cd m,
    Forall (Forall chan_ok) groups -> cd_abs cd = Some m ->
    mapr cd_abs (tdmsfile_read_data_gen_loop5 raw mm groups cd)
    = mapr Some (fold_left alloc_step (concat groups) (Ok m)).
Proof. exact alloc_outer_eq. Qed.

(* the chunk loop: per chunk, per (path, data) item, append_data / append_scaler_data on the receiver of that path =
   the model's receive_chunk fold, with the same exception *)
Theorem read_data_chunk_loop_translated : forall asdt l cd m cs,
    cd_abs cd = Some m -> chunks_abs_dq l = Some cs -> chunks_fit asdt l cd ->
    mapr cd_abs (tdmsfile_read_data_gen_loop7 asdt l cd) = mapr Some (fold_left recv_step cs (Ok m)).
Proof. exact chunks_sim. Qed.

(* the hand-over: channel c gets self._channel_data[c.path] unless that is None (KeyError cannot happen: proved inside
   tdmsfile_read_data_translated_partial) *)
Theorem read_data_handover_translated : forall asdt groups cd0 raw mm segs f0 cd rawd flag f,
    tdmsfile_read_data_gen asdt groups cd0 raw mm segs f0 tt = Ok (cd, rawd, flag, f) ->
    fold_left (handover_step cd) (concat groups) (Ok []) = Ok rawd /\ flag = true.
Proof. exact tdmsfile_read_data_handover. Qed.

(* THE WHOLE FUNCTION against rd_eager (see the header for what is missing) *)
Theorem tdmsfile_read_data_translated_partial : forall asdt st h data raw mm p0,
    Forall chan_ok (all_channels h) ->
    segs_data_ok data (rs_segments st) ->
    read_data_fits asdt (groups_of h) raw mm (rs_segments st) (mkPf data p0) ->
    res_agree (mapr (fun r => let '(cd, rawd, flag, f) := r in (cd_abs cd, flag, pf_data f))
                    (tdmsfile_read_data_gen asdt (groups_of h) [] raw mm (Some (rs_segments st)) (mkPf data p0) tt))
              (mapr (fun recv => (Some recv, true, data)) (rd_eager st h data)).
Proof. exact tdmsfile_read_data_eq. Qed.

(* Props/C01_read.v R4 ON THE TRANSLATED chunk loop: every path's receiver ends with its previous content followed by
   the values the chunks hold for it, in order *)
Theorem receive_chunks_concat_translated : forall asdt l cd recv chunks,
    cd_abs cd = Some recv -> chunks_abs_dq l = Some chunks -> chunks_fit asdt l cd ->
    Forall only_cdata chunks ->
    (forall c kv, In c chunks -> In kv c -> is_data_receiver (alookup (fst kv) recv)) ->
    exists cd' recv',
      tdmsfile_read_data_gen_loop7 asdt l cd = Ok cd' /\ cd_abs cd' = Some recv' /\
      forall p, alookup p recv' = option_map (radd (chan_values p chunks)) (alookup p recv).
Proof. exact read_data_chunks_concat. Qed.

(* a real file (bytes written by harness/tdmsgen.py; the real TdmsFile.read gives a = [1, -2, 3, 4, 5], b = ['hi', 'yo']):
   a contiguous segment with an int32 and a string channel in two chunks, a metadata-only segment WITHOUT kTocRawData
   (its empty chunk is in the stream), a big-endian interleaved segment.  The hypotheses hold; the stream, the
   receivers, the file position and rd_eager are computed *)
Section Examples.
Import String.
Local Open Scope string_scope.
Example c01_gen5_example :
  rd_metadata ex_file false (Some (blen ex_file)) false = Ok ex_st /\ build_hierarchy (rs_om ex_st) = Ok ex_h /\
  Forall chan_ok (all_channels ex_h) /\ segs_data_ok ex_file (rs_segments ex_st) /\
  read_data_fits ex_asdt (groups_of ex_h) true false (rs_segments ex_st) (mkPf ex_file 0) /\
  mapr (fun p => (chunks_abs_dq (fst p), pf_pos (snd p))) (reader_read_raw_data_gen (Some (rs_segments ex_st)) (mkPf ex_file 0))
  = Ok (Some [ [(hex "2f2767272f276127", CData [hex "01000000"; hex "feffffff"]); (hex "2f2767272f276227", CData [hex "6869"])];
               [(hex "2f2767272f276127", CData [hex "03000000"; hex "04000000"]); (hex "2f2767272f276227", CData [hex "796f"])];
               [];
               [(hex "2f2767272f276127", CData [hex "05000000"])] ], 273) /\
  mapr (fun r => let '(cd, rawd, flag, f) := r in (cd_abs cd, map fst rawd, flag, pf_pos f))
       (tdmsfile_read_data_gen ex_asdt (groups_of ex_h) [] true false (Some (rs_segments ex_st)) (mkPf ex_file 0) tt)
  = Ok (Some [(hex "2f2767272f276127", Some (CData [hex "01000000"; hex "feffffff"; hex "03000000"; hex "04000000"; hex "05000000"]));
              (hex "2f2767272f276227", Some (CData [hex "6869"; hex "796f"]))],
        [hex "2f2767272f276127"; hex "2f2767272f276227"], true, 273) /\
  rd_eager ex_st ex_h ex_file
  = Ok [(hex "2f2767272f276127", Some (CData [hex "01000000"; hex "feffffff"; hex "03000000"; hex "04000000"; hex "05000000"]));
        (hex "2f2767272f276227", Some (CData [hex "6869"; hex "796f"]))].
Proof. exact ex_read_data_gen. Qed.
End Examples.

Print Assumptions have_interleaved_data_translated.
Print Assumptions get_data_reader_translated.
Print Assumptions get_data_objects_translated.
Print Assumptions segment_read_data_chunks_translated.
Print Assumptions segment_read_raw_data_translated.
Print Assumptions verify_segment_start_translated.
Print Assumptions reader_read_raw_data_translated.
Print Assumptions reader_read_raw_data_needs_metadata.
Print Assumptions rd_eager_consumes_all_chunks.
Print Assumptions read_data_allocation_translated.
Print Assumptions read_data_chunk_loop_translated.
Print Assumptions read_data_handover_translated.
Print Assumptions tdmsfile_read_data_translated_partial.
Print Assumptions receive_chunks_concat_translated.
Print Assumptions c01_gen5_example.
