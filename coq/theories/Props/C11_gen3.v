(* C11 (companion) — the DAQmx CHUNK READER TRANSLATED from nptdms/daqmx.py on every run
   (harness/gen/gen_pyfuncs_daqmxread.py -> Gen/PyFuncsDaqmxRead.v: DaqmxDataReader._read_data_chunk with its three
   nested loops, the byte_offset / postprocess_data methods of both scaler classes on arrays; and
   DaqmxDataReceiver.append_scaler_data of Gen/PyFuncsDecode.v) equals the hand-written model
   (Model/Layout.v read_daqmx_chunk / scaler_values / digital_bit, Model/Reader.v scaler_append), and the
   addressing theorems of Props/C11.v hold of the translated reader.
   Statements only; proofs: Proofs/GenDaqmxEquiv.v.

   Abstraction (Proofs/GenDecodeEquiv.v, GenDaqmxEquiv.v): a NumPy array is (dtype, raw bytes); [arr_values] are its
   items as canonical little-endian value bytes; [rawchunk_chunk_dq] turns a RawDataChunk (channel data or scaler
   dictionaries) into the model's chunk.  Domain [daqmx_objs_ok]: every data object is a DAQmx object, buffer
   indices and offsets are non-negative (unsigned fields), digital-line scalers have an integer type (the bitwise
   ufuncs raise TypeError on floats / timestamps where the model computes a value), every raw buffer has a
   positive width and a non-negative length (a width of 0 makes the code raise; see the driver).

   Not stated here (missing for a statement about whole segments): BaseDataReader.read_data_chunks as inherited by
   DaqmxDataReader (`for chunk in range(num_chunks): yield self._read_data_chunk(..)`) against
   Model/Layout.v read_chunks_loop -- the per-chunk equality below is the body of that loop. *)
From Coq Require Import String Ascii.
From Coq Require Import List ZArith.
Import ListNotations.
From NpTdms Require Import Base.Bytes Base.Res Model.Tokens Model.SegState Model.Layout Model.Reader
     Gen.PyFuncsReader Gen.PyFuncsDecode Gen.PyFuncsDaqmxRead
     Proofs.DaqmxProofs Proofs.GenReaderEquiv Proofs.GenDecodeEquiv Proofs.GenDecodeRecv Proofs.GenDaqmxEquiv.
Local Open Scope Z_scope.

(* REFLECTED tables *)
Theorem daqmx_types_translated : forall code, drd_daqmx_types code = daqmx_type code.
Proof. exact drd_daqmx_types_eq. Qed.

(* scaler.byte_offset(): raw_byte_offset, or raw_bit_offset // 8 for a digital line scaler *)
Theorem scaler_byte_offset_translated : forall kind s,
    scaler_byte_offset_gen (mkPyScaler kind s) = Ok (if kind =? DIGITAL_LINE_SCALER then sc_off s / 8 else sc_off s).
Proof. exact byte_offset_gen_eq. Qed.

(* DigitalLineScaler.postprocess_data on a whole integer ARRAY of any width, signedness and byte order
   (np.right_shift then np.bitwise_and with Python int operands): never raises, and every value is the model's
   digital_bit of the canonical value *)
Theorem digital_postprocess_array_translated : forall k w o raw off,
    (ceq k "i" || ceq k "u")%bool = true -> ceq k "c" = false -> 1 <= w ->
    exists a', digital_scaler_postprocess_data_gen off (mkArr (DNum k w o) raw) = Ok a'
               /\ arr_values a' = Some (map (digital_bit (off mod 8)) (map (np_canon_num k o) (items w raw))).
Proof. exact digital_postprocess_array_eq. Qed.

(* ONE SCALER: byte_offset, column selection, from_bytes in the segment's byte order, postprocess_data
   = Model/Layout.v scaler_values: same exception, or an array whose values are the model's *)
Theorem scaler_values_translated : forall e kind s w raw,
    0 < w -> scaler_ok kind s ->
    (exists er, scaler_values e kind s (items w raw) w = Err er
                /\ forall T (K : nparr -> res T), scaler_chain (mkArr2 U1 w raw) e (mkPyScaler kind s) K = Err er)
    \/ (exists p vs, scaler_values e kind s (items w raw) w = Ok vs /\ arr_values p = Some vs
                     /\ forall T (K : nparr -> res T), scaler_chain (mkArr2 U1 w raw) e (mkPyScaler kind s) K = K p).
Proof. exact scaler_step. Qed.

(* THE CHUNK READER: DaqmxDataReader._read_data_chunk = read_daqmx_chunk -- same chunk dictionary (order of the
   entries included), same file position, same exception *)
Theorem daqmx_read_data_chunk_translated : forall e objs cur ci,
    daqmx_objs_ok objs ->
    mapr (fun p => (rawchunk_chunk_dq (fst p), snd p)) (daqmx_read_data_chunk_gen e cur objs ci)
    = mapr (fun p => (Some (fst p), snd p)) (read_daqmx_chunk e objs cur).
Proof. exact daqmx_read_data_chunk_eq. Qed.

(* the abstraction extends the one used for the other readers *)
Theorem rawchunk_chunk_dq_conservative : forall rc c, rawchunk_chunk rc = Some c -> rawchunk_chunk_dq rc = Some c.
Proof. exact rawchunk_chunk_dq_extends. Qed.

(* Props/C11.v scaler_direct_addressing ON THE TRANSLATED CODE: the array computed for a scaler holds, at every
   row i, the typed value at i * width + byte_offset (digital lines: the addressed bit) *)
Theorem scaler_direct_addressing_translated : forall e kind s w (buf : bytes) dt sz,
    0 < w -> scaler_ok kind s -> daqmx_type (sc_type s) = Some dt -> tds_size dt = Some (Some sz) ->
    forall T (K : nparr -> res T),
      (exists er, scaler_chain (mkArr2 U1 w buf) e (mkPyScaler kind s) K = Err er
                  /\ scaler_values e kind s (items w buf) w = Err er)
      \/ (exists p vs, scaler_chain (mkArr2 U1 w buf) e (mkPyScaler kind s) K = K p /\ arr_values p = Some vs
                       /\ length vs = length (items w buf)
                       /\ forall i, (i < length (items w buf))%nat ->
                                    nth_error vs i = Some (scaler_value_at e kind s dt sz 0 w buf i)).
Proof. exact scaler_array_direct_addressing. Qed.

(* Props/C11.v daqmx_chunk_addressing (the per-chunk form of daqmx_segment_addressing) ON THE TRANSLATED READER,
   with the buffer dimensions computed by the translated get_buffer_dimensions *)
Theorem daqmx_chunk_addressing_translated : forall e objs cur ci rc cur1 dims o q s k n w dt sz,
    daqmx_objs_ok objs ->
    daqmx_read_data_chunk_gen e cur objs ci = Ok (rc, cur1) ->
    get_buffer_dimensions_gen objs = Ok dims ->
    In o objs -> NoDup (map so_path objs) -> so_daqmx o = Some q -> so_dtype o = Some T_DAQMX ->
    In s (dq_scalers q) -> NoDup (map sc_id (dq_scalers q)) ->
    nth_error dims k = Some (n, w) -> sc_buf s = Z.of_nat k ->
    daqmx_type (sc_type s) = Some dt -> tds_size dt = Some (Some sz) ->
    exists c vs,
      rawchunk_chunk_dq rc = Some c /\
      holds (so_path o) (sc_id s) vs c /\
      length vs = length (items w (read_at (buffer_base dims k) (w * n) cur)) /\
      forall i, (i < length vs)%nat ->
                nth_error vs i = Some (scaler_value_at e (dq_kind q) s dt sz (buffer_base dims k) w cur i).
Proof. exact daqmx_chunk_addressing_gen. Qed.

(* DaqmxDataReceiver.append_scaler_data: the scaler's preallocated array gets the new values at its insert
   position, the position advances, other scalers are untouched *)
Theorem append_scaler_data_translated : forall path sd sp id data pos new,
    zlookup id sd = Some data -> zlookup id sp = Some pos ->
    same_items (a_dtype new) (a_dtype data) ->
    blen (a_raw data) mod dt_itemsize (a_dtype data) = 0 ->
    0 <= pos -> pos + np_len new <= np_len data ->
    exists data', daqmx_receiver_append_scaler_data_gen path sd sp id new
                  = Ok (zset id data' sd, zset id (pos + np_len new) sp)
                  /\ a_dtype data' = a_dtype data
                  /\ blen (a_raw data') mod dt_itemsize (a_dtype data) = 0
                  /\ np_len data' = np_len data
                  /\ forall acc vs, arr_values_upto pos data = Some acc -> arr_values new = Some vs ->
                                    arr_values_upto (pos + np_len new) data' = Some (acc ++ vs).
Proof. exact daqmx_receiver_append_scaler_eq. Qed.

(* ... which, seen through the receiver abstraction (arrays up to their insert positions), IS Model/Reader.v
   scaler_append *)
Theorem append_scaler_data_is_scaler_append : forall path sd sp id data pos new vs acc,
    NoDup (map fst sd) ->
    zlookup id sd = Some data -> zlookup id sp = Some pos ->
    same_items (a_dtype new) (a_dtype data) ->
    blen (a_raw data) mod dt_itemsize (a_dtype data) = 0 ->
    0 <= pos -> pos + np_len new <= np_len data ->
    arr_values new = Some vs ->
    recv_abs (RDaqmx (path, sd, sp)) = Some (CScalers acc) ->
    exists sd' sp' acc',
      daqmx_receiver_append_scaler_data_gen path sd sp id new = Ok (sd', sp')
      /\ scaler_append id vs acc = Ok acc'
      /\ recv_abs (RDaqmx (path, sd', sp')) = Some (CScalers acc').
Proof. exact daqmx_receiver_append_is_scaler_append. Qed.

Theorem append_scaler_data_unknown_id : forall path sd sp id new,
    zlookup id sd = None -> daqmx_receiver_append_scaler_data_gen path sd sp id new = Err EKey.
Proof. exact daqmx_receiver_append_scaler_missing. Qed.

(* the big-endian segment of Props/C11.v (two buffers of 2 x 4 and 3 x 3 bytes; int16, uint8 and digital-line
   scalers): the hypotheses hold, the translated reader and the model return the same first chunk and leave the file
   at the same place; a receiver step on concrete arrays *)
Section Examples.
Import String.
Local Open Scope string_scope.
Example c11_gen3_example :
  daqmx_objs_ok [ex_oa; ex_ob; ex_oc] /\
  mapr (fun p => (rawchunk_chunk_dq (fst p), snd p)) (daqmx_read_data_chunk_gen BE ex_data [ex_oa; ex_ob; ex_oc] 0)
  = Ok (Some [(hex "2f2761", CScalers [(0, [hex "0201"; hex "1211"]); (1, [hex "0403"; hex "1413"])]);
              (hex "2f2762", CScalers [(0, [hex "a1"; hex "b1"; hex "c1"])]);
              (hex "2f2763", CScalers [(0, [hex "00"; hex "00"; hex "00"])])],
        hex "212223243132333400040f00ff0a000100") /\
  read_daqmx_chunk BE [ex_oa; ex_ob; ex_oc] ex_data
  = Ok ([(hex "2f2761", CScalers [(0, [hex "0201"; hex "1211"]); (1, [hex "0403"; hex "1413"])]);
         (hex "2f2762", CScalers [(0, [hex "a1"; hex "b1"; hex "c1"])]);
         (hex "2f2763", CScalers [(0, [hex "00"; hex "00"; hex "00"])])],
        hex "212223243132333400040f00ff0a000100").
Proof. exact ex_daqmx_gen. Qed.

Example c11_gen3_receiver_example :
  let sd := [(0, mkArr (DNum "i" 2 LE) (hex "0000000000000000")); (1, mkArr (DNum "i" 2 LE) (hex "aaaabbbb00000000"))] in
  let sp := [(0, 0); (1, 2)] in
  let new := mkArr (DNum "i" 2 BE) (hex "04031413") in
  daqmx_receiver_append_scaler_data_gen (hex "2f2761") sd sp 1 new
  = Ok ([(0, mkArr (DNum "i" 2 LE) (hex "0000000000000000")); (1, mkArr (DNum "i" 2 LE) (hex "aaaabbbb03041314"))],
        [(0, 0); (1, 4)]) /\
  recv_abs (RDaqmx (hex "2f2761", sd, sp)) = Some (CScalers [(0, []); (1, [hex "aaaa"; hex "bbbb"])]) /\
  scaler_append 1 [hex "0304"; hex "1314"] [(0, []); (1, [hex "aaaa"; hex "bbbb"])]
  = Ok [(0, []); (1, [hex "aaaa"; hex "bbbb"; hex "0304"; hex "1314"])].
Proof. exact ex_append_scaler. Qed.
End Examples.

Print Assumptions daqmx_types_translated.
Print Assumptions scaler_byte_offset_translated.
Print Assumptions digital_postprocess_array_translated.
Print Assumptions scaler_values_translated.
Print Assumptions daqmx_read_data_chunk_translated.
Print Assumptions rawchunk_chunk_dq_conservative.
Print Assumptions scaler_direct_addressing_translated.
Print Assumptions daqmx_chunk_addressing_translated.
Print Assumptions append_scaler_data_translated.
Print Assumptions append_scaler_data_is_scaler_append.
Print Assumptions append_scaler_data_unknown_id.
Print Assumptions c11_gen3_example.
Print Assumptions c11_gen3_receiver_example.
