(* C14 on FILE BYTES, lazy reads of files with DAQmx segments - channel.dtype and len(channel)
   describe what the LAZY reads of scaled DAQmx channels return.
   Statements only; proofs in Proofs/DtypeFileDaqmxLazy.v (composition of
   Proofs/ScaleFileDaqmxLazy.v with Proofs/DtypeFile.v).

   Props/C14_file.v has: reads_have_declared_dtype_file (eager and lazy, files WITHOUT DAQmx
   segments) and reads_have_declared_dtype_file_daqmx (EAGER reads only, files with DAQmx
   segments).  This file closes the remaining case.

     reads_have_declared_dtype_file_daqmx_lazy
        under read_correct_daqmx's hypotheses + "no segment's object list names a path twice",
        for EVERY channel c of the file (DaqMxRawData channels, DAQmx channels typed by their
        scaler, ordinary channels), raw_ts, offs >= 0, len (None or >= 0), and every array v
        returned by TdmsFile.open(bytes)[g][c].read_data(offs, len)
        (ScaleFileDaqmxLazy.scaled_read_lazy_daqmx, Props/C13_daqmx_lazy.v) - full, partial,
        EMPTY alike:
            declared_dtype_file bytes path raw_ts      = Ok (Ok (XNum (dtype_of v)))
            declared_dtype_file_open bytes path raw_ts = Ok (Ok (XNum (dtype_of v)))
            vlen v = min(len, len(channel) - offs)
     full_read_length_file_daqmx_lazy   the lazy full read has len_file = ch_len c elements
     lazy_windows_of_full_file_daqmx, lazy_empty_same_dtype_file_daqmx
        if the channel reads eagerly, every lazy window succeeds; every empty one has no
        elements and the dtype of the full read
     reads_have_declared_dtype_file_typed_lazy
        the same for ScaleFile.scaled_read_lazy on the non-DaqMxRawData channels of such files
     unscaled_lazy_daqmx_scaler_dtypes
        read_data(offs, len, scaled=False) of a DaqMxRawData channel: no plain data, and
        every scaler array has the NumPy dtype of its declared scaler type

   EXAMPLES: dqs_file (float64, 6 values); replayed on npTDMS by
       cd /verif && PYTHONPATH=/repo /venv/bin/python dev/c13_daqmx_lazy_replay.py *)
From Coq Require Import String Ascii.
From Coq Require Import List ZArith Bool PrimFloat.
From Coq Require Import Init.Byte.
Import ListNotations.
From NpTdms Require Import Base.Bytes Base.Res Base.PySlice Model.Tokens Model.TokensWf Model.SegState
     Model.Layout Model.Reader Model.FileSyn Model.LazyRead Model.LazyBytes
     Proofs.LayoutProofs Proofs.FileSynProofs Proofs.ReadCorrect Proofs.ReadCorrectDaqmx
     Proofs.LazyEagerView Proofs.LazyEagerTop Proofs.ScaleFile Proofs.ScaleFileDaqmxLazy
     Proofs.DtypeFile Proofs.DtypeFileDaqmxLazy.
From NpTdms Require Gen.NumpyPromote Model.ScaleGraph.
From NpTdms Require Import Model.ScaleDtype.
Module SG := ScaleGraph.
Module NP := NumpyPromote.
Local Open Scope Z_scope.

(* ---- THE PROPERTY ------------------------------------------------------------------------ *)

Theorem reads_have_declared_dtype_file_daqmx_lazy : forall segs st h chunkss c raw_ts offs len v,
  wf_file segs ->
  sm_run segs false = Ok st ->
  build_hierarchy (rs_om st) = Ok h ->
  segs_content (rs_segments st) segs chunkss ->
  om_paths_canonical (rs_om st) ->
  typed_objects_are_channels (rs_om st) ->
  Forall (fun g => NoDup (map so_path (sg_objs g))) (rs_segments st) ->
  In c (all_channels h) ->
  0 <= offs -> (match len with None => True | Some l => 0 <= l end) ->
  scaled_read_lazy_daqmx (ser_file segs) (ch_path c) offs len = Ok (SG.Ok v) ->
  declared_dtype_file (ser_file segs) (ch_path c) raw_ts = Ok (SG.Ok (XNum (SG.dtype_of v))) /\
  declared_dtype_file_open (ser_file segs) (ch_path c) raw_ts = Ok (SG.Ok (XNum (SG.dtype_of v))) /\
  SG.vlen v = Nat.min (match len with Some l => Z.to_nat l | None => Z.to_nat (ch_len c) end)
                      (Z.to_nat (ch_len c) - Z.to_nat offs).
Proof.
  intros segs st h chunkss c raw_ts offs len v H1 H2 H3 H4 H5 H6 H7 H8 H9 H10 H11.
  destruct (DtypeFileDaqmxLazy.lazy_dtype_mixed segs st h chunkss H1 H2 H3 H4 H5 H6 H7 c raw_ts offs len v
              H8 H9 H10 H11) as [D1 D2].
  exact (conj D1 (conj D2 (DtypeFileDaqmxLazy.lazy_window_length_mixed segs st h chunkss H1 H2 H3 H4 H5 H6 H7
                             c offs len v H8 H9 H10 H11))).
Qed.

Theorem full_read_length_file_daqmx_lazy : forall segs st h chunkss c v,
  wf_file segs ->
  sm_run segs false = Ok st ->
  build_hierarchy (rs_om st) = Ok h ->
  segs_content (rs_segments st) segs chunkss ->
  om_paths_canonical (rs_om st) ->
  typed_objects_are_channels (rs_om st) ->
  Forall (fun g => NoDup (map so_path (sg_objs g))) (rs_segments st) ->
  In c (all_channels h) ->
  scaled_read_lazy_daqmx (ser_file segs) (ch_path c) 0 None = Ok (SG.Ok v) ->
  len_file (ser_file segs) (ch_path c) = Ok (ch_len c) /\ Z.of_nat (SG.vlen v) = ch_len c.
Proof.
  intros segs st h chunkss c v H1 H2 H3 H4 H5 H6 H7 H8 H9. split.
  - exact (DtypeFile.len_file_ser segs st h H1 H2 H3 H5 c H8).
  - exact (DtypeFileDaqmxLazy.lazy_full_length_mixed segs st h chunkss H1 H2 H3 H4 H5 H6 H7 c v H8 H9).
Qed.

(* a successful eager full read makes every lazy window succeed *)
Theorem lazy_windows_of_full_file_daqmx : forall segs st h chunkss c v offs len,
  wf_file segs ->
  sm_run segs false = Ok st ->
  build_hierarchy (rs_om st) = Ok h ->
  segs_content (rs_segments st) segs chunkss ->
  om_paths_canonical (rs_om st) ->
  typed_objects_are_channels (rs_om st) ->
  Forall (fun g => NoDup (map so_path (sg_objs g))) (rs_segments st) ->
  In c (all_channels h) ->
  0 <= offs -> (match len with None => True | Some l => 0 <= l end) ->
  scaled_read_eager (ser_file segs) (ch_path c) = Ok (SG.Ok v) ->
  scaled_read_lazy_daqmx (ser_file segs) (ch_path c) offs len = Ok (SG.Ok (zwindow offs len v)).
Proof.
  intros segs st h chunkss c v offs len H1 H2 H3 H4 H5 H6 H7 H8 H9 H10 H11.
  exact (DtypeFileDaqmxLazy.lazy_windows_of_full_mixed segs st h chunkss H1 H2 H3 H4 H5 H6 H7 c v offs len
           H8 H9 H10 H11).
Qed.

(* EMPTY lazy windows are returned (no error), have no elements and the dtype of the full read *)
Theorem lazy_empty_same_dtype_file_daqmx : forall segs st h chunkss c v offs len,
  wf_file segs ->
  sm_run segs false = Ok st ->
  build_hierarchy (rs_om st) = Ok h ->
  segs_content (rs_segments st) segs chunkss ->
  om_paths_canonical (rs_om st) ->
  typed_objects_are_channels (rs_om st) ->
  Forall (fun g => NoDup (map so_path (sg_objs g))) (rs_segments st) ->
  In c (all_channels h) ->
  scaled_read_eager (ser_file segs) (ch_path c) = Ok (SG.Ok v) ->
  0 <= offs -> (match len with None => True | Some l => 0 <= l end) ->
  len = Some 0 \/ ch_len c <= offs ->
  exists w, scaled_read_lazy_daqmx (ser_file segs) (ch_path c) offs len = Ok (SG.Ok w) /\
            SG.vlen w = 0%nat /\ SG.dtype_of w = SG.dtype_of v.
Proof.
  intros segs st h chunkss c v offs len H1 H2 H3 H4 H5 H6 H7 H8 H9 H10 H11 H12.
  exact (DtypeFileDaqmxLazy.lazy_empty_same_dtype_mixed segs st h chunkss H1 H2 H3 H4 H5 H6 H7 c v offs len
           H8 H9 H10 H11 H12).
Qed.

(* ScaleFile.scaled_read_lazy on the channels of such a file that are not DaqMxRawData *)
Theorem reads_have_declared_dtype_file_typed_lazy : forall segs st h chunkss c raw_ts offs len v,
  wf_file segs ->
  sm_run segs false = Ok st ->
  build_hierarchy (rs_om st) = Ok h ->
  segs_content (rs_segments st) segs chunkss ->
  om_paths_canonical (rs_om st) ->
  typed_objects_are_channels (rs_om st) ->
  Forall (fun g => NoDup (map so_path (sg_objs g))) (rs_segments st) ->
  In c (all_channels h) -> ch_dtype c <> Some T_DAQMX ->
  0 <= offs -> (match len with None => True | Some l => 0 <= l end) ->
  scaled_read_lazy (ser_file segs) (ch_path c) offs len = Ok (SG.Ok v) ->
  declared_dtype_file (ser_file segs) (ch_path c) raw_ts = Ok (SG.Ok (XNum (SG.dtype_of v))) /\
  SG.vlen v = Nat.min (match len with Some l => Z.to_nat l | None => Z.to_nat (ch_len c) end)
                      (Z.to_nat (ch_len c) - Z.to_nat offs).
Proof.
  intros segs st h chunkss c raw_ts offs len v H1 H2 H3 H4 H5 H6 H7 H8 H9 H10 H11 H12.
  exact (DtypeFileDaqmxLazy.lazy_dtype_typed_mixed segs st h chunkss H1 H2 H3 H4 H5 H6 H7 c raw_ts offs len v
           H8 H9 H10 H11 H12).
Qed.

(* read_data(offs, len, scaled=False) of a DaqMxRawData channel *)
Theorem unscaled_lazy_daqmx_scaler_dtypes : forall segs st h chunkss c offs len raw,
  wf_file segs ->
  sm_run segs false = Ok st ->
  build_hierarchy (rs_om st) = Ok h ->
  segs_content (rs_segments st) segs chunkss ->
  om_paths_canonical (rs_om st) ->
  Forall (fun g => NoDup (map so_path (sg_objs g))) (rs_segments st) ->
  In c (all_channels h) -> ch_dtype c = Some T_DAQMX ->
  0 <= offs -> (match len with None => True | Some l => 0 <= l end) ->
  unscaled_read_lazy_daqmx (ser_file segs) (ch_path c) offs len = Ok (Some raw) ->
  SG.rdata raw = None /\
  forall id v, SG.assoc_nat id (SG.rscalers raw) = Some v ->
               exists scs, file_scalers c = Some scs /\ SG.assoc_nat id scs = Some (SG.dtype_of v).
Proof.
  intros segs st h chunkss c offs len raw H1 H2 H3 H4 H5 H6 H7 H8 H9 H10 H11.
  exact (DtypeFileDaqmxLazy.unscaled_lazy_daqmx_agrees segs st h chunkss H1 H2 H3 H4 H5 H6 c offs len raw
           H7 H8 H9 H10 H11).
Qed.

(* ---- the hypotheses are satisfiable; both sides compute --------------------------------- *)

(* dqs_file (hypotheses: Props/C13_daqmx_lazy.c13_daqmx_lazy_hyps): by the theorem, every
   lazy window that returns an array returns float64 with min(len, 6 - offs) elements *)
Example c14_daqmx_lazy_dqs_reads : forall offs len v,
  0 <= offs -> (match len with None => True | Some l => 0 <= l end) ->
  scaled_read_lazy_daqmx (ser_file dqs_file) dqs_path offs len = Ok (SG.Ok v) ->
  SG.dtype_of v = NP.Float64 /\
  SG.vlen v = Nat.min (match len with Some l => Z.to_nat l | None => 6%nat end) (6 - Z.to_nat offs).
Proof.
  intros offs len v Ho Hl H.
  destruct dqs_hyps as (H1 & H2 & H3 & H4 & H5 & H6 & Hc & Hp & _).
  destruct dqs_declared as (D & _ & L).
  assert (Hlen : ch_len dqs_chan = 6) by (vm_compute; reflexivity).
  rewrite <- Hp in H.
  destruct (reads_have_declared_dtype_file_daqmx_lazy dqs_file dqs_st dqs_h dqs_chunks dqs_chan false offs len v
              H1 H2 H3 H4 H5 H6 dqs_distinct Hc Ho Hl H) as (R1 & _ & R2).
  rewrite Hp, D in R1. rewrite Hlen in R2. split; [|exact R2].
  injection R1 as R1. symmetry. exact R1.
Qed.

(* ... and they do return arrays: evaluated on the bytes (empty windows included) *)
Example c14_daqmx_lazy_dqs_declared :
  declared_dtype_file_open (ser_file dqs_file) dqs_path false = Ok (SG.Ok (XNum NP.Float64)) /\
  declared_dtype_file (ser_file dqs_file) dqs_path false = Ok (SG.Ok (XNum NP.Float64)) /\
  len_file (ser_file dqs_file) dqs_path = Ok 6 /\
  scaled_read_lazy_daqmx (ser_file dqs_file) dqs_path 6 None = Ok (SG.Ok (SG.VD [])) /\
  scaled_read_lazy_daqmx (ser_file dqs_file) dqs_path 20 (Some 3) = Ok (SG.Ok (SG.VD [])) /\
  scaled_read_lazy_daqmx (ser_file dqs_file) dqs_path 1 (Some 0) = Ok (SG.Ok (SG.VD [])).
Proof. exact dqs_lazy_declared. Qed.

Example c14_daqmx_lazy_dqs_full :
  scaled_read_lazy_daqmx (ser_file dqs_file) dqs_path 0 None =
    Ok (SG.Ok (SG.VD [51.5; -98; -16256; -16383; 9; 2]%float)).
Proof. exact (proj1 (proj2 (proj2 (proj2 (proj2 (proj2 (proj2 dqs_lazy_eval))))))). Qed.

Print Assumptions reads_have_declared_dtype_file_daqmx_lazy.
Print Assumptions full_read_length_file_daqmx_lazy.
Print Assumptions lazy_windows_of_full_file_daqmx.
Print Assumptions lazy_empty_same_dtype_file_daqmx.
Print Assumptions reads_have_declared_dtype_file_typed_lazy.
Print Assumptions unscaled_lazy_daqmx_scaler_dtypes.
Print Assumptions c14_daqmx_lazy_dqs_reads.
Print Assumptions c14_daqmx_lazy_dqs_declared.
Print Assumptions c14_daqmx_lazy_dqs_full.
