(* C15 (end to end), files WITH DAQmx segments — the byte order of a segment does
   not change what is read from the FILE: objects, properties, channel data of
   every type AND DAQmx scaler data; segments of different byte order may be mixed.

   Setting.  Props/C15_read.v proves [endian_transparent] for files made of
   ordinary (contiguous / interleaved / data-less) segments, whose raw data is
   re-encoded from the chunk VALUES.  Props/C11_read.v proves [read_correct_daqmx]
   for files mixing such segments with DAQmx segments (segs_content), where the
   content of a DAQmx segment is [direct_chunks g data]: per scaler, the values
   addressed directly in the raw bytes and typed with the segment's byte order
   (tokens hold values in canonical little-endian form).  This file joins them.

   RE-ENCODING A DAQmx BLOCK ([flip_dq], Proofs/EndianDaqmx.v).  A DAQmx raw data
   block is rows of raw bytes; a scaler of a channel addresses, in every row of
   its raw buffer, the FIELD
        [row start + field offset, + size of the scaler's type)
   with field offset = raw_byte_offset for a format-changing scaler and
   raw_bit_offset / 8 for a digital-line scaler ([sc_foff]).  For a digital line
   nptdms/daqmx.py reads a value OF THE SCALER'S TYPE at byte raw_bit_offset // 8
   in the segment's byte order (DigitalLineScaler.byte_offset, from_bytes) and
   then takes bit raw_bit_offset % 8 OF THAT VALUE (postprocess_data) — so for a
   uint16 scaler with raw_bit_offset 10 the line sits in byte 1 of the row in a
   little-endian segment and in byte 2 in a big-endian one
   ([scaler_value_at_field]).  The re-encoding of the block into the other byte
   order is the same block with EVERY SCALER FIELD REVERSED IN PLACE: the scaler
   records (offsets included) are unchanged, the byte holding a digital line
   moves with the reversal of its field, bytes covered by no scaler field
   (padding, unused columns) stay as they are ([flip_dq_outside]), the length is
   kept ([flip_dq_blen]).  The same operation goes from either order to the other
   ([flip_dq_involutive]).

   FOR WHICH LAYOUTS IT IS DEFINABLE.  [slots_compatible]: any two scaler fields
   of the same raw buffer are IDENTICAL (same offset and size — several scalers,
   of the same or of different channels, reading the same bytes) or DISJOINT.
   Then every field of the flipped block is the reversal of the original field
   ([flip_dq_field]) and direct addressing of the flipped block under the other
   byte order gives exactly the chunks of the original ([flip_dq_values]).
   The condition is necessary in this sense: when an int16 field lies inside an
   int32 field (ReadCorrectDaqmx.dx_file: c0 reads bytes 0-1, c2 bytes 0-3 of the
   same rows) NO block at all of the other byte order holds the same values
   ([dx_not_reencodable]; [c15_daqmx_overlap_differs] shows the reversal of the
   fields of dx_file reading differently, in the model and in the real code).

   [reorder_dq es segs chunkss]: segment i written in byte order es[i]:
     ToC mask   bit 64 set / cleared (EndianRead.toc_set_endian);
     metadata   the same entries; ser_seg serialises every field, property value,
                scaler record and width list in the order the mask selects;
     raw data   ordinary segment: EndianRead.reenc from the chunk values;
                DAQmx segment (is_daqmx_seg: the reader's _have_daqmx_objects on
                the object list the metadata pass computed): the block itself if
                es[i] is the order it has, [flip_dq] otherwise ([reenc_dq]).
   reorder_dq_same: with the orders the file has it is the identity;
   reorder_dq_plain: on files without DAQmx segments it is C15_read's reorder.

   THEOREM [endian_transparent_daqmx].  Under exactly read_correct_daqmx's
   hypotheses for [segs] and [Forall2 seg_flippable es (rs_segments st)] — es has
   one entry per segment, and every DAQmx segment WHOSE BYTE ORDER CHANGES has
   compatible scaler fields —
       rd_all (ser_file (reorder_dq es segs chunkss)) = rd_all (ser_file segs)
   and both are Ok (expected_tokens_dq st h (concat chunkss), true)
   ([read_correct_reorder_dq]).  Nothing is re-assumed for the reordered file:
   well-formedness, the metadata pass (same reader state up to bit 64 of the
   recorded masks, [sm_run_reorder_dq]), daqmx_seg_ok and the content relation
   with the SAME chunkss ([reorder_dq_content]) are derived.
   [endian_transparent_daqmx_all]: the uniform form (every DAQmx segment
   compatible, any es of the right length); [endian_transparent_daqmx_any]: two
   arbitrary assignments.

   EXAMPLE dy_file (Proofs/EndianDaqmx.v): dx_file of Props/C11_read.v with the
   buffers laid out without partial overlap: big-endian DAQmx segment, buffers
   2 x 8 and 3 x 3 bytes, two chunks; c0 (raw): int16 @0, uint8 @3, uint32 @4 of
   buffer 0 (byte 2 padding); c1 (raw, DIGITAL LINE scaler of type uint16,
   raw_bit_offset 10: field bytes 1-2 of buffer 1, byte 0 padding); c2 (typed
   int32) @4 of buffer 0 = the same field as c0's uint32; a metadata-less DAQmx
   segment; an ordinary little-endian segment.  Built with the harness's
   independent encoder and read with npTDMS:
       cd /verif && PYTHONPATH=/repo /venv/bin/python - <<EOF
       import sys; sys.path.insert(0, "harness")
       import tdmsgen as G, daqmxgen as D
       FC, DL = D.FORMAT_CHANGING, D.DIGITAL_LINE
       chans = [D.DqChan(G.quote_path("dq","c0"), FC, G.T_DAQMX, 2, [(3,0,0,0,0),(0,0,3,0,5),(4,0,4,0,7)]),
                D.DqChan(G.quote_path("dq","c1"), DL, G.T_DAQMX, 3, [(2,1,10,0,0)]),
                D.DqChan(G.quote_path("dq","c2"), FC, 3, 2, [(5,0,4,0,0)])]
       d1 = bytes.fromhex("01020304111213142122232431323334a00400b00004c00b0f"
                          "414243445152535461626364717273740004000fff0aee0104")
       d2 = bytes.fromhex("8182838491929394a1a2a3a4b1b2b3b40006000a0b040c0d0e")
       segs = [G.Seg(e=">", toc=206, entries=D.daqmx_entries([8,3], chans), data=d1),
               G.Seg(e=">", toc=200, entries=None, data=d2),
               G.Seg(e="<", toc=14, entries=[G.Entry(G.quote_path("g","x"), ("full",20,3,1,2,None))],
                     data=bytes.fromhex("0700000008000000"))]
       data = G.ser_file(segs); print(data.hex()); print(G.toks_to_coq(G.read_eager(data)[0]))
       EOF
   c15_daqmx_bytes gives the four byte strings (original, [LE;LE;BE], [LE;BE;LE],
   [BE;LE;BE]); the three reordered strings were read with the real code
   (G.read_eager = TdmsFile.read flattened, and channel by channel through the
   public API): identical token lists and identical values (c0: int16
   258 8482 16706 24930 -32382 -24158, uint8 4 36 68 100 132 164, uint32
   286397204 ...; c1: 0 1 1 0 0 1 0 1 1; c2: the six int32; x: 7 8) for all four,
   equal to c15_daqmx_tokens.  dx_file reordered to [BE;BE;BE] (only its ordinary
   segment changes) reads identically; dx_file with its overlapping fields
   reversed ([LE;BE;LE]) reads c2 = 02010204 ... in the model and in the real
   code alike — different from dx_file, as dx_not_reencodable says it must.

   NOT covered: truncated segments, lazy windows of DAQmx channels (C04/C11). *)
From Coq Require Import List ZArith.
Import ListNotations.
From NpTdms Require Import Base.Bytes Base.Res Model.Tokens Model.TokensWf Model.SegState
     Model.Layout Model.Reader Model.FileSyn Proofs.LayoutProofs Proofs.FileSynProofs
     Proofs.DaqmxProofs Proofs.ReadCorrect Proofs.ReadCorrectDaqmx Proofs.EndianRead
     Proofs.EndianDaqmx.
Local Open Scope Z_scope.

(* ---- reversing fields in place ------------------------------------------------------ *)

Theorem patch_unfold : forall pos v d, patch pos v d = take pos d ++ v ++ drop (pos + blen v) d.
Proof. reflexivity. Qed.

(* every field gets the reversal of the bytes it has in the ORIGINAL block *)
Theorem flip_fields_unfold : forall fs data,
    flip_fields fs data =
    fold_right (fun f d => patch (fst f) (rev (read_at (fst f) (snd f) data)) d) data fs.
Proof. reflexivity. Qed.

Theorem flip_fields_blen : forall fs data,
    Forall (fun f => 0 <= fst f /\ 0 <= snd f /\ fst f + snd f <= blen data) fs ->
    blen (flip_fields fs data) = blen data.
Proof. exact EndianDaqmx.flip_fields_blen. Qed.

(* fields pairwise identical or disjoint: each one is reversed *)
Theorem flip_fields_field : forall fs data,
    Forall (fun f => 0 <= fst f /\ 0 <= snd f /\ fst f + snd f <= blen data) fs ->
    (forall f1 f2, In f1 fs -> In f2 fs ->
                   f1 = f2 \/ fst f1 + snd f1 <= fst f2 \/ fst f2 + snd f2 <= fst f1) ->
    forall f, In f fs ->
              read_at (fst f) (snd f) (flip_fields fs data) = rev (read_at (fst f) (snd f) data).
Proof. exact EndianDaqmx.flip_fields_field. Qed.

(* a byte outside every field is kept (whatever the overlaps) *)
Theorem flip_fields_outside : forall fs data p,
    Forall (fun f => 0 <= fst f /\ 0 <= snd f /\ fst f + snd f <= blen data) fs -> 0 <= p ->
    (forall f, In f fs -> p < fst f \/ fst f + snd f <= p) ->
    read_at p 1 (flip_fields fs data) = read_at p 1 data.
Proof. exact EndianDaqmx.flip_fields_outside. Qed.

(* ---- the scaler fields of a DAQmx block --------------------------------------------- *)

Theorem sc_foff_unfold : forall kind s,
    sc_foff kind s = if kind =? DIGITAL_LINE_SCALER then sc_off s / 8 else sc_off s.
Proof. reflexivity. Qed.

(* what a scaler denotes, through its field: the value of the scaler's type stored
   at the field in byte order e, then -- digital line -- bit raw_bit_offset mod 8
   OF THE VALUE *)
Theorem scaler_value_at_field : forall e kind s dt sz base w buf i,
    scaler_value_at e kind s dt sz base w buf i =
    (if kind =? DIGITAL_LINE_SCALER then digital_bit (sc_off s mod 8) else (fun v => v))
      (canon_value e dt (read_at (base + Z.of_nat i * w + sc_foff kind s) sz buf)).
Proof. exact EndianDaqmx.scaler_value_at_field. Qed.

(* slots: (raw buffer, field offset, field size) of every scaler of every data object *)
Theorem slots_in : forall dobjs sl,
    In sl (slots dobjs) <->
    exists o q s, In o dobjs /\ so_daqmx o = Some q /\ In s (dq_scalers q) /\
                  sl = (sc_buf s, sc_foff (dq_kind q) s, scaler_size s).
Proof. exact EndianDaqmx.slots_in. Qed.

Theorem slots_compatible_unfold : forall sl,
    slots_compatible sl <->
    forall b f1 n1 f2 n2,
      In (b, f1, n1) sl -> In (b, f2, n2) sl ->
      (f1 = f2 /\ n1 = n2) \/ f1 + n1 <= f2 \/ f2 + n2 <= f1.
Proof. intros; reflexivity. Qed.

Theorem slots_compatible_b_sound : forall sl, slots_compatible_b sl = true -> slots_compatible sl.
Proof. exact EndianDaqmx.slots_compatible_b_sound. Qed.

(* the fields of the block: chunk j, slot (b, f, n), row i of buffer b *)
Theorem block_fields_in : forall dobjs data a n,
    In (a, n) (block_fields dobjs data) <->
    exists j b f nr w i,
      (j < direct_nchunks (dims_spec dobjs) data)%nat /\
      In (b, f, n) (slots dobjs) /\
      nth_error (dims_spec dobjs) (Z.to_nat b) = Some (nr, w) /\
      (i < Z.to_nat nr)%nat /\
      a = Z.of_nat j * chunk_bytes (dims_spec dobjs) + buffer_base (dims_spec dobjs) (Z.to_nat b)
          + Z.of_nat i * w + f.
Proof. exact EndianDaqmx.block_fields_in. Qed.

Theorem flip_dq_unfold : forall g data,
    flip_dq g data = flip_fields (block_fields (data_objs (sg_objs g)) data) data.
Proof. reflexivity. Qed.

(* for a readable DAQmx segment every field lies inside the block ... *)
Theorem block_fields_in_range : forall g data,
    daqmx_seg_ok g data ->
    Forall (fun f => 0 <= fst f /\ 0 <= snd f /\ fst f + snd f <= blen data)
           (block_fields (data_objs (sg_objs g)) data).
Proof. exact EndianDaqmx.block_fields_in_range. Qed.

(* ... and with compatible slots any two fields are identical or disjoint *)
Theorem block_fields_apart : forall g data,
    daqmx_seg_ok g data ->
    slots_compatible (slots (data_objs (sg_objs g))) ->
    forall f1 f2, In f1 (block_fields (data_objs (sg_objs g)) data) ->
                  In f2 (block_fields (data_objs (sg_objs g)) data) ->
                  f1 = f2 \/ fst f1 + snd f1 <= fst f2 \/ fst f2 + snd f2 <= fst f1.
Proof. exact EndianDaqmx.block_fields_apart. Qed.

(* ---- the re-encoded block ------------------------------------------------------------- *)

Theorem flip_dq_blen : forall g data, daqmx_seg_ok g data -> blen (flip_dq g data) = blen data.
Proof. exact EndianDaqmx.flip_dq_blen. Qed.

Theorem flip_dq_field : forall g data,
    daqmx_seg_ok g data ->
    slots_compatible (slots (data_objs (sg_objs g))) ->
    forall a n, In (a, n) (block_fields (data_objs (sg_objs g)) data) ->
                read_at a n (flip_dq g data) = rev (read_at a n data).
Proof. exact EndianDaqmx.flip_dq_field. Qed.

Theorem flip_dq_outside : forall g data,
    daqmx_seg_ok g data ->
    forall p, 0 <= p ->
              (forall a n, In (a, n) (block_fields (data_objs (sg_objs g)) data) -> p < a \/ a + n <= p) ->
              read_at p 1 (flip_dq g data) = read_at p 1 data.
Proof. exact EndianDaqmx.flip_dq_outside. Qed.

Theorem flip_dq_involutive : forall g data,
    daqmx_seg_ok g data -> slots_compatible (slots (data_objs (sg_objs g))) ->
    flip_dq g (flip_dq g data) = data.
Proof. exact EndianDaqmx.flip_dq_involutive. Qed.

(* big-endian storage of every DAQmx scaler type is the reversed canonical form *)
Theorem daqmx_canon_flip : forall c dt e e' x,
    daqmx_type c = Some dt -> e' <> e -> canon_value e' dt (rev x) = canon_value e dt x.
Proof. exact EndianDaqmx.daqmx_canon_flip. Qed.

(* THE VALUES ARE PRESERVED: for any segment record g' with the same object list
   and the other byte order, direct addressing of the flipped block gives the
   chunks of the original block *)
Theorem flip_dq_values : forall g data,
    daqmx_seg_ok g data ->
    slots_compatible (slots (data_objs (sg_objs g))) ->
    forall g', sg_objs g' = sg_objs g -> toc_endian (sg_toc g') <> toc_endian (sg_toc g) ->
               direct_chunks g' (flip_dq g data) = direct_chunks g data.
Proof. exact EndianDaqmx.flip_dq_values. Qed.

(* overlapping, different fields: dx_file's big-endian DAQmx block has NO
   little-endian counterpart at all *)
Theorem dx_not_reencodable : forall g' data',
    sg_objs g' = sg_objs (dx_seg 0) -> toc_endian (sg_toc g') = LE ->
    direct_chunks g' data' <> direct_chunks (dx_seg 0) (dx_data 0).
Proof. exact EndianDaqmx.dx_not_reencodable. Qed.

Theorem dx_not_compatible : ~ slots_compatible (slots (data_objs (sg_objs (dx_seg 0)))).
Proof. exact EndianDaqmx.dx_not_compatible. Qed.

(* ---- the reordered file ---------------------------------------------------------------- *)

Theorem is_daqmx_seg_unfold : forall g,
    is_daqmx_seg g = match seg_layout g with Ok LDaqmx => true | _ => false end.
Proof. reflexivity. Qed.

Theorem reenc_dq_unfold : forall e g data cs,
    reenc_dq e g data cs =
    if is_daqmx_seg g
    then (if endian_eqb e (toc_endian (sg_toc g)) then data else flip_dq g data)
    else reenc e g cs.
Proof. reflexivity. Qed.

Theorem endian_eqb_eq : forall a b, endian_eqb a b = true <-> a = b.
Proof. exact EndianDaqmx.endian_eqb_eq. Qed.

Theorem reorder_dq_seg_unfold : forall e g s cs,
    reorder_dq_seg e g s cs =
    mkFseg (toc_set_endian e (fs_toc s)) (fs_version s) (fs_meta s) (reenc_dq e g (fs_data s) cs).
Proof. reflexivity. Qed.

Theorem reorder_dq_unfold : forall es segs chunkss st,
    sm_run segs false = Ok st ->
    reorder_dq es segs chunkss = reorder_dq_with (rs_segments st) es segs chunkss.
Proof. intros es segs chunkss st H. unfold reorder_dq. rewrite H. reflexivity. Qed.

Theorem seg_flippable_unfold : forall e g,
    seg_flippable e g <->
    (is_daqmx_seg g = true -> e <> toc_endian (sg_toc g) ->
     slots_compatible (slots (data_objs (sg_objs g)))).
Proof. intros; reflexivity. Qed.

(* ordinary segments and DAQmx segments are told apart by the layout *)
Theorem seg_encodes_not_daqmx : forall g data cs, seg_encodes g data cs -> is_daqmx_seg g = false.
Proof. exact EndianDaqmx.seg_encodes_not_daqmx. Qed.

Theorem daqmx_seg_ok_is_daqmx : forall g data, daqmx_seg_ok g data -> is_daqmx_seg g = true.
Proof. exact EndianDaqmx.daqmx_seg_ok_is_daqmx. Qed.

Theorem reorder_dq_endian : forall segs st chunkss es,
    sm_run segs false = Ok st ->
    segs_content (rs_segments st) segs chunkss ->
    Forall2 seg_flippable es (rs_segments st) ->
    map (fun s => toc_endian (fs_toc s)) (reorder_dq es segs chunkss) = es.
Proof. exact EndianDaqmx.reorder_dq_endian. Qed.

Theorem reorder_dq_same : forall segs st chunkss,
    sm_run segs false = Ok st ->
    segs_content (rs_segments st) segs chunkss ->
    reorder_dq (map (fun s => toc_endian (fs_toc s)) segs) segs chunkss = segs.
Proof. exact EndianDaqmx.reorder_dq_same. Qed.

Theorem reorder_dq_plain : forall segs st chunkss es,
    sm_run segs false = Ok st ->
    segs_encode (rs_segments st) segs chunkss ->
    reorder_dq es segs chunkss = reorder es segs chunkss.
Proof. exact EndianDaqmx.reorder_dq_plain. Qed.

Theorem reorder_dq_wf : forall segs st chunkss es,
    sm_run segs false = Ok st ->
    segs_content (rs_segments st) segs chunkss ->
    Forall2 seg_flippable es (rs_segments st) ->
    wf_file segs -> wf_file (reorder_dq es segs chunkss).
Proof. exact EndianDaqmx.reorder_dq_wf. Qed.

(* the metadata pass: same reader state up to bit 64 of the recorded masks *)
Theorem sm_run_reorder_dq : forall segs st chunkss es,
    sm_run segs false = Ok st ->
    segs_content (rs_segments st) segs chunkss ->
    Forall2 seg_flippable es (rs_segments st) ->
    forall w stw,
      sm_run segs w = Ok stw ->
      exists stw', sm_run (reorder_dq es segs chunkss) w = Ok stw' /\
                   Forall2 (seg_sim true) (rs_segments stw) (rs_segments stw') /\
                   rs_prev_objs stw' = rs_prev_objs stw /\
                   rs_om stw' = rs_om stw /\
                   rs_version stw' = rs_version stw /\
                   rs_cache stw' = rs_cache stw.
Proof. exact EndianDaqmx.sm_run_reorder_dq_fields. Qed.

(* the reordered blocks have the SAME content (same chunkss: the ordinary blocks
   encode the same values, the DAQmx blocks are readable and directly address the
   same values), for the records of the pass over the reordered file *)
Theorem reorder_dq_content : forall segs st chunkss es,
    sm_run segs false = Ok st ->
    segs_content (rs_segments st) segs chunkss ->
    Forall2 seg_flippable es (rs_segments st) ->
    forall st', sm_run (reorder_dq es segs chunkss) false = Ok st' ->
                segs_content (rs_segments st') (reorder_dq es segs chunkss) chunkss.
Proof. exact EndianDaqmx.reorder_dq_content. Qed.

(* ---- the whole read ---------------------------------------------------------------------- *)

Theorem read_correct_reorder_dq : forall segs st h chunkss es,
    wf_file segs ->
    sm_run segs false = Ok st ->
    build_hierarchy (rs_om st) = Ok h ->
    segs_content (rs_segments st) segs chunkss ->
    om_paths_canonical (rs_om st) ->
    typed_objects_are_channels (rs_om st) ->
    Forall2 seg_flippable es (rs_segments st) ->
    rd_all (ser_file (reorder_dq es segs chunkss)) = Ok (expected_tokens_dq st h (concat chunkss), true).
Proof. exact EndianDaqmx.read_correct_reorder_dq. Qed.

Theorem endian_transparent_daqmx : forall segs st h chunkss es,
    wf_file segs ->
    sm_run segs false = Ok st ->
    build_hierarchy (rs_om st) = Ok h ->
    segs_content (rs_segments st) segs chunkss ->
    om_paths_canonical (rs_om st) ->
    typed_objects_are_channels (rs_om st) ->
    Forall2 seg_flippable es (rs_segments st) ->
    rd_all (ser_file (reorder_dq es segs chunkss)) = rd_all (ser_file segs).
Proof. exact EndianDaqmx.endian_transparent_daqmx. Qed.

Theorem endian_transparent_daqmx_any : forall segs st h chunkss es1 es2,
    wf_file segs ->
    sm_run segs false = Ok st ->
    build_hierarchy (rs_om st) = Ok h ->
    segs_content (rs_segments st) segs chunkss ->
    om_paths_canonical (rs_om st) ->
    typed_objects_are_channels (rs_om st) ->
    Forall2 seg_flippable es1 (rs_segments st) ->
    Forall2 seg_flippable es2 (rs_segments st) ->
    rd_all (ser_file (reorder_dq es1 segs chunkss)) = rd_all (ser_file (reorder_dq es2 segs chunkss)).
Proof. exact EndianDaqmx.endian_transparent_daqmx_any. Qed.

(* uniform side condition: every DAQmx segment of the file has compatible fields *)
Theorem dq_segs_compatible_unfold : forall gs,
    dq_segs_compatible gs <->
    Forall (fun g => is_daqmx_seg g = true -> slots_compatible (slots (data_objs (sg_objs g)))) gs.
Proof. intros; reflexivity. Qed.

Theorem endian_transparent_daqmx_all : forall segs st h chunkss es,
    length es = length segs ->
    wf_file segs ->
    sm_run segs false = Ok st ->
    build_hierarchy (rs_om st) = Ok h ->
    segs_content (rs_segments st) segs chunkss ->
    om_paths_canonical (rs_om st) ->
    typed_objects_are_channels (rs_om st) ->
    dq_segs_compatible (rs_segments st) ->
    rd_all (ser_file (reorder_dq es segs chunkss)) = rd_all (ser_file segs).
Proof. exact EndianDaqmx.endian_transparent_daqmx_all. Qed.

(* ---- instances: the hypotheses hold, the bytes differ, the reads agree ------------------- *)

Example c15_daqmx_hypotheses :
  wf_file dy_file /\
  sm_run dy_file false = Ok dy_st /\
  build_hierarchy (rs_om dy_st) = Ok dy_h /\
  segs_content (rs_segments dy_st) dy_file dy_chunks /\
  om_paths_canonical (rs_om dy_st) /\
  typed_objects_are_channels (rs_om dy_st) /\
  dq_segs_compatible (rs_segments dy_st).
Proof.
  exact (conj dy_wf (conj dy_run (conj dy_hier (conj dy_content (conj dy_canonical
           (conj dy_typed_channels dy_compatible)))))).
Qed.

Example c15_daqmx_slots :
  slots (data_objs (sg_objs (dy_seg 0))) = [(0, 0, 2); (0, 3, 1); (0, 4, 4); (1, 1, 2); (0, 4, 4)] /\
  slots (data_objs (sg_objs (dx_seg 0))) = [(0, 0, 2); (0, 3, 1); (1, 1, 1); (0, 0, 4)].
Proof. exact dy_slots. Qed.

(* all little-endian / the two DAQmx segments in DIFFERENT orders / only the
   metadata-less DAQmx segment flipped *)
Example c15_daqmx_instances :
  rd_all (ser_file (reorder_dq [LE; LE; BE] dy_file dy_chunks)) = rd_all (ser_file dy_file) /\
  rd_all (ser_file (reorder_dq [LE; BE; LE] dy_file dy_chunks)) = rd_all (ser_file dy_file) /\
  rd_all (ser_file (reorder_dq [BE; LE; BE] dy_file dy_chunks)) = rd_all (ser_file dy_file).
Proof.
  repeat split;
    exact (EndianDaqmx.endian_transparent_daqmx_all dy_file dy_st dy_h dy_chunks _ eq_refl
             dy_wf dy_run dy_hier dy_content dy_canonical dy_typed_channels dy_compatible).
Qed.

(* dx_file (overlapping fields): changing only the byte order of its ORDINARY
   segment needs no condition on the DAQmx segments *)
Example c15_daqmx_instance_dx :
  rd_all (ser_file (reorder_dq [BE; BE; BE] dx_file dx_chunks)) = rd_all (ser_file dx_file).
Proof.
  apply (EndianDaqmx.endian_transparent_daqmx dx_file dx_st dx_h dx_chunks [BE; BE; BE]
           dx_wf dx_run dx_hier dx_content dx_canonical dx_typed_channels).
  assert (Hsegs : rs_segments dx_st = [dx_seg 0; dx_seg 1; dx_seg 2]) by (vm_compute; reflexivity).
  rewrite Hsegs. constructor; [|constructor; [|constructor; [|constructor]]]; unfold seg_flippable.
  - intros _ Hne. exfalso. apply Hne. vm_compute. reflexivity.
  - intros _ Hne. exfalso. apply Hne. vm_compute. reflexivity.
  - intros Hdq. vm_compute in Hdq. discriminate Hdq.
Qed.

Section Tokens.
Import String.
Local Open Scope string_scope.

(* the raw data blocks: int16 / uint32 / int32 fields and the uint16 digital-line
   field reversed; the uint8 field, the padding byte 2 of buffer 0 and byte 0 of
   buffer 1 untouched; the ordinary block re-encoded from its values *)
Example c15_daqmx_blocks :
  map fs_data dy_file =
    [hex "01020304111213142122232431323334a00400b00004c00b0f414243445152535461626364717273740004000fff0aee0104";
     hex "8182838491929394a1a2a3a4b1b2b3b40006000a0b040c0d0e";
     hex "0700000008000000"] /\
  map fs_data (reorder_dq [LE; LE; BE] dy_file dy_chunks) =
    [hex "02010304141312112221232434333231a00004b00400c00f0b424143445453525162616364747372710000040f0affee0401";
     hex "8281838494939291a2a1a3a4b4b3b2b10000060a040b0c0e0d";
     hex "0000000700000008"] /\
  map fs_toc dy_file = [206; 200; 14] /\
  map fs_toc (reorder_dq [LE; LE; BE] dy_file dy_chunks) = [142; 136; 78] /\
  map fs_toc (reorder_dq [LE; BE; LE] dy_file dy_chunks) = [142; 200; 14] /\
  map fs_toc (reorder_dq [BE; LE; BE] dy_file dy_chunks) = [206; 136; 78] /\
  reorder_dq [BE; BE; LE] dy_file dy_chunks = dy_file /\
  flip_dq (dy_seg 0) (flip_dq (dy_seg 0) (dy_data 0)) = dy_data 0.
Proof. vm_compute. repeat split. Qed.

(* the four files as bytes *)
Example c15_daqmx_bytes :
  ser_file dy_file = hex "5444536dce0000000000126900000000000001390000000000000107000000030000000a2f276471272f2763302700001269ffffffff00000001000000000000000200000003000000030000000000000000000000000000000000000000000000000000000300000000000000050000000400000000000000040000000000000007000000020000000800000003000000000000000a2f276471272f276331270000126affffffff0000000100000000000000030000000100000002000000010000000a0000000000000000020000000800000003000000000000000a2f276471272f2763322700001269000000030000000100000000000000020000000100000005000000000000000400000000000000000000000200000008000000030000000001020304111213142122232431323334a00400b00004c00b0f414243445152535461626364717273740004000fff0aee01045444536dc800000000001269000000000000001900000000000000008182838491929394a1a2a3a4b1b2b3b40006000a0b040c0d0e5444536d0e000000691200003000000000000000280000000000000001000000080000002f2767272f2778271400000003000000010000000200000000000000000000000700000008000000" /\
  ser_file (reorder_dq [LE; LE; BE] dy_file dy_chunks) = hex "5444536d8e0000006912000039010000000000000701000000000000030000000a0000002f276471272f2763302769120000ffffffff01000000020000000000000003000000030000000000000000000000000000000000000000000000000000000300000000000000050000000400000000000000040000000000000007000000020000000800000003000000000000000a0000002f276471272f276331276a120000ffffffff0100000003000000000000000100000002000000010000000a0000000000000000020000000800000003000000000000000a0000002f276471272f2763322769120000030000000100000002000000000000000100000005000000000000000400000000000000000000000200000008000000030000000000000002010304141312112221232434333231a00004b00400c00f0b424143445453525162616364747372710000040f0affee04015444536d8800000069120000190000000000000000000000000000008281838494939291a2a1a3a4b4b3b2b10000060a040b0c0e0d5444536d4e000000000012690000000000000030000000000000002800000001000000082f2767272f2778270000001400000003000000010000000000000002000000000000000700000008" /\
  ser_file (reorder_dq [LE; BE; LE] dy_file dy_chunks) = hex "5444536d8e0000006912000039010000000000000701000000000000030000000a0000002f276471272f2763302769120000ffffffff01000000020000000000000003000000030000000000000000000000000000000000000000000000000000000300000000000000050000000400000000000000040000000000000007000000020000000800000003000000000000000a0000002f276471272f276331276a120000ffffffff0100000003000000000000000100000002000000010000000a0000000000000000020000000800000003000000000000000a0000002f276471272f2763322769120000030000000100000002000000000000000100000005000000000000000400000000000000000000000200000008000000030000000000000002010304141312112221232434333231a00004b00400c00f0b424143445453525162616364747372710000040f0affee04015444536dc800000000001269000000000000001900000000000000008182838491929394a1a2a3a4b1b2b3b40006000a0b040c0d0e5444536d0e000000691200003000000000000000280000000000000001000000080000002f2767272f2778271400000003000000010000000200000000000000000000000700000008000000" /\
  ser_file (reorder_dq [BE; LE; BE] dy_file dy_chunks) = hex "5444536dce0000000000126900000000000001390000000000000107000000030000000a2f276471272f2763302700001269ffffffff00000001000000000000000200000003000000030000000000000000000000000000000000000000000000000000000300000000000000050000000400000000000000040000000000000007000000020000000800000003000000000000000a2f276471272f276331270000126affffffff0000000100000000000000030000000100000002000000010000000a0000000000000000020000000800000003000000000000000a2f276471272f2763322700001269000000030000000100000000000000020000000100000005000000000000000400000000000000000000000200000008000000030000000001020304111213142122232431323334a00400b00004c00b0f414243445152535461626364717273740004000fff0aee01045444536d8800000069120000190000000000000000000000000000008281838494939291a2a1a3a4b4b3b2b10000060a040b0c0e0d5444536d4e000000000012690000000000000030000000000000002800000001000000082f2767272f2778270000001400000003000000010000000000000002000000000000000700000008".
Proof. vm_compute. repeat split. Qed.

Example c15_daqmx_bytes_differ :
  ser_file (reorder_dq [LE; LE; BE] dy_file dy_chunks) <> ser_file dy_file /\
  ser_file (reorder_dq [LE; BE; LE] dy_file dy_chunks) <> ser_file dy_file /\
  ser_file (reorder_dq [BE; LE; BE] dy_file dy_chunks) <> ser_file dy_file /\
  ser_file (reorder_dq [LE; BE; LE] dy_file dy_chunks) <> ser_file (reorder_dq [BE; LE; BE] dy_file dy_chunks).
Proof. repeat split; vm_compute; discriminate. Qed.

(* all four read to the same explicit observation (= the token list the script in
   the header prints for each of the four byte strings) *)
Example c15_daqmx_tokens :
  let dy_tokens :=
  [TZ 4713; TZ 0; TZ 2; TB (hex "6471"); TZ 0; TZ 3;
   TB (hex "6330"); TB (hex "6471"); TB dx_p0; TZ 4294967295; TZ 6; TZ 0;
   TZ 1; TZ 3; TZ 0; TZ 6; TB (hex "0201"); TB (hex "2221"); TB (hex "4241"); TB (hex "6261");
   TB (hex "8281"); TB (hex "a2a1");
   TZ 5; TZ 6; TB (hex "04"); TB (hex "24"); TB (hex "44"); TB (hex "64"); TB (hex "84"); TB (hex "a4");
   TZ 7; TZ 6; TB (hex "14131211"); TB (hex "34333231"); TB (hex "54535251"); TB (hex "74737271");
   TB (hex "94939291"); TB (hex "b4b3b2b1");
   TB (hex "6331"); TB (hex "6471"); TB dx_p1; TZ 4294967295; TZ 9; TZ 0;
   TZ 1; TZ 1; TZ 0; TZ 9; TB (hex "0000"); TB (hex "0100"); TB (hex "0100"); TB (hex "0000");
   TB (hex "0000"); TB (hex "0100"); TB (hex "0000"); TB (hex "0100"); TB (hex "0100");
   TB (hex "6332"); TB (hex "6471"); TB dx_p2; TZ 3; TZ 6; TZ 0;
   TZ 0; TZ 6; TB (hex "14131211"); TB (hex "34333231"); TB (hex "54535251"); TB (hex "74737271");
   TB (hex "94939291"); TB (hex "b4b3b2b1");
   TB (hex "67"); TZ 0; TZ 1;
   TB (hex "78"); TB (hex "67"); TB dx_px; TZ 3; TZ 2; TZ 0;
   TZ 0; TZ 2; TB (hex "07000000"); TB (hex "08000000");
   TZ 0; TZ 0] in
  rd_all (ser_file dy_file) = Ok (dy_tokens, true) /\
  rd_all (ser_file (reorder_dq [LE; LE; BE] dy_file dy_chunks)) = Ok (dy_tokens, true) /\
  rd_all (ser_file (reorder_dq [LE; BE; LE] dy_file dy_chunks)) = Ok (dy_tokens, true) /\
  rd_all (ser_file (reorder_dq [BE; LE; BE] dy_file dy_chunks)) = Ok (dy_tokens, true) /\
  rd_all (ser_file (reorder_dq [LE; LE; LE] dy_file dy_chunks)) = Ok (dy_tokens, true) /\
  rd_all (ser_file (reorder_dq [BE; BE; BE] dy_file dy_chunks)) = Ok (dy_tokens, true).
Proof. vm_compute. repeat split. Qed.

(* the side condition matters: dx_file's overlapping fields reversed.  The block
   reads differently (c2: 02010204 ... instead of 04030201 ...); the token list
   below is also what the real code returns for these bytes *)
Example c15_daqmx_overlap_differs :
  ser_file (reorder_dq [LE; BE; LE] dx_file dx_chunks) = hex "5444536d8e000000691200001501000000000000f300000000000000030000000a0000002f276471272f2763302769120000ffffffff0100000002000000000000000200000003000000000000000000000000000000000000000000000000000000030000000000000005000000020000000400000003000000000000000a0000002f276471272f276331276a120000ffffffff0100000003000000000000000100000000000000010000000a0000000000000000020000000400000003000000000000000a0000002f276471272f276332276912000003000000010000000200000000000000010000000500000000000000000000000000000000000000020000000400000003000000000000000201020412111214a0a1a2b0b5b2c0c1c222212224323132340004000fff0a0001005444536dc8000000000012690000000000000011000000000000000041424344515253540006000a0b000c0d0e5444536d0e000000691200003000000000000000280000000000000001000000080000002f2767272f2778271400000003000000010000000200000000000000000000000700000008000000" /\
  rd_all (ser_file (reorder_dq [LE; BE; LE] dx_file dx_chunks)) =
  Ok ([TZ 4713; TZ 0; TZ 2; TB (hex "6471"); TZ 0; TZ 3;
       TB (hex "6330"); TB (hex "6471"); TB dx_p0; TZ 4294967295; TZ 6; TZ 0;
       TZ 1; TZ 2; TZ 0; TZ 6; TB (hex "0201"); TB (hex "1211"); TB (hex "2221"); TB (hex "3231");
       TB (hex "4241"); TB (hex "5251");
       TZ 5; TZ 6; TB (hex "04"); TB (hex "14"); TB (hex "24"); TB (hex "34"); TB (hex "44"); TB (hex "54");
       TB (hex "6331"); TB (hex "6471"); TB dx_p1; TZ 4294967295; TZ 9; TZ 0;
       TZ 1; TZ 1; TZ 0; TZ 9; TB (hex "00"); TB (hex "01"); TB (hex "00"); TB (hex "01"); TB (hex "01");
       TB (hex "00"); TB (hex "01"); TB (hex "00"); TB (hex "01");
       TB (hex "6332"); TB (hex "6471"); TB dx_p2; TZ 3; TZ 6; TZ 0;
       TZ 0; TZ 6; TB (hex "02010204"); TB (hex "12111214"); TB (hex "22212224"); TB (hex "32313234");
       TB (hex "44434241"); TB (hex "54535251");
       TB (hex "67"); TZ 0; TZ 1;
       TB (hex "78"); TB (hex "67"); TB dx_px; TZ 3; TZ 2; TZ 0;
       TZ 0; TZ 2; TB (hex "07000000"); TB (hex "08000000");
       TZ 0; TZ 0], true) /\
  rd_all (ser_file (reorder_dq [LE; BE; LE] dx_file dx_chunks)) <> rd_all (ser_file dx_file).
Proof. split; [|split]; [vm_compute; reflexivity ..|]. vm_compute. discriminate. Qed.
End Tokens.

Print Assumptions patch_unfold.
Print Assumptions flip_fields_unfold.
Print Assumptions flip_fields_blen.
Print Assumptions flip_fields_field.
Print Assumptions flip_fields_outside.
Print Assumptions sc_foff_unfold.
Print Assumptions scaler_value_at_field.
Print Assumptions slots_in.
Print Assumptions slots_compatible_unfold.
Print Assumptions slots_compatible_b_sound.
Print Assumptions block_fields_in.
Print Assumptions flip_dq_unfold.
Print Assumptions block_fields_in_range.
Print Assumptions block_fields_apart.
Print Assumptions flip_dq_blen.
Print Assumptions flip_dq_field.
Print Assumptions flip_dq_outside.
Print Assumptions flip_dq_involutive.
Print Assumptions daqmx_canon_flip.
Print Assumptions flip_dq_values.
Print Assumptions dx_not_reencodable.
Print Assumptions dx_not_compatible.
Print Assumptions is_daqmx_seg_unfold.
Print Assumptions reenc_dq_unfold.
Print Assumptions endian_eqb_eq.
Print Assumptions reorder_dq_seg_unfold.
Print Assumptions reorder_dq_unfold.
Print Assumptions seg_flippable_unfold.
Print Assumptions seg_encodes_not_daqmx.
Print Assumptions daqmx_seg_ok_is_daqmx.
Print Assumptions reorder_dq_endian.
Print Assumptions reorder_dq_same.
Print Assumptions reorder_dq_plain.
Print Assumptions reorder_dq_wf.
Print Assumptions sm_run_reorder_dq.
Print Assumptions reorder_dq_content.
Print Assumptions read_correct_reorder_dq.
Print Assumptions endian_transparent_daqmx.
Print Assumptions endian_transparent_daqmx_any.
Print Assumptions dq_segs_compatible_unfold.
Print Assumptions endian_transparent_daqmx_all.
Print Assumptions c15_daqmx_hypotheses.
Print Assumptions c15_daqmx_slots.
Print Assumptions c15_daqmx_instances.
Print Assumptions c15_daqmx_instance_dx.
Print Assumptions c15_daqmx_blocks.
Print Assumptions c15_daqmx_bytes.
Print Assumptions c15_daqmx_bytes_differ.
Print Assumptions c15_daqmx_tokens.
Print Assumptions c15_daqmx_overlap_differs.
