(* C07 on TRANSLATED code: how the writer TYPES what it is given.  Statements only; proofs in Proofs/GenWValEquiv.v.

   harness/gen/gen_pyfuncs_wval.py compiles, on every run, the value dispatch of nptdms/writer.py into
   Gen/PyFuncsWVal.v: _to_tdms_value (the isinstance chain in its order), read_properties_dict,
   ChannelObject.__init__ / data_type, _has_raw_data, write_data / write_values / write_string_values / to_file,
   TdmsSegment._write_data, _to_np_array, _infer_dtype.  A Python value is a `pyval` (its class, following Python's
   class hierarchy - bool is an int, np.float64 is a float, TdmsTimestamp is not a TdmsType - and its canonical value
   bytes), an array a `parray` (what numpy_data_types says of its dtype, byte order, field order, elements).

   Model/Writer.v takes properties and channel data already typed, except Python ints; [classify] states, class by
   class, the typed input the model is given for a Python value, and the theorems prove that the TRANSLATED code
   produces exactly the model's lowering of it (lower_prop, int_list_data, obj_raw).  With [write_read]
   (Props/C07_read.v) this ties what is read back to the Python values as the code classifies them. *)
From Coq Require Import String.
From Coq Require Import List ZArith Bool.
From Coq Require Import Init.Byte.
Import ListNotations.
From NpTdms Require Import Base.Bytes Base.Res Model.Tokens Model.TokensWf Model.ByteStr Model.StrictParse Model.SegState Model.Writer
     Gen.PyFuncsWriter Gen.PyFuncsWVal Proofs.GenWValEquiv.
Local Open Scope Z_scope.

(* ---- properties ------------------------------------------------------------------------------------------------------ *)

(* _to_tdms_value gives every accepted value the TDMS type and bytes of Model/Writer.v lower_prop: Python ints through
   to_int_property_value (Int32 / Int64 / Uint64 by magnitude, struct.error beyond 64 bits), bools and np.bool_ as
   Boolean, np.number scalars by their dtype, floats as DoubleFloat, datetimes / np.datetime64 / TdmsTimestamp as
   timestamps, str as String, TdmsType instances as they are *)
Theorem to_tdms_value_translated : forall name v pp,
    classify name v = Some pp ->
    res_map (prop_of name) (to_tdms_value_gen v) = lower_prop pp.
Proof. exact to_tdms_value_lowering. Qed.

(* ... and refuses every other value (bytes included: String(value) calls value.encode) *)
Theorem to_tdms_value_refuses : forall name v, classify name v = None -> exists e, to_tdms_value_gen v = Err e.
Proof. exact to_tdms_value_rejects. Qed.

(* where two Python classes overlap, the ORDER of the isinstance chain decides *)
Theorem bool_before_int : forall b,
    to_tdms_value_gen (VBool b) = Ok (CTdms cls_Boolean, bool_byte b) /\ pv_is_int (VBool b) = true.
Proof. exact bool_is_not_written_as_int. Qed.

Theorem np_number_before_float : forall bs,
    to_tdms_value_gen (VNpNumber (Some cls_DoubleFloat) bs) = Ok (CTdms cls_DoubleFloat, bs) /\
    pv_is_float (VNpNumber (Some cls_DoubleFloat) bs) = true.
Proof. exact np_float64_goes_by_dtype. Qed.

Theorem tdms_timestamp_kept : forall bs,
    to_tdms_value_gen (VTimestamp bs) = Ok (CTimestampObj, bs) /\ wcls_enum CTimestampObj = T_TIME.
Proof. exact tdms_timestamp_is_returned_as_is. Qed.

(* read_properties_dict: the properties of an object, in the order of the dictionary *)
Theorem read_properties_dict_translated : forall (d : alist pyval) (pps : list pyprop),
    NoDup (map fst d) ->
    map (fun kv => classify (fst kv) (snd kv)) d = map Some pps ->
    res_map (map (fun kv => prop_of (fst kv) (snd kv))) (read_properties_dict_gen (Some d)) = mapM lower_prop pps.
Proof. exact GenWValEquiv.read_properties_dict_translated. Qed.

Theorem read_properties_dict_none : read_properties_dict_gen None = Ok [].
Proof. reflexivity. Qed.

(* ---- channel data ------------------------------------------------------------------------------------------------------- *)

(* _infer_dtype on a non-empty list of Python ints: the chain of Gen/PyFuncsWriter.v on max and min; else None *)
Theorem infer_dtype_translated : forall l a z r,
    mapM pv_int l = Ok (z :: r) ->
    infer_dtype_gen (PDList l a) = Ok (Some (infer_dtype_chain (list_max z r) (list_min z r))).
Proof. exact GenWValEquiv.infer_dtype_translated. Qed.

Theorem infer_dtype_otherwise : forall l a,
    (l = [] \/ forallb pv_is_int l = false) -> infer_dtype_gen (PDList l a) = Ok None.
Proof. exact infer_dtype_none. Qed.

(* _to_np_array on a list of Python ints is Model/Writer.v int_list_data *)
Theorem to_np_array_int_list_translated : forall l a z r,
    mapM pv_int l = Ok (z :: r) ->
    (do arr <- to_np_array_gen (PDList l a); array_typed arr) = int_list_data (z :: r).
Proof. exact to_np_array_int_list. Qed.

(* _to_np_array on an ndarray: little-endian byte order, timestamp fields in the order that is written, same elements *)
Theorem to_np_array_ndarray_translated : forall a arr,
    to_np_array_gen (PDArray a) = Ok arr ->
    pa_le arr = true /\ (pa_tsarray arr = true -> pa_seconds_first arr = false) /\ pa_elems arr = pa_elems a /\
    pa_table arr = pa_table a /\ pa_ndim arr = pa_ndim a.
Proof. exact to_np_array_ndarray_normal. Qed.

(* ChannelObject.data_type: the table entry of the dtype, else the class of the first element's value, else Void *)
Theorem channel_data_type_translated : forall a,
    channel_data_type_gen a
    = match pa_lookup a with
      | Some ty => Ok (CTdms ty)
      | None => match pa_elems a with
                | [] => Ok (CTdms cls_Void)
                | v :: _ => do t <- to_tdms_value_gen v; Ok (fst t)
                end
      end.
Proof. exact GenWValEquiv.channel_data_type_translated. Qed.

(* _has_raw_data: an object with a `data` attribute whose type is not Void *)
Theorem has_raw_data_translated : forall a,
    has_raw_data_gen (Some a) = (do c <- channel_data_type_gen a; Ok (negb (wcls_eqb c (CTdms cls_Void)))) /\
    has_raw_data_gen None = Ok false.
Proof. exact GenWValEquiv.has_raw_data_translated. Qed.

(* write_data on an array as _to_np_array leaves it: Model/Writer.v obj_raw of the channel whose TDMS type is what
   data_type reports and whose values are the elements' value bytes - timestamps one by one through _to_tdms_value,
   strings as offsets then bytes (dispatch on the TDMS type String), everything else as the array's memory *)
Theorem write_data_translated : forall g n ps a c,
    normal a ->
    channel_data_type_gen a = Ok c ->
    wcls_enum c <> T_VOID ->
    (wcls_eqb c (CTdms cls_TimeStamp) || (wcls_eqb c CTimestampObj && pa_object a) = true -> elems_by_value a) ->
    (wcls_enum c = T_STRING -> elems_strings a /\ is_u32 (plain_total (map pv_bytes (pa_elems a))) = true) ->
    res_map (@concat byte) (write_data_gen a) = Ok (obj_raw (chan_of g n c a ps)).
Proof. exact GenWValEquiv.write_data_translated. Qed.

(* TdmsSegment._write_data: objects without raw data are skipped, the others written in order *)
Theorem segment_write_data_translated : forall (objs : list (option parray)) acc,
    segment_write_data_gen_loop6 objs acc
    = match objs with
      | [] => Ok acc
      | o :: r =>
        do h <- has_raw_data_gen o;
        if h then do a <- need EType o; do l <- write_data_gen a; segment_write_data_gen_loop6 r (acc ++ l)
        else segment_write_data_gen_loop6 r acc
      end.
Proof. exact segment_write_data_step. Qed.

(* ---- instances: the hypotheses are satisfiable, both sides evaluate ------------------------------------------------------- *)

Example to_tdms_value_translated_instance :
  classify (hex "6e"%string) (VInt 2147483648) = Some (PPInt (hex "6e"%string) 2147483648) /\
  res_map (prop_of (hex "6e"%string)) (to_tdms_value_gen (VInt 2147483648))
  = Ok (mkProp (hex "6e"%string) 4 (hex "0000008000000000"%string)) /\
  res_map (prop_of (hex "6e"%string)) (to_tdms_value_gen (VBool true)) = Ok (mkProp (hex "6e"%string) 33 (hex "01"%string)) /\
  to_tdms_value_gen (VInt 18446744073709551616) = Err EStruct /\
  to_tdms_value_gen (VBytes (hex "61"%string)) = Err EOther /\
  to_tdms_value_gen VOther = Err EType.
Proof. repeat split; vm_compute; reflexivity. Qed.

(* a list of ints needing int16; a big-endian int32 array; a TimestampArray in big-endian field order; strings *)
Definition ex_be : parray := mkParray false (Some 3) false false false false 1 [VNpNumber (Some 3) (hex "01000000"%string); VNpNumber (Some 3) (hex "ffffffff"%string)].
Definition ex_ts : parray := mkParray true None false false false true 1 [VTimestamp (hex "05000000000000000700000000000000"%string)].
Definition ex_str : parray := mkParray false None false true true false 1 [VStr (hex "61"%string); VStr (hex "c3a9"%string)].

Example channel_data_translated_instance :
  (do arr <- to_np_array_gen (PDList [VInt 1; VInt (-200); VBool true] ex_be); array_typed arr)
  = Ok (2, [hex "0100"%string; hex "38ff"%string; hex "0100"%string]) /\
  int_list_data [1; -200; 1] = Ok (2, [hex "0100"%string; hex "38ff"%string; hex "0100"%string]) /\
  (* without the conversion a big-endian array is not found in numpy_data_types and its memory is byte-swapped *)
  pa_lookup ex_be = None /\ pa_raw ex_be = hex "00000001ffffffff"%string /\
  (do arr <- to_np_array_gen (PDArray ex_be); do l <- write_data_gen arr; Ok (concat l)) = Ok (hex "01000000ffffffff"%string) /\
  pa_raw ex_ts = hex "00000000000000070000000000000005"%string /\
  (do arr <- to_np_array_gen (PDArray ex_ts); do l <- write_data_gen arr; Ok (concat l))
  = Ok (hex "05000000000000000700000000000000"%string) /\
  (do l <- write_data_gen ex_str; Ok (concat l)) = Ok (hex "010000000300000061c3a9"%string) /\
  obj_raw (WChan [] [] 32 [hex "61"%string; hex "c3a9"%string] []) = hex "010000000300000061c3a9"%string.
Proof. repeat split; vm_compute; reflexivity. Qed.

Example write_data_translated_hypotheses :
  normal ex_str /\ channel_data_type_gen ex_str = Ok (CTdms cls_String) /\ elems_strings ex_str /\
  is_u32 (plain_total (map pv_bytes (pa_elems ex_str))) = true.
Proof. repeat split; try reflexivity. left. reflexivity. Qed.

Print Assumptions to_tdms_value_translated.
Print Assumptions to_tdms_value_refuses.
Print Assumptions bool_before_int.
Print Assumptions np_number_before_float.
Print Assumptions tdms_timestamp_kept.
Print Assumptions read_properties_dict_translated.
Print Assumptions read_properties_dict_none.
Print Assumptions infer_dtype_translated.
Print Assumptions infer_dtype_otherwise.
Print Assumptions to_np_array_int_list_translated.
Print Assumptions to_np_array_ndarray_translated.
Print Assumptions channel_data_type_translated.
Print Assumptions has_raw_data_translated.
Print Assumptions write_data_translated.
Print Assumptions segment_write_data_translated.
Print Assumptions to_tdms_value_translated_instance.
Print Assumptions channel_data_translated_instance.
Print Assumptions write_data_translated_hypotheses.
