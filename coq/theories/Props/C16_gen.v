(* C16 on TRANSLATED code: the names under which TdmsFile files its groups and channels.  Statements only; proofs in
   Proofs/GenHierEquiv.v.  The hierarchy construction of nptdms/tdms.py is compiled from the source on every run
   (harness/gen/gen_pyfuncs_hier.py -> Gen/PyFuncsHier.v); the path grammar it calls is Model/Path.v from_string,
   the function [path_roundtrip] / [path_injective] (Props/C16.v) are about. *)
From Coq Require Import String.
From Coq Require Import List ZArith Bool.
From Coq Require Import Init.Byte.
Import ListNotations.
From NpTdms Require Import Base.Bytes Base.Res Model.Path Model.Tokens Model.SegState Model.Layout Model.Reader
     Gen.PyFuncsHier Proofs.SegStateProofs Proofs.GenHierEquiv.
Local Open Scope Z_scope.

(* every group is stored under its name, with the canonical path of that name (also a group created implicitly for
   its channels); every channel under its name, in the group named by its group component, with the canonical path
   of (group, name); no two groups, and no two channels of one group, share a dictionary key *)
Theorem hierarchy_names_translated : forall om root groups,
    read_file_hierarchy_gen om tt tt tt = Ok (root, groups) ->
    NoDup (map fst groups) /\
    Forall (fun kv =>
              ggroup_name (snd kv) = fst kv /\ ggroup_path (snd kv) = path_to_string (Some (fst kv)) None /\
              NoDup (map fst (gg_chans (snd kv))) /\
              Forall (fun kc => gchan_name (snd kc) = fst kc /\ gchan_group_name (snd kc) = fst kv /\
                                gchan_path (snd kc) = path_to_string (Some (fst kv)) (Some (fst kc)))
                     (gg_chans (snd kv))) groups.
Proof.
  intros om root groups H. destruct (hierarchy_names om root groups H) as [Hnd Hn]. split; [exact Hnd|].
  apply Forall_forall. intros kv Hin. rewrite Forall_forall in Hn. specialize (Hn kv Hin).
  destruct (group_named_observed kv Hn) as (H1 & H2 & H3). destruct Hn as (_ & Hc & _). repeat split; assumption.
Qed.

(* ObjectPath.from_string is the C16 parser; any other path shape is the ValueError *)
Theorem path_parser_translated : forall s,
    opath_from_string s = match path_from_string s with inr p => Ok p | inl _ => Err EValue end.
Proof. exact opath_from_string_eq. Qed.

(* lookup by name finds the group / channel stored under that name, KeyError otherwise *)
Theorem lookup_by_name_translated : forall groups g gname cname,
    tdms_file_getitem_gen groups gname = match alookup gname groups with Some x => Ok x | None => Err EKey end /\
    tdms_group_getitem_gen g cname = match alookup cname (gg_chans g) with Some c => Ok c | None => Err EKey end.
Proof. intros. split; [apply tdms_file_getitem_eq|apply tdms_group_getitem_eq]. Qed.

(* instance: names that coincide across roles (group a / channel a of group g / group g) and quotes *)
Definition ex_om : alist ometa :=
  [(hex "2f2761272f276727"%string, ometa0);          (* /'a'/'g' *)
   (hex "2f2767272f276127"%string, ometa0);          (* /'g'/'a' *)
   (hex "2f27697427277327"%string, ometa0);          (* /'it''s' *)
   (hex "2f2767272f2769742727732f27"%string, ometa0)]. (* /'g'/'it''s/' *)

Example hierarchy_names_translated_instance :
  match read_file_hierarchy_gen ex_om tt tt tt with
  | Ok (_, groups) =>
    map (fun kv => (fst kv, map fst (gg_chans (snd kv)))) groups
    = [(hex "69742773"%string, []); (hex "61"%string, [hex "67"%string]); (hex "67"%string, [hex "61"%string; hex "697427732f"%string])]
  | Err _ => False
  end.
Proof. vm_compute. reflexivity. Qed.

Print Assumptions hierarchy_names_translated.
Print Assumptions path_parser_translated.
Print Assumptions lookup_by_name_translated.
Print Assumptions hierarchy_names_translated_instance.
