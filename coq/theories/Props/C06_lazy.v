(* C06 — a file cut short by a crash: the remaining clauses of the property.

     "... lazy and eager reads agree ...  The same holds when the last segment's
      lead-in carries the 'length unknown' marker (for fixed-width data types, and
      for strings in single-chunk segments)."

   Statements only.  Proofs: Proofs/TruncLazyLayout.v (the lazy view of a cut
   segment), Proofs/TruncLazyFile.v (the cut file, eager and lazy),
   Proofs/TruncLazyUnknown.v (the marker), Proofs/TruncLazyExamples.v (instances).
   Props/C06_values.v has the eager value-level theorem, Props/C03_read.v lazy =
   eager on complete files, Props/C04.v the abstract window theorem.

   (A) LAZY = EAGER ON EVERY CUT   [truncation_lazy_eq_eager]
   Hypotheses: those of C01_read.read_correct for the file syntax [segs] (exactly
   as in C06_values.truncation_values_prefix) plus [seg_paths_distinct st] (no
   segment's object list names a path twice -- NECESSARY for lazy = eager even on
   complete files: C03_read.lazy_eq_eager_refuted, finding F1), and a cut offset
   4 <= k <= length.  Conclusion: there are a reader state [stc] (the result of the
   metadata pass on the cut BYTES), its hierarchy [hc] and ONE chunk list [chunks_c]
   such that
     rd_all (take k bytes) = Ok (expected_tokens stc hc chunks_c, true)
                        the eager observation: channel c holds chan_values (ch_path c) chunks_c;
     prefix / no-loss / len(channel) / incomplete-flag clauses as in C06_values;
     for EVERY channel c of hc (typed or not), every offs >= 0, every len (None or >= 0)
       lz_read_bytes (take k bytes) (ch_path c) offs len
         = Ok (window_of offs len (chan_values (ch_path c) chunks_c))
                        read_data(offs, len) on TdmsFile.open of the cut file is the
                        window of what TdmsFile.read of the cut file returns
                        (offs = 0, len = None: lazy = eager);
     negative offset / length: ValueError.
   lz_read_bytes is Model/LazyBytes.v: the per-channel view computed from the reader
   state WITH segment indexes and the bytes through the chunk decoders, read by the
   line-by-line model of reader.read_raw_data_for_channel (repaired code, D3/D13).
   What had to be added to C03/C04: the metadata pass with indexes on a cut file
   finds the same records ([cut_loop_index_sim]); the view of the CUT segment is well
   formed -- exactly sg_nchunks chunks, all but the last with number_values values,
   the last with the channel's entry of the final-chunk override, 0 when it has
   none; for an interleaved segment the column cut into pieces and padded with an
   empty final chunk when no complete row of it survives ([segv_of_cut]).

   (B) THE LENGTH-UNKNOWN MARKER   [unknown_length_last_segment]
   FileSyn.ser_file writes exact offsets; [ser_file_unknown_last segs] is the same byte
   string with the next-segment-offset field of the LAST lead-in replaced by
   0xFFFFFFFFFFFFFFFF ([unknown_bytes]: same length, 8 bytes differ).  Under (A)'s
   hypotheses and segs <> [], for every cut 4 <= k <= length the marker file cut at k
   satisfies everything (A) states, the incomplete flag being
       cut_in_data 0 segs k  ||  k = length
   (with all of its raw data present the last segment is still flagged: its end is
   unknown by declaration -- the code's behaviour, and how DESIGN 7/C06 reads the
   property), and for k < length
       rd_all (take k marker_file) = rd_all (take k explicit_file)
   literally ([unknown_length_cut]: also rd_metadata, channel_view, every lz_read_bytes
   window and every lz_plan_bytes fetch plan are equal).  For k = length
   ([unknown_length_complete]) the metadata pass finds the records of the explicit
   file with the last one flagged incomplete ([mark_last]), the same per-object
   metadata, hence the same hierarchy, values, lengths and lazy windows.

   ON THE PROPERTY'S EXCLUSION "(for fixed-width data types, and for strings in
   single-chunk segments)".  In the model's domain NO exclusion is needed and none is
   made: the theorem covers strings in multi-chunk segments under the marker.  The
   reason is that the domain is serialised files whose raw data blocks ENCODE chunk
   values (ReadCorrect.seg_encodes): every chunk of a segment, string chunks
   included, has the byte size the raw data index declares, so the chunk count
   (total / declared chunk size) and the final-chunk rule (strings present: nobody
   gets a value from a partial chunk) are the same computation whether the end was
   declared or is the end of the file; the marker only sets the flag.  The
   property's restriction is therefore a SUBSET of what is proved ([unknown_length_
   property_domain] states it with the restriction as a hypothesis, as the property
   does; it is an instance).  What the restriction protects against lies outside
   seg_encodes: string chunks of DIFFERENT byte sizes inside one segment, for which
   npTDMS's chunk arithmetic is meaningless with or without the marker.
   Checked on the implementation (dev/c06_unknown_replay.py: the four example byte
   strings as evaluated by Coq -- ms_file is ONE segment with a string channel in
   TWO chunks -- every cut 4..len, eager and lazy, marker vs explicit: 1644
   comparisons, 0 disagreements; and 20 310 cuts of 60 generated multi-chunk string
   files: 0 differences between marker and explicit length).

   NOT covered here: DAQmx segments in the cut file (Props/C11_lazy.v has the
   decoder-level theorem), index files (C09), the as-is generator (D3/D13). *)
From Coq Require Import List ZArith Bool.
From Coq Require Import Init.Byte.
Import ListNotations.
From NpTdms Require Import Base.Bytes Base.Res Base.PySlice Model.Tokens Model.TokensWf Model.SegState
     Model.Layout Model.Reader Model.FileSyn Model.LazyRead Model.LazyBytes
     Proofs.LayoutProofs Proofs.FileSynProofs Proofs.SegStateProofs Proofs.SegStateExplicit
     Proofs.TruncProofs Proofs.ReadCorrect Proofs.TruncValuesLayout Proofs.TruncValuesFile
     Proofs.TruncValuesExamples Proofs.LazyEagerIndex Proofs.LazyEagerView Proofs.LazyEagerTop
     Proofs.LazyEagerExamples Proofs.TruncLazyLayout Proofs.TruncLazyFile Proofs.TruncLazyUnknown
     Proofs.TruncLazyExamples.
Local Open Scope Z_scope.

(* ---- (A) layer 1: the lazy view of a segment whose raw data is cut ------------------ *)

(* interleaved: a column of m full chunks and F <= K rows of the next, cut into pieces
   of K and padded to m + 1 entries, has the chunk lengths the metadata says *)
Theorem split_fit : forall K F : Z, 0 < K -> 0 <= F <= K ->
    forall (m : nat) (col : list bytes) (fuel : nat),
      Z.of_nat (length col) = Z.of_nat m * K + F -> (S m <= fuel)%nat ->
      let l := fit_chunks (S m) (split_chunks fuel K col) in
      concat l = col /\ length l = S m /\ chunks_ok bytes K F l = true.
Proof. exact TruncLazyLayout.split_fit. Qed.

(* any encoded raw data block, any cut strictly inside it, file bytes [D] in which
   the record's raw data is the cut block: the eager decode and, for every path, a
   well-formed view holding exactly the decoded values *)
Theorem segv_of_cut : forall D g gc data cs j,
    seg_encodes g data cs ->
    0 <= j < blen data ->
    sg_toc gc = sg_toc g -> sg_objs gc = sg_objs g ->
    calculate_chunks (sg_toc g) true (sg_objs g) j = Ok (sg_nchunks gc, sg_final gc) ->
    NoDup (map so_path (sg_objs g)) ->
    sg_index gc = fresh_index (map so_path (sg_objs gc)) ->
    Forall nvals_ok (sg_objs g) ->
    read_segment D gc = (do '(cs0, _) <- read_segment_chunks gc (take j data); Ok cs0) ->
    exists chunks',
      read_segment D gc = Ok chunks' /\
      Forall only_cdata chunks' /\
      (forall c kv, In c chunks' -> In kv c ->
                    exists o, In o (sg_objs g) /\ so_path o = fst kv /\ so_dtype o <> None) /\
      (forall p, is_prefix (chan_values p chunks') (chan_values p cs)) /\
      (forall p, Z.of_nat (length (chan_values p chunks')) = seg_total p gc) /\
      (forall p, exists sv, segv_of D p gc = Ok sv /\ wf_seg bytes sv = true /\
                            seg_vals bytes sv = chan_values p chunks' /\
                            number_of_segment_values bytes sv = seg_total p gc).
Proof. exact TruncLazyLayout.segv_of_cut. Qed.

(* ---- (A) layer 2: the metadata pass with indexes on a cut file ---------------------- *)

Theorem cut_loop_index_sim : forall segs k pos ps pi pi' st st' stc,
    cut_loop segs k false pos ps pi st = Ok stc ->
    same_but_index st st' -> cache_ok (rs_cache st') -> idx_ok true ps pi' ->
    exists stc', cut_loop segs k true pos ps pi' st' = Ok stc' /\ same_but_index stc stc'.
Proof. exact TruncLazyFile.cut_loop_index_sim. Qed.

(* ---- (A) the composed statement ------------------------------------------------------- *)

Theorem truncation_lazy_eq_eager : forall segs st h chunkss k,
    wf_file segs ->
    sm_run segs false = Ok st ->
    build_hierarchy (rs_om st) = Ok h ->
    segs_encode (rs_segments st) segs chunkss ->
    om_paths_canonical (rs_om st) ->
    typed_objects_are_channels (rs_om st) ->
    seg_paths_distinct st ->
    4 <= k <= blen (ser_file segs) ->
    exists stc hc chunks_c,
      rd_metadata (take k (ser_file segs)) false (Some k) false = Ok stc /\
      build_hierarchy (rs_om stc) = Ok hc /\
      rd_all (take k (ser_file segs)) = Ok (expected_tokens stc hc chunks_c, true) /\
      (forall p, is_prefix (chan_values p chunks_c) (chan_values p (concat chunkss)) /\
                 is_prefix (chan_values p (concat (firstn (whole_count 0 segs k) chunkss)))
                           (chan_values p chunks_c)) /\
      (forall c, In c (all_channels hc) ->
                 ch_len c = Z.of_nat (length (chan_values (ch_path c) chunks_c))) /\
      (exists rest, obs_status stc = TZ (if cut_in_data 0 segs k then 1 else 0) :: rest) /\
      (forall c offs len, In c (all_channels hc) -> 0 <= offs -> len_nonneg len ->
          lz_read_bytes (take k (ser_file segs)) (ch_path c) offs len
          = Ok (window_of offs len (chan_values (ch_path c) chunks_c))) /\
      (forall c offs len, In c (all_channels hc) -> ch_dtype c <> None ->
          offs < 0 \/ (exists l, len = Some l /\ l < 0) ->
          lz_read_bytes (take k (ser_file segs)) (ch_path c) offs len = Err EValue).
Proof. exact TruncLazyFile.truncation_lazy_eq_eager. Qed.

(* the full lazy read of a channel of the cut file is its eager data, of len(channel) values *)
Corollary truncation_lazy_full : forall segs st h chunkss k,
    wf_file segs ->
    sm_run segs false = Ok st ->
    build_hierarchy (rs_om st) = Ok h ->
    segs_encode (rs_segments st) segs chunkss ->
    om_paths_canonical (rs_om st) ->
    typed_objects_are_channels (rs_om st) ->
    seg_paths_distinct st ->
    4 <= k <= blen (ser_file segs) ->
    exists stc hc chunks_c,
      rd_all (take k (ser_file segs)) = Ok (expected_tokens stc hc chunks_c, true) /\
      forall c, In c (all_channels hc) ->
                lz_read_bytes (take k (ser_file segs)) (ch_path c) 0 None
                = Ok (chan_values (ch_path c) chunks_c) /\
                ch_len c = Z.of_nat (length (chan_values (ch_path c) chunks_c)).
Proof.
  intros segs st h chunkss k Hwf Hrun Hh Henc Hcanon Hshape Hdist Hk.
  destruct (TruncLazyFile.truncation_lazy_eq_eager segs st h chunkss k Hwf Hrun Hh Henc Hcanon Hshape Hdist Hk)
    as (stc & hc & cc & _ & _ & Hread & _ & Hlens & _ & Hwin & _).
  exists stc, hc, cc. split; [exact Hread|]. intros c Hc. split; [|exact (Hlens c Hc)].
  exact (Hwin c 0 None Hc (Z.le_refl 0) I).
Qed.

(* ---- (B) the length-unknown marker ------------------------------------------------------ *)

(* the metadata pass on a cut of the marker file, as a function of syntax and offset *)
Theorem rd_metadata_cut_unknown : forall segs k w,
    wf_file segs -> 0 <= k <= blen (ser_file segs) ->
    rd_metadata (take k (ser_file_unknown_last segs)) false (Some k) w = cut_loop_u segs k w 0 None [] rstate0.
Proof. exact TruncLazyUnknown.rd_metadata_cut_unknown. Qed.

(* a cut strictly inside the file: marker and clamp give the same analysis *)
Theorem cut_loop_u_lt : forall segs k w pos ps pi st,
    wf_file segs -> k < pos + blen (ser_file segs) ->
    cut_loop_u segs k w pos ps pi st = cut_loop segs k w pos ps pi st.
Proof. exact TruncLazyUnknown.cut_loop_u_lt. Qed.

Theorem unknown_length_cut : forall segs st chunkss k,
    wf_file segs ->
    sm_run segs false = Ok st ->
    segs_encode (rs_segments st) segs chunkss ->
    0 <= k < blen (ser_file segs) ->
    rd_metadata (take k (ser_file_unknown_last segs)) false (Some k) false
    = rd_metadata (take k (ser_file segs)) false (Some k) false /\
    rd_all (take k (ser_file_unknown_last segs)) = rd_all (take k (ser_file segs)) /\
    (forall p, channel_view (take k (ser_file_unknown_last segs)) p = channel_view (take k (ser_file segs)) p) /\
    (forall p offs len, lz_read_bytes (take k (ser_file_unknown_last segs)) p offs len
                        = lz_read_bytes (take k (ser_file segs)) p offs len) /\
    (forall p offs len, lz_plan_bytes (take k (ser_file_unknown_last segs)) p offs len
                        = lz_plan_bytes (take k (ser_file segs)) p offs len).
Proof. exact TruncLazyUnknown.unknown_length_cut. Qed.

Theorem unknown_length_complete : forall segs st h chunkss,
    wf_file segs -> segs <> [] ->
    sm_run segs false = Ok st ->
    build_hierarchy (rs_om st) = Ok h ->
    segs_encode (rs_segments st) segs chunkss ->
    om_paths_canonical (rs_om st) ->
    typed_objects_are_channels (rs_om st) ->
    exists stu,
      rd_metadata (ser_file_unknown_last segs) false (Some (blen (ser_file_unknown_last segs))) false = Ok stu /\
      rs_segments stu = mark_last (rs_segments st) /\
      rs_om stu = rs_om st /\ rs_version stu = rs_version st /\
      rd_all (ser_file_unknown_last segs) = Ok (expected_tokens stu h (concat chunkss), true) /\
      (exists rest, obs_status stu = TZ 1 :: rest) /\
      (forall p, channel_view (ser_file_unknown_last segs) p = channel_view (ser_file segs) p) /\
      (forall p offs len, lz_read_bytes (ser_file_unknown_last segs) p offs len
                          = lz_read_bytes (ser_file segs) p offs len).
Proof. exact TruncLazyUnknown.unknown_length_complete. Qed.

Theorem unknown_length_last_segment : forall segs st h chunkss k,
    wf_file segs -> segs <> [] ->
    sm_run segs false = Ok st ->
    build_hierarchy (rs_om st) = Ok h ->
    segs_encode (rs_segments st) segs chunkss ->
    om_paths_canonical (rs_om st) ->
    typed_objects_are_channels (rs_om st) ->
    seg_paths_distinct st ->
    4 <= k <= blen (ser_file segs) ->
    exists stc hc chunks_c,
      rd_metadata (take k (ser_file_unknown_last segs)) false (Some k) false = Ok stc /\
      build_hierarchy (rs_om stc) = Ok hc /\
      rd_all (take k (ser_file_unknown_last segs)) = Ok (expected_tokens stc hc chunks_c, true) /\
      (forall p, is_prefix (chan_values p chunks_c) (chan_values p (concat chunkss)) /\
                 is_prefix (chan_values p (concat (firstn (whole_count 0 segs k) chunkss)))
                           (chan_values p chunks_c)) /\
      (forall c, In c (all_channels hc) ->
                 ch_len c = Z.of_nat (length (chan_values (ch_path c) chunks_c))) /\
      (exists rest, obs_status stc =
                    TZ (if cut_in_data 0 segs k || (k =? blen (ser_file segs)) then 1 else 0) :: rest) /\
      (forall c offs len, In c (all_channels hc) -> 0 <= offs -> len_nonneg len ->
          lz_read_bytes (take k (ser_file_unknown_last segs)) (ch_path c) offs len
          = Ok (window_of offs len (chan_values (ch_path c) chunks_c))) /\
      (k < blen (ser_file segs) ->
       rd_all (take k (ser_file_unknown_last segs)) = rd_all (take k (ser_file segs))).
Proof. exact TruncLazyUnknown.unknown_length_last_segment. Qed.

(* The property's wording: fixed-width types, or strings only in single-chunk
   segments.  The restriction is not used -- the statement above holds without it. *)
Definition fixed_or_single_chunk_strings (st : rstate) : Prop :=
  Forall (fun g => Forall (fun o => sized o <> None) (data_objs (sg_objs g)) \/ sg_nchunks g <= 1)
         (rs_segments st).

Corollary unknown_length_property_domain : forall segs st h chunkss k,
    wf_file segs -> segs <> [] ->
    sm_run segs false = Ok st ->
    build_hierarchy (rs_om st) = Ok h ->
    segs_encode (rs_segments st) segs chunkss ->
    om_paths_canonical (rs_om st) ->
    typed_objects_are_channels (rs_om st) ->
    seg_paths_distinct st ->
    fixed_or_single_chunk_strings st ->
    4 <= k <= blen (ser_file segs) ->
    exists stc hc chunks_c,
      rd_all (take k (ser_file_unknown_last segs)) = Ok (expected_tokens stc hc chunks_c, true) /\
      (forall p, is_prefix (chan_values p chunks_c) (chan_values p (concat chunkss)) /\
                 is_prefix (chan_values p (concat (firstn (whole_count 0 segs k) chunkss)))
                           (chan_values p chunks_c)) /\
      (forall c, In c (all_channels hc) ->
                 ch_len c = Z.of_nat (length (chan_values (ch_path c) chunks_c)) /\
                 lz_read_bytes (take k (ser_file_unknown_last segs)) (ch_path c) 0 None
                 = Ok (chan_values (ch_path c) chunks_c)) /\
      (exists rest, obs_status stc =
                    TZ (if cut_in_data 0 segs k || (k =? blen (ser_file segs)) then 1 else 0) :: rest).
Proof.
  intros segs st h chunkss k Hwf Hne Hrun Hh Henc Hcanon Hshape Hdist _ Hk.
  destruct (TruncLazyUnknown.unknown_length_last_segment segs st h chunkss k Hwf Hne Hrun Hh Henc Hcanon
                                                          Hshape Hdist Hk)
    as (stc & hc & cc & _ & _ & Hread & Hpre & Hlens & Hstat & Hwin & _).
  exists stc, hc, cc. split; [exact Hread|]. split; [exact Hpre|]. split; [|exact Hstat].
  intros c Hc. split; [exact (Hlens c Hc)|]. exact (Hwin c 0 None Hc (Z.le_refl 0) I).
Qed.

(* ---- the hypotheses are satisfiable; the conclusions compute ---------------------------- *)

(* (A) applies to every cut of tv_file (int32 + int16, contiguous, two segments),
   rc_file (int32 + STRING, second segment without metadata) and rc2_file
   (INTERLEAVED int16 + bool, then a metadata-only segment) *)
Example c06_lazy_applies_tv : forall k, 4 <= k <= blen (ser_file tv_file) ->
    exists stc hc chunks_c,
      rd_all (take k (ser_file tv_file)) = Ok (expected_tokens stc hc chunks_c, true) /\
      forall c, In c (all_channels hc) ->
                lz_read_bytes (take k (ser_file tv_file)) (ch_path c) 0 None
                = Ok (chan_values (ch_path c) chunks_c) /\
                ch_len c = Z.of_nat (length (chan_values (ch_path c) chunks_c)).
Proof.
  exact (fun k => truncation_lazy_full tv_file tv_st tv_h tv_chunks k tv_wf tv_run tv_hier tv_encodes
                    tv_canonical tv_typed_channels tv_distinct).
Qed.

Example c06_lazy_applies_rc : forall k, 4 <= k <= blen (ser_file rc_file) ->
    exists stc hc chunks_c,
      rd_all (take k (ser_file rc_file)) = Ok (expected_tokens stc hc chunks_c, true) /\
      forall c, In c (all_channels hc) ->
                lz_read_bytes (take k (ser_file rc_file)) (ch_path c) 0 None
                = Ok (chan_values (ch_path c) chunks_c) /\
                ch_len c = Z.of_nat (length (chan_values (ch_path c) chunks_c)).
Proof.
  exact (fun k => truncation_lazy_full rc_file rc_st rc_h rc_chunks k rc_wf rc_run rc_hier rc_encodes
                    rc_canonical rc_typed_channels rc_distinct).
Qed.

Example c06_lazy_applies_rc2 : forall k, 4 <= k <= blen (ser_file rc2_file) ->
    exists stc hc chunks_c,
      rd_all (take k (ser_file rc2_file)) = Ok (expected_tokens stc hc chunks_c, true) /\
      forall c, In c (all_channels hc) ->
                lz_read_bytes (take k (ser_file rc2_file)) (ch_path c) 0 None
                = Ok (chan_values (ch_path c) chunks_c) /\
                ch_len c = Z.of_nat (length (chan_values (ch_path c) chunks_c)).
Proof.
  exact (fun k => truncation_lazy_full rc2_file rc2_st rc2_h rc2_chunks k rc2_wf rc2_run rc2_hier rc2_encodes
                    rc2_canonical rc2_typed_channels rc2_distinct).
Qed.

(* (B) applies to every cut of the three files with the marker in the last lead-in *)
Example c06_unknown_applies_rc : forall k, 4 <= k <= blen (ser_file rc_file) ->
    exists stc hc chunks_c,
      rd_all (take k (ser_file_unknown_last rc_file)) = Ok (expected_tokens stc hc chunks_c, true) /\
      (forall p, is_prefix (chan_values p chunks_c) (chan_values p (concat rc_chunks)) /\
                 is_prefix (chan_values p (concat (firstn (whole_count 0 rc_file k) rc_chunks)))
                           (chan_values p chunks_c)) /\
      (forall c, In c (all_channels hc) ->
                 ch_len c = Z.of_nat (length (chan_values (ch_path c) chunks_c)) /\
                 lz_read_bytes (take k (ser_file_unknown_last rc_file)) (ch_path c) 0 None
                 = Ok (chan_values (ch_path c) chunks_c)) /\
      (exists rest, obs_status stc =
                    TZ (if cut_in_data 0 rc_file k || (k =? blen (ser_file rc_file)) then 1 else 0) :: rest).
Proof.
  intros k Hk.
  destruct (TruncLazyUnknown.unknown_length_last_segment rc_file rc_st rc_h rc_chunks k rc_wf
              ltac:(discriminate) rc_run rc_hier rc_encodes rc_canonical rc_typed_channels rc_distinct Hk)
    as (stc & hc & cc & _ & _ & Hread & Hpre & Hlens & Hstat & Hwin & _).
  exists stc, hc, cc. split; [exact Hread|]. split; [exact Hpre|]. split; [|exact Hstat].
  intros c Hc. split; [exact (Hlens c Hc)|]. exact (Hwin c 0 None Hc (Z.le_refl 0) I).
Qed.

Example c06_unknown_applies_tv : forall k, 4 <= k < blen (ser_file tv_file) ->
    rd_all (take k (ser_file_unknown_last tv_file)) = rd_all (take k (ser_file tv_file)) /\
    forall p offs len, lz_read_bytes (take k (ser_file_unknown_last tv_file)) p offs len
                       = lz_read_bytes (take k (ser_file tv_file)) p offs len.
Proof.
  intros k Hk.
  destruct (TruncLazyUnknown.unknown_length_cut tv_file tv_st tv_chunks k tv_wf tv_run tv_encodes)
    as (_ & H1 & _ & H2 & _).
  - split; [apply Z.le_trans with 4; [discriminate|apply Hk]|apply Hk].
  - split; assumption.
Qed.

(* the marker file differs from the explicit one in the 8 bytes of the last
   lead-in's next-segment field *)
Example c06_unknown_bytes :
  length (ser_file_unknown_last rc_file) = length (ser_file rc_file) /\
  differing_offsets (ser_file_unknown_last rc_file) (ser_file rc_file)
  = [219; 220; 221; 222; 223; 224; 225; 226]%nat /\
  read_at 219 8 (ser_file_unknown_last rc_file) = [xff; xff; xff; xff; xff; xff; xff; xff].
Proof. exact unknown_bytes_rc. Qed.

Section Eval.
Import String.
Local Open Scope string_scope.

(* tv_file cut at 152 (inside chunk 2 of segment 1, in the middle of an int32):
   the eager data is a = 1,2,3 ; b = 10,11 (C06_values); lazily *)
Example c06_lazy_tv_cut :
  lz_read_bytes (take 152 (ser_file tv_file)) rc_path_a 0 None
  = Ok [hex "01000000"; hex "02000000"; hex "03000000"] /\
  lz_read_bytes (take 152 (ser_file tv_file)) rc_path_a 1 (Some 5) = Ok [hex "02000000"; hex "03000000"] /\
  lz_read_bytes (take 152 (ser_file tv_file)) rc_path_a 2 (Some 1) = Ok [hex "03000000"] /\
  lz_read_bytes (take 152 (ser_file tv_file)) rc_path_b 0 None = Ok [hex "0a00"; hex "0b00"] /\
  lz_read_bytes (take 152 (ser_file tv_file)) rc_path_b 1 None = Ok [hex "0b00"] /\
  eager_vals (take 152 (ser_file tv_file)) rc_path_a = [hex "01000000"; hex "02000000"; hex "03000000"] /\
  eager_vals (take 152 (ser_file tv_file)) rc_path_b = [hex "0a00"; hex "0b00"].
Proof. exact tv_cut_lazy_eval. Qed.

(* the view of the cut segment: channel a: two chunks, the final one with 1 value
   (override), channel b: a final chunk of 0 values *)
Example c06_lazy_tv_cut_view :
  (do '(svs, _) <- channel_view (take 152 (ser_file tv_file)) rc_path_a;
   Ok (map (fun sv => (sv_chunk sv, sv_nchunks sv, sv_final sv, map (@List.length bytes) (sv_vals sv))) svs))
  = Ok [(2, 2, Some 1, [2%nat; 1%nat])] /\
  (do '(svs, _) <- channel_view (take 152 (ser_file tv_file)) rc_path_b;
   Ok (map (fun sv => (sv_chunk sv, sv_nchunks sv, sv_final sv, map (@List.length bytes) (sv_vals sv))) svs))
  = Ok [(2, 2, Some 0, [2%nat; 0%nat])].
Proof. exact tv_cut_view_eval. Qed.

(* rc_file cut at 190: a string channel in the truncated chunk, nobody gets a value from it *)
Example c06_lazy_rc_cut :
  lz_read_bytes (take 190 (ser_file rc_file)) rc_path_a 0 None = Ok [hex "01000000"; hex "02000000"] /\
  lz_read_bytes (take 190 (ser_file rc_file)) rc_path_b 0 None = Ok [hex "6162"; hex "63"] /\
  lz_read_bytes (take 190 (ser_file rc_file)) rc_path_b 1 (Some 3) = Ok [hex "63"] /\
  eager_vals (take 190 (ser_file rc_file)) rc_path_b = [hex "6162"; hex "63"].
Proof. exact rc_cut_lazy_eval. Qed.

(* rc2_file (interleaved) cut at 108: one complete row *)
Example c06_lazy_rc2_cut :
  lz_read_bytes (take 108 (ser_file rc2_file)) rc_path_a 0 None = Ok [hex "0102"] /\
  lz_read_bytes (take 108 (ser_file rc2_file)) rc_path_b 0 None = Ok [hex "01"] /\
  lz_read_bytes (take 108 (ser_file rc2_file)) rc_path_a 1 None = Ok [] /\
  eager_vals (take 108 (ser_file rc2_file)) rc_path_a = [hex "0102"].
Proof. exact rc2_cut_lazy_eval. Qed.

(* the complete marker file of rc_file: the values of the explicit file; file_status
   says incomplete (TZ 1), each channel 2 expected / 2 read in the last segment *)
Example c06_unknown_complete_rc :
  rd_all (ser_file_unknown_last rc_file) =
  Ok ([TZ 4713; TZ 0; TZ 1; TB (hex "67"); TZ 1; TB (hex "6e"); TZ 3; TB (hex "6869"); TZ 2;
       TB (hex "61"); TB (hex "67"); TB rc_path_a; TZ 3; TZ 6; TZ 1; TB (hex "70"); TZ 0; TZ 7;
       TZ 0; TZ 6; TB (hex "01000000"); TB (hex "02000000"); TB (hex "03000000"); TB (hex "04000000");
       TB (hex "05000000"); TB (hex "06000000");
       TB (hex "62"); TB (hex "67"); TB rc_path_b; TZ 32; TZ 6; TZ 0;
       TZ 0; TZ 6; TB (hex "6162"); TB (hex "63"); TB []; TB (hex "78797a"); TB (hex "71"); TB (hex "7273");
       TZ 1; TZ 1; TZ 2; TB rc_path_a; TZ 2; TZ 2; TB rc_path_b; TZ 2; TZ 2], true).
Proof. exact unknown_complete_rc_tokens. Qed.
End Eval.

(* every cut 4..len of the three files, both paths, ten windows each: the lazy read
   on the cut bytes is the window of the eager receiver content of the same bytes *)
Example c06_lazy_all_cuts :
  all_cuts_lazy_ok tv_file [rc_path_a; rc_path_b] = true /\
  all_cuts_lazy_ok rc_file [rc_path_a; rc_path_b] = true /\
  all_cuts_lazy_ok rc2_file [rc_path_a; rc_path_b] = true.
Proof. exact all_cuts_lazy_of_the_examples. Qed.

(* every cut 4 <= k < len: marker file = explicit file (eager observation and ten
   windows per path); ms_file = ONE segment, a string channel in TWO chunks *)
Example c06_unknown_all_cuts :
  all_cuts_unknown_ok tv_file [rc_path_a; rc_path_b] = true /\
  all_cuts_unknown_ok rc_file [rc_path_a; rc_path_b] = true /\
  all_cuts_unknown_ok rc2_file [rc_path_a; rc_path_b] = true /\
  all_cuts_unknown_ok ms_file [rc_path_a; rc_path_b] = true.
Proof. exact all_cuts_unknown_of_the_examples. Qed.

Example c06_unknown_complete :
  complete_unknown_ok tv_file [rc_path_a; rc_path_b] = true /\
  complete_unknown_ok rc_file [rc_path_a; rc_path_b] = true /\
  complete_unknown_ok ms_file [rc_path_a; rc_path_b] = true.
Proof. exact complete_unknown_of_the_examples. Qed.

Print Assumptions split_fit.
Print Assumptions segv_of_cut.
Print Assumptions cut_loop_index_sim.
Print Assumptions truncation_lazy_eq_eager.
Print Assumptions truncation_lazy_full.
Print Assumptions rd_metadata_cut_unknown.
Print Assumptions cut_loop_u_lt.
Print Assumptions unknown_length_cut.
Print Assumptions unknown_length_complete.
Print Assumptions unknown_length_last_segment.
Print Assumptions unknown_length_property_domain.
Print Assumptions c06_lazy_applies_tv.
Print Assumptions c06_lazy_applies_rc.
Print Assumptions c06_lazy_applies_rc2.
Print Assumptions c06_unknown_applies_rc.
Print Assumptions c06_unknown_applies_tv.
Print Assumptions c06_unknown_bytes.
Print Assumptions c06_lazy_tv_cut.
Print Assumptions c06_lazy_tv_cut_view.
Print Assumptions c06_lazy_rc_cut.
Print Assumptions c06_lazy_rc2_cut.
Print Assumptions c06_unknown_complete_rc.
Print Assumptions c06_lazy_all_cuts.
Print Assumptions c06_unknown_all_cuts.
Print Assumptions c06_unknown_complete.
