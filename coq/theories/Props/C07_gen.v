(* C07 / C08 (companion) -- the CONTROL LOGIC of TdmsWriter.write_segment and the duplicate-path check of
   TdmsSegment.__init__, TRANSLATED from nptdms/writer.py on every run (harness/gen/gen_pyfuncs_wctl.py ->
   Gen/PyFuncsWCtl.v; about 580 self-test cases of the real TdmsWriter embedded as Examples), equal the
   hand model Model/Writer.v wr_objects that write_read and writer_structurally_valid are about.
   Statements only (proofs: Proofs/GenWCtlEquiv.v).

   Writing a segment to a file is a parameter (io_write over an abstract file state) -- what
   TdmsSegment.write produces is the subject of Props/C08_gen.v and the byte-level model.
   Sets are lists observed through membership; ObjectPath.from_string is Model/Path.v from_string. *)
From Coq Require Import List ZArith Bool.
From Coq Require Import Init.Byte.
Import ListNotations.
From NpTdms Require Import Base.Bytes Base.Res Model.Tokens Model.ByteStr Model.StrictParse Model.Writer
     Gen.PyFuncsWriter Gen.PyFuncsWCtl Proofs.WriterProofs Proofs.WriterClauses Proofs.GenWCtlEquiv.
Local Open Scope Z_scope.

(* TdmsSegment.__init__: ValueError exactly when two objects have the same path *)
Theorem tdms_segment_init_translated : forall objs is_index_file version,
    tdms_segment_init_gen objs is_index_file version
    = if has_dup (map obj_path objs) then Err EValue else Ok (objs, version, is_index_file).
Proof. exact tdms_segment_init_eq. Qed.

(* write_segment: which objects are written (root added iff none was written before and none is passed;
   a group object added for every channel's group that is neither passed nor written before, in sorted
   order; then root < groups < channels, stably), the duplicate check, the two writes with the same
   objects, and the state afterwards -- all as Model/Writer.v wr_objects says *)
Theorem write_segment_translated : forall F (io_write : F -> list wobj * Z * bool -> res F) rw gw f fi v objs,
    write_segment_gen F io_write rw gw f fi v objs
    = do '(sorted, st') <- wr_objects (mkW rw gw) objs;
      do f' <- io_write f (sorted, v, false);
      do fi' <- match fi with
                | Some x => do y <- io_write x (sorted, v, true); Ok (Some y)
                | None => Ok None
                end;
      Ok (root_written st', groups_written st', f', fi').
Proof. exact write_segment_eq. Qed.

(* _root_written / _groups_written are updated only AFTER both writes: when the last write is attempted
   the state is still the one before the call (so a failed write_segment can be repeated) *)
Theorem write_segment_state_unchanged_until_written :
  forall F (io_write : F -> list wobj * Z * bool -> res F) rw gw f fi v objs,
    write_segment_before_last_write_gen F io_write rw gw f fi v objs
    = do '(sorted, _) <- wr_objects (mkW rw gw) objs;
      do f' <- io_write f (sorted, v, false);
      Ok (sorted, rw, gw, f', fi).
Proof. exact write_segment_before_last_write_eq. Qed.

(* headline restated: the objects the translated method hands to TdmsSegment.write are the three-way
   partition of the passed objects plus the added ones, and their segment syntax is entry by entry
   what was passed (Props/C07.v written_objects) *)
Theorem written_objects_translated : forall rw gw v objs rw' gw' (written : list (list wobj)) s sorted,
    write_segment_gen (list (list wobj)) log_write rw gw [] None v objs = Ok (rw', gw', written, None) ->
    written = [sorted] ->
    syntax_of_objs v sorted = Ok s ->
    sorted = partition3 (pairs_of (mkW rw gw) objs) /\
    sg_entries s = map entry_of sorted /\
    sg_values s = map obj_values sorted.
Proof. exact written_objects_gen. Qed.

(* a whole writer session through the translated method: the segments written are those whose syntax
   write_read (Props/C07_read.v) reads back *)
Theorem session_translated : forall v calls segs,
    ws_calls false [] [] v calls = Ok segs ->
    syntax_of_calls v calls = mapM (syntax_of_objs v) segs.
Proof. exact session_gen. Qed.

(* ---- non-vacuity ---- *)
Example c07_gen_write_segment :
  write_segment_gen (list (list bytes * bool)) (fun f sg => Ok (f ++ [(map obj_path (fst (fst sg)), snd sg)]))
                    true [[x67]] [] (Some []) 4713 ex_objs
  = Ok (true, [[x67]; [x7a]; [x68]],
        [([[x2f; x27; x7a; x27]; [x2f; x27; x68; x27]; [x2f; x27; x68; x27; x2f; x27; x78; x27];
           [x2f; x27; x67; x27; x2f; x27; x79; x27]], false)],
        Some [([[x2f; x27; x7a; x27]; [x2f; x27; x68; x27]; [x2f; x27; x68; x27; x2f; x27; x78; x27];
                [x2f; x27; x67; x27; x2f; x27; x79; x27]], true)]).
Proof. exact ex_write_segment. Qed.

Example c07_gen_duplicate :
  write_segment_gen (list (list bytes * bool)) (fun f sg => Ok (f ++ [(map obj_path (fst (fst sg)), snd sg)]))
                    false [] [] None 4712 [WGroup [x67] []; WGroup [x67] []] = Err EValue.
Proof. exact ex_duplicate. Qed.

Example c07_gen_session : exists segs,
  ws_calls false [] [] 4712 [ex_objs; ex_objs] = Ok segs /\ length segs = 2%nat /\
  map (map obj_path) segs
  = [[[x2f]; [x2f; x27; x7a; x27]; [x2f; x27; x67; x27]; [x2f; x27; x68; x27];
      [x2f; x27; x68; x27; x2f; x27; x78; x27]; [x2f; x27; x67; x27; x2f; x27; x79; x27]];
     [[x2f; x27; x7a; x27]; [x2f; x27; x68; x27; x2f; x27; x78; x27]; [x2f; x27; x67; x27; x2f; x27; x79; x27]]].
Proof. eexists. split; [vm_compute; reflexivity|]. split; vm_compute; reflexivity. Qed.

Print Assumptions tdms_segment_init_translated.
Print Assumptions write_segment_translated.
Print Assumptions write_segment_state_unchanged_until_written.
Print Assumptions written_objects_translated.
Print Assumptions session_translated.
Print Assumptions c07_gen_write_segment.
Print Assumptions c07_gen_duplicate.
Print Assumptions c07_gen_session.
