(* C18 (companion) -- rounding error of the binary64 evaluation of the thermocouple
   polynomials, closing the gap named in the header of Props/C18.v ("rounding of the float
   evaluation (polyval) is not bounded").
   Statements only; proofs live in Proofs/HornerRound.v (generic theorem),
   Proofs/HornerTables.v, HornerTablesFwd.v, HornerTablesInv.v (instances on
   Gen/ThermoTables.v, regenerated from nptdms/thermocouples.py on every run) and Proofs/HornerCompose.v (composition with
   Props/C18.v).

   Vocabulary (Proofs/HornerRound.v):  FR x = B2R (Prim2B x), the real number a primitive
   float denotes through Flocq's bridge IEEE754/PrimFloat.v;  Ffin x = x is a finite binary64
   number;  u64 = 2^-53, eta64 = 2^-1075, ovf64 = 2^1024;
     hb c cs X  magnitude bound of the float Horner value for |x| <= X,
     he c cs X  bound of |float Horner - real Horner|, by recursion on the coefficients with
                the standard model rnd z = z(1+eps)+eta per operation (round to nearest even
                with gradual underflow; Flocq Prop/Relative.error_N_FLT),
     hsafe c cs X  every partial magnitude bound is < 2^1024 (no overflow).
   numpy's polyval starts with c[-1] + x*0; for finite x this is c[-1] exactly (proved).

   Numbers proved (eps per piece: fwd_Xe / inv_Xe in Proofs/HornerTables.v; per type the
   largest):  forward, mV:   B 9.3e-12  E 3.1e-10  J 1.2e-11  K 1.9e-11  N 3.7e-11
                             R 6.4e-13  S 6.1e-13  T 2.9e-9
              inverse, degC: B 2.6e-10  E 1.0e-10  J 1.3e-10  K 3.9e-10  N 1.3e-10
                             R 4.0e-10  S 6.0e-10  T 5.2e-12
   These are worst-case bounds over |x| <= X of the piece (X = the larger end of the piece's
   range inside the NIST range), not measured errors.

   What is NOT proved: the type-K exponential term a_0*exp(a_1*(t-a_2)^2) has no binary64
   model (PrimFloat has no exp); for type K from 0 degC on, the bound is for
   (float polynomial value) + (exact real exponential term), stated as such
   (forward_reference_type_k).  The multiplication by 1000 / division by 1000 of
   ThermocoupleScaling.scale is not included.  The inverse bound is for voltages inside
   inv_range T (the EMF span of the type over its NIST temperature range, rounded outwards;
   forward values of every NIST inverse validity range are proved to lie inside). *)
From Coq Require Import Reals ZArith List Lra.
From Coq Require Import PrimFloat.
From Interval Require Import Tactic.
Import ListNotations.
From NpTdms Require Import Gen.ThermoTables.
From NpTdms Require Import Gen.ThermoNist.
From NpTdms Require Import Model.ThermoF.
From NpTdms Require Import Model.ThermoR.
From NpTdms Require Import Proofs.HornerRound.
From NpTdms Require Import Proofs.HornerTables.
From NpTdms Require Import Proofs.HornerTablesFwd.
From NpTdms Require Import Proofs.HornerTablesInv.
From NpTdms Require Import Proofs.HornerCompose.
Open Scope R_scope.

(* ---- 1. the generic theorem ------------------------------------------------------------------ *)

(* For finite coefficients c :: cs and finite x with |x| <= X, if no partial magnitude bound
   reaches 2^1024, the binary64 Horner value is finite, bounded by hb, and within he of the
   exact real Horner value of the same coefficients at the same x. *)
Theorem horner_rounding : forall (cs : list float) (c x : float) (X : R),
  Ffin x -> Ffin c -> Forall Ffin cs ->
  Rabs (FR x) <= X ->
  hsafe (FR c) (map FR cs) X ->
  Ffin (horner c cs x) /\
  Rabs (FR (horner c cs x)) <= hb (FR c) (map FR cs) X /\
  Rabs (FR (horner c cs x) - hornerR (FR c) (map FR cs) (FR x)) <= he (FR c) (map FR cs) X.
Proof. exact horner_rounding_gen. Qed.

(* ---- 2. instances on the code's tables --------------------------------------------------------- *)

(* every PrimFloat literal of Gen/ThermoTables.v denotes the hex real literal emitted next to
   it: the table over R is the table over binary64 carried into R (so far an assumption of
   the C18 evidence: "rests on the translator and Coq's number notations") *)
Theorem tables_float_real_agree : forall T,
  map piece_FR (code_fwdF T) = map Some (code_fwdR T) /\
  map piece_FR (code_invF T) = map Some (code_invR T).
Proof. intros T. split; [exact (fwd_tables_FR T)|exact (inv_tables_FR T)]. Qed.

(* per forward piece (float piece pF, real piece q, (X, eps)): for every finite x that q
   selects inside the NIST temperature range, the float Horner value is finite and within eps
   (mV) of the exact real polynomial of q *)
Theorem forward_pieces_rounding : forall T,
  all3 (piece_rounding (fst (fwd_range T)) (snd (fwd_range T))) (code_fwdF T) (code_fwdR T) (fwd_Xe T).
Proof. exact forward_pieces_rounding_all. Qed.

(* per inverse piece, for voltages inside inv_range T; eps in degC *)
Theorem inverse_pieces_rounding : forall T,
  all3 (piece_rounding (fst (inv_range T)) (snd (inv_range T))) (code_invF T) (code_invR T) (inv_Xe T).
Proof. exact inverse_pieces_rounding_all. Qed.

(* ---- 3. composed with Props/C18.v --------------------------------------------------------------- *)

(* the polynomial part of celsius_to_mv, all eight types: for every finite binary64 x in the
   NIST range the model returns a finite v, and v is within eps_fwd T of the exact real
   polynomial of the piece that selects FR x *)
Theorem forward_rounding : forall T, exists tc, type_tc T = Ok tc /\
  forall x, Ffin x -> fst (fwd_range T) <= FR x <= snd (fwd_range T) ->
  exists v q, celsius_to_mv_poly tc x = Ok v /\ Ffin v /\ In q (code_fwdR T) /\ selR q (FR x) /\
              Rabs (FR v - polyR q (FR x)) <= eps_fwd T.
Proof. exact forward_rounding_all. Qed.

(* the same with the range taken from the vendored NIST table and tested by IEEE comparisons:
   NaN and the infinities fail the comparisons, every other binary64 in the range is covered *)
Theorem forward_rounding_float_range : forall T, exists tc, type_tc T = Ok tc /\
  forall x, (nist_loF T <=? x)%float = true -> (x <=? nist_hiF T)%float = true ->
  exists v q, celsius_to_mv_poly tc x = Ok v /\ Ffin v /\ In q (code_fwdR T) /\ selR q (FR x) /\
              Rabs (FR v - polyR q (FR x)) <= eps_fwd T.
Proof. exact forward_rounding_float_range_all. Qed.

(* types without exponential term (B, E, J, N, R, S, T): celsius_to_mv returns a finite v
   within eps_fwd T of THE reference value at FR x (fwd_value: the exact real function of the
   coefficients, which are bit for bit NIST's by C18.tables_are_nist) *)
Theorem forward_reference : forall T, code_expF T = None -> exists tc, type_tc T = Ok tc /\
  forall x, Ffin x -> fst (fwd_range T) <= FR x <= snd (fwd_range T) ->
  exists v, celsius_to_mv tc x = Ok (Exact v) /\ Ffin v /\
    (exists r, fwd_value (code_expR T) (code_fwdR T) (FR x) r) /\
    forall r, fwd_value (code_expR T) (code_fwdR T) (FR x) r -> Rabs (FR v - r) <= eps_fwd T.
Proof. exact forward_reference_all. Qed.

(* type K: below 0 degC as above (the code adds 0.0, exactly); from 0 degC on the model
   returns PlusExp v a x = "v + a_0*exp(a_1*(x-a_2)^2), not evaluated", and the bound is for
   FR v + the exact real exponential term *)
Theorem forward_reference_type_k : exists tc aF aR, type_tc TK = Ok tc /\
  code_expF TK = Some aF /\ code_expR TK = Some aR /\
  forall x, Ffin x -> fst (fwd_range TK) <= FR x <= snd (fwd_range TK) ->
  (exists r, fwd_value (code_expR TK) (code_fwdR TK) (FR x) r) /\
  (FR x < 0 -> exists v, celsius_to_mv tc x = Ok (Exact v) /\ Ffin v /\
     forall r, fwd_value (code_expR TK) (code_fwdR TK) (FR x) r -> Rabs (FR v - r) <= eps_fwd TK) /\
  (0 <= FR x -> exists v, celsius_to_mv tc x = Ok (PlusExp v aF x) /\ Ffin v /\
     forall r, fwd_value (code_expR TK) (code_fwdR TK) (FR x) r ->
       Rabs (FR v + exp_fun aR (FR x) - r) <= eps_fwd TK).
Proof. exact forward_reference_K. Qed.

(* mv_to_celsius, all eight types: for every finite binary64 voltage in inv_range T the model
   returns a finite value within eps_inv T of the exact real polynomial of the selected piece *)
Theorem inverse_rounding : forall T, exists tc, type_tc T = Ok tc /\
  forall x, Ffin x -> fst (inv_range T) <= FR x <= snd (inv_range T) ->
  exists v q, mv_to_celsius tc x = Ok v /\ Ffin v /\ In q (code_invR T) /\ selR q (FR x) /\
              Rabs (FR v - polyR q (FR x)) <= eps_inv T.
Proof. exact inverse_rounding_all. Qed.

(* every forward value over the NIST temperature range lies inside inv_range T (type K
   including its exponential term) *)
Theorem forward_values_in_inverse_range : forall T t v,
  fst (fwd_range T) <= t <= snd (fwd_range T) ->
  fwd_value (code_expR T) (code_fwdR T) t v ->
  fst (inv_range T) <= v <= snd (inv_range T).
Proof. exact fwd_in_inv_range. Qed.

(* C18.inverse_accuracy in binary64: for every NIST validity range (tl, th) with error bounds
   (lo, hi), every true temperature t in it, v = the exact forward value at t and x a binary64
   number denoting v: the float inverse is finite and  lo - eps <= t' - t <= hi + eps *)
Theorem inverse_of_forward_rounding : forall T tl th lo hi, In (tl, th, lo, hi) (inv_spec T) ->
  exists tc, type_tc T = Ok tc /\
  forall t v x, tl <= t <= th -> fwd_value (code_expR T) (code_fwdR T) t v ->
    Ffin x -> FR x = v ->
    exists t', mv_to_celsius tc x = Ok t' /\ Ffin t' /\
      lo - eps_inv T <= FR t' - t <= hi + eps_inv T.
Proof. exact inverse_of_forward_all. Qed.

(* ---- non-vacuity ---------------------------------------------------------------------------------- *)

(* the generic theorem on coefficients 0.1, 0.2, 0.3 at x = 0.7 (none exactly representable):
   all hypotheses hold, and the bound evaluates to less than 2e-16 *)
Example c18_horner_rounding_instance :
  Ffin (horner 0x1.999999999999ap-4 [0x1.999999999999ap-3; 0x1.3333333333333p-2] 0x1.6666666666666p-1)%float /\
  Rabs (FR (horner 0x1.999999999999ap-4 [0x1.999999999999ap-3; 0x1.3333333333333p-2] 0x1.6666666666666p-1)%float
        - hornerR 0x1.999999999999ap-4 [0x1.999999999999ap-3; 0x1.3333333333333p-2] 0x1.6666666666666p-1)
    <= 2e-16.
Proof.
  assert (E1 : FR 0x1.999999999999ap-4%float = 0x1.999999999999ap-4) by fr_lit.
  assert (E2 : FR 0x1.999999999999ap-3%float = 0x1.999999999999ap-3) by fr_lit.
  assert (E3 : FR 0x1.3333333333333p-2%float = 0x1.3333333333333p-2) by fr_lit.
  assert (E4 : FR 0x1.6666666666666p-1%float = 0x1.6666666666666p-1) by fr_lit.
  destruct (horner_rounding [0x1.999999999999ap-3; 0x1.3333333333333p-2]%float
              0x1.999999999999ap-4%float 0x1.6666666666666p-1%float 0.75) as [Hf [_ Hb]].
  - apply Ffin_prim. vm_compute. reflexivity.
  - apply Ffin_prim. vm_compute. reflexivity.
  - repeat (apply Forall_cons; [apply Ffin_prim; vm_compute; reflexivity|]). apply Forall_nil.
  - rewrite E4. interval.
  - cbn [map hsafe hb]. rewrite E1, E2, E3. unfold ovf64, u64, eta64. repeat split; interval.
  - split; [exact Hf|].
    cbn [map he hb] in Hb. rewrite E1, E2, E3, E4 in Hb.
    eapply Rle_trans; [exact Hb|]. unfold u64, eta64. interval.
Qed.

(* the float model at 100 degC, type K (second piece, exponential term on): the hypotheses of
   forward_reference_type_k hold for the binary64 number 100.0 and the reference value exists *)
Example c18_type_k_100_float : exists tc aF aR v r,
  type_tc TK = Ok tc /\ code_expR TK = Some aR /\
  celsius_to_mv tc 100%float = Ok (PlusExp v aF 100%float) /\ Ffin v /\
  fwd_value (code_expR TK) (code_fwdR TK) 100 r /\
  Rabs (FR v + exp_fun aR 100 - r) <= 1.9e-11.
Proof.
  destruct forward_reference_type_k as [tc [aF [aR [Htc [HF [HR H]]]]]].
  assert (E : FR 100%float = 100) by fr_lit.
  assert (Hx : Ffin 100%float) by (apply Ffin_prim; vm_compute; reflexivity).
  assert (Hr : fst (fwd_range TK) <= FR 100%float <= snd (fwd_range TK))
    by (rewrite E; cbv [fwd_range fst snd]; lra).
  destruct (H 100%float Hx Hr) as [[r Hfr] [_ Hpos]].
  destruct Hpos as [v [Hv [Hfin Hb]]]; [rewrite E; lra|].
  rewrite E in Hfr, Hb.
  exists tc, aF, aR, v, r. repeat split; try assumption.
  exact (Hb r Hfr).
Qed.

(* the inverse composition is not vacuous: type S, row 1064..1664.5 degC (NIST error
   +-0.0003 degC): the forward value at 1100 degC exists, and IF a binary64 number denotes it
   the float inverse is within 0.0003 + 6.0e-10 degC *)
Example c18_type_s_1100 : exists tc v,
  type_tc TS = Ok tc /\ fwd_value (code_expR TS) (code_fwdR TS) 1100 v /\
  forall x, Ffin x -> FR x = v ->
    exists t', mv_to_celsius tc x = Ok t' /\ Ffin t' /\
      -0.0003 - 6.0e-10 <= FR t' - 1100 <= 0.0003 + 6.0e-10.
Proof.
  destruct (inverse_of_forward_rounding TS 1064 1664.5 (-0.0003) 0.0003) as [tc [Htc H]].
  { right; right; left; reflexivity. }
  exists tc, (polyR type_s_fwdR_1 1100). split; [exact Htc|]. split.
  - exists type_s_fwdR_1. split; [right; left; reflexivity|]. split.
    + cbv [selR pr_start pr_end type_s_fwdR_1 fst snd wrR_both]. split; interval.
    + apply PV_none. reflexivity.
  - intros x Hx Hxv.
    apply (H 1100 (polyR type_s_fwdR_1 1100) x); [lra| |exact Hx|exact Hxv].
    exists type_s_fwdR_1. split; [right; left; reflexivity|]. split.
    + cbv [selR pr_start pr_end type_s_fwdR_1 fst snd wrR_both]. split; interval.
    + apply PV_none. reflexivity.
Qed.

(* One traversal of the Interval / Flocq libraries for all statements (each traversal costs
   several seconds): the output is the union of their assumptions. *)
Definition c18_round_statements :=
  (horner_rounding, tables_float_real_agree, forward_pieces_rounding, inverse_pieces_rounding,
   forward_rounding, forward_rounding_float_range, forward_reference, forward_reference_type_k,
   inverse_rounding, forward_values_in_inverse_range, inverse_of_forward_rounding,
   c18_horner_rounding_instance, c18_type_k_100_float, c18_type_s_1100).
Print Assumptions c18_round_statements.
