(* C09 (composed) — a matching index file is transparent, END TO END: composed with
   the whole-file read theorems (C01 read_correct / reader_refines_spec, C03
   lazy_is_window_of_eager, C06 truncation_values_prefix) and with the WRITER's
   index file (C07 write_read, C08 "the index is the data file with the raw data
   removed and the tag replaced").  Statements only; proofs: Proofs/IndexCompose.v.

   Props/C09.v and C09_file.v say: the metadata pass over the index image is the
   pass over the data image.  Here that is carried to what the user sees.

   [ser_file segs] / [ser_index segs] (Model/FileSyn.v) are the .tdms and the
   matching .tdms_index bytes of a file syntax; [rd_all_idx data index]
   (Model/Reader.v) is TdmsFile.read(path) with path + "_index" beside it:
   metadata from the index (clamped against the DATA file's size), data from the
   data file.  Three entry points had no model and are DEFINED in
   Proofs/IndexCompose.v, each mirroring the quoted Python:
     channel_view_idx / lz_read_bytes_idx / lz_plan_bytes_idx
         TdmsFile.open(path) with an index beside it: reader.read_metadata reads
         self._index_file with require_segment_indexes=True; every data read
         (_verify_segment_start, segment.read_raw_data_for_channel) goes to
         self._file.  = LazyBytes.channel_view with the state taken from the index.
     lz_read_index_only
         channel.read_data(offs, len) / channel[a:b] on TdmsFile.open(index ALONE):
         tdms.py _read_channel_data: ValueError for a negative offset / length,
         nothing for a channel without data type, otherwise
         RuntimeError("Data cannot be read from index file only").
     meta_tokens st h
         the metadata-only observation rd_meta_obs returns for state st and
         hierarchy h: expected_tokens st h _ without the data.

   EAGER (1)
     index_transparent_read_ser  wf_file segs -> rd_all_idx (ser_file segs) (ser_index segs)
                                 = rd_all (ser_file segs)           (errors included)
     index_read_correct          under read_correct's hypotheses
                                 = Ok (expected_tokens st h (concat chunkss), true)
     index_read_refines_spec     under reader_refines_spec's = Ok (spec_tokens c, true)
     index_read_rejects_forbidden  the three forbidden encodings are rejected
                                 through the index too
   INDEX ALONE (2)
     index_only_state            rd_metadata (ser_index segs) true None w = sm_run segs w:
                                 without any file size the pass over the lone
                                 index is the state machine run on the syntax
     index_only_meta_obs_eq      the metadata observation of the lone index = that
                                 of the data file (errors included)
     index_only_metadata         under read_correct's hypotheses it is
                                 Ok (meta_tokens st h) with the SAME st and h as in
                                 read_correct's expected_tokens st h (concat chunkss):
                                 same objects, order, properties, data types,
                                 lengths, file status; for TdmsFile.read_metadata /
                                 read (w = false) and TdmsFile.open (w = true);
                                 and every typed channel's length is the number of
                                 values the data file holds for it
     index_only_refuses_data     lz_read_index_only on a channel of the file:
                                 ValueError for negative arguments, else
                                 RuntimeError when the channel has a data type
     index_only_never_returns_data   ... so never Ok for a typed channel.
       Only the read_data / slice path is modelled; the model of the guard is not
       tied by a correspondence run of its own - harness/c09.py checks on the
       implementation that every data read of a lone index raises (read_data,
       slice, integer index, iteration, data_chunks).  Replay of the example below
       on /repo: read_data and [:] raise RuntimeError, read_data(-1) ValueError, as
       the model says; channel[0] raises AttributeError ('NoneType' object has no
       attribute 'seek': _read_at_index does not pass the guard) - an error, not
       data, so the property holds, but not the intended message.
   LAZY (4)
     channel_view_idx_ser, lazy_idx_eq_ser   the per-channel view, every window and
                                 every fetch plan with the index beside the file =
                                 without it (errors included)
     lazy_idx_is_window_of_eager every window read through the index is the window
                                 of the eager data (hypotheses of C03_read)
   TRUNCATED DATA FILE, COMPLETE INDEX (5).  The data file is cut anywhere inside
   the LAST segment's raw data (what a crash during the last write leaves when the
   index was flushed): init ++ [s], blen file - blen (fs_data s) <= k <= blen file.
     index_transparent_truncated_meta / _truncated / _truncated_lazy
                                 metadata pass (state or error, with and without
                                 segment indexes), eager read, lazy view and
                                 windows: through the complete index = on the cut
                                 data file alone.  Route: Proofs/IndexProofs.v
                                 index_transparent (whose segs_ok lets the last
                                 segment be shorter than declared) through the
                                 bridge iseg / iseg_cut from file syntax to
                                 lead-in / metadata bytes / raw bytes.
     index_truncated_values_prefix   composed with C06 truncation_values_prefix:
                                 under read_correct's hypotheses for the COMPLETE
                                 file the read through the index succeeds, the
                                 hierarchy is the complete file's up to lengths
                                 (hier_sim hc h: every metadata block lies before
                                 the cut), every channel's values are a prefix of
                                 the complete file's and contain all values of
                                 init, len(channel) = number of values, and the
                                 incomplete flag is set iff k < blen file.
     NOT covered: a cut before the last segment's raw data with a complete index
     (the index then describes segments the data file does not have; the real
     reader clamps / fails on _verify_segment_start; outside "matching").
   WRITER (3)
     writer_index_is_ser_index   wr_file sessions = Ok (data, index) (Model/Writer.v,
                                 compared byte for byte with TdmsWriter incl. its
                                 index file by the C07/C08 checks) -> data =
                                 ser_file F and index = ser_index F for ONE
                                 well-formed syntax F = fsegs_of sl: C08's
                                 ser_index_segment per call is FileSyn's
                                 ser_seg TAG_INDEX false of the call's syntax
     writer_index_transparent_eq rd_all_idx data index = rd_all data; metadata with
                                 / without file size; lazy view, windows, plans
                                 (no hypothesis on data types: errors included)
     writer_index_transparent    under write_read's hypotheses
                                 rd_all_idx data index = rd_all data
                                 = Ok (content_tokens_of_calls sessions, true).

   Examples: rc_file of C01_read (theorem instance and vm_compute of the
   byte-level model on the two byte strings: eager, index alone, refusal, lazy
   windows, cut at 250 with the complete index; every cut 235..254 by the
   theorem) and the c07_example writer sessions (data + index written by the
   writer model, read through the index).  The rc_file byte strings (254 + 197
   bytes) were written to disk and read with PYTHONPATH=/repo nptdms: with /
   without index (eager, lazy, cut at 250) and index alone agree with the
   tokens below (dev/c09_read_replay.py). *)
From Coq Require Import List ZArith Bool.
From Coq Require Import Init.Byte.
Import ListNotations.
From NpTdms Require Import Base.Bytes Base.Res Model.Tokens Model.TokensWf Model.ByteStr
  Model.StrictParse Model.Writer Proofs.WriterProofs Props.C07 Props.C07_read.
From NpTdms Require Import Base.PySlice Model.SegState Model.Layout Model.Reader Model.FileSyn
  Model.LazyRead Model.LazyBytes Model.Spec
  Proofs.LayoutProofs Proofs.FileSynProofs Proofs.ReadCorrect Proofs.LazyEagerView Proofs.LazyEagerTop
  Proofs.TruncValuesLayout Proofs.TruncValuesFile
  Proofs.WriteReadSpec Proofs.WriteReadBytes Proofs.IndexCompose.
Local Open Scope Z_scope.

(* ---- (1) eager read through the index ------------------------------------------------------- *)

Theorem index_transparent_read_ser : forall segs,
    FileSynProofs.wf_file segs ->
    rd_all_idx (ser_file segs) (ser_index segs) = rd_all (ser_file segs).
Proof. exact IndexCompose.rd_all_idx_ser. Qed.

Theorem index_read_correct : forall segs st h chunkss,
    FileSynProofs.wf_file segs ->
    sm_run segs false = Ok st ->
    build_hierarchy (rs_om st) = Ok h ->
    segs_encode (rs_segments st) segs chunkss ->
    om_paths_canonical (rs_om st) ->
    typed_objects_are_channels (rs_om st) ->
    rd_all_idx (ser_file segs) (ser_index segs) = Ok (expected_tokens st h (concat chunkss), true).
Proof. exact IndexCompose.index_read_correct. Qed.

Theorem index_read_refines_spec : forall segs c,
    FileSynProofs.wf_file segs -> spec_ok segs ->
    spec_meaning segs = SOk c ->
    rd_all_idx (ser_file segs) (ser_index segs) = Ok (spec_tokens c, true).
Proof. exact IndexCompose.index_read_refines_spec. Qed.

Theorem index_read_rejects_forbidden : forall segs e,
    FileSynProofs.wf_file segs -> spec_ok segs ->
    spec_meaning segs = SErr e -> forbidden e ->
    exists e', rd_all_idx (ser_file segs) (ser_index segs) = Err e'.
Proof. exact IndexCompose.index_read_rejects_forbidden. Qed.

(* ---- (2) the index alone ---------------------------------------------------------------------- *)

Theorem index_only_state : forall segs w,
    FileSynProofs.wf_file segs -> rd_metadata (ser_index segs) true None w = sm_run segs w.
Proof. exact IndexCompose.index_only_meta_ser. Qed.

Theorem index_only_meta_obs_eq : forall segs w,
    FileSynProofs.wf_file segs ->
    rd_meta_obs (ser_index segs) true None w
    = rd_meta_obs (ser_file segs) false (Some (blen (ser_file segs))) w /\
    rd_meta_obs (ser_index segs) true (Some (blen (ser_file segs))) w
    = rd_meta_obs (ser_file segs) false (Some (blen (ser_file segs))) w.
Proof. exact IndexCompose.index_only_meta_obs_eq. Qed.

Theorem index_only_metadata : forall segs st h chunkss w,
    FileSynProofs.wf_file segs ->
    sm_run segs false = Ok st ->
    build_hierarchy (rs_om st) = Ok h ->
    segs_encode (rs_segments st) segs chunkss ->
    om_paths_canonical (rs_om st) ->
    rd_meta_obs (ser_index segs) true None w = Ok (meta_tokens st h) /\
    rd_meta_obs (ser_file segs) false (Some (blen (ser_file segs))) w = Ok (meta_tokens st h) /\
    (forall c, In c (all_channels h) -> ch_dtype c <> None ->
               Z.of_nat (length (chan_values (ch_path c) (concat chunkss))) = ch_len c).
Proof. exact IndexCompose.index_only_metadata. Qed.

(* what meta_tokens is: read_correct's observation without the data *)
Theorem meta_tokens_spelled_out : forall st h chunks,
    meta_tokens st h =
    TZ (match rs_version st with Some v => v | None => 0 end) ::
    obs_hierarchy h (fun _ => []) ++ obs_status st /\
    expected_tokens st h chunks =
    TZ (match rs_version st with Some v => v | None => 0 end) ::
    obs_hierarchy h (fun c => obs_cdata (expected_data chunks c)) ++ obs_status st.
Proof. intros st h chunks. split; reflexivity. Qed.

Theorem index_only_refuses_data : forall segs st h c offs len,
    FileSynProofs.wf_file segs ->
    sm_run segs false = Ok st ->
    build_hierarchy (rs_om st) = Ok h ->
    om_paths_canonical (rs_om st) ->
    In c (all_channels h) ->
    lz_read_index_only (ser_index segs) (ch_path c) offs len =
    if offs <? 0 then Err EValue
    else if match len with Some l => l <? 0 | None => false end then Err EValue
    else match ch_dtype c with None => Ok [] | Some _ => Err ERuntime end.
Proof. exact IndexCompose.index_only_refuses_data. Qed.

Theorem index_only_never_returns_data : forall segs st h c offs len,
    FileSynProofs.wf_file segs ->
    sm_run segs false = Ok st ->
    build_hierarchy (rs_om st) = Ok h ->
    om_paths_canonical (rs_om st) ->
    In c (all_channels h) -> ch_dtype c <> None ->
    exists e, lz_read_index_only (ser_index segs) (ch_path c) offs len = Err e.
Proof. exact IndexCompose.index_only_never_returns_data. Qed.

(* ---- (4) lazy reads with the index beside the file ---------------------------------------------- *)

Theorem channel_view_idx_ser : forall segs p,
    FileSynProofs.wf_file segs ->
    channel_view_idx (ser_file segs) (ser_index segs) p = channel_view (ser_file segs) p.
Proof. exact IndexCompose.channel_view_idx_ser. Qed.

Theorem lazy_idx_eq_ser : forall segs p offs len,
    FileSynProofs.wf_file segs ->
    lz_read_bytes_idx (ser_file segs) (ser_index segs) p offs len = lz_read_bytes (ser_file segs) p offs len /\
    lz_plan_bytes_idx (ser_file segs) (ser_index segs) p offs len = lz_plan_bytes (ser_file segs) p offs len.
Proof. exact IndexCompose.lazy_idx_eq_ser. Qed.

Theorem lazy_idx_is_window_of_eager : forall segs st h chunkss c offs len,
    FileSynProofs.wf_file segs ->
    sm_run segs false = Ok st ->
    build_hierarchy (rs_om st) = Ok h ->
    segs_encode (rs_segments st) segs chunkss ->
    om_paths_canonical (rs_om st) ->
    Forall (fun g => NoDup (map so_path (sg_objs g))) (rs_segments st) ->
    In c (all_channels h) ->
    0 <= offs ->
    (match len with None => True | Some l => 0 <= l end) ->
    lz_read_bytes_idx (ser_file segs) (ser_index segs) (ch_path c) offs len =
    Ok (match len with
        | None => zskipn offs (chan_values (ch_path c) (concat chunkss))
        | Some l => zfirstn l (zskipn offs (chan_values (ch_path c) (concat chunkss)))
        end).
Proof. exact IndexCompose.lazy_idx_is_window_of_eager. Qed.

(* ---- (5) data file cut inside the last segment's raw data, complete index ---------------------- *)

Theorem index_transparent_truncated_meta : forall init s k,
    FileSynProofs.wf_file (init ++ [s]) ->
    blen (ser_file (init ++ [s])) - blen (fs_data s) <= k <= blen (ser_file (init ++ [s])) ->
    forall w,
    rd_metadata (ser_index (init ++ [s])) true (Some k) w
    = rd_metadata (take k (ser_file (init ++ [s]))) false (Some k) w.
Proof. exact IndexCompose.index_transparent_truncated_meta. Qed.

Theorem index_transparent_truncated : forall init s k,
    FileSynProofs.wf_file (init ++ [s]) ->
    blen (ser_file (init ++ [s])) - blen (fs_data s) <= k <= blen (ser_file (init ++ [s])) ->
    rd_all_idx (take k (ser_file (init ++ [s]))) (ser_index (init ++ [s]))
    = rd_all (take k (ser_file (init ++ [s]))).
Proof. exact IndexCompose.index_transparent_truncated. Qed.

Theorem index_transparent_truncated_lazy : forall init s k,
    FileSynProofs.wf_file (init ++ [s]) ->
    blen (ser_file (init ++ [s])) - blen (fs_data s) <= k <= blen (ser_file (init ++ [s])) ->
    forall p offs len,
    channel_view_idx (take k (ser_file (init ++ [s]))) (ser_index (init ++ [s])) p
    = channel_view (take k (ser_file (init ++ [s]))) p /\
    lz_read_bytes_idx (take k (ser_file (init ++ [s]))) (ser_index (init ++ [s])) p offs len
    = lz_read_bytes (take k (ser_file (init ++ [s]))) p offs len.
Proof. exact IndexCompose.index_transparent_truncated_lazy. Qed.

Theorem index_truncated_values_prefix : forall init s st h chunkss k,
    FileSynProofs.wf_file (init ++ [s]) ->
    sm_run (init ++ [s]) false = Ok st ->
    build_hierarchy (rs_om st) = Ok h ->
    segs_encode (rs_segments st) (init ++ [s]) chunkss ->
    om_paths_canonical (rs_om st) ->
    typed_objects_are_channels (rs_om st) ->
    blen (ser_file (init ++ [s])) - blen (fs_data s) <= k <= blen (ser_file (init ++ [s])) ->
    exists stc hc chunks_c,
      rd_all_idx (take k (ser_file (init ++ [s]))) (ser_index (init ++ [s]))
      = Ok (expected_tokens stc hc chunks_c, true) /\
      rd_all (take k (ser_file (init ++ [s]))) = Ok (expected_tokens stc hc chunks_c, true) /\
      hier_sim hc h /\
      (forall p, is_prefix (chan_values p chunks_c) (chan_values p (concat chunkss)) /\
                 is_prefix (chan_values p (concat (firstn (length init) chunkss))) (chan_values p chunks_c)) /\
      (forall c, In c (all_channels hc) ->
                 ch_len c = Z.of_nat (length (chan_values (ch_path c) chunks_c))) /\
      exists rest, obs_status stc = TZ (if k <? blen (ser_file (init ++ [s])) then 1 else 0) :: rest.
Proof. exact IndexCompose.index_truncated_values_prefix. Qed.

(* ---- (3) the writer's index file ------------------------------------------------------------------ *)

Theorem writer_index_is_ser_index : forall sessions data index,
    Writer.wf_file sessions = true ->
    sizes_below_marker sessions = true ->
    wr_file sessions = Ok (data, index) ->
    exists sl,
      sorted_file sessions = Ok sl /\
      FileSynProofs.wf_file (fsegs_of sl) /\
      data = ser_file (fsegs_of sl) /\
      index = ser_index (fsegs_of sl).
Proof. exact IndexCompose.writer_index_is_ser_index. Qed.

Theorem writer_index_transparent_eq : forall sessions data index,
    Writer.wf_file sessions = true ->
    sizes_below_marker sessions = true ->
    wr_file sessions = Ok (data, index) ->
    rd_all_idx data index = rd_all data /\
    (forall w, rd_metadata index true (Some (blen data)) w = rd_metadata data false (Some (blen data)) w) /\
    (forall w, rd_metadata index true None w = rd_metadata data false (Some (blen data)) w) /\
    (forall w, rd_meta_obs index true None w = rd_meta_obs data false (Some (blen data)) w) /\
    (forall p, channel_view_idx data index p = channel_view data p) /\
    (forall p offs len, lz_read_bytes_idx data index p offs len = lz_read_bytes data p offs len) /\
    (forall p offs len, lz_plan_bytes_idx data index p offs len = lz_plan_bytes data p offs len).
Proof. exact IndexCompose.writer_index_transparent_eq. Qed.

Theorem writer_index_transparent : forall sessions data index,
    Writer.wf_file sessions = true ->
    sizes_below_marker sessions = true ->
    dtypes_consistent sessions = true ->
    wr_file sessions = Ok (data, index) ->
    rd_all_idx data index = rd_all data /\
    rd_all_idx data index = Ok (content_tokens_of_calls sessions, true).
Proof. exact IndexCompose.writer_index_transparent. Qed.

(* ---- the hypotheses are satisfiable; both sides compute ------------------------------------------- *)

(* rc_file (hypotheses: Props/C01_read.v c01_read_wf ... c01_read_typed_channels) *)
Example c09_read_sizes :
  blen (ser_file rc_file) = 254 /\ blen (ser_index rc_file) = 197 /\
  read_at 0 4 (ser_index rc_file) = Reader.TAG_INDEX /\ read_at 169 4 (ser_index rc_file) = Reader.TAG_INDEX.
Proof. exact rc_index_sizes. Qed.

Example c09_read_example :
  rd_all_idx (ser_file rc_file) (ser_index rc_file) = Ok (expected_tokens rc_st rc_h (concat rc_chunks), true).
Proof. exact rc_index_read_correct. Qed.

Example c09_read_example_tokens :
  rd_all_idx (ser_file rc_file) (ser_index rc_file) = Ok (rc_full_tokens, true) /\
  expected_tokens rc_st rc_h (concat rc_chunks) = rc_full_tokens.
Proof. exact rc_index_read_eval. Qed.

Example c09_read_index_only :
  rd_meta_obs (ser_index rc_file) true None false = Ok rc_meta_only_tokens /\
  rd_meta_obs (ser_index rc_file) true None true = Ok rc_meta_only_tokens /\
  rd_meta_obs (ser_file rc_file) false (Some (blen (ser_file rc_file))) false = Ok rc_meta_only_tokens /\
  meta_tokens rc_st rc_h = rc_meta_only_tokens.
Proof. exact rc_index_only_meta_eval. Qed.

Example c09_read_index_only_refuses :
  lz_read_index_only (ser_index rc_file) rc_path_a 0 None = Err ERuntime /\
  lz_read_index_only (ser_index rc_file) rc_path_b 2 (Some 1) = Err ERuntime /\
  lz_read_index_only (ser_index rc_file) rc_path_a (-1) None = Err EValue /\
  lz_read_index_only (ser_index rc_file) rc_path_a 0 (Some (-1)) = Err EValue.
Proof. exact rc_index_only_refuses_eval. Qed.

Section Tokens.
Import String.
Local Open Scope string_scope.

Example c09_read_lazy :
  lz_read_bytes_idx (ser_file rc_file) (ser_index rc_file) rc_path_a 1 (Some 4) =
  Ok [hex "02000000"; hex "03000000"; hex "04000000"; hex "05000000"] /\
  lz_read_bytes_idx (ser_file rc_file) (ser_index rc_file) rc_path_b 3 None =
  Ok [hex "78797a"; hex "71"; hex "7273"] /\
  lz_plan_bytes_idx (ser_file rc_file) (ser_index rc_file) rc_path_a 1 (Some 4) =
  lz_plan_bytes (ser_file rc_file) rc_path_a 1 (Some 4).
Proof. exact rc_lazy_idx_eval. Qed.

(* data file 4 bytes short, index complete *)
Example c09_read_cut250 :
  rd_all_idx (take 250 (ser_file rc_file)) (ser_index rc_file) = Ok (rc_cut250_tokens, true) /\
  rd_all (take 250 (ser_file rc_file)) = Ok (rc_cut250_tokens, true) /\
  lz_read_bytes_idx (take 250 (ser_file rc_file)) (ser_index rc_file) rc_path_a 0 None =
  Ok [hex "01000000"; hex "02000000"; hex "03000000"; hex "04000000"] /\
  lz_read_bytes_idx (take 250 (ser_file rc_file)) (ser_index rc_file) rc_path_b 1 (Some 2) =
  Ok [hex "63"; []].
Proof. exact rc_cut250_idx_eval. Qed.
End Tokens.

Example c09_read_truncated_applies : forall k, 235 <= k <= 254 ->
  exists stc hc chunks_c,
    rd_all_idx (take k (ser_file rc_file)) (ser_index rc_file) = Ok (expected_tokens stc hc chunks_c, true) /\
    rd_all (take k (ser_file rc_file)) = Ok (expected_tokens stc hc chunks_c, true) /\
    hier_sim hc rc_h /\
    (forall p, is_prefix (chan_values p chunks_c) (chan_values p (concat rc_chunks)) /\
               is_prefix (chan_values p (concat (firstn 1 rc_chunks))) (chan_values p chunks_c)) /\
    (forall c, In c (all_channels hc) ->
               ch_len c = Z.of_nat (length (chan_values (ch_path c) chunks_c))) /\
    exists rest, obs_status stc = TZ (if k <? 254 then 1 else 0) :: rest.
Proof. exact rc_truncated_applies. Qed.

(* the c07_example writer sessions (Props/C07.v): int16 channel with an Int64
   property, string channel, a later call giving group g a property, an append
   session.  The writer model writes data AND index; the index is shorter, and
   reading through it gives the content of the calls (by the theorem) *)
Example c09_read_writer_example :
  exists low data index,
    lower_file c07_example = Ok low /\
    Writer.wf_file low = true /\ sizes_below_marker low = true /\ dtypes_consistent low = true /\
    wr_file low = Ok (data, index) /\
    rd_all_idx data index = rd_all data /\
    rd_all_idx data index = Ok (c07_example_tokens, true) /\
    content_tokens_of_calls low = c07_example_tokens.
Proof.
  destruct (lower_file c07_example) as [low|e] eqn:El; [|vm_compute in El; discriminate].
  assert (Hl : Ok low = lower_file c07_example) by (symmetry; exact El).
  vm_compute in Hl. injection Hl as Hlow.
  assert (Hwf : Writer.wf_file low = true) by (rewrite Hlow; vm_compute; reflexivity).
  assert (Hsz : sizes_below_marker low = true) by (rewrite Hlow; vm_compute; reflexivity).
  assert (Hdt : dtypes_consistent low = true) by (rewrite Hlow; vm_compute; reflexivity).
  assert (Hspec : content_tokens_of_calls low = c07_example_tokens) by (rewrite Hlow; vm_compute; reflexivity).
  destruct (wr_file low) as [[d i]|e] eqn:E; [|exfalso; rewrite Hlow in E; vm_compute in E; discriminate].
  exists low, d, i. repeat split; try assumption.
  - exact (proj1 (IndexCompose.writer_index_transparent low d i Hwf Hsz Hdt E)).
  - rewrite (proj2 (IndexCompose.writer_index_transparent low d i Hwf Hsz Hdt E)), Hspec. reflexivity.
Qed.

(* the same by evaluation: writer model, then the reader model on (data, index):
   eager through the index = eager = the explicit tokens; the lone index shows the
   data file's metadata; a lazy window through the index; the index is the data
   file without raw data (C08's strip_raw_and_retag) and shorter *)
Definition index_roundtrip_check (py : list (Z * list (list pyobj))) (expect : list tok)
           (path : bytes) (offs : Z) (len : option Z) : bool :=
  match lower_file py with
  | Ok low =>
    Writer.wf_file low && sizes_below_marker low && dtypes_consistent low &&
    match wr_file low with
    | Ok (d, i) =>
      match rd_all_idx d i, rd_all d,
            rd_meta_obs i true None true, rd_meta_obs d false (Some (blen d)) true,
            lz_read_bytes_idx d i path offs len, lz_read_bytes d path offs len,
            strip_raw_and_retag d with
      | Ok (t, true), Ok (t', true), Ok m, Ok m', Ok vs, Ok vs', Some i' =>
        toks_eqb t expect && toks_eqb t' expect && toks_eqb m m' && vals_eqb vs vs' &&
        negb (vals_eqb vs []) && bytes_eqb i i' && (blen i <? blen d)
      | _, _, _, _, _, _, _ => false
      end
    | Err _ => false
    end
  | Err _ => false
  end.

Example c09_read_writer_evaluates :
  index_roundtrip_check c07_example c07_example_tokens p_gc 1 (Some 2) = true /\
  index_roundtrip_check ex_sessions ex_tokens [x2f; x27; x41; x27; x2f; x27; x79; x27] 0 None = true.
Proof. vm_compute. split; reflexivity. Qed.

Print Assumptions index_transparent_read_ser.
Print Assumptions index_read_correct.
Print Assumptions index_read_refines_spec.
Print Assumptions index_read_rejects_forbidden.
Print Assumptions index_only_state.
Print Assumptions index_only_meta_obs_eq.
Print Assumptions index_only_metadata.
Print Assumptions meta_tokens_spelled_out.
Print Assumptions index_only_refuses_data.
Print Assumptions index_only_never_returns_data.
Print Assumptions channel_view_idx_ser.
Print Assumptions lazy_idx_eq_ser.
Print Assumptions lazy_idx_is_window_of_eager.
Print Assumptions index_transparent_truncated_meta.
Print Assumptions index_transparent_truncated.
Print Assumptions index_transparent_truncated_lazy.
Print Assumptions index_truncated_values_prefix.
Print Assumptions writer_index_is_ser_index.
Print Assumptions writer_index_transparent_eq.
Print Assumptions writer_index_transparent.
Print Assumptions c09_read_sizes.
Print Assumptions c09_read_example.
Print Assumptions c09_read_example_tokens.
Print Assumptions c09_read_index_only.
Print Assumptions c09_read_index_only_refuses.
Print Assumptions c09_read_lazy.
Print Assumptions c09_read_cut250.
Print Assumptions c09_read_truncated_applies.
Print Assumptions c09_read_writer_example.
Print Assumptions c09_read_writer_evaluates.
