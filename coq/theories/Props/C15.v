(* C15 — Byte order of a segment does not change its meaning.
   The codec layer: a field / value written in either byte order decodes to the
   same thing, and the raw data decoders return the same values from the
   big-endian and the little-endian encoding of the same content (fixed-size
   values of every type incl. complex and timestamps, strings, contiguous chunks,
   interleaved rows).  (The composition with the whole reader follows C01's
   chain and is PARTIAL to the same extent: see Props/C01.v.) *)
From Coq Require Import List ZArith.
Import ListNotations.
From NpTdms Require Import Base.Bytes Base.Res Model.Tokens Model.SegState Model.Layout Model.Reader
     Proofs.LayoutProofs.
Local Open Scope Z_scope.

Theorem field_endian_irrelevant : forall e e' n z,
    0 <= z < 256 ^ Z.of_nat n -> u_dec e (u_enc e n z) = u_dec e' (u_enc e' n z).
Proof. exact u_dec_enc_any. Qed.

(* value bytes: canonicalisation is an involution in either byte order, for
   every type and length (complex: per component); little-endian is the identity *)
Theorem canon_value_involutive : forall e ty v, canon_value e ty (canon_value e ty v) = v.
Proof. exact LayoutProofs.canon_value_involutive. Qed.

Theorem canon_value_length : forall e ty v, length (canon_value e ty v) = length v.
Proof. exact LayoutProofs.canon_value_length. Qed.

Theorem store_then_canon : forall e ty v, canon_value e ty (store_value e ty v) = v.
Proof. exact LayoutProofs.store_then_canon. Qed.

Theorem canon_value_LE : forall ty v, canon_value LE ty v = v.
Proof. exact LayoutProofs.canon_value_LE. Qed.

Theorem value_endian_irrelevant : forall e e' ty v,
    canon_value e ty (store_value e ty v) = canon_value e' ty (store_value e' ty v).
Proof. exact canon_store_any_endian. Qed.

(* raw data: both encodings of the same values decode to the same result *)
Theorem read_values_endian_irrelevant : forall e e' n o vs rest,
    vals_ok n o vs ->
    read_values e o n (enc_obj e o vs ++ rest) = read_values e' o n (enc_obj e' o vs ++ rest).
Proof. exact read_values_any_endian. Qed.

Theorem contig_chunk_endian_irrelevant : forall e e' ci nchunks final ovs rest,
    Forall (fun ov => vals_ok (chunk_nvals (fst ov) ci nchunks final) (fst ov) (snd ov)) ovs ->
    NoDup (map (fun ov => so_path (fst ov)) ovs) ->
    read_contig_chunk e (map fst ovs) ci nchunks final (enc_chunk e ovs ++ rest) []
    = read_contig_chunk e' (map fst ovs) ci nchunks final (enc_chunk e' ovs ++ rest) [].
Proof. exact read_contig_chunk_any_endian. Qed.

Theorem interleaved_endian_irrelevant : forall e e' objs nchunks nv rows rest,
    objs <> [] ->
    Forall (fun o => so_nvals o = nv) objs ->
    Forall (fun o => sized o <> None) objs ->
    NoDup (map so_path objs) ->
    Forall (row_ok objs) rows ->
    nv * nchunks = Z.of_nat (length rows) ->
    read_interleaved e objs nchunks (enc_rows e objs rows ++ rest)
    = read_interleaved e' objs nchunks (enc_rows e' objs rows ++ rest).
Proof. exact read_interleaved_any_endian. Qed.

Section Examples.
Import String.
Local Open Scope string_scope.
Example c15_value_example :
  canon_value BE T_C64 (hex "0102030405060708") = hex "0403020108070605" /\
  canon_value BE T_C64 (canon_value BE T_C64 (hex "0102030405060708")) = hex "0102030405060708" /\
  canon_value BE T_TIME (hex "000102030405060708090a0b0c0d0e0f") = hex "0f0e0d0c0b0a09080706050403020100".
Proof. exact canon_value_c64_example. Qed.

Example c15_strings_example :
  let o := mkSobj (hex "2f27") true 3 0 (Some T_STRING) None in
  let ss := [hex "616263"; []; hex "c3a9"] in
  enc_strings BE ss = hex "000000030000000300000005616263c3a9" /\
  enc_strings LE ss = hex "030000000300000005000000616263c3a9" /\
  read_values BE o 3 (enc_strings BE ss ++ hex "77")%list = read_values LE o 3 (enc_strings LE ss ++ hex "77")%list.
Proof. vm_compute. repeat split. Qed.
End Examples.

Print Assumptions field_endian_irrelevant.
Print Assumptions canon_value_involutive.
Print Assumptions canon_value_length.
Print Assumptions store_then_canon.
Print Assumptions canon_value_LE.
Print Assumptions value_endian_irrelevant.
Print Assumptions read_values_endian_irrelevant.
Print Assumptions contig_chunk_endian_irrelevant.
Print Assumptions interleaved_endian_irrelevant.
Print Assumptions c15_value_example.
Print Assumptions c15_strings_example.
