(* C15 — Byte order of a segment does not change its meaning.
   The codec layer: a field / value written in either byte order decodes to the
   same thing.  (The composition with the whole reader follows C01's chain and
   is partial to the same extent.) *)
From Coq Require Import List ZArith.
Import ListNotations.
From NpTdms Require Import Base.Bytes Base.Res Model.Tokens Model.SegState Model.Layout Model.Reader.
Local Open Scope Z_scope.

Theorem field_endian_irrelevant : forall e e' n z,
    0 <= z < 256 ^ Z.of_nat n -> u_dec e (u_enc e n z) = u_dec e' (u_enc e' n z).
Proof. exact u_dec_enc_any. Qed.

Print Assumptions field_endian_irrelevant.
