(* C05 (companion) -- the running-offset accounting of the two chunk generators, TRANSLATED from
   nptdms/tdms.py (TdmsChannel.data_chunks: `channel_offset += len(raw_data_chunk)`;
   TdmsFile.data_chunks: `channel_offsets[path] += len(data)` on a defaultdict(int), the DataChunk being
   constructed -- and reading its channels' offsets -- BEFORE the update), equals the offsets the generator
   frames of Model/IoPlan.v hand out (with_offsets / file_with_offsets, which history_independent is
   about).  Statements only (proofs: Proofs/GenLazyIdxEquiv.v, GenLazyIdxIoPlan.v).
   A raw chunk is represented by the len() of its data per channel; channels are numbers in IoPlan and
   path strings in the code: [key] is any injective naming. *)
From Coq Require Import List ZArith Bool.
Import ListNotations.
From NpTdms Require Import Base.Bytes Base.Res Model.Tokens Model.SegState Model.IoPlan Gen.PyFuncsLazyIdx
     Proofs.GenLazyIdxEquiv Proofs.GenLazyIdxIoPlan.
Local Open Scope Z_scope.

(* the k-th ChannelDataChunk carries the number of values of the chunks before it *)
Theorem channel_data_chunks_translated : forall lens, channel_data_chunks_gen lens = Ok (running 0 lens).
Proof. exact channel_data_chunks_eq. Qed.

Theorem file_data_chunks_translated : forall chunks, file_data_chunks_gen chunks = Ok (running_offsets [] chunks).
Proof. exact file_data_chunks_eq. Qed.

(* IoPlan's channel generator yields exactly the translated offsets *)
Theorem channel_offsets_are_translated : forall (cs : list (list Z)) offs,
    channel_data_chunks_gen (map (fun vs => Z.of_nat (length vs)) cs) = Ok offs ->
    with_offsets 0 cs = map (fun ov => OChunk (fst ov) (Vals (snd ov))) (combine offs cs).
Proof. exact channel_offsets_translated. Qed.

(* IoPlan's file generator builds every DataChunk from the translated channel_offsets *)
Theorem file_offsets_are_translated : forall (key : Z -> bytes),
    (forall a b, key a = key b -> a = b) ->
    forall f (l : list (list (Z * list Z))) ys,
    file_data_chunks_gen (map (fun c => enc_lens key (chunk_lens c)) l) = Ok ys ->
    file_with_offsets f [] l
    = map (fun yc => OFChunk (map (fun ch => (ch, (alookup_z0 (key ch) (fst yc),
                                                   odata (assoc Z.eqb ch (map (fun cv => (fst cv, Vals (snd cv))) (snd yc))))))
                                  (f_chans f)))
          (combine ys l).
Proof. exact file_offsets_translated. Qed.

(* two channels; chunks (a:3, b:2), (a:3), (b:4, a:1): the offsets seen by the three DataChunks *)
Example c05_gen_example :
  channel_data_chunks_gen [3; 3; 1] = Ok [0; 3; 6] /\
  (let a := [Byte.x61] in let b := [Byte.x62] in
   match file_data_chunks_gen [[(a, 3); (b, 2)]; [(a, 3)]; [(b, 4); (a, 1)]] with
   | Ok ys => map (fun y => (alookup_z0 a y, alookup_z0 b y)) ys = [(0, 0); (3, 2); (6, 2)]
   | Err _ => False
   end).
Proof. vm_compute. split; reflexivity. Qed.

Print Assumptions channel_data_chunks_translated.
Print Assumptions file_data_chunks_translated.
Print Assumptions channel_offsets_are_translated.
Print Assumptions file_offsets_are_translated.
Print Assumptions c05_gen_example.
