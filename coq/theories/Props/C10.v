(* C10 - Defragmenting a file preserves its content.
   Statements only; proofs live in Proofs/DefragProofs.v (on top of
   Proofs/WriterProofs.v and Proofs/StrictParseProofs.v).

   The full property is

     Theorem defrag_preserves : forall bs c v,
       rd_all_raw bs = Ok c -> non_daqmx c ->
       exists bs' ix c', defrag v (content_of c) = Ok (bs', ix) /\ rd_all_raw bs' = Ok c' /\
         same_hierarchy c c' /\ same_props_raw c c' /\
         forall p, vals c' p = vals c p /\ (vals c p <> [] -> dtype c' p = dtype c p).

   with rd_all_raw the READER model (TdmsFile(..., raw_timestamps=True)), owned
   by the reader checks.  Proved here is the writer half,
   [defrag_preserves_partial], about Model/Defrag.v (the call list
   TdmsWriter.defragment issues, with fixes D2 and D7): for every content whose
   calls are well-formed the destination bytes strict-parse to one segment per
   object of the source, in the source's order - root, then each group followed
   by its channels - each with exactly the source's properties (name, TDMS type,
   raw value bytes: timestamps at full precision), the source's values byte for
   byte, hence the same length, and the source's data type whenever the channel
   holds at least one value (an empty channel keeps a NumPy type and otherwise
   becomes an object without raw data); nothing is inserted; the index file is
   the positional strip.  Missing for the full statement: the composition with
   the reader model on both sides, and that the writer accepts every content the
   reader can produce (wf_file is a hypothesis here: lengths fit their fields,
   value sizes match types - true of everything read from a file). *)
From Coq Require Import List ZArith Bool.
From Coq Require Import Init.Byte.
Import ListNotations.
From NpTdms Require Import Base.Bytes Base.Res Model.Tokens Model.ByteStr Model.StrictParse
  Model.Writer Model.Defrag Proofs.DefragProofs.
Local Open Scope Z_scope.

Theorem defrag_preserves_partial : forall v c data index,
  wf_file [(v, defrag_calls c)] = true ->
  defrag v c = Ok (data, index) ->
  exists segs,
    strict_parse data = Some segs /\
    map seg_view segs = defrag_expected c /\
    strip_raw_and_retag data = Some index.
Proof. exact defrag_preserves_lemma. Qed.

(* the data type a channel is written with: preserved whenever it holds a value *)
Theorem defrag_type_preserved : forall ty v vals,
  defrag_type (Some ty) (v :: vals) = ty.
Proof. reflexivity. Qed.

(* Non-vacuity: root properties, a group with an int32 channel (2 values), an
   empty string channel, an untyped channel and a raw-timestamp channel; a
   second, empty group. *)
Definition c10_example : dcontent :=
  mkDContent [mkProp [x74] T_STRING [x78]]
    [mkDGroup [x67] [mkProp [x70] 3 [x05; x00; x00; x00]]
       [mkDChan [x61] (Some 3) [[x01; x00; x00; x00]; [xff; xff; xff; x7f]] [];
        mkDChan [x73] (Some T_STRING) [] [mkProp [x75] T_STRING [x56]];
        mkDChan [x6e] None [] [];
        mkDChan [x74] (Some T_TIME)
          [[x01; x00; x00; x00; x00; x00; x00; x80; x10; x27; x00; x00; x00; x00; x00; x00]] []];
     mkDGroup [x68] [] []].

Example c10_example_wf : wf_file [(4712, defrag_calls c10_example)] = true.
Proof. vm_compute. reflexivity. Qed.

Example c10_example_defrag :
  exists data index segs,
    defrag 4712 c10_example = Ok (data, index) /\ strict_parse data = Some segs /\
    map seg_view segs = defrag_expected c10_example /\ length segs = 7%nat.
Proof.
  destruct (defrag 4712 c10_example) as [[d i]|e] eqn:E; [|vm_compute in E; discriminate].
  destruct (defrag_preserves_partial _ _ _ _ c10_example_wf E) as [segs [Hp [Hv _]]].
  exists d, i, segs. repeat split; try assumption.
  apply (f_equal (@length _)) in Hv. rewrite map_length in Hv. rewrite Hv. reflexivity.
Qed.

Print Assumptions defrag_preserves_partial.
Print Assumptions defrag_type_preserved.
Print Assumptions c10_example_defrag.
