(* C19 (companion) — Props/C19.v plan_exact_chunks ON THE TRANSLATED GENERATOR TdmsReader.read_raw_data_for_channel
   (Gen/PyFuncsLazyLoop.v, regenerated from nptdms/reader.py on every run; equality with Model/LazyRead.v lz_gen:
   Props/C04_gen3.v, where the conventions -- generators as the list they yield when exhausted, I/O as a parameter,
   the world -- are described).  File I/O is threaded through an abstract file state, so "what was read" is the state
   the function returns: here the log of (segment position, chunk index) pairs.
   Statements only; proofs: Proofs/GenLazyLoopEquiv.v.
   PARTIAL as Props/C04_gen3.v: of the segment-level generator of nptdms/tdms_segment.py (which turns a chunk range into
   seeks and reads) only the part before the delegation to _read_channel_data_chunks is translated
   ([segment_channel_window_translated]: start position and stop_chunk); the per-chunk loop with its re-seeks is
   Model/LazyRanges.v, compared with the recorded read list of the real code for equality on every run of this check. *)
From Coq Require Import List ZArith Bool.
Import ListNotations.
From NpTdms Require Import Base.Bytes Base.Res Base.PySlice Model.Tokens Model.SegState Model.LazyRead
     Gen.PyFuncsReader Gen.PyFuncsLazyIdx Gen.PyFuncsLazyLoop
     Proofs.LazyReadProofs Proofs.LazyWindowProofs Proofs.GenReaderLazy Proofs.GenLazyIdxEquiv Proofs.GenLazyLoopEquiv.
Local Open Scope Z_scope.

(* nptdms/tdms_segment.py TdmsSegment.read_raw_data_for_channel UP TO ITS DELEGATION to _read_channel_data_chunks,
   translated as arithmetic on the file position (segment_channel_window_gen; f.seek(p) sets the position,
   f.seek(d, os.SEEK_CUR) adds to it): the chunk range handed on is [chunk_offset, num_chunks + chunk_offset) -- the
   range seg_fetch reads -- or [chunk_offset, segment.num_chunks) for num_chunks = None; the file stands at
   data_position + chunk_size * chunk_offset; one empty chunk is yielded first exactly when kTocRawData is unset *)
Theorem segment_channel_window_translated : forall s pos0 co nc,
    segment_channel_window_gen s pos0 co nc
    = do cs <- get_chunk_size_gen s;
      Ok (co, match nc with None => sg_nchunks s | Some n => n + co end, cs,
          if co >? 0 then sg_data s + cs * co else sg_data s,
          if Z.land (sg_toc s) 8 =? 0 then 1 else 0).
Proof. exact segment_channel_window_eq. Qed.

Section C19_gen2.
  Variable V : Type.
  Variable path : bytes.
  Variable data_of : segment -> seg_data V.
  Variable segs : list segment.
  Hypothesis Hok : forallb (seg_ok path) segs = true.
  Hypothesis Hfit : zsum (seg_nums unit (seg_views segs path)) < 2 ^ 63.

  Let svs := views V path data_of segs.

  (* the chunks the translated generator reads to serve read_data(offs, len) are EXACTLY the chunks, of segments that
     hold the channel, whose value range meets the window: the amount read is bounded by the request, not by the file *)
  Theorem plan_exact_chunks_translated : forall tbl om f offs len,
      tbl_ok segs path tbl -> alookup path om = Some (total_values V svs) ->
      wf V svs = true -> 0 <= offs -> (match len with None => True | Some l => 0 <= l end) ->
      exists outs log tbl',
        read_raw_data_for_channel_gen iolog V w_verify (w_chunks V path data_of) (Some segs) tbl om f path offs len
        = Ok (outs, tbl', f ++ log) /\
        (forall j c, In (j, c) log <->
           exists sv, 0 <= j /\ nth_error svs (Z.to_nat j) = Some sv /\
                      sv_chunk sv <> 0 /\ 0 <= c < sv_nchunks sv /\
                      chunk_start V (pre V svs j) sv c < win_end (total_values V svs) offs len /\
                      offs < chunk_end V (pre V svs j) sv c).
  Proof. exact (plan_exact_chunks_gen V path data_of segs Hok Hfit). Qed.
End C19_gen2.

(* the example of Props/C04_gen3.v: read_data(4, 7) logs chunk (0, 1), then (2, 0) and (2, 1) -- not chunk (0, 0),
   not (2, 2), nothing of segment 1 *)
Example c19_gen2_example :
  read_raw_data_for_channel_gen iolog Z w_verify (w_chunks Z ex_path ex_data_of) (Some ex_segs) [] [(ex_path, 14)] []
                                ex_path 4 (Some 7)
  = Ok ([[5; 6]; [7; 8; 9]; [10; 11]], [(ex_path, (0, [6; 6; 14]))], [(0, 1); (2, 0); (2, 1)]).
Proof. exact (proj1 ex_loop_run). Qed.

Print Assumptions segment_channel_window_translated.
Print Assumptions plan_exact_chunks_translated.
Print Assumptions c19_gen2_example.
