(* C04 (companion) — hypotheses (b) of Props/C04_gen7.v translated_lazy_read_is_window_of_eager_rawflag_partial DISCHARGED on a
   freshly opened serialised file.  Statements only; proofs: Proofs/GenLazyHyps.v.

   [tbl_ok_cold_table]  the index table of a freshly opened file (tbl = [], nothing cached) satisfies tbl_ok.
   [object_map_entry]  the {path: num_values} map the translated loop reads is om_nums (rs_om st'), the projection of the READER'S OWN
   object_metadata after the metadata pass on ser_file segs; its entry for any object path of the file is
   om_len (get_ometa path (rs_om st)) (Proofs/LazyEagerTop.v rd_metadata_with_index: the indexed pass builds the same object map).
   [seg_nums_sum_is_channel_length]  the sum of the per-segment value counts of the reader's records = the number of expected values
   of the channel in the file = om_len: so "zsum seg_nums < 2^63" is the FILE-level fact "the channel holds fewer than 2^63 values".
   (Not derived from blen (ser_file segs) < 2^63: no existing lemma bounds the value count by the byte count.)
   [translated_lazy_read_is_window_of_eager_cold]  for a channel c of the hierarchy, under the bundle of Props/C03_read.v
   lazy_is_window_of_eager (wf_file, sm_run, build_hierarchy, segs_encode, om_paths_canonical, distinct paths per segment, In c) the
   fully translated lazy read with the cold table and the reader's own object map yields the window [offs, offs+len) of the expected
   values, the receiver is allocated from ch_len c (len(channel)), and the result is what the model lz_read_bytes returns.
   REMAINING hypotheses beyond that bundle, all named:
     - rd_metadata ... = Ok st'        st' is the state of the translated metadata pass on the bytes (always exists: rd_metadata_with_index)
     - strings_valid                   string chunks hold valid UTF-8 (as in Props/C04_gen6.v; vacuous for non-string channels' files)
     - pf_data f2 = ser_file segs      the open file holds the serialised bytes
     - kTocRawData hypothesis          every record in which the channel has a data object has the flag set (NECESSARY: Props/C04_gen7.v
                                       window_theorem_needs_rawflag_clause, finding F3)
     - zlen (chan_values ...) < 2^63   the channel holds fewer than 2^63 values (int64 cumulative sums of _build_index do not wrap)
     - 0 <= offs, 0 <= len
   and, as in Props/C04_gen6.v, (c) _verify_segment_start is the identity on the file (bytes_verify), (d) generators are run to the end.
   No other gap: zsum < 2^63 / tbl_ok / om[path] = om_len of C04_gen7 are no longer hypotheses, hence no _partial in the name.
   [translated_lazy_read_is_window_of_eager_cold_path]  the same for a raw path, "path is an object of the file"
   (alookup path (rs_om st) <> None; /repo: KeyError otherwise) instead of the hierarchy part of the bundle.
   [c04_gen8_hypotheses] / [c04_gen8_example]  every hypothesis holds of the three-segment file of Props/C04_gen6.v, channel a, and
   read_data(offset = 1, length = 4) returns the four expected int16 values. *)
From Coq Require Import String Ascii.
From Coq Require Import List ZArith.
Import ListNotations.
From NpTdms Require Import Base.Bytes Base.Res Base.PySlice Model.Tokens Model.SegState Model.Layout Model.Reader Model.FileSyn
     Model.LazyRead Model.LazyBytes
     Gen.PyFuncsReader Gen.PyFuncsDecode Gen.PyFuncsLazySeg Gen.PyFuncsLazyIdx Gen.PyFuncsLazyLoop
     Proofs.LayoutProofs Proofs.FileSynProofs Proofs.ReadCorrect Proofs.LazyEagerExamples
     Proofs.GenReaderLazy Proofs.GenLazyIdxEquiv Proofs.GenLazyLoopEquiv Proofs.GenLazyFile Proofs.GenLazyRange Proofs.GenLazyHyps.
Local Open Scope Z_scope.

Theorem tbl_ok_cold_table : forall segs path,
  tbl_ok segs path [].
Proof. exact tbl_ok_cold. Qed.

Theorem object_map_entry : forall segs st st' path,
  wf_file segs -> sm_run segs false = Ok st ->
  rd_metadata (ser_file segs) false (Some (blen (ser_file segs))) true = Ok st' ->
  alookup path (rs_om st) <> None ->
  alookup path (om_nums (rs_om st')) = Some (om_len (get_ometa path (rs_om st))).
Proof. exact om_nums_entry. Qed.

Theorem seg_nums_sum_is_channel_length : forall segs st st' chunkss path,
  wf_file segs -> sm_run segs false = Ok st -> segs_encode (rs_segments st) segs chunkss ->
  Forall (fun g => NoDup (map so_path (sg_objs g))) (rs_segments st) ->
  rd_metadata (ser_file segs) false (Some (blen (ser_file segs))) true = Ok st' ->
  zsum (seg_nums unit (seg_views (rs_segments st') path)) = zlen (chan_values path (concat chunkss)) /\
  zsum (seg_nums unit (seg_views (rs_segments st') path)) = om_len (get_ometa path (rs_om st)).
Proof. exact GenLazyHyps.seg_nums_sum_is_channel_length. Qed.

Theorem translated_lazy_read_is_window_of_eager_cold_path : forall segs st st' chunkss path offs len (zero : bytes) rk f2,
  wf_file segs -> sm_run segs false = Ok st -> segs_encode (rs_segments st) segs chunkss ->
  Forall (fun g => NoDup (map so_path (sg_objs g))) (rs_segments st) ->
  rd_metadata (ser_file segs) false (Some (blen (ser_file segs))) true = Ok st' ->
  (forall k s ch, nth_error (rs_segments st') k = Some s -> nth_error chunkss k = Some ch ->
                  Forall (strings_valid (data_objs (sg_objs s))) ch) ->
  pf_data f2 = ser_file segs ->
  Forall (fun s => sv_chunk (seg_view s path) <> 0 -> toc_has (sg_toc s) TOC_RAW = true) (rs_segments st') ->
  alookup path (rs_om st) <> None ->
  zlen (chan_values path (concat chunkss)) < 2 ^ 63 ->
  0 <= offs -> (match len with None => True | Some l => 0 <= l end) ->
  exists outs tbl' f2' dt n,
    read_raw_data_for_channel_gen posfile bytes bytes_verify (bytes_chunks path) (Some (rs_segments st')) [] (om_nums (rs_om st'))
                                  f2 path offs len
    = Ok (outs, tbl', f2') /\ pf_data f2' = ser_file segs /\ tbl_ok (rs_segments st') path tbl' /\
    read_channel_data_alloc_gen (Some dt) false (om_len (get_ometa path (rs_om st))) offs len = Ok (Some n) /\
    receive bytes zero rk n outs = Ok (match len with
                                       | None => zskipn offs (chan_values path (concat chunkss))
                                       | Some l => zfirstn l (zskipn offs (chan_values path (concat chunkss)))
                                       end).
Proof. exact translated_lazy_read_window_cold_path. Qed.

Theorem translated_lazy_read_is_window_of_eager_cold : forall segs st st' h chunkss c offs len (zero : bytes) rk f2,
  wf_file segs -> sm_run segs false = Ok st -> build_hierarchy (rs_om st) = Ok h ->
  segs_encode (rs_segments st) segs chunkss -> om_paths_canonical (rs_om st) ->
  Forall (fun g => NoDup (map so_path (sg_objs g))) (rs_segments st) ->
  In c (all_channels h) ->
  rd_metadata (ser_file segs) false (Some (blen (ser_file segs))) true = Ok st' ->
  (forall k s ch, nth_error (rs_segments st') k = Some s -> nth_error chunkss k = Some ch ->
                  Forall (strings_valid (data_objs (sg_objs s))) ch) ->
  pf_data f2 = ser_file segs ->
  Forall (fun s => sv_chunk (seg_view s (ch_path c)) <> 0 -> toc_has (sg_toc s) TOC_RAW = true) (rs_segments st') ->
  zlen (chan_values (ch_path c) (concat chunkss)) < 2 ^ 63 ->
  0 <= offs -> (match len with None => True | Some l => 0 <= l end) ->
  exists outs tbl' f2' dt n,
    read_raw_data_for_channel_gen posfile bytes bytes_verify (bytes_chunks (ch_path c)) (Some (rs_segments st')) []
                                  (om_nums (rs_om st')) f2 (ch_path c) offs len
    = Ok (outs, tbl', f2') /\ pf_data f2' = ser_file segs /\ tbl_ok (rs_segments st') (ch_path c) tbl' /\
    read_channel_data_alloc_gen (Some dt) false (ch_len c) offs len = Ok (Some n) /\
    receive bytes zero rk n outs = Ok (match len with
                                       | None => zskipn offs (chan_values (ch_path c) (concat chunkss))
                                       | Some l => zfirstn l (zskipn offs (chan_values (ch_path c) (concat chunkss)))
                                       end) /\
    receive bytes zero rk n outs = lz_read_bytes (ser_file segs) (ch_path c) offs len.
Proof. exact translated_lazy_read_window_cold. Qed.

Example c04_gen8_hypotheses :
  (wf_file le_file /\ sm_run le_file false = Ok le_st /\ build_hierarchy (rs_om le_st) = Ok le_h /\
   segs_encode (rs_segments le_st) le_file le_chunks /\ om_paths_canonical (rs_om le_st) /\
   Forall (fun g => NoDup (map so_path (sg_objs g))) (rs_segments le_st) /\ In (rc_chan le_h 0) (all_channels le_h)) /\
  rd_metadata (ser_file le_file) false (Some (blen (ser_file le_file))) true = Ok ex_f_st /\
  (forall k s ch, nth_error (rs_segments ex_f_st) k = Some s -> nth_error le_chunks k = Some ch ->
                  Forall (strings_valid (data_objs (sg_objs s))) ch) /\
  Forall (fun s => sv_chunk (seg_view s (ch_path (rc_chan le_h 0))) <> 0 -> toc_has (sg_toc s) TOC_RAW = true) (rs_segments ex_f_st) /\
  zlen (chan_values (ch_path (rc_chan le_h 0)) (concat le_chunks)) < 2 ^ 63 /\
  ch_path (rc_chan le_h 0) = rc_path_a /\ ch_len (rc_chan le_h 0) = 6 /\
  alookup rc_path_a (om_nums (rs_om ex_f_st)) = Some 6.
Proof. exact cold_example_hyps. Qed.

Example c04_gen8_example :
  exists outs tbl' f2' dt n,
    read_raw_data_for_channel_gen posfile bytes bytes_verify (bytes_chunks rc_path_a) (Some (rs_segments ex_f_st)) []
                                  (om_nums (rs_om ex_f_st)) (mkPf (ser_file le_file) 0) rc_path_a 1 (Some 4) = Ok (outs, tbl', f2') /\
    read_channel_data_alloc_gen (Some dt) false 6 1 (Some 4) = Ok (Some n) /\
    receive bytes [] LazyRead.RNumpy n outs = Ok [hex "0304"; hex "0506"; hex "0708"; hex "0a0b"].
Proof. exact cold_example_window. Qed.

Print Assumptions tbl_ok_cold_table.
Print Assumptions object_map_entry.
Print Assumptions seg_nums_sum_is_channel_length.
Print Assumptions translated_lazy_read_is_window_of_eager_cold_path.
Print Assumptions translated_lazy_read_is_window_of_eager_cold.
Print Assumptions c04_gen8_hypotheses.
Print Assumptions c04_gen8_example.
