(* C01 / C02 (top layer) — the reader model REFINES a textbook specification.

   Model/Spec.v (read it: ~350 lines, a third of them comments) defines
     spec_meaning : list fseg -> spec_res content      what a file MEANS
     spec_tokens  : content -> list tok                how TdmsFile shows a content
   without mentioning any mechanism of the implementation (no positions, no
   index maps, no caches, no segment records): an active object list updated BY
   PATH, the most recent raw data index per path, the content so far; raw data
   cut into whole chunks (contiguous) or rows (interleaved).  The same rules
   exist in Python (harness/tdmsgen.py: SpecState, meaning, expected_tokens);
   harness/spec_tie.py compares the two on generated files on demand.

   MAIN THEOREMS
     reader_refines_spec : wf_file segs -> spec_ok segs -> spec_meaning segs = SOk c ->
                           rd_all (ser_file segs) = Ok (spec_tokens c, true)
       For every file syntax the specification gives a meaning to, the byte-level
       reader model (Model/Reader.v rd_all — what the correspondence check compares
       with TdmsFile.read on every run), run on the serialised BYTES, returns
       exactly the specification's tokens: every object once, root / groups
       (declared ones first, then those implied by channels) / channels in order
       of first appearance, last property values in first-set order, data type,
       and each channel's values = file-order concatenation over all chunks of
       all segments, bit exact; contiguous and interleaved layout, single and
       multi chunk, both byte orders, all 17 readable types; every inheritance
       form of C02 (full index, 'same as before', 'no data', object omitted,
       metadata block omitted, new-object-list flag).  The [true] says every
       channel received exactly len(channel) values.
     reader_rejects_forbidden : wf_file segs -> spec_ok segs -> spec_meaning segs = SErr e ->
                           forbidden e -> exists e', rd_all (ser_file segs) = Err e'
       The three encodings the format forbids — 'same as before' for an object
       never listed before, a first segment without metadata, a new index that
       changes a channel's data type — are rejected by the reader model, never
       read as data.

   HYPOTHESES
     wf_file segs   (Proofs/FileSynProofs.v) field values fit their widths, the
                    metadata flag agrees with the presence of a metadata block,
                    property values have their type's size, a full index carries a
                    total size iff its type is string: what makes ser_file
                    invertible by the lexer.
     spec_ok segs   (Model/Spec.v, boolean, purely SYNTACTIC), per metadata block:
       (1) no path is listed twice.  The real code builds its path -> position map
           once per segment and does not update it inside the loop; with a repeated
           path the second listing acts on a stale position (inherited list) or
           appends a duplicate (new list).  Computed counterexamples:
           C02 stale_index_map_visible_when_listed_twice, new_list_listed_twice.
       (2) every listed path is the canonical spelling of "/", /'group' or
           /'group'/'channel' (canonical_path).  The real code raises ValueError
           on paths with more than two components (ObjectPath.from_string), keys
           data receivers by the canonical spelling but chunks by the raw path
           (KeyError in _read_data for data under another spelling), and merges
           two spellings of one group.
       (3) a full raw data index only under a channel path.  Data on the root or
           on a group object has no receiver: KeyError in _read_data.
     Not in spec_ok because the specification itself returns an error there
     (spec_meaning segs = SOk c excludes them): DAQmx indexes, unknown or size-less
     data types, dimension <> 1 (UnsupportedIndex: the real code raises, or reads
     DAQmx data, which is C11's subject); an interleaved segment with unequal
     counts or with strings among several objects (BadLayout: ValueError in the real
     code); a raw data block that is not a whole number of chunks or whose string
     offsets do not add up (BadRawData: the real code treats the former as a
     truncated segment, C06).

   THE DECIDED CORNER (DESIGN 13.2): 'no data' followed by 'same as before' for an
   object that never had an index.  The specification gives it an error of its own,
   [MatchPrevNeverIndexed], which is NOT [forbidden]: the reader's metadata pass
   accepts it (the object gets has_data with no data type), and the eager read
   raises as soon as the segment has a chunk; with an empty raw data block the read
   succeeds and shows the object without data.  Both behaviours are computed below
   (spec_corner_meaning, spec_corner_read); nothing is read as that object's data in either.

   ZERO-SIZE CHUNKS.  A full index may declare 0 values.  When ALL data objects of
   a segment have zero size the chunk size is 0; the real code then accepts only an
   empty raw data block and reads no value (contiguous) or one chunk of empty
   columns (interleaved), and the specification says the same.  read_correct
   (C01_read.v) excludes such segments (its seg_encodes has no case for them);
   Proofs/SegEncodesZ.v adds the two cases (seg_encodes_z) and Proofs/ReadCorrectZ.v
   re-proves the whole chain for them (read_correct_z, stated below), so the
   refinement theorem has NO condition on counts.  (27 % of the files the
   generator of harness/tdmsgen.py draws contain a zero count.)

   LAYERS (each closed, stated on its own below)
     spec_state_simulation   metadata pass: sm_run accepts what the specification
                             accepts; its object lists / per-object metadata are
                             the ones the specification's state describes; the raw
                             data blocks are encodings relative to those lists
     decode_data_encodes(_z) raw data: a block the specification decodes IS the
                             model-level encoding of chunks holding these values
     hierarchy_refines       hierarchy construction and token layout
     read_correct_z          read_correct extended to zero-size chunks
   composed with, for the mechanism's positional index map,
   SegStateInherit.positional_update_is_update_by_path (C02). *)
From Coq Require Import List ZArith.
Import ListNotations.
From NpTdms Require Import Base.Bytes Base.Res Model.Tokens Model.SegState Model.Layout Model.Reader
     Model.FileSyn Model.Spec Proofs.FileSynProofs Proofs.ReadCorrect Proofs.SegEncodesZ
     Proofs.ReadCorrectZ Proofs.SpecRefineBase Proofs.SpecRefineMeta Proofs.SpecRefineData
     Proofs.SpecRefineDataZ Proofs.SpecRefineHier Proofs.SpecRefine Proofs.SpecRefineExamples.
Local Open Scope Z_scope.

(* ---- main theorems ------------------------------------------------------------------- *)

Theorem reader_refines_spec : forall segs c,
    wf_file segs -> spec_ok segs ->
    spec_meaning segs = SOk c ->
    rd_all (ser_file segs) = Ok (spec_tokens c, true).
Proof. exact SpecRefine.reader_refines_spec. Qed.

Theorem reader_rejects_forbidden : forall segs e,
    wf_file segs -> spec_ok segs ->
    spec_meaning segs = SErr e -> forbidden e ->
    exists e', rd_all (ser_file segs) = Err e'.
Proof. exact SpecRefine.reader_rejects_forbidden. Qed.

(* ---- layers ---------------------------------------------------------------------------- *)

(* metadata pass + raw data, whole file.  [seg_plain]: complete segment, no
   final-chunk override; [om_rel0]: same path, properties, data type; [cvals]:
   the values the content holds for a path; [cdt]: its data type. *)
Theorem spec_state_simulation : forall segs stF,
    wf_file segs -> spec_ok segs ->
    spec_segments true sstate0 segs = SOk stF ->
    exists rstF chunkss,
      sm_run segs false = Ok rstF /\
      segs_encode_z (rs_segments rstF) segs chunkss /\
      Forall seg_plain (rs_segments rstF) /\
      Forall2 om_rel0 (rs_om rstF) (objs stF) /\
      NoDup (map fst (objs stF)) /\
      (forall p, cvals (objs stF) p = chan_values p (concat chunkss)) /\
      (forall p, cdt (objs stF) p = None \/
                 cdt (objs stF) p = Some (option_map ri_dt (alookup p (last stF)))).
Proof. exact SpecRefine.spec_state_simulation. Qed.

(* one accepted segment: the object list the model computes IS the one the
   specification's active list describes ([objs_of]), and the invariant between
   the two states ([Inv]) is re-established *)
Theorem spec_segment_simulation : forall first st ps prev om s st1 css,
    Inv first st ps prev om -> seg_ok s = true -> wf_fseg s = true ->
    apply_metadata first st s = SOk st1 ->
    decode_data (fs_toc s) (data_objects (active st1)) (fs_data s) = SOk css ->
    exists props nch po om1,
      read_segment_objects (fs_toc s) (fs_meta s) prev ps = Ok (objs_of (active st1) (last st1), props) /\
      calculate_chunks (fs_toc s) false (objs_of (active st1) (last st1)) (blen (fs_data s)) = Ok (nch, None) /\
      update_object_metadata (objs_of (active st1) (last st1)) nch None prev om = Ok (po, om1) /\
      Inv false st1 (Some (objs_of (active st1) (last st1))) po (update_object_properties props om1) /\
      Forall (fun o => idx_ok0 (snd o)) (data_objects (active st1)).
Proof. exact SpecRefineMeta.sim_segment. Qed.

Theorem spec_invariant_initial : Inv true sstate0 None [] [].
Proof. exact SpecRefineMeta.Inv_init. Qed.

(* a forbidden encoding in a segment's metadata: whatever object list the model
   computes, its per-object metadata update fails (or an earlier step did) *)
Theorem spec_segment_forbidden : forall first st ps prev om s e,
    Inv first st ps prev om -> seg_ok s = true -> wf_fseg s = true ->
    apply_metadata first st s = SErr e -> forbidden e ->
    forall mobjs props, read_segment_objects (fs_toc s) (fs_meta s) prev ps = Ok (mobjs, props) ->
    forall nch fin, exists e', update_object_metadata mobjs nch fin prev om = Err e'.
Proof. exact SpecRefineMeta.sim_segment_forbidden. Qed.

(* raw data: encode (decode d) = d for every block the specification accepts, in
   the form read_correct needs; [dobj]: the model's data object for (path, index);
   [idx_ok]: positive count and size, size = count * type size (strings: declared);
   [idx_ok0]: the same with zero allowed *)
Theorem decode_data_encodes : forall (g : segment) (dobjs : list (bytes * rawidx)) (d : bytes) css,
    data_objs (sg_objs g) = map dobj dobjs ->
    NoDup (map fst dobjs) ->
    Forall (fun o => idx_ok (snd o)) dobjs ->
    decode_data (sg_toc g) dobjs d = SOk css ->
    exists cs : list chunk,
      seg_encodes g d cs /\
      forall c0 : dict cobj,
        NoDup (map fst c0) ->
        fold_left (add_chunk dobjs) css c0 =
        map (fun po => (fst po, mkCobj (o_props (snd po)) (o_dtype (snd po))
                                       (o_vals (snd po) ++ chan_values (fst po) cs))) c0.
Proof. exact SpecRefineData.decode_data_encodes. Qed.

Theorem decode_data_encodes_z : forall (g : segment) (dobjs : list (bytes * rawidx)) (d : bytes) css,
    data_objs (sg_objs g) = map dobj dobjs ->
    NoDup (map fst dobjs) ->
    Forall (fun o => idx_ok0 (snd o)) dobjs ->
    decode_data (sg_toc g) dobjs d = SOk css ->
    exists cs : list chunk,
      seg_encodes_z g d cs /\
      forall c0 : dict cobj,
        NoDup (map fst c0) ->
        fold_left (add_chunk dobjs) css c0 =
        map (fun po => (fst po, mkCobj (o_props (snd po)) (o_dtype (snd po))
                                       (o_vals (snd po) ++ chan_values (fst po) cs))) c0.
Proof. exact SpecRefineDataZ.decode_data_encodes_z. Qed.

(* read_correct (C01_read.v) for files that may contain segments whose data objects
   all have zero size; segs_encode implies segs_encode_z *)
Theorem read_correct_z : forall segs st h chunkss,
    wf_file segs ->
    sm_run segs false = Ok st ->
    build_hierarchy (rs_om st) = Ok h ->
    segs_encode_z (rs_segments st) segs chunkss ->
    om_paths_canonical (rs_om st) ->
    typed_objects_are_channels (rs_om st) ->
    rd_all (ser_file segs) = Ok (expected_tokens st h (concat chunkss), true).
Proof. exact ReadCorrectZ.read_correct_z. Qed.

Theorem segs_encode_is_z : forall gs segs chunkss,
    segs_encode gs segs chunkss -> segs_encode_z gs segs chunkss.
Proof. exact ReadCorrectZ.segs_encode_z_of. Qed.

(* a segment with one int32 object of 0 values and an empty raw data block: in
   seg_encodes_z, in no case of seg_encodes *)
Example seg_encodes_z_zero_instance :
  seg_encodes_z rcz_seg_contig [] [] /\ forall cs, ~ seg_encodes rcz_seg_contig [] cs.
Proof. exact (conj rcz_zero_contig rcz_not_seg_encodes). Qed.

(* hierarchy: from per-object metadata that matches the content ([om_rel]: path,
   properties, data type, length) the model builds a hierarchy that shows exactly
   the specification's token layout *)
Theorem hierarchy_refines : forall (om : alist ometa) (c : dict cobj),
    Forall2 om_rel om c ->
    NoDup (map fst c) ->
    Forall (fun po => canonical_path (fst po) = true) c ->
    exists h,
      build_hierarchy om = Ok h /\
      (forall (f : channel -> list tok) (data : cobj -> list tok),
          (forall g name p o, In (p, o) c -> parse_path p = Some [g; name] ->
                              f (chan_of_cobj g name p o) = data o) ->
          obs_hierarchy h f = hierarchy_tokens data c) /\
      (forall ch, In ch (all_channels h) ->
                  exists g name p o, In (p, o) c /\ parse_path p = Some [g; name] /\
                                     ch = chan_of_cobj g name p o).
Proof. exact SpecRefineHier.hierarchy_refines. Qed.

(* a canonical path is read by the model's scanner as by the specification's parser *)
Theorem canonical_path_from_string : forall p,
    canonical_path p = true ->
    match parse_path p with
    | Some [] => p = [SB] /\ path_from_string p = inr (None, None)
    | Some [g] => path_from_string p = inr (Some g, None) /\ path_to_string (Some g) None = p
    | Some [g; c] => path_from_string p = inr (Some g, Some c) /\ path_to_string (Some g) (Some c) = p
    | _ => False
    end.
Proof. exact SpecRefineHier.canonical_path_from_string. Qed.

(* ---- the hypotheses are satisfiable; the specification computes ------------------------- *)

(* rc_file (C01_read.v): contiguous, int32 + string channels, two chunks, then a
   segment WITHOUT metadata block.  spec_meaning evaluates to an explicit content. *)
Example spec_rc_meaning : spec_meaning rc_file = SOk rc_content.
Proof. exact rc_meaning. Qed.
Example spec_rc_hyps : wf_file rc_file /\ spec_ok rc_file.
Proof. exact (conj rc_wf rc_ok). Qed.
Example spec_rc_read : rd_all (ser_file rc_file) = Ok (spec_tokens rc_content, true).
Proof. exact rc_read. Qed.
Example spec_rc_read_computed : rd_all (ser_file rc_file) = Ok (spec_tokens rc_content, true).
Proof. exact rc_read_computed. Qed.

(* rc2_file: INTERLEAVED int16 + bool, then a new object list with only the group *)
Example spec_rc2_meaning : spec_meaning rc2_file = SOk rc2_content.
Proof. exact rc2_meaning. Qed.
Example spec_rc2_hyps : wf_file rc2_file /\ spec_ok rc2_file.
Proof. exact (conj rc2_wf rc2_ok). Qed.
Example spec_rc2_read : rd_all (ser_file rc2_file) = Ok (spec_tokens rc2_content, true).
Proof. exact rc2_read. Qed.
Example spec_rc2_read_computed : rd_all (ser_file rc2_file) = Ok (spec_tokens rc2_content, true).
Proof. exact rc2_read_computed. Qed.

(* sx_file: 'same as before' + 'no data' + an object omitted from the metadata
   (three segments, channels a int32 x2, b int16 x1, c int8 x1):
   a = 1..6, b = [0x000a; 0x000b] (no data in segment 2), c = [0x7f; 0x7e; 0x7d] *)
Example spec_sx_meaning : spec_meaning sx_file = SOk sx_content.
Proof. exact sx_meaning. Qed.
Example spec_sx_hyps : wf_file sx_file /\ spec_ok sx_file.
Proof. exact (conj sx_wf sx_ok). Qed.
Example spec_sx_read : rd_all (ser_file sx_file) = Ok (spec_tokens sx_content, true).
Proof. exact sx_read. Qed.
Example spec_sx_read_computed : rd_all (ser_file sx_file) = Ok (spec_tokens sx_content, true).
Proof. exact sx_read_computed. Qed.

(* rcz_file: a channel declared with ZERO values (chunk size 0, empty raw data
   block) in segment 1 and with two values in segment 2 *)
Example spec_rcz_meaning : spec_meaning rcz_file = SOk rcz_content.
Proof. exact rcz_meaning. Qed.
Example spec_rcz_hyps : wf_file rcz_file /\ spec_ok rcz_file.
Proof. exact (conj rcz_wf rcz_ok). Qed.
Example spec_rcz_read : rd_all (ser_file rcz_file) = Ok (spec_tokens rcz_content, true).
Proof. exact rcz_read. Qed.
Example spec_rcz_read_computed : rd_all (ser_file rcz_file) = Ok (spec_tokens rcz_content, true).
Proof. exact rcz_read_computed. Qed.

(* the three forbidden encodings: specification's verdict, hypotheses of
   reader_rejects_forbidden, the model's verdict on the bytes *)
Example spec_forbidden_first_without_metadata :
  spec_meaning fb_first_without_metadata = SErr FirstWithoutMetadata /\
  (wf_file fb_first_without_metadata /\ spec_ok fb_first_without_metadata) /\
  rd_all (ser_file fb_first_without_metadata) = Err EValue.
Proof. exact (conj fb1_spec (conj fb1_hyps fb1_read)). Qed.

Example spec_forbidden_match_prev_undefined :
  spec_meaning fb_match_prev_undefined = SErr MatchPrevUndefined /\
  (wf_file fb_match_prev_undefined /\ spec_ok fb_match_prev_undefined) /\
  rd_all (ser_file fb_match_prev_undefined) = Err EValue.
Proof. exact (conj fb2_spec (conj fb2_hyps fb2_read)). Qed.

Example spec_forbidden_type_change :
  spec_meaning fb_type_change = SErr TypeChange /\
  (wf_file fb_type_change /\ spec_ok fb_type_change) /\
  rd_all (ser_file fb_type_change) = Err EValue.
Proof. exact (conj fb3_spec (conj fb3_hyps fb3_read)). Qed.

(* the corner: an error of the specification that is not one of the forbidden
   three; the model accepts it without a chunk and fails with one *)
Example spec_corner_meaning :
  spec_meaning corner_no_chunk = SErr MatchPrevNeverIndexed /\
  spec_meaning corner_with_chunk = SErr MatchPrevNeverIndexed /\
  ~ forbidden MatchPrevNeverIndexed.
Proof. exact corner_spec. Qed.
Example spec_corner_read :
  (exists t, rd_all (ser_file corner_no_chunk) = Ok t) /\
  rd_all (ser_file corner_with_chunk) = Err EOther.
Proof. exact corner_read. Qed.

Print Assumptions reader_refines_spec.
Print Assumptions reader_rejects_forbidden.
Print Assumptions spec_state_simulation.
Print Assumptions spec_segment_simulation.
Print Assumptions spec_invariant_initial.
Print Assumptions spec_segment_forbidden.
Print Assumptions decode_data_encodes.
Print Assumptions decode_data_encodes_z.
Print Assumptions read_correct_z.
Print Assumptions segs_encode_is_z.
Print Assumptions seg_encodes_z_zero_instance.
Print Assumptions hierarchy_refines.
Print Assumptions canonical_path_from_string.
Print Assumptions spec_rc_meaning.
Print Assumptions spec_rc_hyps.
Print Assumptions spec_rc_read.
Print Assumptions spec_rc_read_computed.
Print Assumptions spec_rc2_meaning.
Print Assumptions spec_rc2_hyps.
Print Assumptions spec_rc2_read.
Print Assumptions spec_rc2_read_computed.
Print Assumptions spec_sx_meaning.
Print Assumptions spec_sx_hyps.
Print Assumptions spec_sx_read.
Print Assumptions spec_sx_read_computed.
Print Assumptions spec_rcz_meaning.
Print Assumptions spec_rcz_hyps.
Print Assumptions spec_rcz_read.
Print Assumptions spec_rcz_read_computed.
Print Assumptions spec_forbidden_first_without_metadata.
Print Assumptions spec_forbidden_match_prev_undefined.
Print Assumptions spec_forbidden_type_change.
Print Assumptions spec_corner_meaning.
Print Assumptions spec_corner_read.
