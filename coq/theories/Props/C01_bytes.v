(* C01 (byte level) — "For every well-formed TDMS BYTE STREAM ...".

   The whole-file theorems (read_correct, reader_refines_spec, truncation_values_prefix,
   endian_transparent, inheritance_transparent_read, lazy_is_window_of_eager,
   index_read_correct, ...) are stated for bytes of the form [ser_file segs] with
   [wf_file segs].  This file removes the need to trust that this is the right
   reading of "well-formed TDMS byte stream":

     Model/FileParse.v   parse_file : bytes -> option (list fseg)
       a total executable STRICT parser (read its header: ~60 lines of comment say
       what it accepts): per segment the 28-byte lead-in (tag "TDSm", ToC mask whose
       big-endian bit selects the byte order of the rest, version, next-segment
       offset, raw-data offset), the metadata block lexed with the functions of
       Model/Tokens.v (number of objects; per object path, raw data index in all
       forms INCLUDING DAQmx, properties of the 15 readable types) required to end
       exactly at the raw-data offset, the raw data block required to be present in
       full, until the input is exhausted.

     parse_file_sound    : parse_file b = Some segs -> ser_file segs = b /\ wf_file segs
     parse_file_complete : wf_file segs -> parse_file (ser_file segs) = Some segs

   i.e.  { b | exists segs, parse_file b = Some segs }  =  { ser_file segs | wf_file segs },
   the syntax of an accepted stream is unique (ser_file_injective), and NOTHING is
   dropped or normalised by the parser: re-serialising the syntax gives back the
   very bytes.  (FileSyn holds property values and index fields as numbers /
   canonical little-endian value bytes; in a big-endian segment the stored form
   is the byte reversal, a bijection on strings of the type's size, and
   parse_prop_value only accepts the type's size - so no stream is lost to
   canonicalisation.  Unknown ToC bits, any version, any index length field other
   than the four dispatch values, Boolean bytes other than 0/1 and invalid UTF-8
   are kept as they are.)

   The headline theorems are then restated with [parse_file b = Some segs] as the
   ONLY link between the byte stream [b] and the syntax, and [b] itself as the
   reader's input: reader_refines_spec_bytes, reader_rejects_forbidden_bytes,
   read_correct_bytes, truncation_values_prefix_bytes, endian_transparent_bytes,
   inheritance_transparent_read_bytes, lazy_is_window_of_eager_bytes,
   index_read_correct_bytes.  [wf_file] is no longer a hypothesis: it is implied.

   STREAMS OUTSIDE THE DOMAIN (rejected by parse_file, although the reader model and
   TdmsFile.read accept some of them; each with a computed instance below):
     (r1) truncated streams: a last segment shorter than declared, fewer than 28
          trailing bytes.  parse_file_cut says exactly which cuts of an accepted
          stream are accepted: those on a segment boundary, and no other.  Cut
          streams are the subject of truncation_values_prefix_bytes (every cut
          [take k b], 4 <= k, of an accepted stream b);
     (r2) next-segment offset 0xFFFFFFFFFFFFFFFF (reject_next_unknown);
     (r3) slack between metadata and raw data, a raw-data offset without metadata
          flag, a raw-data offset beyond the next-segment offset
          (reject_short_metadata, reject_raw_offset_without_metadata,
          reject_inconsistent_offsets);
     (r4) a string running past the end of the metadata block (reject_short_string:
          the reader reads a short string);
     (r5) a tag other than "TDSm" (reject_wrong_tag; the reader rejects too);
     and whatever the reader's lexer rejects (unreadable property types, short fields).
   For (r2)-(r4) the whole-file theorems say nothing; the correspondence check
   (./check C01, malformed stream) compares model and implementation there, and
   harness/parse_tie.py counts how many single-fault mutants stay inside the domain.

   THE EMPTY STREAM is accepted (no segments).  It is the one accepted stream on
   which TdmsFile.read(STREAM) and the reader model differ: the constructor sniffs
   the first four bytes of a stream (data or index?) and raises ValueError on an
   empty one; TdmsFile.read(PATH) of an empty file returns an empty file, as the
   model does (c01_bytes_empty_stream; harness/parse_tie.py reads it by path).

   Tie to the code: harness/parse_tie.py evaluates parse_file inside Coq on the
   bytes written by the INDEPENDENT Python encoder (tdmsgen.ser_file) for generated
   syntax and compares with that syntax, and on mutated files checks that every
   accepted stream is read alike by the reader model and by npTDMS.

   Everything is closed under the global context. *)
From Coq Require Import List ZArith.
From Coq Require Import Init.Byte.
Import ListNotations.
From NpTdms Require Import Base.Bytes Base.Res Base.PySlice Model.Tokens Model.TokensWf Model.SegState
     Model.Layout Model.Reader Model.FileSyn Model.Spec Model.LazyRead Model.LazyBytes Model.FileParse
     Proofs.LayoutProofs Proofs.FileSynProofs Proofs.ReadCorrect Proofs.TruncProofs Proofs.TruncValuesLayout
     Proofs.TruncValuesFile Proofs.SegStateExplicit Proofs.EndianRead Proofs.InheritRead
     Proofs.FileParseProofs Proofs.FileParseCorollaries.
From NpTdms Require Proofs.SpecRefineExamples.
Local Open Scope Z_scope.

(* ---- the parser is the inverse of the serialiser ------------------------------------- *)

Theorem parse_file_sound : forall b segs,
    parse_file b = Some segs -> ser_file segs = b /\ wf_file segs.
Proof. exact FileParseProofs.parse_file_sound. Qed.

Theorem parse_file_complete : forall segs,
    wf_file segs -> parse_file (ser_file segs) = Some segs.
Proof. exact FileParseProofs.parse_file_complete. Qed.

Theorem parse_file_iff : forall b segs,
    parse_file b = Some segs <-> (b = ser_file segs /\ wf_file segs).
Proof. exact FileParseProofs.parse_file_iff. Qed.

Theorem ser_file_injective : forall segs segs',
    wf_file segs -> wf_file segs' -> ser_file segs = ser_file segs' -> segs = segs'.
Proof. exact FileParseProofs.ser_file_injective. Qed.

(* one segment: what is consumed is the segment's serialisation, the rest is untouched *)
Theorem parse_seg_sound : forall bs s r,
    parse_seg bs = Ok (s, r) -> bs = ser_seg TAG_DATA true s ++ r /\ wf_fseg s = true.
Proof. exact FileParseProofs.parse_seg_inv. Qed.

Theorem parse_seg_complete : forall s rest,
    wf_fseg s = true -> parse_seg (ser_seg TAG_DATA true s ++ rest) = Ok (s, rest).
Proof. exact FileParseProofs.parse_seg_ser. Qed.

(* the metadata lexer, strict: inverse of ser_metadata in both directions *)
Theorem parse_metadata_x_sound : forall e bs es r,
    parse_metadata_x e bs = Ok (es, r) -> bs = ser_metadata e es ++ r /\ wf_metadata es = true.
Proof. exact FileParseProofs.parse_metadata_x_inv. Qed.

Theorem parse_metadata_x_complete : forall e es rest,
    wf_metadata es = true -> parse_metadata_x e (ser_metadata e es ++ rest) = Ok (es, rest).
Proof. exact FileParseProofs.parse_metadata_x_ser. Qed.

(* the raw data index lexer of Tokens.v (used as is, DAQmx included) *)
Theorem parse_idx_sound : forall e bs i r,
    parse_idx e bs = Ok (i, r) -> bs = ser_idx e i ++ r /\ wf_idx i = true.
Proof. exact FileParseProofs.parse_idx_inv. Qed.

Theorem parse_leadin_sound : forall lb l,
    blen lb = 28 -> parse_leadin lb = Ok l -> ser_leadin l = lb /\ wf_leadin l = true.
Proof. exact FileParseProofs.parse_leadin_inv. Qed.

(* the strict lexer differs from the reader's (Tokens.parse_metadata) only by
   rejecting: where it succeeds, the reader's lexer returns the same *)
Theorem parse_metadata_x_lenient : forall e bs y,
    parse_metadata_x e bs = Ok y -> parse_metadata e bs = Ok y.
Proof. exact FileParseProofs.parse_metadata_x_lenient. Qed.

(* the fuel (byte length of the input) never runs out: any amount of fuel that
   covers the number of segments gives the same answer *)
Theorem parse_segs_fuel_irrelevant : forall fuel bs segs,
    parse_segs fuel bs = Ok segs ->
    forall fuel', (length segs <= fuel')%nat -> parse_segs fuel' bs = Ok segs.
Proof. exact FileParseProofs.parse_segs_some_fuel. Qed.

(* ---- cuts: truncated streams are NOT in the parser's domain ----------------------------- *)

(* cut_boundary segs k = Some j  iff  k is the total length of the first j segments *)
Theorem cut_boundary_spec : forall segs k j,
    wf_file segs ->
    (cut_boundary segs k = Some j <->
     (j <= length segs)%nat /\ k = blen (ser_file (firstn j segs))).
Proof. exact FileParseProofs.cut_boundary_spec. Qed.

Theorem parse_file_cut : forall b segs k,
    parse_file b = Some segs -> 0 <= k <= blen b ->
    parse_file (take k b) =
    match cut_boundary segs k with
    | Some j => Some (firstn j segs)
    | None => None
    end.
Proof. exact FileParseProofs.parse_file_cut. Qed.

Theorem parse_file_cut_inside : forall b segs k,
    parse_file b = Some segs -> 0 <= k <= blen b ->
    (forall j, (j <= length segs)%nat -> k <> blen (ser_file (firstn j segs))) ->
    parse_file (take k b) = None.
Proof. exact FileParseProofs.parse_file_cut_inside. Qed.

Theorem parse_file_cut_boundary : forall b segs j,
    parse_file b = Some segs -> (j <= length segs)%nat ->
    parse_file (take (blen (ser_file (firstn j segs))) b) = Some (firstn j segs).
Proof. exact FileParseProofs.parse_file_cut_boundary. Qed.

(* ---- the headline theorems for arbitrary byte streams ----------------------------------- *)

(* C01_spec.reader_refines_spec *)
Theorem reader_refines_spec_bytes : forall b segs c,
    parse_file b = Some segs -> spec_ok segs ->
    spec_meaning segs = SOk c ->
    rd_all b = Ok (spec_tokens c, true).
Proof. exact FileParseCorollaries.reader_refines_spec_bytes. Qed.

(* C01_spec.reader_rejects_forbidden *)
Theorem reader_rejects_forbidden_bytes : forall b segs e,
    parse_file b = Some segs -> spec_ok segs ->
    spec_meaning segs = SErr e -> forbidden e ->
    exists e', rd_all b = Err e'.
Proof. exact FileParseCorollaries.reader_rejects_forbidden_bytes. Qed.

(* C01_read.read_correct *)
Theorem read_correct_bytes : forall b segs st h chunkss,
    parse_file b = Some segs ->
    sm_run segs false = Ok st ->
    build_hierarchy (rs_om st) = Ok h ->
    segs_encode (rs_segments st) segs chunkss ->
    om_paths_canonical (rs_om st) ->
    typed_objects_are_channels (rs_om st) ->
    rd_all b = Ok (expected_tokens st h (concat chunkss), true).
Proof. exact FileParseCorollaries.read_correct_bytes. Qed.

(* C01_file.rd_metadata_ser: the metadata pass on the bytes is the state machine
   on the parsed syntax *)
Theorem rd_metadata_bytes : forall b segs w,
    parse_file b = Some segs -> rd_metadata b false (Some (blen b)) w = sm_run segs w.
Proof. exact FileParseCorollaries.rd_metadata_bytes. Qed.

(* C06_values.truncation_values_prefix: EVERY cut [take k b] (4 <= k) of a stream b
   that parses and satisfies read_correct's hypotheses.  By parse_file_cut the cut
   stream itself is outside parse_file's domain unless k is a segment boundary. *)
Theorem truncation_values_prefix_bytes : forall b segs st h chunkss k,
    parse_file b = Some segs ->
    sm_run segs false = Ok st ->
    build_hierarchy (rs_om st) = Ok h ->
    segs_encode (rs_segments st) segs chunkss ->
    om_paths_canonical (rs_om st) ->
    typed_objects_are_channels (rs_om st) ->
    4 <= k <= blen b ->
    exists stc hc chunks_c stp hp,
      rd_all (take k b) = Ok (expected_tokens stc hc chunks_c, true) /\
      sm_run (firstn (meta_count 0 segs k) segs) false = Ok stp /\
      build_hierarchy (rs_om stp) = Ok hp /\
      hier_sim hc hp /\
      (forall p, is_prefix (chan_values p chunks_c) (chan_values p (concat chunkss)) /\
                 is_prefix (chan_values p (concat (firstn (whole_count 0 segs k) chunkss)))
                           (chan_values p chunks_c)) /\
      (forall c, In c (all_channels hc) ->
                 ch_len c = Z.of_nat (length (chan_values (ch_path c) chunks_c))) /\
      exists rest, obs_status stc = TZ (if cut_in_data 0 segs k then 1 else 0) :: rest.
Proof. exact FileParseCorollaries.truncation_values_prefix_bytes. Qed.

(* C15_read.endian_transparent: the stream with other byte orders is itself an
   accepted stream (of the re-ordered syntax) and reads like b *)
Theorem endian_transparent_bytes : forall b segs st h chunkss es,
    parse_file b = Some segs ->
    length es = length segs ->
    sm_run segs false = Ok st ->
    build_hierarchy (rs_om st) = Ok h ->
    segs_encode (rs_segments st) segs chunkss ->
    om_paths_canonical (rs_om st) ->
    typed_objects_are_channels (rs_om st) ->
    parse_file (ser_file (reorder es segs chunkss)) = Some (reorder es segs chunkss) /\
    rd_all (ser_file (reorder es segs chunkss)) = rd_all b.
Proof. exact FileParseCorollaries.endian_transparent_bytes. Qed.

(* C02_read.inheritance_transparent_read *)
Theorem inheritance_transparent_read_bytes : forall b segs st h chunkss,
    parse_file b = Some segs ->
    sm_run segs false = Ok st ->
    build_hierarchy (rs_om st) = Ok h ->
    segs_encode (rs_segments st) segs chunkss ->
    om_paths_canonical (rs_om st) ->
    typed_objects_are_channels (rs_om st) ->
    Forall listed_once segs ->
    data_objects_typed st ->
    explicit_fits segs (object_lists st) ->
    parse_file (ser_file (explicit_of segs st)) = Some (explicit_of segs st) /\
    rd_all (ser_file (explicit_of segs st)) = Ok (expected_tokens st h (concat chunkss), true) /\
    rd_all b = Ok (expected_tokens st h (concat chunkss), true).
Proof. exact FileParseCorollaries.inheritance_transparent_read_bytes. Qed.

(* C03_read.lazy_is_window_of_eager *)
Theorem lazy_is_window_of_eager_bytes : forall b segs st h chunkss c offs len,
    parse_file b = Some segs ->
    sm_run segs false = Ok st ->
    build_hierarchy (rs_om st) = Ok h ->
    segs_encode (rs_segments st) segs chunkss ->
    om_paths_canonical (rs_om st) ->
    Forall (fun g => NoDup (map so_path (sg_objs g))) (rs_segments st) ->
    In c (all_channels h) ->
    0 <= offs ->
    (match len with None => True | Some l => 0 <= l end) ->
    lz_read_bytes b (ch_path c) offs len =
    Ok (match len with
        | None => zskipn offs (chan_values (ch_path c) (concat chunkss))
        | Some l => zfirstn l (zskipn offs (chan_values (ch_path c) (concat chunkss)))
        end).
Proof. exact FileParseCorollaries.lazy_is_window_of_eager_bytes. Qed.

(* C09_read.index_read_correct: the matching index file is that of the parsed syntax *)
Theorem index_read_correct_bytes : forall b segs st h chunkss,
    parse_file b = Some segs ->
    sm_run segs false = Ok st ->
    build_hierarchy (rs_om st) = Ok h ->
    segs_encode (rs_segments st) segs chunkss ->
    om_paths_canonical (rs_om st) ->
    typed_objects_are_channels (rs_om st) ->
    rd_all_idx b (ser_index segs) = Ok (expected_tokens st h (concat chunkss), true).
Proof. exact FileParseCorollaries.index_read_correct_bytes. Qed.

(* ---- the hypotheses are satisfiable: accepted streams ---------------------------------- *)

Import String.
Local Open Scope string_scope.
Local Open Scope list_scope.
Local Open Scope Z_scope.

(* rc_bytes: a 254-byte hex literal (two segments; int32 and string channels; the
   second segment has no metadata block); it parses to ReadCorrect.rc_file *)
Example c01_bytes_parse_literal : parse_file rc_bytes = Some rc_file.
Proof. exact parse_rc_bytes. Qed.

Example c01_bytes_parse_ser : parse_file (ser_file rc_file) = Some rc_file.
Proof. exact parse_ser_rc_file. Qed.

(* reader_refines_spec_bytes applied to the literal *)
Example c01_bytes_read_literal :
  rd_all rc_bytes = Ok (spec_tokens SpecRefineExamples.rc_content, true).
Proof. exact rc_bytes_read. Qed.

(* big-endian, unknown ToC bit, negative version, timestamp / bool / double
   properties, string channel, DAQmx index with a digital-line scaler, then an
   empty segment: round trip computed *)
Example c01_bytes_parse_px :
  wf_file px_file /\ parse_file (ser_file px_file) = Some px_file /\ blen (ser_file px_file) = 308.
Proof. exact parse_px_file. Qed.

Example c01_bytes_empty_stream :
  parse_file [] = Some [] /\ rd_all [] = Ok ([TZ 0; TZ 0; TZ 0; TZ 0; TZ 0], true).
Proof. exact parse_empty_stream. Qed.

(* ---- rejected streams (computed) ---------------------------------------------------------- *)

Example c01_bytes_reject_trailing :
  parse_file (rc_bytes ++ [x00]) = None /\
  parse_file (rc_bytes ++ take 27 rc_bytes) = None /\
  rd_all (rc_bytes ++ [x00]) = rd_all rc_bytes /\ is_ok (rd_all rc_bytes) = true.
Proof. exact reject_trailing_byte. Qed.

Example c01_bytes_reject_wrong_tag :
  parse_file (hex "5444536e" ++ drop 4 rc_bytes) = None /\
  parse_file (take 207 rc_bytes ++ hex "54445368" ++ drop 211 rc_bytes) = None /\
  rd_all (hex "5444536e" ++ drop 4 rc_bytes) = Err EValue.
Proof. exact reject_wrong_tag. Qed.

(* a metadata block shorter than declared: (a) raw-data offset one too large;
   (b) with a slack byte so that all offsets are consistent - the reader model reads
   (b) like rc_bytes, the parser rejects it *)
Example c01_bytes_reject_short_metadata :
  parse_file (rc_with_offsets 179 142 (take 179 (drop 28 rc_bytes))) = None /\
  let slack := rc_with_offsets 180 142 (take 141 (drop 28 rc_bytes) ++ [x00] ++ take 38 (drop 169 rc_bytes)) in
  parse_file slack = None /\ rd_all slack = rd_all rc_bytes.
Proof. exact reject_short_metadata. Qed.

Example c01_bytes_reject_inconsistent_offsets :
  parse_file (rc_with_offsets 179 140 (take 179 (drop 28 rc_bytes))) = None /\
  parse_file (rc_with_offsets 141 142 (take 179 (drop 28 rc_bytes))) = None /\
  parse_file (rc_with_offsets 180 141 (take 179 (drop 28 rc_bytes))) = None.
Proof. exact reject_inconsistent_offsets. Qed.

Example c01_bytes_reject_next_unknown :
  let b := take 219 rc_bytes ++ hex "ffffffffffffffff" ++ drop 227 rc_bytes in
  parse_file b = None /\ is_ok (rd_all b) = true.
Proof. exact reject_next_unknown. Qed.

Example c01_bytes_reject_short_string :
  parse_file short_string_stream = None /\
  parse_metadata LE (drop 28 short_string_stream) =
    Ok ([mkEntry (hex "2f") INoData [mkProp (hex "6e") T_STRING (hex "68")]], []) /\
  is_ok (rd_all short_string_stream) = true.
Proof. exact reject_short_string. Qed.

Example c01_bytes_reject_raw_offset_without_metadata :
  let b := take 207 rc_bytes ++ take 12 (drop 207 rc_bytes) ++ u_enc LE 8 19 ++ u_enc LE 8 4 ++ drop 235 rc_bytes in
  parse_file b = None /\ is_ok (rd_all b) = true.
Proof. exact reject_raw_offset_without_metadata. Qed.

(* of the 255 cuts of rc_bytes exactly the three segment boundaries parse *)
Example c01_bytes_cuts :
  filter (fun k => match parse_file (take k rc_bytes) with Some _ => true | None => false end)
         (zrange 255 0) = [0; 207; 254] /\
  parse_file (take 0 rc_bytes) = Some [] /\
  parse_file (take 207 rc_bytes) = Some (firstn 1 rc_file) /\
  map (cut_boundary rc_file) [0; 27; 28; 206; 207; 208; 253; 254; 255] =
    [Some 0; None; None; None; Some 1; None; None; Some 2; None]%nat.
Proof. exact rc_bytes_cuts. Qed.

Print Assumptions parse_file_sound.
Print Assumptions parse_file_complete.
Print Assumptions parse_file_iff.
Print Assumptions ser_file_injective.
Print Assumptions parse_seg_sound.
Print Assumptions parse_seg_complete.
Print Assumptions parse_metadata_x_sound.
Print Assumptions parse_metadata_x_complete.
Print Assumptions parse_idx_sound.
Print Assumptions parse_leadin_sound.
Print Assumptions parse_metadata_x_lenient.
Print Assumptions parse_segs_fuel_irrelevant.
Print Assumptions cut_boundary_spec.
Print Assumptions parse_file_cut.
Print Assumptions parse_file_cut_inside.
Print Assumptions parse_file_cut_boundary.
Print Assumptions reader_refines_spec_bytes.
Print Assumptions reader_rejects_forbidden_bytes.
Print Assumptions read_correct_bytes.
Print Assumptions rd_metadata_bytes.
Print Assumptions truncation_values_prefix_bytes.
Print Assumptions endian_transparent_bytes.
Print Assumptions inheritance_transparent_read_bytes.
Print Assumptions lazy_is_window_of_eager_bytes.
Print Assumptions index_read_correct_bytes.
Print Assumptions c01_bytes_parse_literal.
Print Assumptions c01_bytes_parse_ser.
Print Assumptions c01_bytes_read_literal.
Print Assumptions c01_bytes_parse_px.
Print Assumptions c01_bytes_empty_stream.
Print Assumptions c01_bytes_reject_trailing.
Print Assumptions c01_bytes_reject_wrong_tag.
Print Assumptions c01_bytes_reject_short_metadata.
Print Assumptions c01_bytes_reject_inconsistent_offsets.
Print Assumptions c01_bytes_reject_next_unknown.
Print Assumptions c01_bytes_reject_short_string.
Print Assumptions c01_bytes_reject_raw_offset_without_metadata.
Print Assumptions c01_bytes_cuts.
