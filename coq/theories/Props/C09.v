(* C09 — A matching index file is transparent.
   Statements only (proofs: Proofs/IndexProofs.v).

   A file is given as its list of segments [fseg] = (lead-in record, metadata
   bytes, raw data bytes).  [data_image] is the .tdms byte stream (tag TDSm, raw
   data present), [index_image] the .tdms_index stream (tag TDSh, raw data
   stripped) — the construction DESIGN.md calls index_of.

   PROVED (closed under the global context):
   - index_advance, index_positions, data_positions, index_reads: the position
     translation; the index offset of segment i is the sum of (28 + metadata
     length) over the segments before it, which is what the reader's seek
     maintains, and both streams hold the same lead-in (except the tag) and the
     same metadata bytes at corresponding offsets;
   - index_token_equality: the metadata tokens do not depend on what follows the
     metadata block (raw data in the data file, the next lead-in in the index);
   - index_transparent: for every well-formed segment list ([segs_ok]: lead-in
     fields fit their widths, raw data offset = metadata length, metadata is the
     canonical serialisation of well-formed entries, next-segment offsets exact
     except that the LAST segment may be declared longer than the file or carry
     the length-unknown marker) the metadata pass over the index (with the data
     file's size) returns the same reader state — or the same error — as the
     pass over the data file.  Data reads depend only on that state and the
     data file's bytes (Model/Reader.v: rd_all_from), so they agree too:
     index_transparent_read.
   - index_only_transparent: opening the index alone (no file size) gives the
     same state when every next-segment offset is exact.

   NOT PROVED here (covered by the check's correspondence runs only):
   - that TdmsWriter's index file equals [index_image] (C08's statement);
   - files outside [segs_ok] (non-canonical metadata encodings, inexact offsets
     in inner segments);
   - "index-only refuses data reads" (a guard in tdms.py, not in the model). *)
From Coq Require Import List ZArith Lia.
Import ListNotations.
From NpTdms Require Import Base.Bytes Base.Res Model.Tokens Model.TokensWf Model.SegState Model.Layout
     Model.Reader Proofs.IndexProofs.
Local Open Scope Z_scope.

Theorem index_advance : forall seg_pos l fs dp np inc,
    lead_positions seg_pos l fs = Ok (LeadOk dp np inc) ->
    dp - seg_pos = 28 + l_raw l.
Proof. exact lead_ok_advance. Qed.

Theorem index_token_equality : forall e es rest1 rest2,
    wf_metadata es = true ->
    parse_metadata e (ser_metadata e es ++ rest1) = Ok (es, rest1) /\
    parse_metadata e (ser_metadata e es ++ rest2) = Ok (es, rest2) /\
    (do '(x, _) <- parse_metadata e (ser_metadata e es ++ rest1); Ok (Some x))
    = (do '(x, _) <- parse_metadata e (ser_metadata e es ++ rest2); Ok (Some x)).
Proof. exact metadata_tokens_continuation. Qed.

(* offsets are sums of segment sizes in the respective stream *)
Theorem index_offsets : forall segs i,
    index_off segs i = zsum (map (fun s => 28 + blen (fs_meta s)) (firstn i segs)) /\
    data_off segs i = zsum (map (fun s => 28 + blen (fs_meta s) + blen (fs_raw s)) (firstn i segs)) /\
    index_off segs i = blen (index_image (firstn i segs)) /\
    data_off segs i = blen (data_image (firstn i segs)).
Proof. exact index_offsets_spec. Qed.

Theorem index_positions : forall segs i s seg_pos fsz dp np inc,
    nth_error segs i = Some s ->
    l_raw (fs_lead s) = blen (fs_meta s) ->
    lead_positions seg_pos (fs_lead s) fsz = Ok (LeadOk dp np inc) ->
    index_off segs (S i) = index_off segs i + (dp - seg_pos).
Proof. exact IndexProofs.index_positions. Qed.

Theorem data_positions : forall segs i s fsz dp np,
    nth_error segs i = Some s ->
    l_next (fs_lead s) = blen (fs_meta s) + blen (fs_raw s) ->
    lead_positions (data_off segs i) (fs_lead s) fsz = Ok (LeadOk dp np false) ->
    np = data_off segs (S i).
Proof. exact IndexProofs.data_positions. Qed.

Theorem index_reads : forall segs i s,
    nth_error segs i = Some s ->
    read_at (index_off segs i) 28 (index_image segs) = TAG_INDEX ++ lead_body (fs_lead s) /\
    read_at (data_off segs i) 28 (data_image segs) = TAG_DATA ++ lead_body (fs_lead s) /\
    read_at (index_off segs i + 28) (blen (fs_meta s)) (index_image segs) = fs_meta s /\
    read_at (data_off segs i + 28) (blen (fs_meta s)) (data_image segs) = fs_meta s.
Proof. exact IndexProofs.index_reads. Qed.

Theorem index_transparent : forall segs want_index,
    segs_ok segs ->
    rd_metadata (index_image segs) true (Some (blen (data_image segs))) want_index
    = rd_metadata (data_image segs) false (Some (blen (data_image segs))) want_index.
Proof. exact IndexProofs.index_transparent. Qed.

(* TdmsFile.read(path) with / without path + "_index" beside it: same observation
   (hierarchy, properties, lengths, dtypes, data, file_status) or same error *)
Theorem index_transparent_read : forall segs,
    segs_ok segs ->
    rd_all_idx (data_image segs) (index_image segs) = rd_all (data_image segs).
Proof. exact IndexProofs.index_transparent_read. Qed.

(* the index alone (file size unknown) *)
Theorem index_only_transparent : forall segs want_index,
    segs_ok segs -> Forall seg_exact segs ->
    rd_metadata (index_image segs) true None want_index
    = rd_metadata (data_image segs) false (Some (blen (data_image segs))) want_index.
Proof. exact IndexProofs.index_only_transparent. Qed.

Print Assumptions index_advance.
Print Assumptions index_token_equality.
Print Assumptions index_offsets.
Print Assumptions index_positions.
Print Assumptions data_positions.
Print Assumptions index_reads.
Print Assumptions index_transparent.
Print Assumptions index_transparent_read.
Print Assumptions index_only_transparent.
