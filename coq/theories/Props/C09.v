(* C09 — A matching index file is transparent.
   FULL STATEMENT (DESIGN.md section 7 C09): index_transparent, index_only.
   Proved so far: the index stream advances by exactly lead-in + metadata
   length per segment, whatever the segment's (possibly clamped) end is. *)
From Coq Require Import List ZArith Lia.
Import ListNotations.
From NpTdms Require Import Base.Bytes Base.Res Model.Tokens Model.SegState Model.Layout Model.Reader.
Local Open Scope Z_scope.

Theorem index_advance : forall seg_pos l fs dp np inc,
    lead_positions seg_pos l fs = Ok (LeadOk dp np inc) ->
    dp - seg_pos = 28 + l_raw l.
Proof.
  intros seg_pos l fs dp np inc H. unfold lead_positions in H.
  destruct (l_next l =? 18446744073709551615).
  - destruct fs as [sz|]; [|discriminate].
    destruct (sz <? seg_pos + 28 + l_raw l); [discriminate|].
    injection H as <- _ _. lia.
  - destruct fs as [sz|].
    + destruct (sz <? seg_pos + l_next l + 28).
      * destruct (sz <? seg_pos + 28 + l_raw l); [discriminate|]. injection H as <- _ _. lia.
      * injection H as <- _ _. lia.
    + injection H as <- _ _. lia.
Qed.

Print Assumptions index_advance.
