(* C10 (composed with the reader model) - Defragmenting a file preserves its
   content.

   [defrag_read] / [defrag_read_tokens]: the file TdmsWriter.defragment writes
   for a content c (Model/Defrag.v: the call list [root]; per group [group],
   then one call per channel - issued through the writer model Model/Writer.v)
   READS, with the byte-level reader model rd_all (Model/Reader.v), to exactly
   that content:
     rd_all data = Ok (defrag_tokens v c, true)
   where [defrag_tokens v c] (Proofs/DefragRead.v) is written out on c alone:
   version v; the root properties; the groups of c in c's order, each with its
   properties and its channels in c's order; per channel its name, group,
   canonical path, data type [dtype_opt] (the source's type when the channel
   holds a value or the type is a NumPy type; none for an empty string / raw
   timestamp / untyped channel, which defragment writes without raw data - fix
   D7), length = number of source values, properties, and the source's values
   byte for byte; file_status complete.  Property lists appear as
   [merge_props ps []] (the dictionary built from the list: identical to ps
   when the names are distinct, as in every list read from a file).
   This is write_read (Props/C07_read.v) applied to defragment's calls; the
   data-type hypothesis of write_read is discharged (every object is written
   once because group names and, within a group, channel names are distinct:
   [names_distinct], true of every TdmsFile since groups and channels are
   dictionaries).  Remaining hypotheses: [wf_file] of the calls (lengths fit
   their fields, value sizes match types - "the writer accepts what the reader
   produced", as in defrag_preserves_partial) and [sizes_below_marker].

   [defrag_preserves_read_partial]: source and destination side by side.  For
   a source file syntax satisfying the hypotheses of C01's read_correct, with
   c := content_of_read h chunks (what TdmsFile(source, raw_timestamps=True)
   hands to defragment: h's root properties, groups and channels in h's order,
   each typed channel's values = the file-order concatenation read_correct
   proves, an untyped channel's empty array),
       rd_all (ser_file segs) = Ok (expected_tokens st h chunks, true)
   and rd_all destination    = Ok (defrag_tokens v c, true);
   names_distinct c is derived from build_hierarchy.
   PARTIAL - what is missing for "the two token lists are equal up to the
   version and the data type of empty channels": three facts about the
   source's reader state that are not proved here: (i) the property
   dictionaries of the hierarchy are well-keyed (key = property name, no
   repeats), so that merge_props (map snd ps) [] = ps; (ii) an untyped
   channel's ch_len is 0 (for typed channels ch_len = number of values is
   ReadCorrect.lengths_consistent_ser); (iii) g_name of a group = its
   dictionary key.  The canonical path (chan_path g c = ch_path) follows from
   build_hierarchy_channels.  The Example below evaluates both sides on C01's
   example file: the destination's tokens equal the source's. *)
From Coq Require Import List ZArith Bool.
From Coq Require Import Init.Byte.
Import ListNotations.
From NpTdms Require Import Base.Bytes Base.Res Model.Tokens Model.TokensWf Model.ByteStr
  Model.StrictParse Model.Writer Model.Defrag Props.C10.
From NpTdms Require Import Model.SegState Model.Layout Model.Reader Model.FileSyn
  Proofs.LayoutProofs Proofs.FileSynProofs Proofs.ReadCorrect
  Proofs.WriteReadSpec Proofs.WriteReadBytes Proofs.WriteRead Proofs.DefragRead.
Local Open Scope Z_scope.

(* the destination reads to the content it was given (general form: the
   content tokens of the object list root; group, its channels; ...) *)
Theorem defrag_read : forall v c data index,
  Writer.wf_file [(v, defrag_calls c)] = true ->
  sizes_below_marker [(v, defrag_calls c)] = true ->
  NoDup (map obj_path (defrag_seq c)) ->
  defrag v c = Ok (data, index) ->
  rd_all data = Ok (content_tokens_of_seq v (defrag_seq c), true).
Proof. exact defrag_read_lemma. Qed.

(* ... written out on the content *)
Theorem defrag_read_tokens : forall v c data index,
  Writer.wf_file [(v, defrag_calls c)] = true ->
  sizes_below_marker [(v, defrag_calls c)] = true ->
  names_distinct c ->
  defrag v c = Ok (data, index) ->
  rd_all data = Ok (defrag_tokens v c, true).
Proof. exact defrag_read_tokens_lemma. Qed.

(* hierarchy and values of the destination, as records *)
Theorem defrag_hierarchy : forall c,
  names_distinct c ->
  content_hierarchy (defrag_seq c) = hier_of_content c /\
  forall G ch, In G (d_groups c) -> In ch (dg_chans G) ->
               values_at (chan_path (dg_name G) (dc_name ch)) (defrag_seq c) = dc_vals ch.
Proof. exact DefragRead.defrag_hierarchy. Qed.

(* the data type survives whenever the channel holds a value *)
Theorem defrag_dtype_preserved : forall n ty v vals ps,
  dtype_opt (mkDChan n (Some ty) (v :: vals) ps) = if ty =? T_VOID then None else Some ty.
Proof. reflexivity. Qed.

Theorem content_of_read_distinct : forall om h chunks,
  build_hierarchy om = Ok h -> names_distinct (content_of_read h chunks).
Proof. exact DefragRead.content_of_read_distinct. Qed.

Theorem defrag_preserves_read_partial : forall segs st h chunkss v data' index',
  FileSynProofs.wf_file segs ->
  sm_run segs false = Ok st ->
  build_hierarchy (rs_om st) = Ok h ->
  segs_encode (rs_segments st) segs chunkss ->
  om_paths_canonical (rs_om st) ->
  typed_objects_are_channels (rs_om st) ->
  let c := content_of_read h (concat chunkss) in
  Writer.wf_file [(v, defrag_calls c)] = true ->
  sizes_below_marker [(v, defrag_calls c)] = true ->
  defrag v c = Ok (data', index') ->
  rd_all (ser_file segs) = Ok (expected_tokens st h (concat chunkss), true) /\
  rd_all data' = Ok (defrag_tokens v c, true).
Proof. exact defrag_preserves_read_lemma. Qed.

(* ---- non-vacuity ------------------------------------------------------------------------------------ *)

Lemma c10_example_distinct : names_distinct c10_example.
Proof.
  split.
  - cbn. repeat constructor; cbn; intuition discriminate.
  - intros g [<-|[<-|[]]]; cbn; repeat constructor; cbn; intuition discriminate.
Qed.

(* Props/C10.v c10_example (root property; group g with an int32 channel of 2
   values, an EMPTY string channel, an untyped channel, a raw-timestamp channel;
   an empty group h): hypotheses hold, the theorem applies, and the reader
   model evaluated on the destination bytes gives the same tokens *)
Example c10_example_read :
  exists data index,
    defrag 4712 c10_example = Ok (data, index) /\
    rd_all data = Ok (defrag_tokens 4712 c10_example, true).
Proof.
  destruct (defrag 4712 c10_example) as [[d i]|e] eqn:E; [|vm_compute in E; discriminate].
  exists d, i. split; [reflexivity|].
  apply (defrag_read_tokens 4712 c10_example d i); [exact c10_example_wf|vm_compute; reflexivity| |exact E].
  exact c10_example_distinct.
Qed.

Section Tokens.
Import String.
Local Open Scope string_scope.

Definition c10_example_tokens : list tok :=
  [TZ 4712; TZ 1; TB (hex "74"); TZ 3; TB (hex "78");
   TZ 2;
   TB (hex "67"); TZ 1; TB (hex "70"); TZ 0; TZ 5; TZ 4;
     TB (hex "61"); TB (hex "67"); TB (hex "2f2767272f276127"); TZ 3; TZ 2; TZ 0;
     TZ 0; TZ 2; TB (hex "01000000"); TB (hex "ffffff7f");
     TB (hex "73"); TB (hex "67"); TB (hex "2f2767272f277327"); TZ (-1); TZ 0; TZ 1; TB (hex "75"); TZ 3; TB (hex "56");
     TZ 2;
     TB (hex "6e"); TB (hex "67"); TB (hex "2f2767272f276e27"); TZ (-1); TZ 0; TZ 0;
     TZ 2;
     TB (hex "74"); TB (hex "67"); TB (hex "2f2767272f277427"); TZ 68; TZ 1; TZ 0;
     TZ 0; TZ 1; TB (hex "01000000000000801027000000000000");
   TB (hex "68"); TZ 0; TZ 0;
   TZ 0; TZ 0].

Example c10_example_evaluates :
  defrag_tokens 4712 c10_example = c10_example_tokens /\
  match defrag 4712 c10_example with
  | Ok (d, _) => match rd_all d with Ok (t, true) => toks_eqb t c10_example_tokens | _ => false end
  | Err _ => false
  end = true.
Proof. split; vm_compute; reflexivity. Qed.

(* source -> reader -> defragment -> reader on C01's example file rc_file (two
   segments, the second without metadata; int32 channel a with 6 values and a
   property, string channel b with 6 values): the destination's tokens are the
   source's tokens *)
Definition rc_content : dcontent := content_of_read rc_h (List.concat rc_chunks).

Example c10_pipeline_example :
  exists data index,
    Writer.wf_file [(4713, defrag_calls rc_content)] = true /\
    sizes_below_marker [(4713, defrag_calls rc_content)] = true /\
    defrag 4713 rc_content = Ok (data, index) /\
    rd_all (ser_file rc_file) = Ok (expected_tokens rc_st rc_h (List.concat rc_chunks), true) /\
    rd_all data = Ok (defrag_tokens 4713 rc_content, true) /\
    defrag_tokens 4713 rc_content = expected_tokens rc_st rc_h (List.concat rc_chunks).
Proof.
  assert (Hwf : Writer.wf_file [(4713, defrag_calls rc_content)] = true) by (vm_compute; reflexivity).
  assert (Hsz : sizes_below_marker [(4713, defrag_calls rc_content)] = true) by (vm_compute; reflexivity).
  destruct (defrag 4713 rc_content) as [[d i]|e] eqn:E; [|vm_compute in E; discriminate].
  exists d, i. split; [exact Hwf|]. split; [exact Hsz|]. split; [reflexivity|].
  destruct (defrag_preserves_read_partial rc_file rc_st rc_h rc_chunks 4713 d i
              rc_wf rc_run rc_hier rc_encodes rc_canonical rc_typed_channels Hwf Hsz E) as [Hs Hd].
  split; [exact Hs|]. split; [exact Hd|]. vm_compute. reflexivity.
Qed.
End Tokens.

Print Assumptions defrag_read.
Print Assumptions defrag_read_tokens.
Print Assumptions defrag_hierarchy.
Print Assumptions defrag_dtype_preserved.
Print Assumptions content_of_read_distinct.
Print Assumptions defrag_preserves_read_partial.
Print Assumptions c10_example_read.
Print Assumptions c10_example_evaluates.
Print Assumptions c10_pipeline_example.
