(* C04 (companion) — the per-segment chunk arithmetic of TdmsReader.read_raw_data_for_channel
   (which chunks of a segment to fetch and how many values to skip), TRANSLATED from
   nptdms/reader.py, equals the hand-written Model/LazyRead.v seg_chunk_range (repaired
   variant, fix_final = true) that window_correct and plan_exact_chunks are proved about.
   Statements only (proofs: Proofs/GenReaderLazy.v).  The translated fragment is the body of
   the loop over segments from `chunk_offset = 0` to the inner loop that reads the chunks;
   `continue` (channel absent or without data in the segment) is the result None. *)
From Coq Require Import List ZArith.
Import ListNotations.
From NpTdms Require Import Base.Bytes Base.Res Model.Tokens Model.SegState Model.LazyRead
     Gen.PyFuncsReader Proofs.GenReaderEquiv Proofs.GenReaderLazy.
From NpTdms Require Model.LazyBytes.
Local Open Scope Z_scope.

(* segment.get_segment_object is the lookup Model/LazyBytes.v uses *)
Theorem segment_object_is_model_lookup : forall s path,
    segment_object s path = LazyBytes.segment_object s path.
Proof. exact segment_object_eq. Qed.

Theorem read_chunk_range_translated : forall s path offs first st en off ei si,
    read_chunk_range_gen s path offs first st en off ei si
    = if sv_chunk (seg_view s path) =? 0 then Ok None
      else do r <- seg_chunk_range unit true first offs st en off ei si (seg_view s path); Ok (Some r).
Proof. exact read_chunk_range_eq. Qed.

(* 4 chunks of 3 values, the last one truncated to 2 (11 values); window [4, 10): chunks 1..3,
   skipping one value of the first *)
Example c04_gen_example :
  read_chunk_range_gen (mkSeg 0 14 0 0 false [ex_a] [(so_path ex_a, 0%nat)] 4 (Some [(so_path ex_a, 2)]))
                       (so_path ex_a) [11] 0 0 0 4 10 0 = Ok (Some (1, 3, 1)).
Proof. exact ex_c04_values. Qed.

Print Assumptions segment_object_is_model_lookup.
Print Assumptions read_chunk_range_translated.
Print Assumptions c04_gen_example.
