(* C11 (companion) — the CHUNK LOOP of a DAQmx segment TRANSLATED from the source on every run
   (harness/gen/gen_pyfuncs_daqmxloop.py -> Gen/PyFuncsDaqmxLoop.v: nptdms/base_segment.py
   BaseDataReader.read_data_chunks, `for chunk in range(num_chunks): yield self._read_data_chunk(..)`, as INHERITED by
   nptdms/daqmx.py DaqmxDataReader -- that it is inherited and not overridden is checked on the AST and by reflection
   on the imported classes; the chunk reader it calls is the translated DaqmxDataReader._read_data_chunk of
   Gen/PyFuncsDaqmxRead.v) equals Model/Layout.v read_chunks_loop over read_daqmx_chunk, i.e. read_segment_chunks of a
   segment whose layout is DAQmx, and Props/C11.v daqmx_segment_addressing holds OF THE TRANSLATED READER.
   Statements only; proofs: Proofs/GenDaqmxLoopEquiv.v.  This closes the gap named in the header of Props/C11_gen3.v.

   A generator is modelled as the list it yields when read to its end, together with the file position afterwards
   (the self-test compares both with the real generator consumed by list(..) on real files).  This covers every
   consumer that runs the loop to exhaustion and does not move the file between two chunks; nptdms's own consumer
   (TdmsSegment.read_raw_data) remembers the position after each chunk and seeks back to it before resuming, so it is
   covered even when its caller reads elsewhere in between.

   The final-chunk override: the reader object carries num_chunks and final_chunk_lengths_override (arguments nc0,
   fin below); the DAQmx chunk reader never looks at them -- the statements quantify over them.  A truncated last
   chunk is read with the same buffer dimensions and cut short by the end of the file (whole rows only); the
   override only enters the value counts (Props/C11_gen.v get_daqmx_final_chunk_lengths).

   Abstraction: [chunks_abs_dq] = Proofs/GenDaqmxEquiv.v [rawchunk_chunk_dq] on every yielded chunk (a NumPy array is
   (dtype, raw bytes); its values are the canonical little-endian value bytes).  Domain [daqmx_objs_ok] as in
   Props/C11_gen3.v. *)
From Coq Require Import String Ascii.
From Coq Require Import List ZArith.
Import ListNotations.
From NpTdms Require Import Base.Bytes Base.Res Model.Tokens Model.SegState Model.Layout Model.Reader
     Gen.PyFuncsReader Gen.PyFuncsDecode Gen.PyFuncsDaqmxRead Gen.PyFuncsDaqmxLoop
     Proofs.DaqmxProofs Proofs.GenReaderEquiv Proofs.GenDecodeEquiv Proofs.GenDecodeRecv Proofs.GenDaqmxEquiv
     Proofs.GenDaqmxLoopEquiv.
Local Open Scope Z_scope.

(* THE LOOP: same list of chunks (every dictionary with its order), same file position, same exception *)
Theorem daqmx_read_data_chunks_translated : forall nc0 fin e objs nc cur fuel,
    (Z.to_nat nc <= fuel)%nat ->
    daqmx_objs_ok objs ->
    mapr (fun p => (chunks_abs_dq (fst p), snd p)) (daqmx_read_data_chunks_gen nc0 fin e cur objs nc)
    = mapr (fun p => (Some (fst p), snd p))
           (read_chunks_loop fuel (fun _ b => read_daqmx_chunk e objs b) 0 nc cur).
Proof. exact daqmx_read_data_chunks_eq. Qed.

(* THE SEGMENT: the reader object and call TdmsSegment makes for a segment (daqmx_segment_chunks_gen: num_chunks,
   final_chunk_lengths_override, byte order from the ToC, the data objects) = read_segment_chunks.  The model's loop
   has fuel 2 + (bytes left in the file); a segment's chunk count never exceeds it (third hypothesis; shown
   satisfiable below) *)
Theorem daqmx_segment_chunks_translated : forall sg cur,
    seg_layout sg = Ok LDaqmx ->
    daqmx_objs_ok (data_objs (sg_objs sg)) ->
    (Z.to_nat (sg_nchunks sg) <= S (S (length cur)))%nat ->
    mapr (fun p => (chunks_abs_dq (fst p), snd p)) (daqmx_segment_chunks_gen sg cur)
    = mapr (fun p => (Some (fst p), snd p)) (read_segment_chunks sg cur).
Proof. exact daqmx_segment_chunks_eq. Qed.

(* Props/C11.v daqmx_segment_addressing ON THE TRANSLATED READER: value i of scaler s of channel o in the j-th chunk
   the translated loop yields is the typed value at
     j * chunk_bytes + buffer_base(k) + i * width(k) + byte offset        ([cur]: the file from data_position on)
   with the buffer dimensions computed by the translated get_buffer_dimensions; no hypothesis on the number of
   chunks or on the reader's num_chunks / override attributes *)
Theorem daqmx_segment_addressing_translated : forall nc0 fin e objs nc cur rcs cur' dims,
    daqmx_objs_ok objs ->
    daqmx_read_data_chunks_gen nc0 fin e cur objs nc = Ok (rcs, cur') ->
    get_buffer_dimensions_gen objs = Ok dims ->
    forall o q s k n w dt sz j rc,
    In o objs -> NoDup (map so_path objs) -> so_daqmx o = Some q -> so_dtype o = Some T_DAQMX ->
    In s (dq_scalers q) -> NoDup (map sc_id (dq_scalers q)) ->
    nth_error dims k = Some (n, w) -> sc_buf s = Z.of_nat k ->
    daqmx_type (sc_type s) = Some dt -> tds_size dt = Some (Some sz) ->
    nth_error rcs j = Some rc ->
    let base := Z.of_nat j * chunk_bytes dims + buffer_base dims k in
    exists c vs,
      rawchunk_chunk_dq rc = Some c /\
      holds (so_path o) (sc_id s) vs c /\
      length vs = length (items w (read_at base (w * n) cur)) /\
      forall i, (i < length vs)%nat ->
                nth_error vs i = Some (scaler_value_at e (dq_kind q) s dt sz base w cur i).
Proof. exact daqmx_loop_addressing. Qed.

(* ... and daqmx_segment_addressing_typed (a channel whose data type is its single scaler's type: plain data) *)
Theorem daqmx_segment_addressing_typed_translated : forall nc0 fin e objs nc cur rcs cur' dims,
    daqmx_objs_ok objs ->
    daqmx_read_data_chunks_gen nc0 fin e cur objs nc = Ok (rcs, cur') ->
    get_buffer_dimensions_gen objs = Ok dims ->
    forall o q s dto k n w dt sz j rc,
    In o objs -> NoDup (map so_path objs) -> so_daqmx o = Some q ->
    so_dtype o = Some dto -> dto <> T_DAQMX -> dq_scalers q = [s] ->
    nth_error dims k = Some (n, w) -> sc_buf s = Z.of_nat k ->
    daqmx_type (sc_type s) = Some dt -> tds_size dt = Some (Some sz) ->
    nth_error rcs j = Some rc ->
    let base := Z.of_nat j * chunk_bytes dims + buffer_base dims k in
    exists c vs,
      rawchunk_chunk_dq rc = Some c /\
      alookup (so_path o) c = Some (CData vs) /\
      length vs = length (items w (read_at base (w * n) cur)) /\
      forall i, (i < length vs)%nat ->
                nth_error vs i = Some (scaler_value_at e (dq_kind q) s dt sz base w cur i).
Proof. exact daqmx_loop_addressing_typed. Qed.

(* the abstraction of the chunk list is that of the single chunks, position by position *)
Theorem chunks_abs_dq_pointwise : forall l cs j rc,
    chunks_abs_dq l = Some cs -> nth_error l j = Some rc ->
    exists c, rawchunk_chunk_dq rc = Some c /\ nth_error cs j = Some c.
Proof. exact chunks_abs_dq_nth. Qed.

(* the big-endian two-chunk segment of Props/C11.v: the hypotheses hold and the translated loop returns both chunks of
   c11_segment_example and leaves the file at its end *)
Section Examples.
Import String.
Local Open Scope string_scope.
Example c11_gen4_example :
  seg_layout DaqmxProofs.ex_seg = Ok LDaqmx /\
  daqmx_objs_ok (data_objs (sg_objs DaqmxProofs.ex_seg)) /\
  (Z.to_nat (sg_nchunks DaqmxProofs.ex_seg) <= S (S (List.length DaqmxProofs.ex_data)))%nat /\
  mapr (fun p => (chunks_abs_dq (fst p), snd p)) (daqmx_segment_chunks_gen DaqmxProofs.ex_seg DaqmxProofs.ex_data)
  = Ok (Some [ [(hex "2f2761", CScalers [(0, [hex "0201"; hex "1211"]); (1, [hex "0403"; hex "1413"])]);
                (hex "2f2762", CScalers [(0, [hex "a1"; hex "b1"; hex "c1"])]);
                (hex "2f2763", CScalers [(0, [hex "00"; hex "00"; hex "00"])])];
               [(hex "2f2761", CScalers [(0, [hex "2221"; hex "3231"]); (1, [hex "2423"; hex "3433"])]);
                (hex "2f2762", CScalers [(0, [hex "04"; hex "ff"; hex "01"])]);
                (hex "2f2763", CScalers [(0, [hex "01"; hex "01"; hex "00"])])] ], []) /\
  get_buffer_dimensions_gen (data_objs (sg_objs DaqmxProofs.ex_seg)) = Ok [(2, 4); (3, 3)].
Proof. exact ex_daqmx_loop_gen. Qed.
End Examples.

Print Assumptions daqmx_read_data_chunks_translated.
Print Assumptions daqmx_segment_chunks_translated.
Print Assumptions daqmx_segment_addressing_translated.
Print Assumptions daqmx_segment_addressing_typed_translated.
Print Assumptions chunks_abs_dq_pointwise.
Print Assumptions c11_gen4_example.
