(* C12 — Timestamps round-trip exactly and convert to datetime64 within one unit.
   Statements only; proofs live in Proofs/TimestampProofs.v.

   The integer theorems are about the code AFTER repair D5 (dev/patches/D5.patch);
   [roundtrip_refuted] is about the code before it.  Times are integers:
   microseconds since the TDMS epoch (v), datetime64 integers since 1970 (d),
   seconds s and 2^-64 fractions f of a raw timestamp. *)
From Coq Require Import ZArith List Reals.
From Coq Require String.
From Flocq Require Import Core.Raux.
From NpTdms Require Import Base.Bytes Model.Timestamp Proofs.TimestampProofs.
Import ListNotations.
Local Open Scope Z_scope.

(* ---- datetime -> (seconds, fractions) -> datetime is the identity ---------
   for every microsecond count whose distance from the TDMS epoch fits int64
   (the only ones NumPy can subtract the epoch from); the fields produced fit
   the 'Q' and 'q' struct formats. *)
Theorem ts_roundtrip : forall v,
    - 2 ^ 63 <= v < 2 ^ 63 ->
    dec_us (enc_us v) = v /\
    0 <= snd (enc_us v) < 2 ^ 64 /\ - 2 ^ 63 <= fst (enc_us v) < 2 ^ 63.
Proof.
  intros v Hv. split; [apply dec_enc_us|].
  destruct (enc_us_ranges v Hv) as [Hs Hf]. split; assumption.
Qed.

(* the same through the 16 bytes written, for a datetime64[us] value d, read
   back on the scalar path (dec_dt) and on the array path.  d - epoch must fit
   int64 (encoding) and so must the start of the second containing d, the one
   intermediate value NumPy forms when decoding: this excludes the first second
   of the datetime64[us] range (year -290308) and the last 66 years of it. *)
Theorem ts_roundtrip_datetime64 : forall d,
    - 2 ^ 63 <= d - TDMS_EPOCH_US < 2 ^ 63 -> - 2 ^ 63 + 1000000 <= d ->
    exists b, wr_ts LE (fst (enc_dt d)) (snd (enc_dt d)) = Some b /\
              forall sf, rd_ts LE b = Some sf ->
                         dec_dt sf = d /\ conv_array Rus (fst sf) (snd sf) = d /\
                         - 2 ^ 63 <= (EPOCH_S + fst sf) * 1000000 < 2 ^ 63.
Proof. exact ts_roundtrip_bytes. Qed.

(* ---- raw timestamps survive bytes -> fields -> bytes, both byte orders ------ *)
Theorem raw_bytes_roundtrip : forall e s f,
    0 <= f < 2 ^ 64 -> - 2 ^ 63 <= s < 2 ^ 63 ->
    exists b, wr_ts e s f = Some b /\ length b = 16%nat /\ rd_ts e b = Some (s, f).
Proof. exact TimestampProofs.raw_bytes_roundtrip. Qed.

Theorem raw_bytes_roundtrip_rev : forall e b s f,
    rd_ts e b = Some (s, f) ->
    wr_ts e s f = Some b /\ (- 2 ^ 63 <= s < 2 ^ 63) /\ (0 <= f < 2 ^ 64).
Proof. exact TimestampProofs.raw_bytes_roundtrip_rev. Qed.

Theorem raw_array_roundtrip : forall e l,
    Forall (fun sf => (- 2 ^ 63 <= fst sf < 2 ^ 63) /\ (0 <= snd sf < 2 ^ 64)) l ->
    exists b, wr_ts_array e l = Some b /\ rd_ts_array e (length l) b = Some l.
Proof. exact TimestampProofs.raw_array_roundtrip. Qed.

(* ---- conversion is within one unit of the exact rational time ---------------
   exact time = X / 2^64 seconds after the epoch, X = s * 2^64 + f; in units of
   1/m seconds that is m * X / 2^64.  Multiplied through by 2^64:
       exact - 1 < conv <= exact + m * 2^12 / 2^64      (and m * 2^12 < 2^64)
   i.e. truncation after adding 2^-52 s; in particular |conv - exact| < 1. *)
Theorem conv_within_unit : forall r s f,
    0 <= f < 2 ^ 64 ->
    let m := steps_per_second r in
    let X := s * 2 ^ 64 + f in
    m * X - 2 ^ 64 < conv r s f * 2 ^ 64 <= m * X + m * TOL /\ m * TOL < 2 ^ 64.
Proof. exact TimestampProofs.conv_within_unit. Qed.

(* ---- monotone in the lexicographic order of (seconds, fractions) ----------- *)
Theorem conv_monotone : forall r s f s' f',
    0 <= f < 2 ^ 64 -> 0 <= f' < 2 ^ 64 ->
    s < s' \/ (s = s' /\ f <= f') ->
    conv r s f <= conv r s' f'.
Proof. exact TimestampProofs.conv_monotone. Qed.

(* ---- scalar (Python int) and array (wrapping uint64, hi/lo split) paths agree *)
Theorem scalar_eq_array : forall r s f,
    0 <= f < 2 ^ 64 -> conv_array r s f = conv_scalar r s f.
Proof. exact conv_array_scalar. Qed.

(* conv counts from 1904, the datetime64 integer from 1970 *)
Theorem conv_scalar_is_conv : forall r s f,
    conv_scalar r s f = EPOCH_S * steps_per_second r + conv r s f.
Proof. exact conv_scalar_conv. Qed.

(* ---- why the tolerance: a fraction up to 2^12 units below the exact value of
   k steps still reads as k (files written with truncating float arithmetic) -- *)
Theorem dec_tolerates_truncation : forall r k d,
    let m := steps_per_second r in
    0 <= k < m -> 0 <= d <= TOL ->
    0 <= - ((- k * 2 ^ 64) / m) - d ->
    frac_steps_scalar r (- ((- k * 2 ^ 64) / m) - d) = k.
Proof. exact frac_steps_tolerates. Qed.

(* ---- the unchanged code (float scaling) does not round-trip: defect D5 ------ *)
Theorem roundtrip_refuted : exists v, AsIs.dec_us (AsIs.enc_us v) <> v.
Proof. exact asis_roundtrip_refuted. Qed.

Theorem frac_roundtrip_refuted :
  exists us, 0 <= us < 1000000 /\ AsIs.dec_frac (AsIs.enc_frac us) <> us.
Proof. exact asis_frac_roundtrip_refuted. Qed.

(* ---- time_track -------------------------------------------------------------- *)
Local Open Scope R_scope.

Theorem time_track_length : forall o inc n, length (time_track_R o inc n) = n.
Proof. exact TimestampProofs.time_track_length. Qed.

Theorem time_track_point : forall o inc n i,
    (i < n)%nat -> nth_error (time_track_R o inc n) i = Some (o + INR i * inc).
Proof. exact time_track_nth. Qed.

Theorem time_track_spacing : forall o inc n i x y,
    (S i < n)%nat ->
    nth_error (time_track_R o inc n) i = Some x ->
    nth_error (time_track_R o inc n) (S i) = Some y ->
    y - x = inc.
Proof. exact TimestampProofs.time_track_spacing. Qed.

Theorem time_track_empty : forall o inc, time_track_R o inc 0 = [].
Proof. exact time_track_0. Qed.

Theorem time_track_single : forall o inc, time_track_R o inc 1 = [o].
Proof. exact time_track_1. Qed.

(* absolute form: start plus the truncated offsets, each within one unit of
   start + offset * unit *)
Theorem time_track_absolute : forall start r o inc n i,
    (i < n)%nat ->
    exists z,
      nth_error (time_track_abs start r o inc n) i = Some z /\
      z = (start + Ztrunc ((o + INR i * inc) * unit_correction r))%Z /\
      Rabs (IZR z - (IZR start + (o + INR i * inc) * unit_correction r)) < 1.
Proof. exact time_track_abs_nth. Qed.

Theorem time_track_absolute_length : forall start r o inc n,
    length (time_track_abs start r o inc n) = n.
Proof. exact time_track_abs_length. Qed.

Local Open Scope Z_scope.

(* ---- non-vacuity --------------------------------------------------------------
   2020-01-01T00:00:16.000001 (the datetime the unchanged code loses), a
   pre-1904 datetime, and the value pinned by the test-suite. *)
Example c12_roundtrip_2020 :
  enc_us 3660681616000001 = (3660681616, 18446744073710) /\
  dec_us (enc_us 3660681616000001) = 3660681616000001 /\
  AsIs.dec_us (AsIs.enc_us 3660681616000001) = 3660681616000000.
Proof. vm_compute. repeat split. Qed.

Example c12_roundtrip_negative :
  enc_us (-1500001) = (-2, 9223353590110702099) /\ dec_us (enc_us (-1500001)) = -1500001.
Proof. vm_compute. split; reflexivity. Qed.

Example c12_datetime64_instance :
  - 2 ^ 63 <= 1577836816000001 - TDMS_EPOCH_US < 2 ^ 63 /\
  enc_dt 1577836816000001 = (3660681616, 18446744073710) /\
  dec_dt (enc_dt 1577836816000001) = 1577836816000001.
Proof. vm_compute. repeat split; discriminate. Qed.

Example c12_conv_pinned :
  map (fun r => conv_scalar r 3524551547 12345678900000000000) [Rs; Rms; Rus; Rns]
  = [1441706747; 1441706747669; 1441706747669260; 1441706747669260594] /\
  map (fun r => conv_array r 3524551547 12345678900000000000) [Rs; Rms; Rus; Rns]
  = [1441706747; 1441706747669; 1441706747669260; 1441706747669260594].
Proof. vm_compute. split; reflexivity. Qed.

Section RawBytesExample.
Import String.
Local Open Scope string_scope.
Example c12_raw_bytes :
  wr_ts BE (-2) 9223353590110702099 = Some (hex "fffffffffffffffe7fffef39085f4a13") /\
  rd_ts BE (hex "fffffffffffffffe7fffef39085f4a13") = Some (-2, 9223353590110702099) /\
  wr_ts LE (-2) 9223353590110702099 = Some (hex "134a5f0839efff7ffeffffffffffffff").
Proof. vm_compute. repeat split. Qed.
End RawBytesExample.

Print Assumptions ts_roundtrip.
Print Assumptions ts_roundtrip_datetime64.
Print Assumptions raw_bytes_roundtrip.
Print Assumptions raw_bytes_roundtrip_rev.
Print Assumptions raw_array_roundtrip.
Print Assumptions conv_within_unit.
Print Assumptions conv_monotone.
Print Assumptions scalar_eq_array.
Print Assumptions conv_scalar_is_conv.
Print Assumptions dec_tolerates_truncation.
Print Assumptions roundtrip_refuted.
Print Assumptions frac_roundtrip_refuted.
Print Assumptions time_track_length.
Print Assumptions time_track_point.
Print Assumptions time_track_spacing.
Print Assumptions time_track_empty.
Print Assumptions time_track_single.
Print Assumptions time_track_absolute.
Print Assumptions time_track_absolute_length.
