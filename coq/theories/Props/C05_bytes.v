(* C05 (on BYTES) — reads from an open file are independent of earlier reads, and
   what they yield is the EAGER data of read_correct.

   Props/C05.v proves history independence for every well-formed ABSTRACT file
   (Model/IoPlan.v: channels, segments, objects, labelled value blocks).  That
   abstract file used to be supplied by the generator of harness/c05.py.  Here it
   is COMPUTED from the file:

     iofile_of_bytes data    (Model/IoBytes.v) metadata pass WITH segment indexes
                             on the bytes (what TdmsFile.open runs), hierarchy,
                             then per segment record: position, data_position,
                             kTocRawData, interleaved iff the segment's reader is
                             the InterleavedDataReader, the data objects (channel
                             number = position of the path among the hierarchy's
                             channels, number_values, data_size) and the raw data
                             decoded by the chunk decoders (tag check at the
                             segment position included), cut into num_chunks
                             chunks; a value is labelled [lab v], an INJECTIVE
                             numbering of its canonical bytes ([lab_inj]).

   For a serialised file [ser_file segs] under read_correct's hypotheses
   (Props/C01_read.v) and
        seg_paths_distinct st   no segment's object list names a path twice
                                (as for lazy = eager, Props/C03_read.v, where it
                                is shown necessary; such a segment has no IoPlan
                                description: [c05b_dup_no_iofile])
        io_regular st = true    what IoPlan.wf_file demands of the metadata beyond
                                that: every data object declares >= 1 value and
                                >= 1 byte per chunk; a segment carries kTocRawData
                                iff it has data objects, and then >= 1 chunk
   the theorems are:

     iofile_wf                  iofile_of_bytes succeeds and IoPlan.wf_file holds
                                (so Props/C05.v applies to FILES), one abstract
                                segment per segment, channels 0..n-1
     io_read_is_lazy_read       a fresh-state read_data(offs, len) of the state
                                machine = the labelled values that
                                LazyBytes.lz_read_bytes returns on the bytes = the
                                window of the eager data
     io_index_is_eager_index    channel[k] = Python indexing of the eager data
     io_slice_is_eager_slice    channel[a:b:s] = CPython's slice of the eager data
                                (= the translated _read_slice on lz_read_bytes)
     io_chan_iterator           channel.data_chunks() run to completion: per segment
                                in which the channel is a data object its part of
                                every decoded chunk, .offset = values delivered
                                before; the chunks concatenate to the eager data
     io_file_iterator           tdms_file.data_chunks() run to completion: one empty
                                chunk per segment without kTocRawData, else the decoded
                                chunks; per channel of the file its values in the chunk
                                and .offset = number of its values in the chunks before
                                (IoBytesTop.eager_file_outs, from the eager chunks alone)
     history_independent_bytes  EVERY history: every operation yields the window /
                                index / slice / chunk of the eager data, whatever
                                was read before (IoBytesIndex.spec_out, a function
                                of the eager value lists and chunk lists only)
     history_inv_bytes          and the invariant of Props/C05.v holds along the way

   Zero-length and untyped channels are covered everywhere (IoPlan.slice_plan has
   the early return `if self._length == 0` of _read_slice: [slice_zero_length]).

   NOT covered: as read_correct (DAQmx, truncated last segments); files outside
   io_regular (e.g. a metadata-only segment that inherits data objects, or a data
   object declaring 0 values), for which IoPlan.wf_file itself is false. *)
From Coq Require Import List ZArith Bool.
Import ListNotations.
From NpTdms Require Import Base.Bytes Base.Res Base.PySlice Model.Tokens Model.TokensWf Model.SegState
     Model.Layout Model.Reader Model.FileSyn Model.LazyBytes Model.IoBytes
     Proofs.LayoutProofs Proofs.FileSynProofs Proofs.ReadCorrect Proofs.SliceProofs
     Proofs.LazyEagerIndex Proofs.LazyEagerView Proofs.LazyEagerTop Proofs.LazyEagerExamples
     Proofs.IoBytesSeg Proofs.IoBytesFile Proofs.IoBytesTop Proofs.IoBytesExamples.
From NpTdms Require Model.IoPlan Proofs.IoPlanProofs Proofs.IoBytesIndex.
Local Open Scope Z_scope.

(* ---- labels and channel numbers ------------------------------------------------------ *)

Theorem lab_inj : forall a b : bytes, lab a = lab b -> a = b.
Proof. exact IoBytesSeg.lab_inj. Qed.

(* channel number i <-> the i-th path of the hierarchy's channel list *)
Theorem chan_path_index : forall ps i p,
    NoDup ps -> (chan_path ps i = Some p <-> path_index p ps = Some i).
Proof. exact IoBytesTop.chan_path_index. Qed.

(* ---- facts about the abstract state machine alone that the tie needs ------------------ *)

(* channel[i] on a fresh state = Python indexing of the channel's value list *)
Theorem abstract_index_value : forall f ch i,
    IoPlan.wf_file f = true ->
    snd (IoPlan.step f IoPlan.init (IoPlan.Index ch i)) = IoBytesIndex.list_index (IoPlan.chan_values f ch) i.
Proof.
  intros f ch i Hwf.
  destruct (IoPlanProofs.do_index_spec f IoPlan.init ch i Hwf (IoPlanProofs.tbl_ok_nil f)) as (H & _).
  - intros c ce Hce. discriminate.
  - exact (eq_trans H (IoBytesIndex.index_value f ch i Hwf)).
Qed.

(* channel[a:b:c] on a fresh state = CPython's slice of the value list *)
Theorem abstract_slice_value : forall f ch a b c,
    IoPlan.wf_file f = true ->
    snd (IoPlan.step f IoPlan.init (IoPlan.Slice ch a b c)) = IoBytesIndex.slice_out (IoPlan.chan_values f ch) a b c.
Proof. exact IoBytesIndex.slice_value. Qed.

(* every history, in terms of value lists and chunk lists *)
Theorem abstract_run_values : forall f ops,
    IoPlan.wf_file f = true ->
    snd (IoPlan.run f IoPlan.init ops)
    = map (IoBytesIndex.spec_out (IoPlan.chan_values f) (IoPlan.chan_gen_chunks f) (IoPlan.file_gen_chunks f))
          (IoPlan.annotate ops).
Proof. exact IoBytesIndex.run_values. Qed.

(* a zero-length channel: every slice with a non-zero step is empty and leaves the
   state untouched (`if self._length == 0: return np.empty(...)`), as Python's slice of [] *)
Theorem slice_zero_length : forall f ch a b c,
    IoPlan.chan_len f ch = 0 -> c <> Some 0 -> forall st,
    IoPlan.do_slice f st ch a b c = (st, IoPlan.OVals []) /\ py_slice3 (@nil Z) a b c = Ok [].
Proof. exact IoBytesIndex.slice_zero_length. Qed.

Example slice_zero_length_example :
  let f := IoPlan.mkFile [0] [] in
  IoPlan.wf_file f = true /\ IoPlan.chan_len f 0 = 0 /\
  snd (IoPlan.do_slice f IoPlan.init 0 (Some (-1)) None None) = IoPlan.OVals [] /\
  IoBytesIndex.slice_out (IoPlan.chan_values f 0) (Some (-1)) None None = IoPlan.OVals [] /\
  snd (IoPlan.do_slice f IoPlan.init 0 None None (Some 0)) = IoPlan.OErr.
Proof. exact IoBytesIndex.slice_zero_length_example. Qed.

(* ---- one segment ------------------------------------------------------------------------- *)

(* ioseg_of on the bytes of a serialised file: succeeds, and the abstract segment is
   tied to the segment record and its chunks (IoBytesSeg.seg_tie: positions, flags,
   objects, chunk count and shapes, per channel the labelled values / channel chunks,
   the file-level chunks), ends where the next segment starts *)
Theorem ioseg_of_encoded : forall paths pre s rest g cs,
    wf_fseg s = true ->
    seg_at (blen pre) s g ->
    seg_encodes g (fs_data s) cs ->
    NoDup (map so_path (sg_objs g)) ->
    Forall (fun o => 0 <= so_nvals o) (sg_objs g) ->
    io_regular_seg g = true ->
    (forall o, In o (data_objs (sg_objs g)) -> In (so_path o) paths) ->
    exists sg, ioseg_of paths (pre ++ ser_seg TAG_DATA true s ++ rest) g = Ok sg /\
               seg_tie paths g cs sg /\
               IoPlan.seg_end sg = sg_next g /\ sg_pos g + 28 <= sg_data g.
Proof. exact IoBytesSeg.ioseg_of_encoded. Qed.

(* ---- the whole file ----------------------------------------------------------------------- *)

Theorem iofile_wf : forall segs st h chunkss,
    wf_file segs ->
    sm_run segs false = Ok st ->
    build_hierarchy (rs_om st) = Ok h ->
    segs_encode (rs_segments st) segs chunkss ->
    om_paths_canonical (rs_om st) ->
    typed_objects_are_channels (rs_om st) ->
    Forall (fun g => NoDup (map so_path (sg_objs g))) (rs_segments st) ->
    io_regular st = true ->
    exists f, iofile_of_bytes (ser_file segs) = Ok f /\
              IoPlan.wf_file f = true /\
              IoPlan.f_chans f = map Z.of_nat (seq 0 (length (map ch_path (all_channels h)))) /\
              length (IoPlan.f_segs f) = length segs.
Proof. exact IoBytesTop.iofile_wf. Qed.

(* channel.read_data(offs, len) *)
Theorem io_read_is_lazy_read : forall segs st h chunkss,
    wf_file segs ->
    sm_run segs false = Ok st ->
    build_hierarchy (rs_om st) = Ok h ->
    segs_encode (rs_segments st) segs chunkss ->
    om_paths_canonical (rs_om st) ->
    typed_objects_are_channels (rs_om st) ->
    Forall (fun g => NoDup (map so_path (sg_objs g))) (rs_segments st) ->
    io_regular st = true ->
    forall f, iofile_of_bytes (ser_file segs) = Ok f ->
    forall c i offs len,
      In c (all_channels h) -> path_index (ch_path c) (map ch_path (all_channels h)) = Some i ->
      0 <= offs -> (match len with None => True | Some l => 0 <= l end) ->
      exists vs, lz_read_bytes (ser_file segs) (ch_path c) offs len = Ok vs /\
                 vs = window_of offs len (chan_values (ch_path c) (concat chunkss)) /\
                 snd (IoPlan.step f IoPlan.init (IoPlan.Read i offs len)) = IoPlan.OVals (map lab vs).
Proof. exact IoBytesTop.io_read_is_lazy_read. Qed.

Theorem io_read_rejects_negative : forall (f : IoPlan.file) i offs len,
    offs < 0 \/ (exists l, len = Some l /\ l < 0) ->
    snd (IoPlan.step f IoPlan.init (IoPlan.Read i offs len)) = IoPlan.OErr.
Proof. exact IoBytesTop.io_read_rejects_negative. Qed.

(* channel[k]: lab_index E k = OVal (lab x) if py_index E k = Ok x, else OErr (IndexError) *)
Theorem io_index_is_eager_index : forall segs st h chunkss,
    wf_file segs ->
    sm_run segs false = Ok st ->
    build_hierarchy (rs_om st) = Ok h ->
    segs_encode (rs_segments st) segs chunkss ->
    om_paths_canonical (rs_om st) ->
    typed_objects_are_channels (rs_om st) ->
    Forall (fun g => NoDup (map so_path (sg_objs g))) (rs_segments st) ->
    io_regular st = true ->
    forall f, iofile_of_bytes (ser_file segs) = Ok f ->
    forall c i k,
      In c (all_channels h) -> path_index (ch_path c) (map ch_path (all_channels h)) = Some i ->
      snd (IoPlan.step f IoPlan.init (IoPlan.Index i k))
      = match py_index (chan_values (ch_path c) (concat chunkss)) k with
        | Ok x => IoPlan.OVal (lab x)
        | Err _ => IoPlan.OErr
        end.
Proof. exact IoBytesTop.io_index_is_eager_index. Qed.

(* channel[a:b:s] *)
Theorem io_slice_is_eager_slice : forall segs st h chunkss,
    wf_file segs ->
    sm_run segs false = Ok st ->
    build_hierarchy (rs_om st) = Ok h ->
    segs_encode (rs_segments st) segs chunkss ->
    om_paths_canonical (rs_om st) ->
    typed_objects_are_channels (rs_om st) ->
    Forall (fun g => NoDup (map so_path (sg_objs g))) (rs_segments st) ->
    io_regular st = true ->
    forall f, iofile_of_bytes (ser_file segs) = Ok f ->
    forall c i a b s,
      In c (all_channels h) -> path_index (ch_path c) (map ch_path (all_channels h)) = Some i ->
      snd (IoPlan.step f IoPlan.init (IoPlan.Slice i a b s))
      = match py_slice3 (chan_values (ch_path c) (concat chunkss)) a b s with
        | Ok vs => IoPlan.OVals (map lab vs)
        | Err _ => IoPlan.OErr
        end /\
      run_slice (fun o l => lz_read_bytes (ser_file segs) (ch_path c) o (Some l)) (ch_len c) a b s
      = py_slice3 (chan_values (ch_path c) (concat chunkss)) a b s.
Proof. exact IoBytesTop.io_slice_is_eager_slice. Qed.

(* for chunk in channel.data_chunks(): the (n+1)-th next() on a fresh file; the chunks
   concatenate to the channel's eager data *)
Theorem io_chan_iterator : forall segs st h chunkss,
    wf_file segs ->
    sm_run segs false = Ok st ->
    build_hierarchy (rs_om st) = Ok h ->
    segs_encode (rs_segments st) segs chunkss ->
    om_paths_canonical (rs_om st) ->
    typed_objects_are_channels (rs_om st) ->
    Forall (fun g => NoDup (map so_path (sg_objs g))) (rs_segments st) ->
    io_regular st = true ->
    forall f, iofile_of_bytes (ser_file segs) = Ok f ->
    forall c i n,
      In c (all_channels h) -> path_index (ch_path c) (map ch_path (all_channels h)) = Some i ->
      IoPlan.fresh_out f (IoPlan.ANext (IoPlan.KChan i) n)
      = match nth_error (IoPlan.with_offsets 0
                           (map (map lab) (eager_chan_chunks (ch_path c) (rs_segments st) chunkss))) n with
        | Some x => x
        | None => IoPlan.OStop
        end /\
      concat (eager_chan_chunks (ch_path c) (rs_segments st) chunkss)
      = chan_values (ch_path c) (concat chunkss).
Proof. exact IoBytesTop.io_chan_iterator. Qed.

(* for chunk in tdms_file.data_chunks(): the (n+1)-th next() on a fresh file.
   eager_fouts st h chunkss = eager_file_outs paths [0..n-1] [] (eager_file_chunks ...):
   for the k-th chunk c of [one empty chunk per segment without kTocRawData, else the
   decoded chunks], per channel number i with path p:
   (i, (number of values of p in the chunks before, labelled chunk_values p c)) *)
Theorem io_file_iterator : forall segs st h chunkss,
    wf_file segs ->
    sm_run segs false = Ok st ->
    build_hierarchy (rs_om st) = Ok h ->
    segs_encode (rs_segments st) segs chunkss ->
    om_paths_canonical (rs_om st) ->
    typed_objects_are_channels (rs_om st) ->
    Forall (fun g => NoDup (map so_path (sg_objs g))) (rs_segments st) ->
    io_regular st = true ->
    forall f, iofile_of_bytes (ser_file segs) = Ok f ->
    forall n,
      IoPlan.fresh_out f (IoPlan.ANext IoPlan.KFile n)
      = match nth_error (eager_file_outs (map ch_path (all_channels h))
                                         (map Z.of_nat (seq 0 (length (map ch_path (all_channels h)))))
                                         [] (eager_file_chunks (rs_segments st) chunkss)) n with
        | Some x => x
        | None => IoPlan.OStop
        end.
Proof. exact IoBytesTop.io_file_iterator. Qed.

(* ---- the property, on files ---------------------------------------------------------------- *)

(* eager_vals h chunkss i   the labelled eager values of channel number i ([] for a
                            number that is no channel)
   eager_cseq st h chunkss i the outputs of channel i's data_chunks()
   eager_fouts st h chunkss the outputs of the file's data_chunks() (see io_file_iterator)
   IoBytesIndex.spec_out    index / window / slice / n-th chunk of those lists *)
Theorem history_independent_bytes : forall segs st h chunkss,
    wf_file segs ->
    sm_run segs false = Ok st ->
    build_hierarchy (rs_om st) = Ok h ->
    segs_encode (rs_segments st) segs chunkss ->
    om_paths_canonical (rs_om st) ->
    typed_objects_are_channels (rs_om st) ->
    Forall (fun g => NoDup (map so_path (sg_objs g))) (rs_segments st) ->
    io_regular st = true ->
    forall f, iofile_of_bytes (ser_file segs) = Ok f ->
    forall ops,
      snd (IoPlan.run f IoPlan.init ops)
      = map (IoBytesIndex.spec_out (eager_vals h chunkss) (eager_cseq st h chunkss) (eager_fouts st h chunkss))
            (IoPlan.annotate ops).
Proof. exact IoBytesTop.history_independent_bytes. Qed.

Theorem history_inv_bytes : forall segs st h chunkss,
    wf_file segs ->
    sm_run segs false = Ok st ->
    build_hierarchy (rs_om st) = Ok h ->
    segs_encode (rs_segments st) segs chunkss ->
    om_paths_canonical (rs_om st) ->
    typed_objects_are_channels (rs_om st) ->
    Forall (fun g => NoDup (map so_path (sg_objs g))) (rs_segments st) ->
    io_regular st = true ->
    forall f, iofile_of_bytes (ser_file segs) = Ok f ->
    forall ops, IoPlanProofs.Inv f (fst (IoPlan.run f IoPlan.init ops)).
Proof. exact IoBytesTop.history_inv_bytes. Qed.

(* ---- the hypotheses are satisfiable, and both sides compute ------------------------------ *)
Section Instances.
Import String.
Local Open Scope string_scope.


(* le_file (Proofs/LazyEagerExamples.v): interleaved segment of two chunks | segment
   with channel b only | contiguous segment of two chunks *)
Example c05b_hyps :
  wf_file le_file /\ sm_run le_file false = Ok le_st /\ build_hierarchy (rs_om le_st) = Ok le_h /\
  segs_encode (rs_segments le_st) le_file le_chunks /\ om_paths_canonical (rs_om le_st) /\
  typed_objects_are_channels (rs_om le_st) /\
  Forall (fun g => NoDup (map so_path (sg_objs g))) (rs_segments le_st) /\
  io_regular le_st = true /\
  iofile_of_bytes (ser_file le_file) = Ok le_io /\ IoPlan.wf_file le_io = true.
Proof.
  exact (conj le_wf (conj le_run (conj le_hier (conj le_encodes (conj le_canonical
        (conj le_typed_channels (conj le_distinct (conj le_regular (conj le_iofile le_io_wf))))))))).
Qed.

(* an interleaved history on the file computed from the bytes: index reads, windows, a
   slice, a file-level and a channel-level iterator both left half-consumed; evaluated
   on the state machine, evaluated from the eager data, and related by the theorem *)
Example c05b_history :
  snd (IoPlan.run le_io IoPlan.init le_ops) = le_outs /\
  map (IoBytesIndex.spec_out (eager_vals le_h le_chunks) (eager_cseq le_st le_h le_chunks)
                             (eager_fouts le_st le_h le_chunks))
      (IoPlan.annotate le_ops) = le_outs.
Proof. exact (conj le_history_eval le_history_spec_eval). Qed.

Example c05b_history_by_theorem :
  snd (IoPlan.run le_io IoPlan.init le_ops)
  = map (IoBytesIndex.spec_out (eager_vals le_h le_chunks) (eager_cseq le_st le_h le_chunks)
                               (eager_fouts le_st le_h le_chunks))
        (IoPlan.annotate le_ops).
Proof. exact le_history_thm. Qed.

(* the file-level iterator of le_file from the eager chunks: running offsets per channel *)
Example c05b_file_outs :
  eager_fouts le_st le_h le_chunks
  = [IoPlan.OFChunk [(0, (0, IoPlan.Vals [la "0102"; la "0304"; la "0506"; la "0708"]));
                     (1, (0, IoPlan.Vals [la "01"; la "00"; la "01"; la "00"]))];
     IoPlan.OFChunk [(0, (4, IoPlan.Vals [])); (1, (4, IoPlan.Vals [la "01"; la "01"; la "01"]))];
     IoPlan.OFChunk [(0, (4, IoPlan.Vals [la "0a0b"])); (1, (7, IoPlan.Vals [la "00"; la "01"; la "00"]))];
     IoPlan.OFChunk [(0, (5, IoPlan.Vals [la "0c0d"])); (1, (10, IoPlan.Vals [la "01"; la "00"; la "01"]))]].
Proof. exact le_fouts_eval. Qed.

Example c05b_history_state :
  let s := fst (IoPlan.run le_io IoPlan.init le_ops) in
  List.length (IoPlan.cache s) = 2%nat /\ List.length (IoPlan.gens s) = 2%nat /\ List.length (IoPlan.idx s) = 2%nat.
Proof. exact le_history_state. Qed.

Example c05b_read_b_3_6 :
  exists vs, lz_read_bytes (ser_file le_file) rc_path_b 3 (Some 6) = Ok vs /\
             vs = window_of 3 (Some 6) (chan_values rc_path_b (List.concat le_chunks)) /\
             snd (IoPlan.step le_io IoPlan.init (IoPlan.Read 1 3 (Some 6))) = IoPlan.OVals (map lab vs).
Proof. exact le_read_b_3_6. Qed.

Example c05b_chan_iterator_a :
  map (fun n => IoPlan.fresh_out le_io (IoPlan.ANext (IoPlan.KChan 0) n)) (seq 0 5)
  = [IoPlan.OChunk 0 (IoPlan.Vals [la "0102"; la "0304"; la "0506"; la "0708"]);
     IoPlan.OChunk 4 (IoPlan.Vals [la "0a0b"]); IoPlan.OChunk 5 (IoPlan.Vals [la "0c0d"]);
     IoPlan.OStop; IoPlan.OStop] /\
  eager_chan_chunks rc_path_a (rs_segments le_st) le_chunks
  = [[hex "0102"; hex "0304"; hex "0506"; hex "0708"]; [hex "0a0b"]; [hex "0c0d"]].
Proof. exact le_chan_iterator_a. Qed.

(* rc2_file: the segment without kTocRawData yields an empty file-level chunk *)
Example c05b_rc2_file_iterator :
  iofile_of_bytes (ser_file rc2_file) = Ok rc2_io /\
  map (fun n => IoPlan.fresh_out rc2_io (IoPlan.ANext IoPlan.KFile n)) (seq 0 3)
  = [IoPlan.OFChunk [(0, (0, IoPlan.Vals [la "0102"; la "0304"; la "0506"]));
                     (1, (0, IoPlan.Vals [la "01"; la "00"; la "01"]))];
     IoPlan.OFChunk [(0, (3, IoPlan.Vals [])); (1, (3, IoPlan.Vals []))];
     IoPlan.OStop].
Proof. exact (conj rc2_iofile rc2_file_iterator). Qed.

Example c05b_rc_wf :
  exists f, iofile_of_bytes (ser_file rc_file) = Ok f /\ IoPlan.wf_file f = true /\
            IoPlan.f_chans f = [0; 1] /\ List.length (IoPlan.f_segs f) = 2%nat.
Proof. exact rc_iofile_wf. Qed.

(* a path named twice in one object list: no abstract file *)
Example c05b_dup_no_iofile : iofile_of_bytes (ser_file dup_file) = Err EOther.
Proof. exact dup_no_iofile. Qed.

End Instances.

Print Assumptions lab_inj.
Print Assumptions chan_path_index.
Print Assumptions abstract_index_value.
Print Assumptions abstract_slice_value.
Print Assumptions abstract_run_values.
Print Assumptions slice_zero_length.
Print Assumptions slice_zero_length_example.
Print Assumptions ioseg_of_encoded.
Print Assumptions iofile_wf.
Print Assumptions io_read_is_lazy_read.
Print Assumptions io_read_rejects_negative.
Print Assumptions io_index_is_eager_index.
Print Assumptions io_slice_is_eager_slice.
Print Assumptions io_chan_iterator.
Print Assumptions io_file_iterator.
Print Assumptions history_independent_bytes.
Print Assumptions history_inv_bytes.
Print Assumptions c05b_hyps.
Print Assumptions c05b_history.
Print Assumptions c05b_history_by_theorem.
Print Assumptions c05b_file_outs.
Print Assumptions c05b_history_state.
Print Assumptions c05b_read_b_3_6.
Print Assumptions c05b_chan_iterator_a.
Print Assumptions c05b_rc2_file_iterator.
Print Assumptions c05b_rc_wf.
Print Assumptions c05b_dup_no_iofile.
