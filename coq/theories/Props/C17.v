(* C17 — Sensor scalings invert their sensor laws.
   Statements only; proofs live in Proofs/SensorsProofs.v.  Everything is over
   the reals (Model/SensorsR.v): the float rounding of the implementation is
   not part of these theorems, it is bounded per sample by the harness.
   Every hypothesis is one the proof needs; each is instantiated below with
   IEC 60751 / typical values. *)
From Coq Require Import Reals ZArith List Lra.
Import ListNotations.
From NpTdms Require Import Model.SensorsR Proofs.SensorsProofs.
Open Scope R_scope.
Unset Lia Cache. Unset Nia Cache. Unset Nra Cache.

(* ---------------------------------------------------------------- RTD --- *)

(* T >= 0: the quadratic branch is taken and returns T, for every wiring and
   lead resistance, whatever polyroots is. *)
Theorem rtd_inverts_nonnegative :
  forall (polyroots : list R -> list (R * R)) R0 A B C T I lead w,
    R0 > 0 -> A > 0 -> B < 0 -> 0 <= T -> A + 2 * B * T > 0 -> I <> 0 ->
    rtd_scale polyroots I R0 A B C lead (wiring_code w)
              (current_excitation_voltage I w lead (cvd R0 A B C T)) = Some T.
Proof. exact rtd_scale_nonneg. Qed.

(* T < 0: the code goes to the quartic branch ... *)
Theorem rtd_negative_takes_quartic_branch :
  forall R0 A B C T I lead w,
    R0 > 0 -> A > 0 -> B < 0 -> C < 0 -> I <> 0 -> T < 0 ->
    rtd_r_t I lead (wiring_code w) (current_excitation_voltage I w lead (cvd R0 A B C T)) < R0.
Proof. exact rtd_chain_branch. Qed.

(* ... T is a root of the quartic the code builds from the measured voltage ... *)
Theorem rtd_negative_T_is_root :
  forall R0 A B C T I lead w,
    I <> 0 -> T < 0 ->
    polyval T (rtd_quartic_coefficients A B C R0
                 (rtd_r_t I lead (wiring_code w)
                          (current_excitation_voltage I w lead (cvd R0 A B C T)))) = 0.
Proof. exact rtd_chain_root. Qed.

(* ... the quartic is strictly increasing on (-inf, 0] (for any r_t) ... *)
Theorem rtd_quartic_strictly_increasing :
  forall A B C R0 r_t x y,
    R0 > 0 -> A > 0 -> B < 0 -> C < 0 -> x < y -> y <= 0 ->
    rtd_quartic A B C R0 r_t x < rtd_quartic A B C R0 r_t y.
Proof. exact rtd_quartic_increasing. Qed.

(* ... with positive derivative there, so its negative roots are simple ... *)
Theorem rtd_quartic_negative_roots_simple :
  forall A B C R0 r_t t,
    R0 > 0 -> A > 0 -> B < 0 -> C < 0 -> t <= 0 ->
    derivable_pt_lim (rtd_quartic A B C R0 r_t) t (R0 * rtd_quartic_derivative A B C t) /\
    R0 * rtd_quartic_derivative A B C t > 0.
Proof.
  intros A B C R0 r_t t HR HA HB HC Ht. split.
  - apply rtd_quartic_derivative_correct.
  - apply Rmult_lt_0_compat; [exact HR | now apply rtd_quartic_derivative_pos].
Qed.

(* ... hence any negative real root equals T ... *)
Theorem rtd_negative_root_unique :
  forall R0 A B C T I lead w x,
    R0 > 0 -> A > 0 -> B < 0 -> C < 0 -> I <> 0 -> T < 0 ->
    x < 0 ->
    polyval x (rtd_quartic_coefficients A B C R0
                 (rtd_r_t I lead (wiring_code w)
                          (current_excitation_voltage I w lead (cvd R0 A B C T)))) = 0 ->
    x = T.
Proof. exact rtd_chain_unique. Qed.

(* ... and the quartic has no root in [0, 1e-9), the extra range the filter
   r.real < 1e-9  of _get_negative_real_root lets through (repair 874ad35 of
   defect D23): for T < 0 the resistance is strictly below R0 and
     p(x) = (R0 - r_t) + R0 x (A + B x + C x^2 (x - 100)) > 0   on [0, 1e-9).
   Added hypothesis  A + B * 1e-9 >= 0  (IEC 60751: 3.9e-3 - 5.8e-16): it is
   needed, see rtd_tolerance_condition_cannot_be_dropped. *)
Theorem rtd_no_root_near_zero :
  forall R0 A B C T I lead w x,
    R0 > 0 -> A > 0 -> B < 0 -> C < 0 -> A + B * RTD_ROOT_TOLERANCE >= 0 -> I <> 0 -> T < 0 ->
    0 <= x < RTD_ROOT_TOLERANCE ->
    polyval x (rtd_quartic_coefficients A B C R0
                 (rtd_r_t I lead (wiring_code w)
                          (current_excitation_voltage I w lead (cvd R0 A B C T)))) > 0.
Proof. exact rtd_chain_no_root_near_zero. Qed.

(* the same for any resistance below R0, whether or not it is some cvd(T) *)
Theorem rtd_quartic_positive_near_zero :
  forall A B C R0 r_t x,
    R0 > 0 -> B < 0 -> C < 0 -> A + B * RTD_ROOT_TOLERANCE >= 0 ->
    r_t < R0 -> 0 <= x < RTD_ROOT_TOLERANCE ->
    rtd_quartic A B C R0 r_t x > 0.
Proof. exact rtd_quartic_pos_near_zero. Qed.

(* So every real root below the tolerance equals T: the true root set has
   exactly one entry that passes the filter, and _get_negative_real_root
   returns T on it. *)
Theorem rtd_small_root_unique :
  forall R0 A B C T I lead w x,
    R0 > 0 -> A > 0 -> B < 0 -> C < 0 -> A + B * RTD_ROOT_TOLERANCE >= 0 -> I <> 0 -> T < 0 ->
    x < RTD_ROOT_TOLERANCE ->
    polyval x (rtd_quartic_coefficients A B C R0
                 (rtd_r_t I lead (wiring_code w)
                          (current_excitation_voltage I w lead (cvd R0 A B C T)))) = 0 ->
    x = T.
Proof. exact rtd_chain_unique_small. Qed.

(* The same with the oracle made explicit: if what polyroots returns lists the
   real roots below the tolerance of the coefficient list it was given, each
   once (small_roots_ok, Model/SensorsR.v), then RtdScaling.scale returns T. *)
Theorem rtd_inverts_negative :
  forall (polyroots : list R -> list (R * R)) R0 A B C T I lead w,
    R0 > 0 -> A > 0 -> B < 0 -> C < 0 -> A + B * RTD_ROOT_TOLERANCE >= 0 -> T < 0 -> I <> 0 ->
    small_roots_ok
      (polyroots (rtd_quartic_coefficients A B C R0 (cvd R0 A B C T)))
      (rtd_quartic_coefficients A B C R0 (cvd R0 A B C T)) ->
    rtd_scale polyroots I R0 A B C lead (wiring_code w)
              (current_excitation_voltage I w lead (cvd R0 A B C T)) = Some T.
Proof. exact rtd_scale_neg. Qed.

(* The hypothesis  A + B * 1e-9 >= 0  cannot be dropped from the four theorems
   above: A = 1, B = -10^10, C = -1, R0 = 1 meet the other hypotheses, the
   resistance 1 - 10^-12 is below R0, and the quartic has a root in [0, 1e-9)
   (besides its negative one, so two entries would pass the filter). *)
Theorem rtd_tolerance_condition_cannot_be_dropped :
  exists x, 0 <= x < RTD_ROOT_TOLERANCE /\ rtd_quartic 1 (-1e10) (-1) 1 (1 - 1e-12) x = 0.
Proof. exact rtd_tolerance_condition_needed. Qed.

(* What the repair is for.  In exact arithmetic the quartic branch (r_t < R0)
   never has a root in [0, 1e-9) (theorems above), but for a resistance a few
   ulp below R0 the floating-point polyroots returns the root near zero as 0.0
   or as a tiny positive number.  On such an answer - one real entry x with
   0 <= x < 1e-9, every other entry complex or real and >= 1e-9 - the code
   returns x, where the code before the repair (filter  r.real < 0.0,
   rtd_scale_before_repair in Proofs/SensorsProofs.v) raised ValueError. *)
Theorem rtd_small_root_accepted :
  forall (polyroots : list R -> list (R * R)) I R0 A B C lead cfg v x l1 l2,
    rtd_r_t I lead cfg v < R0 ->
    polyroots (rtd_quartic_coefficients A B C R0 (rtd_r_t I lead cfg v)) = l1 ++ (x, 0) :: l2 ->
    0 <= x < RTD_ROOT_TOLERANCE ->
    (forall z, In z (l1 ++ l2) -> snd z <> 0 \/ RTD_ROOT_TOLERANCE <= fst z) ->
    rtd_scale polyroots I R0 A B C lead cfg v = Some x /\
    rtd_scale_before_repair polyroots I R0 A B C lead cfg v = None.
Proof. exact rtd_scale_small_root_accepted. Qed.

(* and the repair changes nothing on an answer with no real entry in [0, 1e-9) *)
Theorem rtd_repair_conservative :
  forall roots,
    (forall z, In z roots -> snd z = 0 -> fst z < 0 \/ RTD_ROOT_TOLERANCE <= fst z) ->
    get_negative_real_root roots = get_negative_real_root_before_repair roots.
Proof. exact get_negative_real_root_repair_conservative. Qed.

(* --------------------------------------------------------- Thermistor --- *)

(* the closed-form R(T) does satisfy Steinhart-Hart *)
Theorem steinhart_hart_resistance :
  forall a b c T, b > 0 -> c > 0 ->
    steinhart_hart_recip_T a b c (R_of_steinhart_hart a b c T) = / T.
Proof. exact steinhart_hart_of_R. Qed.

Theorem thermistor_inverts_current_excitation :
  forall a b c T I w lead r1 offset,
    b > 0 -> c > 0 -> T > 0 -> I <> 0 ->
    thermistor_scale CURRENT_EXCITATION I (wiring_code w) r1 lead a b c offset
      (current_excitation_voltage I w lead (R_of_steinhart_hart a b c T)) = Some (T - offset).
Proof. exact thermistor_current_inverts. Qed.

Theorem thermistor_inverts_voltage_excitation :
  forall a b c T Vex w lead r1 offset,
    b > 0 -> c > 0 -> T > 0 -> Vex <> 0 -> r1 > 0 -> lead >= 0 ->
    thermistor_scale VOLTAGE_EXCITATION Vex (wiring_code w) r1 lead a b c offset
      (voltage_divider_voltage Vex r1 w lead (R_of_steinhart_hart a b c T)) = Some (T - offset).
Proof. exact thermistor_voltage_inverts. Qed.

(* without the closed form: any positive resistance that obeys Steinhart-Hart
   at temperature T (no sign condition on a, b, c) *)
Theorem thermistor_inverts_current_excitation_rel :
  forall a b c T r I w lead r1 offset,
    T <> 0 -> I <> 0 -> steinhart_hart_recip_T a b c r = / T ->
    thermistor_scale CURRENT_EXCITATION I (wiring_code w) r1 lead a b c offset
                     (current_excitation_voltage I w lead r) = Some (T - offset).
Proof. exact thermistor_current_inverts_rel. Qed.

Theorem thermistor_inverts_voltage_excitation_rel :
  forall a b c T r Vex w lead r1 offset,
    T <> 0 -> Vex <> 0 -> r1 > 0 -> r > 0 -> lead >= 0 ->
    steinhart_hart_recip_T a b c r = / T ->
    thermistor_scale VOLTAGE_EXCITATION Vex (wiring_code w) r1 lead a b c offset
                     (voltage_divider_voltage Vex r1 w lead r) = Some (T - offset).
Proof. exact thermistor_voltage_inverts_rel. Qed.

(* ------------------------------------------------------------- Strain --- *)
(* v is the measured voltage: init + Vo(e / gain), Vo from the Wheatstone
   equation with the configuration's resistors (Model/SensorsR.v,
   bridge_output / strain_measured_voltage). *)

Theorem strain_inverts_full_bridge_1 :
  forall nu r0 rl init g gain vex e v,
    r0 <> 0 -> g <> 0 -> gain <> 0 -> vex <> 0 ->
    strain_measured_voltage FULL_BRIDGE_1 nu r0 rl init g gain vex e = Some v ->
    strain_scale FULL_BRIDGE_1 nu r0 rl init g gain vex v = Some e.
Proof. exact strain_full_bridge_1_inverts. Qed.

Theorem strain_inverts_full_bridge_2 :
  forall nu r0 rl init g gain vex e v,
    r0 <> 0 -> g <> 0 -> gain <> 0 -> vex <> 0 -> 1 + nu <> 0 ->
    strain_measured_voltage FULL_BRIDGE_2 nu r0 rl init g gain vex e = Some v ->
    strain_scale FULL_BRIDGE_2 nu r0 rl init g gain vex v = Some e.
Proof. exact strain_full_bridge_2_inverts. Qed.

Theorem strain_inverts_full_bridge_3 :
  forall nu r0 rl init g gain vex e v,
    r0 <> 0 -> g <> 0 -> gain <> 0 -> vex <> 0 -> 1 + nu <> 0 ->
    2 + e / gain * g * (1 - nu) <> 0 ->
    strain_measured_voltage FULL_BRIDGE_3 nu r0 rl init g gain vex e = Some v ->
    strain_scale FULL_BRIDGE_3 nu r0 rl init g gain vex v = Some e.
Proof. exact strain_full_bridge_3_inverts. Qed.

Theorem strain_inverts_half_bridge_1 :
  forall nu r0 rl init g gain vex e v,
    r0 <> 0 -> r0 + rl <> 0 -> g <> 0 -> gain <> 0 -> vex <> 0 -> 1 + nu <> 0 ->
    2 + e / gain * (g * (r0 / (r0 + rl))) * (1 - nu) <> 0 ->
    strain_measured_voltage HALF_BRIDGE_1 nu r0 rl init g gain vex e = Some v ->
    strain_scale HALF_BRIDGE_1 nu r0 rl init g gain vex v = Some e.
Proof. exact strain_half_bridge_1_inverts. Qed.

Theorem strain_inverts_half_bridge_2 :
  forall nu r0 rl init g gain vex e v,
    r0 <> 0 -> r0 + rl <> 0 -> g <> 0 -> gain <> 0 -> vex <> 0 ->
    strain_measured_voltage HALF_BRIDGE_2 nu r0 rl init g gain vex e = Some v ->
    strain_scale HALF_BRIDGE_2 nu r0 rl init g gain vex v = Some e.
Proof. exact strain_half_bridge_2_inverts. Qed.

Theorem strain_inverts_quarter_bridge_1 :
  forall nu r0 rl init g gain vex e v,
    r0 <> 0 -> r0 + rl <> 0 -> g <> 0 -> gain <> 0 -> vex <> 0 ->
    2 + e / gain * (g * (r0 / (r0 + rl))) <> 0 ->
    strain_measured_voltage QUARTER_BRIDGE_1 nu r0 rl init g gain vex e = Some v ->
    strain_scale QUARTER_BRIDGE_1 nu r0 rl init g gain vex v = Some e.
Proof. exact strain_quarter_bridge_1_inverts. Qed.

Theorem strain_inverts_quarter_bridge_2 :
  forall nu r0 rl init g gain vex e v,
    r0 <> 0 -> r0 + rl <> 0 -> g <> 0 -> gain <> 0 -> vex <> 0 ->
    2 + e / gain * (g * (r0 / (r0 + rl))) <> 0 ->
    strain_measured_voltage QUARTER_BRIDGE_2 nu r0 rl init g gain vex e = Some v ->
    strain_scale QUARTER_BRIDGE_2 nu r0 rl init g gain vex v = Some e.
Proof. exact strain_quarter_bridge_2_inverts. Qed.

(* ------------------------------------------------ Polynomial and table --- *)

(* PolynomialScaling.scale = Horner = sum of c_i x^i (also for no coefficients) *)
Theorem polynomial_is_sum_of_powers :
  forall c x, polynomial_scale c x = sum_powers c x.
Proof. exact polynomial_scale_sum_powers. Qed.

(* TableScaling: whenever it answers, the answer is the clamped piecewise-linear
   interpolant through the points (scaled_i, pre_scaled_i), taken in the given
   order if the scaled values increase and in reverse order if they decrease *)
Theorem table_is_clamped_interpolation :
  forall pre scaled x y,
    length pre = length scaled ->
    table_scale pre scaled x = Some y ->
    (strictly_increasing scaled /\ clamped_pwl (combine scaled pre) x y) \/
    (~ strictly_increasing scaled /\ strictly_increasing (rev scaled) /\
     clamped_pwl (rev (combine scaled pre)) x y).
Proof. exact table_scale_is_clamped_pwl. Qed.

(* that interpolant is a function: clamped_pwl determines y *)
Theorem clamped_interpolation_unique :
  forall K x y1 y2, K <> [] -> clamped_pwl K x y1 -> clamped_pwl K x y2 -> y1 = y2.
Proof. exact clamped_pwl_unique. Qed.

(* and it answers exactly on the monotonic tables (else ValueError) *)
Theorem table_defined_iff_monotonic :
  forall pre scaled x,
    scaled <> [] -> length pre = length scaled ->
    ((exists y, table_scale pre scaled x = Some y) <->
     (strictly_increasing scaled \/ strictly_increasing (rev scaled))).
Proof. exact table_scale_defined_iff_monotonic. Qed.

(* ------------------------------------------------------- Non-vacuity --- *)
(* IEC 60751 Pt100: R0 = 100, A = 3.9083e-3, B = -5.775e-7, C = -4.183e-12 *)

Example c17_rtd_850 : forall polyroots,
  rtd_scale polyroots 1e-3 100 3.9083e-3 (-5.775e-7) (-4.183e-12) 0.5 (wiring_code TwoWire)
    (current_excitation_voltage 1e-3 TwoWire 0.5
       (cvd 100 3.9083e-3 (-5.775e-7) (-4.183e-12) 850)) = Some 850.
Proof. intro pr. apply rtd_inverts_nonnegative; lra. Qed.

Example c17_rtd_minus_200 : forall x,
  x < 0 ->
  polyval x (rtd_quartic_coefficients 3.9083e-3 (-5.775e-7) (-4.183e-12) 100
               (rtd_r_t 1e-3 0.5 (wiring_code ThreeWire)
                  (current_excitation_voltage 1e-3 ThreeWire 0.5
                     (cvd 100 3.9083e-3 (-5.775e-7) (-4.183e-12) (-200))))) = 0 ->
  x = -200.
Proof. intros x Hx. apply rtd_negative_root_unique; lra. Qed.

Example c17_rtd_minus_200_root :
  polyval (-200) (rtd_quartic_coefficients 3.9083e-3 (-5.775e-7) (-4.183e-12) 100
               (rtd_r_t 1e-3 0.5 (wiring_code ThreeWire)
                  (current_excitation_voltage 1e-3 ThreeWire 0.5
                     (cvd 100 3.9083e-3 (-5.775e-7) (-4.183e-12) (-200))))) = 0.
Proof. apply rtd_negative_T_is_root; lra. Qed.

(* Pt100 meets the tolerance condition; an answer of polyroots for -200 degrees
   that satisfies small_roots_ok (the negative root, a complex pair and a
   large positive entry), and the scaling on it *)
Example c17_rtd_pt100_tolerance_condition : 3.9083e-3 + (-5.775e-7) * RTD_ROOT_TOLERANCE >= 0.
Proof. unfold RTD_ROOT_TOLERANCE. lra. Qed.

Example c17_rtd_minus_200_oracle :
  small_roots_ok [(-200, 0); (1e4, 5e3); (1e4, -5e3); (7e4, 0)]
    (rtd_quartic_coefficients 3.9083e-3 (-5.775e-7) (-4.183e-12) 100
       (cvd 100 3.9083e-3 (-5.775e-7) (-4.183e-12) (-200))).
Proof.
  assert (Etol : RTD_ROOT_TOLERANCE = 1e-9) by reflexivity.
  split.
  - assert (F : forall z, is_small_real z = true \/ is_small_real z = false)
      by (intro z; destruct (is_small_real z); tauto).
    cbn [filter].
    destruct (F (-200, 0)) as [E1|E1], (F (1e4, 5e3)) as [E2|E2],
             (F (1e4, -5e3)) as [E3|E3], (F (7e4, 0)) as [E4|E4];
      rewrite E1, E2, E3, E4;
      try (apply is_small_real_true in E2; cbn in E2; lra);
      try (apply is_small_real_true in E3; cbn in E3; lra);
      try (apply is_small_real_true in E4; cbn in E4; lra);
      repeat constructor; cbn; tauto.
  - intros x Hx. rewrite cvd_eval_neg by lra. split.
    + intros [E|[E|[E|[E|[]]]]]; inversion E; try lra.
      apply (rtd_quartic_root 3.9083e-3 (-5.775e-7) (-4.183e-12) 100 (-200)).
    + intro Ex. left. f_equal. symmetry.
      apply (rtd_small_root_is_T 3.9083e-3 (-5.775e-7) (-4.183e-12) 100 (-200) x);
        try lra; exact Ex.
Qed.

Example c17_rtd_minus_200_inverts :
  rtd_scale (fun _ => [(-200, 0); (1e4, 5e3); (1e4, -5e3); (7e4, 0)])
    1e-3 100 3.9083e-3 (-5.775e-7) (-4.183e-12) 0.5 (wiring_code ThreeWire)
    (current_excitation_voltage 1e-3 ThreeWire 0.5
       (cvd 100 3.9083e-3 (-5.775e-7) (-4.183e-12) (-200))) = Some (-200).
Proof.
  apply rtd_inverts_negative; try (unfold RTD_ROOT_TOLERANCE; lra).
  exact c17_rtd_minus_200_oracle.
Qed.

Example c17_rtd_minus_200_small_root : forall x,
  x < RTD_ROOT_TOLERANCE ->
  polyval x (rtd_quartic_coefficients 3.9083e-3 (-5.775e-7) (-4.183e-12) 100
               (rtd_r_t 1e-3 0.5 (wiring_code ThreeWire)
                  (current_excitation_voltage 1e-3 ThreeWire 0.5
                     (cvd 100 3.9083e-3 (-5.775e-7) (-4.183e-12) (-200))))) = 0 ->
  x = -200.
Proof. intros x Hx. apply rtd_small_root_unique; try (unfold RTD_ROOT_TOLERANCE; lra). exact Hx. Qed.

(* The answer that made the code before the repair raise (D23): the root near
   zero found as 0.0, no negative entry.  Old filter: nothing passes, None =
   ValueError; the code: returns 0. *)
Example rtd_old_filter_refuted :
  get_negative_real_root_before_repair [(0, 0); (3, 4); (3, -4); (500, 0)] = None /\
  get_negative_real_root [(0, 0); (3, 4); (3, -4); (500, 0)] = Some 0.
Proof.
  assert (Hrest : forall z, In z ([] ++ [(3, 4); (3, -4); (500, 0)]) ->
                            snd z <> 0 \/ RTD_ROOT_TOLERANCE <= fst z).
  { intros z [E|[E|[E|[]]]]; subst z; cbn [fst snd]; unfold RTD_ROOT_TOLERANCE;
      [left; lra | left; lra | right; lra]. }
  split.
  - apply (get_negative_real_root_before_repair_rejects [] _ 0); [lra | exact Hrest].
  - apply (get_negative_real_root_small_accepted [] _ 0);
      [unfold RTD_ROOT_TOLERANCE; lra | exact Hrest].
Qed.

(* the same through RtdScaling.scale: a Pt100 read at 99.9999 ohm, polyroots
   answering with a root 2^-60 *)
Example c17_rtd_small_root_accepted :
  let pr := fun _ : list R => [(3, 4); (0x1p-60, 0); (3, -4); (500, 0)] in
  rtd_scale pr 1e-3 100 3.9083e-3 (-5.775e-7) (-4.183e-12) 0 4 0.0999999 = Some 0x1p-60 /\
  rtd_scale_before_repair pr 1e-3 100 3.9083e-3 (-5.775e-7) (-4.183e-12) 0 4 0.0999999 = None.
Proof.
  intro pr.
  apply (rtd_small_root_accepted pr 1e-3 100 3.9083e-3 (-5.775e-7) (-4.183e-12) 0 4%Z 0.0999999
           0x1p-60 [(3, 4)] [(3, -4); (500, 0)]).
  - cbv [rtd_r_t adjust_for_lead_resistance Z.eqb Pos.eqb andb CURRENT_EXCITATION]. lra.
  - reflexivity.
  - unfold RTD_ROOT_TOLERANCE. lra.
  - intros z [E|[E|[E|[]]]]; subst z; cbn [fst snd]; unfold RTD_ROOT_TOLERANCE;
      [left; lra | left; lra | right; lra].
Qed.

(* the thermistor of nptdms/test/test_scaling.py at 25 degrees Celsius *)
Example c17_thermistor_current :
  thermistor_scale CURRENT_EXCITATION 1e-3 (wiring_code TwoWire) 0 100
    1.2873851e-3 2.3575235e-4 9.497806e-8 1
    (current_excitation_voltage 1e-3 TwoWire 100
       (R_of_steinhart_hart 1.2873851e-3 2.3575235e-4 9.497806e-8 298.15))
  = Some (298.15 - 1).
Proof. apply thermistor_inverts_current_excitation; lra. Qed.

Example c17_thermistor_voltage :
  thermistor_scale VOLTAGE_EXCITATION 2.5 (wiring_code ThreeWire) 10000 100
    1.2873851e-3 2.3575235e-4 9.497806e-8 273.15
    (voltage_divider_voltage 2.5 10000 ThreeWire 100
       (R_of_steinhart_hart 1.2873851e-3 2.3575235e-4 9.497806e-8 298.15))
  = Some (298.15 - 273.15).
Proof. apply thermistor_inverts_voltage_excitation; lra. Qed.

(* the strain gauge of nptdms/test/test_scaling.py ("with_all"), 1000 microstrain *)
Example c17_strain_quarter_bridge : exists v,
  strain_measured_voltage QUARTER_BRIDGE_1 0.3 350 1.234 0.00135 2.1 1.123 2.5 1e-3 = Some v /\
  strain_scale QUARTER_BRIDGE_1 0.3 350 1.234 0.00135 2.1 1.123 2.5 v = Some 1e-3.
Proof.
  eexists. split; [reflexivity|].
  apply strain_inverts_quarter_bridge_1; try lra; reflexivity.
Qed.

Example c17_strain_half_bridge_1 : exists v,
  strain_measured_voltage HALF_BRIDGE_1 0.3 350 1.234 0.00135 2.1 1.123 2.5 (-1e-3) = Some v /\
  strain_scale HALF_BRIDGE_1 0.3 350 1.234 0.00135 2.1 1.123 2.5 v = Some (-1e-3).
Proof.
  eexists. split; [reflexivity|].
  apply strain_inverts_half_bridge_1; try lra; reflexivity.
Qed.

Example c17_strain_full_bridge_3 : exists v,
  strain_measured_voltage FULL_BRIDGE_3 0.3 350 0 0 2.1 1.123 2.5 1e-3 = Some v /\
  strain_scale FULL_BRIDGE_3 0.3 350 0 0 2.1 1.123 2.5 v = Some 1e-3.
Proof.
  eexists. split; [reflexivity|].
  apply strain_inverts_full_bridge_3; try lra; reflexivity.
Qed.

(* the table of nptdms/test/test_scaling.py, and the same table listed downwards *)
Example c17_table_increasing :
  table_scale [2; 4; 8] [1; 2; 3] 2.5 = Some 6.
Proof.
  rewrite table_scale_eval_incr by (cbv [strictly_increasing]; lra).
  rewrite interp_eval_right by (first [lra | reflexivity]).
  rewrite interp_from_eval_ge by lra. rewrite interp_from_eval_lt by lra.
  f_equal. lra.
Qed.

Example c17_table_decreasing :
  table_scale [8; 4; 2] [3; 2; 1] 2.5 = Some 6.
Proof.
  rewrite table_scale_eval_decr by (cbv [strictly_increasing rev app]; lra).
  cbv [rev app].
  rewrite interp_eval_right by (first [lra | reflexivity]).
  rewrite interp_from_eval_ge by lra. rewrite interp_from_eval_lt by lra.
  f_equal. lra.
Qed.

Example c17_polynomial : polynomial_scale [1; 2; 3] 2 = 17.
Proof. rewrite polynomial_is_sum_of_powers. cbv [sum_powers sum_powers_from]. lra. Qed.

Print Assumptions rtd_inverts_nonnegative.
Print Assumptions rtd_negative_takes_quartic_branch.
Print Assumptions rtd_negative_T_is_root.
Print Assumptions rtd_quartic_strictly_increasing.
Print Assumptions rtd_quartic_negative_roots_simple.
Print Assumptions rtd_negative_root_unique.
Print Assumptions rtd_no_root_near_zero.
Print Assumptions rtd_quartic_positive_near_zero.
Print Assumptions rtd_small_root_unique.
Print Assumptions rtd_inverts_negative.
Print Assumptions rtd_tolerance_condition_cannot_be_dropped.
Print Assumptions rtd_small_root_accepted.
Print Assumptions rtd_repair_conservative.
Print Assumptions steinhart_hart_resistance.
Print Assumptions thermistor_inverts_current_excitation.
Print Assumptions thermistor_inverts_voltage_excitation.
Print Assumptions thermistor_inverts_current_excitation_rel.
Print Assumptions thermistor_inverts_voltage_excitation_rel.
Print Assumptions strain_inverts_full_bridge_1.
Print Assumptions strain_inverts_full_bridge_2.
Print Assumptions strain_inverts_full_bridge_3.
Print Assumptions strain_inverts_half_bridge_1.
Print Assumptions strain_inverts_half_bridge_2.
Print Assumptions strain_inverts_quarter_bridge_1.
Print Assumptions strain_inverts_quarter_bridge_2.
Print Assumptions polynomial_is_sum_of_powers.
Print Assumptions table_is_clamped_interpolation.
Print Assumptions clamped_interpolation_unique.
Print Assumptions table_defined_iff_monotonic.
