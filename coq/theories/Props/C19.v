(* C19 -- Partial reads touch only the part of the file they need.
   Statements only; proofs live in Proofs/Lazy*.v.

   The I/O plan is the skeleton of the lazy read: [lz_plan] is the log of
   (segment position, chunk index) pairs the loop of read_raw_data_for_channel
   (repaired, Model/LazyRead.v lz_loop) hands to segment.read_raw_data_for_channel.
   What one fetched chunk costs in bytes (contiguous: the channel's bytes in that
   chunk; interleaved: the chunk's rows) and the 4-byte tag check per visited
   segment are measured by the harness (harness/c19.py) against a recording
   stream; the theorem fixes WHICH chunks are fetched. *)
From Coq Require Import ZArith List Bool.
From NpTdms Require Import Base.Res Base.PySlice Gen.PySlice_gen Model.LazyRead Model.LazyReadZ
     Proofs.LazyReadLemmas Proofs.LazyIndexProofs Proofs.LazyReadProofs Proofs.LazyWindowProofs
     Proofs.LazyTopProofs.
Import ListNotations.
Open Scope Z_scope.

Section C19.
  Variable V : Type.
  Variable zero : V.

  (* The chunks fetched to serve read_data(offs, len) are EXACTLY the chunks of
     segments holding the channel whose value range [chunk_start, chunk_end)
     meets the window [offs, end), end = min(offs+len, n):
        chunk_start < end  /\  offs < chunk_end.
     (For a non-empty window this is intersection; for len = 0 it is the one
     chunk that strictly contains the position offs, if any.)  So the amount
     read is bounded by the request, not by the file, and a regression to
     "read the whole segment, trim afterwards" breaks this theorem. *)
  Theorem plan_exact_chunks : forall (segs : list (segv V)) offs len,
      wf V segs = true -> 0 <= offs -> (match len with None => True | Some l => 0 <= l end) ->
      exists plan,
        lz_plan V segs offs len = Ok plan /\
        (forall j c, In (j, c) plan <->
           exists sv, 0 <= j /\ nth_error segs (Z.to_nat j) = Some sv /\
                      sv_chunk sv <> 0 /\ 0 <= c < sv_nchunks sv /\
                      chunk_start V (pre V segs j) sv c < win_end (total_values V segs) offs len /\
                      offs < chunk_end V (pre V segs j) sv c).
  Proof. exact (LazyTopProofs.plan_exact V). Qed.

  (* channel[i]: a cache miss fetches exactly the one chunk that holds the index *)
  Theorem index_fetches_one_chunk : forall (segs : list (segv V)) st i x st' log,
      wf V segs = true -> cache_inv V segs st ->
      read_at_index V segs st i = Ok (x, st', log) ->
      log = [] \/
      exists j c sv, log = [(j, c)] /\ 0 <= j /\ nth_error segs (Z.to_nat j) = Some sv /\
                     sv_chunk sv <> 0 /\ 0 <= c < sv_nchunks sv /\
                     let i' := if i <? 0 then i + total_values V segs else i in
                     chunk_start V (pre V segs j) sv c <= i' < chunk_end V (pre V segs j) sv c.
  Proof.
    intros segs st i x st' log Hwf Hinv Hrun.
    pose proof (LazyTopProofs.index_correct V segs st i Hwf Hinv) as H.
    destruct (py_index (full V segs) i) as [y|e].
    - destruct H as (st2 & log2 & H1 & _ & H3). rewrite Hrun in H1. injection H1 as <- <- <-. exact H3.
    - rewrite Hrun in H. discriminate.
  Qed.

  (* indexing again inside the cached chunk's bounds issues no read and keeps the cache *)
  Theorem cache_hit_reads_nothing : forall (segs : list (segv V)) cached b0 b1 i r,
      let i' := if i <? 0 then total_values V segs + i else i in
      b0 <= i' < b1 ->
      read_at_index V segs (Some (cached, (b0, b1))) i = Ok r ->
      snd r = [] /\ snd (fst r) = Some (cached, (b0, b1)).
  Proof. exact (LazyTopProofs.cache_hit_reads_nothing V). Qed.
End C19.

(* ---- today's loop over-reads on the D3 witness (a(4) | b | a(4) x 3, read_data(0, 6)):
   chunks (2,1) and (2,2) hold values 8..16, outside the window [0, 6) ---------- *)
Definition d3_file : list segz :=
  [ mk 4 1 None false [[1; 2; 3; 4]];
    mk 0 1 None false [[]];
    mk 4 3 None false [[5; 6; 7; 8]; [9; 10; 11; 12]; [13; 14; 15; 16]] ].

Theorem plan_refuted :
    lz_plan_asis Z d3_file 0 (Some 6) = Ok [(0, 0); (2, 0); (2, 1); (2, 2)] /\
    lz_plan Z d3_file 0 (Some 6) = Ok [(0, 0); (2, 0)].
Proof. split; vm_compute; reflexivity. Qed.

(* ---- non-vacuity --------------------------------------------------------- *)
Definition ex_file : list segz :=
  [ mk 3 2 None false [[1; 2; 3]; [4; 5; 6]];
    mk 0 2 None false [[]; []];
    mk 4 0 None false [];
    mk 4 2 None true [[7; 8; 9; 10]; [11; 12; 13; 14]];
    mk 5 3 (Some 2) false [[15; 16; 17; 18; 19]; [20; 21; 22; 23; 24]; [25; 26]] ].

Example ex_wf : wf Z ex_file = true.
Proof. vm_compute. reflexivity. Qed.

(* values 4 .. 22 (0-based positions) : second chunk of segment 0, both chunks of the
   interleaved segment 3, first two chunks of segment 4; nothing of the last chunk *)
Example ex_plan : lz_plan Z ex_file 4 (Some 19) = Ok [(0, 1); (3, 0); (3, 1); (4, 0); (4, 1)].
Proof. vm_compute. reflexivity. Qed.

Example ex_plan_exact : exists plan, lz_plan Z ex_file 4 (Some 19) = Ok plan /\ ~ In (4, 2) plan /\ In (3, 1) plan.
Proof.
  destruct (plan_exact_chunks Z ex_file 4 (Some 19) ex_wf) as (plan & H1 & H2); [vm_compute; congruence | vm_compute; congruence |].
  exists plan. split; [exact H1|]. rewrite ex_plan in H1. injection H1 as <-.
  split; [|cbn; tauto]. cbn. intuition congruence.
Qed.

Example ex_cache : exists x st', read_at_index Z ex_file None 16 = Ok (x, st', [(4, 0)]) /\
                                 exists r, read_at_index Z ex_file st' 18 = Ok r /\ snd r = [].
Proof. vm_compute. eexists _, _. split; [reflexivity|]. eexists. split; reflexivity. Qed.

Print Assumptions plan_exact_chunks.
Print Assumptions index_fetches_one_chunk.
Print Assumptions cache_hit_reads_nothing.
Print Assumptions plan_refuted.
