(* C06 — A file cut short by a crash reads as a prefix of the complete file.
   Statements only (proofs: Proofs/TruncProofs.v; the part that views a file as
   a list of segments is in Proofs/IndexProofs.v, where that view is defined).

   The composed statement of DESIGN.md (truncation_prefix) is NOT proved.  What
   is proved, each closed under the global context:

   lexing       read_before_cut_unchanged
   chunk count  truncated_chunk_count, calculate_chunks_count
   final chunk  contig_final_structure, contig_final_le           (contiguous: whole leading
                                                                    channels, a partial one, nothing)
                interleaved_final_le, interleaved_whole_rows,
                interleaved_keeps_whole_rows, prop_final_lookup    (interleaved: whole rows)
                daqmx_final_structure, daqmx_final_le              (DAQmx: whole rows per buffer,
                                                                    buffers in order)
                final_chunk_lengths_le                              (all non-DAQmx rules: 0 <= v <= n)
   lengths      seg_values_truncated_le, calculate_chunks_truncated_le
                                                                   (per segment: all complete chunks
                                                                    kept, never more than complete)
   status       cut_segment_status, cut_segment_status_unknown, md_loop_stops   (one segment)
                truncation_prefix_partial                           (whole file, see below)

   truncation_prefix_partial: for every well-formed file given as a segment list
   ([segs_ok]: canonical metadata, exact offsets) and EVERY cut offset k, if the
   metadata pass over the cut file succeeds then it finds exactly the segments
   [cut_expected 0 segs k] (positions, data positions, ends clamped to the cut,
   incomplete flags): segments before the cut unchanged, the segment whose raw
   data is cut ends at the cut, a segment whose lead-in or metadata is cut is
   dropped with everything after it; for explicit lengths the last segment is
   flagged incomplete exactly when the cut is inside some segment's raw data
   and no earlier segment is flagged.

   MISSING for truncation_prefix (shown by the check's exhaustive cutting only):
   - that reading the cut file does not fail (rd_all = Ok) and that the values
     decoded from the surviving bytes are a prefix of the complete values
     (rd_eager / Layout side), len(channel) = number of values returned, and
     lazy = eager;
   - the per-segment length bound composed over a whole file (it needs the
     object-list invariants NoDup paths / number_values >= 0 through
     read_segment_objects, and that the complete segment holds whole chunks);
   - for DAQmx the bound is per raw buffer (daqmx_final_le); an object with
     fewer values than its buffer's rows is not bounded by its own count. *)
From Coq Require Import List ZArith.
Import ListNotations.
From NpTdms Require Import Base.Bytes Base.Res Model.Tokens Model.SegState Model.Layout Model.Reader
     Proofs.TruncProofs Proofs.IndexProofs.
Local Open Scope Z_scope.

(* reading a prefix of a file: any read that ends before the cut sees the same bytes *)
Theorem read_before_cut_unchanged : forall (bs : bytes) (k pos n : Z),
    0 <= pos -> 0 <= n -> pos + n <= k -> read_at pos n (take k bs) = read_at pos n bs.
Proof. exact read_at_take. Qed.

(* ---- A1 ------------------------------------------------------------------- *)

Theorem truncated_chunk_count : forall csize total total',
    0 < csize -> 0 <= total' < total -> total mod csize = 0 ->
    nchunks_of total' csize <= total / csize /\
    0 <= total' / csize < total / csize /\
    (total' mod csize <> 0 -> nchunks_of total' csize = 1 + total' / csize) /\
    (total' mod csize = 0 -> nchunks_of total' csize = total' / csize).
Proof. exact TruncProofs.truncated_chunk_count. Qed.

Theorem calculate_chunks_count : forall toc inc objs total csize n fin,
    chunk_size objs = Ok csize -> 0 < csize -> 0 <= total ->
    calculate_chunks toc inc objs total = Ok (n, fin) ->
    n = nchunks_of total csize /\
    (total mod csize = 0 -> fin = None) /\
    (total mod csize <> 0 ->
     exists f, fin = Some f /\ final_chunk_lengths toc inc objs csize (total mod csize) = Ok f).
Proof. exact TruncProofs.calculate_chunks_count. Qed.

(* ---- A2 ------------------------------------------------------------------- *)

Theorem contig_final_structure : forall objs rem,
    NoDup (map so_path (data_objs objs)) ->
    (forall o, In o (data_objs objs) -> 0 <= so_nvals o) ->
    0 <= rem ->
    exists pre rest,
      data_objs objs = pre ++ rest /\
      0 <= rem - zsum (map obytes pre) /\
      (pre <> [] -> zsum (map obytes pre) < rem) /\
      (forall o, In o pre -> alookup (so_path o) (contig_final objs rem []) = Some (so_nvals o)) /\
      match rest with
      | [] => True
      | o :: post =>
        rem - zsum (map obytes pre) <= obytes o /\
        alookup (so_path o) (contig_final objs rem [])
        = Some ((rem - zsum (map obytes pre)) / osz o) /\
        forall o', In o' post -> alookup (so_path o') (contig_final objs rem []) = None
      end.
Proof. exact TruncProofs.contig_final_structure. Qed.

Theorem contig_final_le : forall objs rem,
    NoDup (map so_path (data_objs objs)) ->
    (forall o, In o (data_objs objs) -> 0 <= so_nvals o) ->
    0 <= rem ->
    (forall o, In o (data_objs objs) ->
               0 <= lookup0 (so_path o) (contig_final objs rem []) <= so_nvals o) /\
    zsum (map (fun o => lookup0 (so_path o) (contig_final objs rem []) * osz o) (data_objs objs))
    <= rem.
Proof. exact TruncProofs.contig_final_le. Qed.

(* element sizes are positive, so the hypothesis "sizes positive" is discharged *)
Theorem element_size_positive : forall o, 0 < osz o.
Proof. exact osz_pos. Qed.

(* ---- A3 ------------------------------------------------------------------- *)

Theorem interleaved_final_le : forall nvals rem csize,
    0 <= nvals -> 0 <= rem < csize ->
    0 <= nvals * rem / csize <= nvals /\ (0 < nvals -> nvals * rem / csize < nvals).
Proof. exact TruncProofs.interleaved_final_le. Qed.

Theorem interleaved_whole_rows : forall n width rem,
    0 < n -> 0 < width -> n * rem / (n * width) = rem / width.
Proof. exact TruncProofs.interleaved_whole_rows. Qed.

Theorem prop_final_lookup : forall objs csize rem o,
    NoDup (map so_path (data_objs objs)) -> In o (data_objs objs) ->
    alookup (so_path o) (prop_final objs csize rem) = Some (so_nvals o * rem / csize).
Proof. exact TruncProofs.prop_final_lookup. Qed.

Theorem interleaved_keeps_whole_rows : forall objs n rem o,
    0 < n ->
    NoDup (map so_path (data_objs objs)) ->
    (forall o, In o (data_objs objs) -> so_nvals o = n /\ so_dsize o = n * osz o) ->
    In o (data_objs objs) ->
    let width := zsum (map osz (data_objs objs)) in
    zsum (map so_dsize (data_objs objs)) = n * width /\
    alookup (so_path o) (prop_final objs (n * width) rem) = Some (rem / width).
Proof. exact TruncProofs.interleaved_keeps_whole_rows. Qed.

(* ---- A4 ------------------------------------------------------------------- *)

Theorem daqmx_final_structure : forall dims rem,
    (forall d, In d dims -> 0 <= dbytes d) -> 0 <= rem ->
    exists pre rest,
      dims = pre ++ rest /\
      0 <= rem - zsum (map dbytes pre) /\
      (pre <> [] -> zsum (map dbytes pre) < rem) /\
      daqmx_buffer_lengths dims rem
      = map fst pre ++ match rest with
                       | [] => []
                       | d :: post => (rem - zsum (map dbytes pre)) / snd d :: map (fun _ => 0) post
                       end /\
      match rest with
      | [] => True
      | d :: post => rem - zsum (map dbytes pre) <= dbytes d
      end.
Proof. exact TruncProofs.daqmx_final_structure. Qed.

Theorem daqmx_final_le : forall dims rem,
    (forall d, In d dims -> 0 <= fst d /\ 0 < snd d) -> 0 <= rem ->
    Forall2 (fun len d => 0 <= len <= fst d) (daqmx_buffer_lengths dims rem) dims /\
    zsum (map (fun p => fst p * snd (snd p)) (combine (daqmx_buffer_lengths dims rem) dims)) <= rem.
Proof. exact TruncProofs.daqmx_final_le. Qed.

(* ---- A5 ------------------------------------------------------------------- *)

Theorem seg_values_truncated_le : forall o csize total total' n' fin',
    0 < csize -> 0 <= total' < total -> total mod csize = 0 ->
    0 <= so_nvals o ->
    n' = nchunks_of total' csize ->
    (total' mod csize = 0 -> fin' = None) ->
    (total' mod csize <> 0 ->
     exists f, fin' = Some f /\ 0 <= lookup0 (so_path o) f <= so_nvals o) ->
    seg_values o n' fin' <= seg_values o (total / csize) None /\
    (so_has_data o = true -> so_nvals o * (total' / csize) <= seg_values o n' fin').
Proof. exact TruncProofs.seg_values_truncated_le. Qed.

Theorem final_chunk_lengths_le : forall toc inc objs csize rem f o,
    have_daqmx objs = Ok false ->
    final_chunk_lengths toc inc objs csize rem = Ok f ->
    NoDup (map so_path (data_objs objs)) ->
    (forall o, In o (data_objs objs) -> 0 <= so_nvals o) ->
    0 <= rem < csize ->
    In o (data_objs objs) ->
    0 <= lookup0 (so_path o) f <= so_nvals o.
Proof. exact TruncProofs.final_chunk_lengths_le. Qed.

Theorem calculate_chunks_truncated_le :
  forall toc inc inc' objs csize total total' n fin n' fin' o,
    have_daqmx objs = Ok false ->
    chunk_size objs = Ok csize -> 0 < csize ->
    0 <= total' < total -> total mod csize = 0 ->
    NoDup (map so_path (data_objs objs)) ->
    (forall o, In o (data_objs objs) -> 0 <= so_nvals o) ->
    calculate_chunks toc inc objs total = Ok (n, fin) ->
    calculate_chunks toc inc' objs total' = Ok (n', fin') ->
    In o (data_objs objs) ->
    fin = None /\ n = total / csize /\
    so_nvals o * (total' / csize) <= seg_values o n' fin' <= seg_values o n fin.
Proof. exact TruncProofs.calculate_chunks_truncated_le. Qed.

(* ---- A6 ------------------------------------------------------------------- *)

Theorem cut_segment_status : forall seg_pos l k,
    l_next l <> 0xFFFFFFFFFFFFFFFF -> l_raw l <= l_next l ->
    let dp := seg_pos + 28 + l_raw l in
    let np := seg_pos + l_next l + 28 in
    (k < dp -> lead_positions seg_pos l (Some k) = Ok LeadEof) /\
    (dp <= k ->
     exists inc, lead_positions seg_pos l (Some k) = Ok (LeadOk dp (Z.min k np) inc) /\
                 (inc = true <-> dp <= k < np)) /\
    (forall n, np <= k <= n ->
               lead_positions seg_pos l (Some k) = lead_positions seg_pos l (Some n) /\
               lead_positions seg_pos l (Some k) = Ok (LeadOk dp np false)).
Proof. exact TruncProofs.cut_segment_status. Qed.

Theorem cut_segment_status_unknown : forall seg_pos l k,
    l_next l = 0xFFFFFFFFFFFFFFFF ->
    let dp := seg_pos + 28 + l_raw l in
    (k < dp -> lead_positions seg_pos l (Some k) = Ok LeadEof) /\
    (dp <= k -> lead_positions seg_pos l (Some k) = Ok (LeadOk dp k true)).
Proof. exact TruncProofs.cut_segment_status_unknown. Qed.

Theorem md_loop_stops : forall f src is_index fs w src_pos seg_pos prev_seg prev_index st,
    (blen (read_at src_pos 28 src) < 28 ->
     md_loop (S f) src is_index fs w src_pos seg_pos prev_seg prev_index st = Ok st) /\
    (forall l,
        blen (read_at src_pos 28 src) = 28 ->
        parse_leadin (read_at src_pos 28 src) = Ok l ->
        bytes_eqb (l_tag l) (if is_index then TAG_INDEX else TAG_DATA) = true ->
        lead_positions seg_pos l fs = Ok LeadEof ->
        md_loop (S f) src is_index fs w src_pos seg_pos prev_seg prev_index st
        = Ok (set_version st (l_version l)) /\
        rs_segments (set_version st (l_version l)) = rs_segments st).
Proof. exact TruncProofs.md_loop_stops. Qed.

(* whole file, every cut offset; [segs_ok] allows the last segment to carry the
   length-unknown marker (then [open_flag] is true and it is always flagged) *)
Theorem cut_file_segments : forall segs k w st,
    segs_ok segs -> 0 <= k <= blen (data_image segs) ->
    rd_metadata (take k (data_image segs)) false (Some k) w = Ok st ->
    map seg_summary (rs_segments st) = cut_expected 0 segs k.
Proof. exact IndexProofs.cut_file_segments. Qed.

Theorem truncation_prefix_partial : forall segs k w st,
    segs_ok segs -> Forall seg_exact segs ->
    0 <= k <= blen (data_image segs) ->
    rd_metadata (take k (data_image segs)) false (Some k) w = Ok st ->
    map seg_summary (rs_segments st) = cut_expected 0 segs k /\
    (last_incomplete st = true <->
     exists i s, nth_error segs i = Some s /\
                 data_off segs i + 28 + blen (fs_meta s) <= k < data_off segs (S i)) /\
    (forall gs g, rs_segments st = gs ++ [g] -> Forall (fun x => sg_incomplete x = false) gs).
Proof. exact IndexProofs.truncation_prefix_partial. Qed.

Print Assumptions read_before_cut_unchanged.
Print Assumptions truncated_chunk_count.
Print Assumptions calculate_chunks_count.
Print Assumptions contig_final_structure.
Print Assumptions contig_final_le.
Print Assumptions element_size_positive.
Print Assumptions interleaved_final_le.
Print Assumptions interleaved_whole_rows.
Print Assumptions prop_final_lookup.
Print Assumptions interleaved_keeps_whole_rows.
Print Assumptions daqmx_final_structure.
Print Assumptions daqmx_final_le.
Print Assumptions seg_values_truncated_le.
Print Assumptions final_chunk_lengths_le.
Print Assumptions calculate_chunks_truncated_le.
Print Assumptions cut_segment_status.
Print Assumptions cut_segment_status_unknown.
Print Assumptions md_loop_stops.
Print Assumptions cut_file_segments.
Print Assumptions truncation_prefix_partial.
