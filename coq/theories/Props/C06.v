(* C06 — A file cut short by a crash reads as a prefix of the complete file.
   Statements only (proofs: Proofs/TruncProofs.v).  See the end of the file for
   what is partial. *)
From Coq Require Import List ZArith.
Import ListNotations.
From NpTdms Require Import Base.Bytes Base.Res Model.Tokens Model.SegState Model.Layout Model.Reader
     Proofs.TruncProofs.
Local Open Scope Z_scope.

(* reading a prefix of a file: any read that ends before the cut sees the same bytes *)
Theorem read_before_cut_unchanged : forall (bs : bytes) (k pos n : Z),
    0 <= pos -> 0 <= n -> pos + n <= k -> read_at pos n (take k bs) = read_at pos n bs.
Proof. exact read_at_take. Qed.

Print Assumptions read_before_cut_unchanged.
