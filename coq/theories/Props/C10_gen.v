(* C10 (companion) -- the call list of TdmsWriter.defragment, TRANSLATED from nptdms/writer.py on every run
   (Gen/PyFuncsWCtl.v defragment_gen: root object with the file's properties, then per group its group
   object and one call per channel with read_data(scaled=False) and the channel's properties; the version
   argument handed to the new writer), equals Model/Defrag.v defrag_calls, so defrag_preserves
   (Props/C10.v, C10_full.v) is about the translated method.  Statements only (proofs: Proofs/GenWCtlEquiv.v). *)
From Coq Require Import List ZArith Bool.
From Coq Require Import Init.Byte.
Import ListNotations.
From NpTdms Require Import Base.Bytes Base.Res Model.Tokens Model.ByteStr Model.StrictParse Model.Writer Model.Defrag
     Gen.PyFuncsWCtl Proofs.DefragProofs Proofs.GenWCtlEquiv.
Local Open Scope Z_scope.

Theorem defragment_translated : forall c version, defragment_gen c version = Ok (version, defrag_calls c).
Proof. exact defragment_eq. Qed.

(* the translated calls fed to the writer session are the model's defrag *)
Theorem defrag_is_translated : forall version c, defrag_translated version c = defrag version c.
Proof. exact defrag_translated_eq. Qed.

(* Props/C10.v defrag_preserves_partial, on the translated method *)
Theorem defrag_preserves_translated : forall v c data index,
  wf_file [(v, defrag_calls c)] = true ->
  defrag_translated v c = Ok (data, index) ->
  exists segs,
    strict_parse data = Some segs /\
    map seg_view segs = defrag_expected c /\
    strip_raw_and_retag data = Some index.
Proof. intros v c data index Hwf H. rewrite defrag_translated_eq in H. exact (defrag_preserves_lemma v c data index Hwf H). Qed.

(* non-vacuity: a group with properties and two channels (one untyped), an empty group WITHOUT properties
   (its group object is still written) *)
Definition c10_gen_example : dcontent :=
  mkDContent [mkProp [x74] T_STRING [x78]]
    [mkDGroup [x67] [mkProp [x70] 3 [x05; x00; x00; x00]]
       [mkDChan [x61] (Some 3) [[x01; x00; x00; x00]; [xff; xff; xff; x7f]] []; mkDChan [x6e] None [] []];
     mkDGroup [x68] [] []].

Example c10_gen_calls :
  defragment_gen c10_gen_example 4713
  = Ok (4713, [[WRoot [mkProp [x74] T_STRING [x78]]];
               [WGroup [x67] [mkProp [x70] 3 [x05; x00; x00; x00]]];
               [WChan [x67] [x61] 3 [[x01; x00; x00; x00]; [xff; xff; xff; x7f]] []];
               [WChan [x67] [x6e] T_VOID [] []];
               [WGroup [x68] []]]).
Proof. vm_compute. reflexivity. Qed.

Print Assumptions defragment_translated.
Print Assumptions defrag_is_translated.
Print Assumptions defrag_preserves_translated.
Print Assumptions c10_gen_calls.
