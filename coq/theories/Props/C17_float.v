(* C17 (companion) -- the binary64 rounding error of the sensor scalings, by theorem.
   Statements only; proofs live in Proofs/SensorsRoundBase.v, SensorsRoundScaled.v (a calculus
   for straight-line float code), SensorsRoundRtd.v, SensorsRoundStrain.v.

   Props/C17.v proves over the REALS that the formulas of RtdScaling, ThermistorScaling and
   StrainScaling invert their sensor laws exactly; the property says "... returns that
   temperature or strain to within 1e-6 relative".  Here the binary64 computation that
   nptdms/scaling.py performs (Model/SensorsF.v: the same operations in the same order, tied to
   the implementation bit for bit by the float_tie of harness/c17.py) is bounded against the
   real formula, and composed with Props/C17.v:

     rtd_quadratic_rounding   the quadratic branch of RtdScaling.scale (r_t >= r_0), for every
                              finite voltage whose measured resistance r satisfies
                              0 <= r <= 6 r_0 and discriminant >= 9e-7:  finite, and
                              |float - real formula| <= 3e-10 degC  (absolute: -a + sqrt(..)
                              cancels near 0 degC; for |T| >= 1 this is 3e-10 relative);
     rtd_float_inverts        for 0 <= T <= 1000 degC: the float scaling of the voltage the
                              Callendar-Van Dusen law yields -- the real I (R(T) + leads),
                              rounded ONCE to binary64 -- is within 1e-6 (1 + |T|) of T
                              (in fact within 4e-10, rtd_float_inverts_sharp) whenever the
                              quadratic branch is taken, and it is taken from 1e-9 degC on;
     strain_rounding          StrainScaling.scale, all seven bridge configurations, for every
                              finite voltage with |v - initial voltage| <= kappa * excitation
                              (kappa = 0.7 full bridges, 0.35 half bridges, 0.23 quarter bridges:
                              what |strain| <= 0.1 can produce, strain_bridge_voltage_range):
                              finite, and |float - real formula| <= eps, absolute, with
                              eps = 7e-16 (full I), 2.5e-15 (full II), 4e-14 (full III),
                              2.5e-13 (half I), 5e-15 (half II), 2.5e-14 (quarter I, II)
                              (strain_constants).  Worst-case bounds over the whole parameter box,
                              not measured errors; the non-linear bridges divide by a quantity
                              whose lower bound over the box is 3 to 13 times below its typical
                              value, which is what makes half I the loosest;
     strain_float_inverts     for |e| <= 0.1: the float scaling of the measured voltage of strain e
                              (Wheatstone law with lead wires, initial voltage and gain adjustment,
                              Model/SensorsR.strain_measured_voltage, rounded ONCE to binary64)
                              is within 1e-6 |e| + 1e-12 of e (within eps above,
                              strain_float_inverts_sharp), for all seven configurations.

   Vocabulary (Proofs/HornerRound.v): FR x = B2R (Prim2B x), the real a primitive float
   denotes through Flocq's bridge; Ffin x = x is finite; rnd = round to nearest even to
   binary64 with gradual underflow; u64 = 2^-53.  Per operation the standard model
   |rnd z - z| <= u64 |z| + 2^-1075 (Flocq error_N_FLT); sqrt is correctly rounded
   (Flocq sqrt_equiv / Bsqrt_correct); overflow is excluded through B*_correct.

   Parameter ranges (on the VALUES of the float parameters; stated in each theorem):
     RTD     1e-5 <= I <= 1 A, 10 <= R0 <= 1e4 ohm, 3e-3 <= A <= 5e-3, -1e-6 <= B <= -1e-7,
             0 <= lead <= 100 ohm, any resistance configuration (2, 3: compensated; else not);
     strain  0 <= nu <= 0.5, 50 <= gage resistance <= 5000, 0 <= lead <= 50,
             |initial voltage| <= 0.1, 1 <= gage factor <= 5, 0.8 <= gain <= 1.25,
             1 <= excitation <= 10 V.

   NOT covered, and why:
     * `a ** 2` in RtdScaling.scale is the C library's pow(a, 2.0), which is not the correctly
       rounded a*a (measured: 1 599 of 2 000 000 random a differ by one ulp).  Its value is an
       argument a2 of the model with the hypothesis |a2 - a^2| <= 2^-52 a^2 (within one ulp:
       glibc documents < 1 ulp); not proved of any libm.
     * the quartic branch of RtdScaling (T < 0): numpy's polyroots, an eigenvalue solver;
     * ThermistorScaling: np.log -- PrimFloat has +, -, *, /, sqrt only.
     Both stay bounded per sample by harness/c17.py (1e-9 relative). *)
From Coq Require Import Reals ZArith List Lra.
From Coq Require Import PrimFloat.
From Interval Require Import Tactic.
From NpTdms Require Import Model.SensorsR Model.SensorsF.
From NpTdms Require Import Proofs.SensorsProofs Proofs.HornerRound Proofs.SensorsRoundBase.
From NpTdms Require Import Proofs.SensorsRoundRtd Proofs.SensorsRoundStrain Proofs.SensorsRoundStrainThm.
Open Scope R_scope.

(* ---- RTD, quadratic branch ---------------------------------------------------------------------- *)

(* the float result against the real formula, for every finite voltage in the branch *)
Theorem rtd_quadratic_rounding :
  forall (i r0 a a2 b lead v : float) (cfg : Z) (y : float),
  Ffin i -> Ffin r0 -> Ffin a -> Ffin a2 -> Ffin b -> Ffin lead -> Ffin v ->
  (1e-5 <= FR i <= 1 /\ 10 <= FR r0 <= 1e4 /\ 3e-3 <= FR a <= 5e-3 /\ -1e-6 <= FR b <= -1e-7 /\
   0 <= FR lead <= 100 /\ Rabs (FR a2 - FR a ^ 2) <= 2 * u64 * FR a ^ 2) ->
  (0 <= rtd_r_t (FR i) (FR lead) cfg (FR v) <= 6 * FR r0 /\
   9e-7 <= FR a ^ 2 - 4 * FR b * (1 - rtd_r_t (FR i) (FR lead) cfg (FR v) / FR r0)) ->
  rtd_scale_F i r0 a a2 b lead cfg v = Some y ->
  Ffin y /\
  Rabs (FR y - rtd_scale_pos (FR a) (FR b) (FR r0) (rtd_r_t (FR i) (FR lead) cfg (FR v))) <= 3e-10.
Proof. exact rtd_quadratic_rounding_all. Qed.

(* composed with rtd_inverts_nonnegative of Props/C17.v.  "The voltage the equation yields" in
   floats: the real number I (R(T) + lead term) rounded once, FR v = rnd (...). *)
Theorem rtd_float_inverts_sharp :
  forall (i r0 a a2 b lead v : float) (w : wiring) (C T : R),
  Ffin i -> Ffin r0 -> Ffin a -> Ffin a2 -> Ffin b -> Ffin lead -> Ffin v ->
  (1e-5 <= FR i <= 1 /\ 10 <= FR r0 <= 1e4 /\ 3e-3 <= FR a <= 5e-3 /\ -1e-6 <= FR b <= -1e-7 /\
   0 <= FR lead <= 100 /\ Rabs (FR a2 - FR a ^ 2) <= 2 * u64 * FR a ^ 2) ->
  0 <= T <= 1000 ->
  FR v = rnd (current_excitation_voltage (FR i) w (FR lead) (cvd (FR r0) (FR a) (FR b) C T)) ->
  (forall y, rtd_scale_F i r0 a a2 b lead (wiring_code w) v = Some y ->
             Ffin y /\ Rabs (FR y - T) <= 4e-10) /\
  (1e-9 <= T -> exists y, rtd_scale_F i r0 a a2 b lead (wiring_code w) v = Some y).
Proof. exact rtd_float_inverts_sharp_all. Qed.

(* the property's tolerance *)
Theorem rtd_float_inverts :
  forall (i r0 a a2 b lead v : float) (w : wiring) (C T : R),
  Ffin i -> Ffin r0 -> Ffin a -> Ffin a2 -> Ffin b -> Ffin lead -> Ffin v ->
  (1e-5 <= FR i <= 1 /\ 10 <= FR r0 <= 1e4 /\ 3e-3 <= FR a <= 5e-3 /\ -1e-6 <= FR b <= -1e-7 /\
   0 <= FR lead <= 100 /\ Rabs (FR a2 - FR a ^ 2) <= 2 * u64 * FR a ^ 2) ->
  0 <= T <= 1000 ->
  FR v = rnd (current_excitation_voltage (FR i) w (FR lead) (cvd (FR r0) (FR a) (FR b) C T)) ->
  (forall y, rtd_scale_F i r0 a a2 b lead (wiring_code w) v = Some y ->
             Ffin y /\ Rabs (FR y - T) <= 1e-6 * (1 + Rabs T)) /\
  (1e-9 <= T -> exists y, rtd_scale_F i r0 a a2 b lead (wiring_code w) v = Some y).
Proof. exact rtd_float_inverts_all. Qed.

(* ---- non-vacuity: RTD --------------------------------------------------------------------------- *)

(* IEC 60751 Pt100 (the parameters of nptdms/test/test_scaling.py), 1 mA, 2-wire with 0.5 ohm
   leads, the voltage of 850 degC; a2 is Python's 3.9083e-3 ** 2.  All hypotheses of
   rtd_quadratic_rounding hold, the branch is the quadratic one, the result is the float the
   implementation returns (849.9999999999997). *)
Example c17_float_rtd_850 :
  let i := 0x1.0624dd2f1a9fcp-10%float in let r0 := 0x1.9p+6%float in
  let a := 0x1.002264aed641cp-8%float in let a2 := 0x1.0044cdfc928d8p-16%float in
  let b := (-0x1.360afee19ce88p-21)%float in let lead := 0x1p-1%float in
  let v := 0x1.90e06d938151ap-2%float in let y := 0x1.a8ffffffffffdp+9%float in
  rtd_scale_F i r0 a a2 b lead 2 v = Some y /\
  Ffin y /\
  Rabs (FR y - rtd_scale_pos (FR a) (FR b) (FR r0) (rtd_r_t (FR i) (FR lead) 2 (FR v))) <= 3e-10.
Proof.
  intros i r0 a a2 b lead v y.
  assert (Hs : rtd_scale_F i r0 a a2 b lead 2 v = Some y) by (vm_compute; reflexivity).
  split; [exact Hs|].
  assert (Ei : FR i = 0x1.0624dd2f1a9fcp-10) by (unfold i; fr_lit).
  assert (Er : FR r0 = 100) by (unfold r0; fr_lit).
  assert (Ea : FR a = 0x1.002264aed641cp-8) by (unfold a; fr_lit).
  assert (Ea2 : FR a2 = 0x1.0044cdfc928d8p-16) by (unfold a2; fr_lit).
  assert (Eb : FR b = -0x1.360afee19ce88p-21) by (unfold b; fr_lit).
  assert (El : FR lead = 0.5) by (unfold lead; fr_lit).
  assert (Ev : FR v = 0x1.90e06d938151ap-2) by (unfold v; fr_lit).
  apply (rtd_quadratic_rounding i r0 a a2 b lead v 2 y);
    try (apply Ffin_prim; vm_compute; reflexivity); try exact Hs.
  - rewrite Ei, Er, Ea, Ea2, Eb, El. unfold u64.
    repeat split; try lra; interval with (i_prec 120).
  - unfold rtd_r_t, adjust_for_lead_resistance. cbn [Z.eqb Pos.eqb andb CURRENT_EXCITATION].
    rewrite Ei, Er, Ea, Eb, El, Ev. repeat split; interval.
Qed.

(* the composed theorem on an instance whose forward voltage is exactly representable
   (dyadic coefficients A = 2^-8, B = -2^-21 in the stated ranges, R0 = 100, I = 2^-10 A,
   3-wire with 0.5 ohm leads, T = 100 degC: R(T) = 138.585662841796875 ohm):
   the hypotheses hold, the scaling answers (100.0 exactly, as the implementation does), and
   the answer is within the property's tolerance of T *)
Example c17_float_rtd_inverts_100 :
  let i := 0x1p-10%float in let r0 := 0x1.9p+6%float in
  let a := 0x1p-8%float in let a2 := 0x1p-16%float in
  let b := (-0x1p-21)%float in let lead := 0x1p-1%float in
  let v := 0x1.162bdcp-3%float in
  FR v = rnd (current_excitation_voltage (FR i) ThreeWire (FR lead)
                (cvd (FR r0) (FR a) (FR b) (-4.183e-12) 100)) /\
  exists y, rtd_scale_F i r0 a a2 b lead (wiring_code ThreeWire) v = Some y /\
            Rabs (FR y - 100) <= 1e-6 * (1 + Rabs 100).
Proof.
  intros i r0 a a2 b lead v.
  assert (Ei : FR i = 0x1p-10) by (unfold i; fr_lit).
  assert (Er : FR r0 = 100) by (unfold r0; fr_lit).
  assert (Ea : FR a = 0x1p-8) by (unfold a; fr_lit).
  assert (Ea2 : FR a2 = 0x1p-16) by (unfold a2; fr_lit).
  assert (Eb : FR b = -0x1p-21) by (unfold b; fr_lit).
  assert (El : FR lead = 0.5) by (unfold lead; fr_lit).
  assert (Ev : FR v = 0x1.162bdcp-3) by (unfold v; fr_lit).
  assert (Hv : FR v = rnd (current_excitation_voltage (FR i) ThreeWire (FR lead)
                             (cvd (FR r0) (FR a) (FR b) (-4.183e-12) 100))).
  { replace (current_excitation_voltage (FR i) ThreeWire (FR lead)
               (cvd (FR r0) (FR a) (FR b) (-4.183e-12) 100)) with (FR v).
    - symmetry. apply rnd_FR.
    - rewrite cvd_eval_pos by lra.
      unfold current_excitation_voltage, cvd_pos. cbn [lead_in_measurement].
      rewrite Ei, Er, Ea, Eb, El, Ev. lra. }
  split; [exact Hv|].
  destruct (rtd_float_inverts i r0 a a2 b lead v ThreeWire (-4.183e-12) 100) as [H1 H2];
    try (apply Ffin_prim; vm_compute; reflexivity); try exact Hv; try lra.
  - rewrite Ei, Er, Ea, Ea2, Eb, El. unfold u64.
    repeat split; try lra; interval with (i_prec 120).
  - destruct H2 as [y Hy]; [lra|]. exists y. split; [exact Hy|]. apply (H1 y Hy).
Qed.


(* ---- Strain ----------------------------------------------------------------------------------------- *)

(* kappa and eps per configuration *)
Theorem strain_constants_table :
  (strain_kappa FULL_BRIDGE_1 = 0.7 /\ strain_kappa FULL_BRIDGE_2 = 0.7 /\ strain_kappa FULL_BRIDGE_3 = 0.7 /\
   strain_kappa HALF_BRIDGE_1 = 0.35 /\ strain_kappa HALF_BRIDGE_2 = 0.35 /\
   strain_kappa QUARTER_BRIDGE_1 = 0.23 /\ strain_kappa QUARTER_BRIDGE_2 = 0.23) /\
  (strain_eps FULL_BRIDGE_1 = 7e-16 /\ strain_eps FULL_BRIDGE_2 = 2.5e-15 /\ strain_eps FULL_BRIDGE_3 = 4e-14 /\
   strain_eps HALF_BRIDGE_1 = 2.5e-13 /\ strain_eps HALF_BRIDGE_2 = 5e-15 /\
   strain_eps QUARTER_BRIDGE_1 = 2.5e-14 /\ strain_eps QUARTER_BRIDGE_2 = 2.5e-14).
Proof. exact strain_constants. Qed.

(* the float result against the real formula, for every finite voltage in range *)
Theorem strain_rounding :
  forall (cfg : Z) (nu r0 rl init g gain vex v : float),
  (cfg = FULL_BRIDGE_1 \/ cfg = FULL_BRIDGE_2 \/ cfg = FULL_BRIDGE_3 \/ cfg = HALF_BRIDGE_1 \/
   cfg = HALF_BRIDGE_2 \/ cfg = QUARTER_BRIDGE_1 \/ cfg = QUARTER_BRIDGE_2) ->
  Ffin nu -> Ffin r0 -> Ffin rl -> Ffin init -> Ffin g -> Ffin gain -> Ffin vex -> Ffin v ->
  (0 <= FR nu <= 0.5 /\ 50 <= FR r0 <= 5000 /\ 0 <= FR rl <= 50 /\ -0.1 <= FR init <= 0.1 /\
   1 <= FR g <= 5 /\ 0.8 <= FR gain <= 1.25 /\ 1 <= FR vex <= 10) ->
  Rabs (FR v - FR init) <= strain_kappa cfg * FR vex ->
  exists y x,
    strain_scale_F cfg nu r0 rl init g gain vex v = Some y /\
    strain_scale cfg (FR nu) (FR r0) (FR rl) (FR init) (FR g) (FR gain) (FR vex) (FR v) = Some x /\
    Ffin y /\ Rabs (FR y - x) <= strain_eps cfg.
Proof. exact strain_rounding_all. Qed.

(* the voltage range of strain_rounding contains what |e| <= 0.1 produces (quarter bridges) ... *)
Theorem strain_bridge_voltage_range_quarter :
  forall nu r0 rl init g gain vex e,
  (0 <= nu <= 0.5 /\ 50 <= r0 <= 5000 /\ 0 <= rl <= 50 /\ -0.1 <= init <= 0.1 /\
   1 <= g <= 5 /\ 0.8 <= gain <= 1.25 /\ 1 <= vex <= 10) ->
  -0.1 <= e <= 0.1 ->
  forall cfg Vm,
  cfg = QUARTER_BRIDGE_1 \/ cfg = QUARTER_BRIDGE_2 ->
  strain_measured_voltage cfg nu r0 rl init g gain vex e = Some Vm ->
  Rabs (Vm - init) <= 0.23 * vex.
Proof. exact bridge_voltage_qb. Qed.

(* ... and half bridge I; the others likewise: the lemmas bridge_voltage_fb1 .. _qb of
   Proofs/SensorsRoundStrainThm.v *)
Theorem strain_bridge_voltage_range_half_1 :
  forall nu r0 rl init g gain vex e,
  (0 <= nu <= 0.5 /\ 50 <= r0 <= 5000 /\ 0 <= rl <= 50 /\ -0.1 <= init <= 0.1 /\
   1 <= g <= 5 /\ 0.8 <= gain <= 1.25 /\ 1 <= vex <= 10) ->
  -0.1 <= e <= 0.1 ->
  forall Vm,
  strain_measured_voltage HALF_BRIDGE_1 nu r0 rl init g gain vex e = Some Vm ->
  Rabs (Vm - init) <= 0.35 * vex.
Proof. exact bridge_voltage_hb1. Qed.

(* composed with the strain_inverts_* theorems of Props/C17.v.  "The voltage the equation
   yields" in floats: the real measured voltage Vm rounded once, FR v = rnd Vm. *)
Theorem strain_float_inverts_sharp :
  forall (cfg : Z) (nu r0 rl init g gain vex v : float) (e Vm : R),
  (cfg = FULL_BRIDGE_1 \/ cfg = FULL_BRIDGE_2 \/ cfg = FULL_BRIDGE_3 \/ cfg = HALF_BRIDGE_1 \/
   cfg = HALF_BRIDGE_2 \/ cfg = QUARTER_BRIDGE_1 \/ cfg = QUARTER_BRIDGE_2) ->
  Ffin nu -> Ffin r0 -> Ffin rl -> Ffin init -> Ffin g -> Ffin gain -> Ffin vex -> Ffin v ->
  (0 <= FR nu <= 0.5 /\ 50 <= FR r0 <= 5000 /\ 0 <= FR rl <= 50 /\ -0.1 <= FR init <= 0.1 /\
   1 <= FR g <= 5 /\ 0.8 <= FR gain <= 1.25 /\ 1 <= FR vex <= 10) ->
  -0.1 <= e <= 0.1 ->
  strain_measured_voltage cfg (FR nu) (FR r0) (FR rl) (FR init) (FR g) (FR gain) (FR vex) e = Some Vm ->
  FR v = rnd Vm ->
  exists y, strain_scale_F cfg nu r0 rl init g gain vex v = Some y /\ Ffin y /\
            Rabs (FR y - e) <= strain_eps cfg.
Proof. exact strain_float_inverts_sharp_all. Qed.

(* the property's tolerance *)
Theorem strain_float_inverts :
  forall (cfg : Z) (nu r0 rl init g gain vex v : float) (e Vm : R),
  (cfg = FULL_BRIDGE_1 \/ cfg = FULL_BRIDGE_2 \/ cfg = FULL_BRIDGE_3 \/ cfg = HALF_BRIDGE_1 \/
   cfg = HALF_BRIDGE_2 \/ cfg = QUARTER_BRIDGE_1 \/ cfg = QUARTER_BRIDGE_2) ->
  Ffin nu -> Ffin r0 -> Ffin rl -> Ffin init -> Ffin g -> Ffin gain -> Ffin vex -> Ffin v ->
  (0 <= FR nu <= 0.5 /\ 50 <= FR r0 <= 5000 /\ 0 <= FR rl <= 50 /\ -0.1 <= FR init <= 0.1 /\
   1 <= FR g <= 5 /\ 0.8 <= FR gain <= 1.25 /\ 1 <= FR vex <= 10) ->
  -0.1 <= e <= 0.1 ->
  strain_measured_voltage cfg (FR nu) (FR r0) (FR rl) (FR init) (FR g) (FR gain) (FR vex) e = Some Vm ->
  FR v = rnd Vm ->
  exists y, strain_scale_F cfg nu r0 rl init g gain vex v = Some y /\ Ffin y /\
            Rabs (FR y - e) <= 1e-6 * Rabs e + 1e-12.
Proof. exact strain_float_inverts_all. Qed.

(* ---- non-vacuity: strain ---------------------------------------------------------------------------- *)

(* the gauge of nptdms/test/test_scaling.py ("with_all": nu 0.3, 350 ohm, lead 1.234 ohm,
   initial voltage 1.35 mV, gage factor 2.1, gain 1.123, 2.5 V), half bridge I, the voltage of
   1000 microstrain: the hypotheses of strain_rounding hold and the float answer is the one the
   implementation returns (0.0009999999999999998) *)
Example c17_float_strain_half_bridge_1 :
  let nu := 0x1.3333333333333p-2%float in let r0 := 0x1.5ep+8%float in
  let rl := 0x1.3be76c8b43958p+0%float in let init := 0x1.61e4f765fd8aep-10%float in
  let g := 0x1.0cccccccccccdp+1%float in let gain := 0x1.1f7ced916872bp+0%float in
  let vex := 0x1.4p+1%float in let v := (-0x1.55ed011e06834p-13)%float in
  exists x,
    strain_scale_F HALF_BRIDGE_1 nu r0 rl init g gain vex v = Some 0x1.0624dd2f1a9fbp-10%float /\
    strain_scale HALF_BRIDGE_1 (FR nu) (FR r0) (FR rl) (FR init) (FR g) (FR gain) (FR vex) (FR v) = Some x /\
    Rabs (FR 0x1.0624dd2f1a9fbp-10%float - x) <= 2.5e-13.
Proof.
  intros nu r0 rl init g gain vex v.
  assert (Enu : FR nu = 0x1.3333333333333p-2) by (unfold nu; fr_lit).
  assert (Er0 : FR r0 = 350) by (unfold r0; fr_lit).
  assert (Erl : FR rl = 0x1.3be76c8b43958p+0) by (unfold rl; fr_lit).
  assert (Ein : FR init = 0x1.61e4f765fd8aep-10) by (unfold init; fr_lit).
  assert (Eg : FR g = 0x1.0cccccccccccdp+1) by (unfold g; fr_lit).
  assert (Egn : FR gain = 0x1.1f7ced916872bp+0) by (unfold gain; fr_lit).
  assert (Evx : FR vex = 2.5) by (unfold vex; fr_lit).
  assert (Ev : FR v = -0x1.55ed011e06834p-13) by (unfold v; fr_lit).
  destruct (strain_rounding HALF_BRIDGE_1 nu r0 rl init g gain vex v) as [y [x [Hy [Hx [_ Hb]]]]];
    try (apply Ffin_prim; vm_compute; reflexivity).
  - tauto.
  - rewrite Enu, Er0, Erl, Ein, Eg, Egn, Evx. repeat split; lra.
  - destruct strain_constants_table as [[_ [_ [_ [Hk _]]]] _]. rewrite Hk, Ev, Ein, Evx. interval.
  - exists x.
    assert (Hy' : strain_scale_F HALF_BRIDGE_1 nu r0 rl init g gain vex v = Some 0x1.0624dd2f1a9fbp-10%float)
      by (vm_compute; reflexivity).
    rewrite Hy' in Hy. injection Hy as <-.
    destruct strain_constants_table as [_ [_ [_ [_ [He _]]]]]. rewrite He in Hb.
    split; [exact Hy'|]. split; [exact Hx|exact Hb].
Qed.

(* the composed theorem on an instance whose measured voltage is exactly representable:
   full bridge I, gage factor 2, gain 1, 2.5 V, initial voltage 2^-9 V, strain 2^-10:
   Vm = 2^-9 - 2^-10 * 2 * 2.5 = -3 * 2^-10 V *)
Example c17_float_strain_inverts_full_bridge_1 :
  let nu := 0x1.3333333333333p-2%float in let r0 := 0x1.5ep+8%float in
  let rl := 0%float in let init := 0x1p-9%float in
  let g := 2%float in let gain := 1%float in
  let vex := 0x1.4p+1%float in let v := (-0x1.8p-9)%float in
  exists Vm,
    strain_measured_voltage FULL_BRIDGE_1 (FR nu) (FR r0) (FR rl) (FR init) (FR g) (FR gain) (FR vex)
                            0x1p-10 = Some Vm /\
    FR v = rnd Vm /\
    exists y, strain_scale_F FULL_BRIDGE_1 nu r0 rl init g gain vex v = Some y /\
              Rabs (FR y - 0x1p-10) <= 1e-6 * Rabs 0x1p-10 + 1e-12.
Proof.
  intros nu r0 rl init g gain vex v.
  assert (Enu : FR nu = 0x1.3333333333333p-2) by (unfold nu; fr_lit).
  assert (Er0 : FR r0 = 350) by (unfold r0; fr_lit).
  assert (Erl : FR rl = 0) by (unfold rl; apply FR_zero).
  assert (Ein : FR init = 0x1p-9) by (unfold init; fr_lit).
  assert (Eg : FR g = 2) by (unfold g; apply FR_two).
  assert (Egn : FR gain = 1) by (unfold gain; apply FR_one).
  assert (Evx : FR vex = 2.5) by (unfold vex; fr_lit).
  assert (Ev : FR v = -0x1.8p-9) by (unfold v; fr_lit).
  set (Vm0 := FR init + wheatstone (FR vex) (FR r0 * (1 - 0x1p-10 / FR gain * FR g))
                            (FR r0 * (1 + 0x1p-10 / FR gain * FR g))
                            (FR r0 * (1 - 0x1p-10 / FR gain * FR g))
                            (FR r0 * (1 + 0x1p-10 / FR gain * FR g))).
  assert (Hm : strain_measured_voltage FULL_BRIDGE_1 (FR nu) (FR r0) (FR rl) (FR init) (FR g) (FR gain)
                                       (FR vex) 0x1p-10 = Some Vm0) by reflexivity.
  exists Vm0. split; [exact Hm|].
  assert (HVm : Vm0 = FR v).
  { unfold Vm0. rewrite wheatstone_full_bridge_1 by (rewrite Er0; lra). rewrite Ein, Evx, Eg, Egn, Ev. lra. }
  assert (Hv : FR v = rnd Vm0) by (rewrite HVm; symmetry; apply rnd_FR).
  split; [exact Hv|].
  destruct (strain_float_inverts FULL_BRIDGE_1 nu r0 rl init g gain vex v 0x1p-10 Vm0
              (or_introl eq_refl)) as [y [Hy [_ Hb]]];
    try (apply Ffin_prim; vm_compute; reflexivity); try exact Hv; try exact Hm.
  - rewrite Enu, Er0, Erl, Ein, Eg, Egn, Evx. repeat split; lra.
  - lra.
  - exists y. split; assumption.
Qed.

Definition c17_float_statements :=
  (rtd_quadratic_rounding, rtd_float_inverts_sharp, rtd_float_inverts,
   c17_float_rtd_850, c17_float_rtd_inverts_100,
   strain_constants_table, strain_rounding, strain_bridge_voltage_range_quarter,
   strain_bridge_voltage_range_half_1, strain_float_inverts_sharp, strain_float_inverts,
   c17_float_strain_half_bridge_1, c17_float_strain_inverts_full_bridge_1).
Print Assumptions c17_float_statements.
