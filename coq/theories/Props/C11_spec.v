(* C11 / C01 (top layer) — the reader model REFINES a textbook specification of files
   with DAQmx raw data.

   Props/C01_spec.v proves the refinement for Model/Spec.v, whose rules give a DAQmx
   raw data index the error UnsupportedIndex.  Model/SpecDaqmx.v (read it: the rules are
   in its header) extends the SPECIFICATION, not the reader:
     spec_meaning_dq : list fseg -> spec_res dcontent      what a file MEANS
     spec_tokens_dq  : dcontent -> list tok                how TdmsFile shows a content
   = Spec.v's rules (active object list updated by path, most recent index per path,
   properties last-wins, ordinary data cut into whole chunks / rows -- Spec.decode_data is
   re-used as it is) plus: a DAQmx index (format changing 0x1269 / digital line 0x126A)
   declares per object the raw buffer widths, the number of values n, and per scaler
   (type code, buffer, byte / bit offset, scale id); a segment whose objects with data
   are DAQmx objects holds chunks of sum_k rows_k * width_k bytes, rows_k = the largest n
   among the objects with a scaler in buffer k, and value i of a scaler in chunk j is the
   typed value at byte  j * chunk + base_k + i * width_k + offset  in the segment's byte
   order (digital line: the addressed bit): q_dims, q_chunk, q_base, q_value,
   q_scaler_values -- defined with read_at on the raw data block only; nothing of the
   implementation's mechanisms (no positions, index maps, caches, segment records,
   decoder loops, buffer cursors).  The content of a DaqMxRawData channel is, per scale
   id, that scaler's values in file order; a channel typed by its only scaler holds them
   as its data; len(channel) grows by n per chunk.

   MAIN THEOREM
     reader_refines_spec_dq : wf_file segs -> spec_ok_dq segs -> spec_meaning_dq segs = SOk c ->
                              rd_all (ser_file segs) = Ok (spec_tokens_dq c, true)
       For every file syntax the specification gives a meaning to -- ordinary segments,
       DAQmx segments, any mixture, every inheritance form ('same as before', 'no data',
       object omitted, metadata block omitted, new-object-list flag) for DAQmx objects
       too, both byte orders, DaqMxRawData and typed channels, several scalers per
       channel in one or several raw buffers, padding in the rows, any number of chunks,
       ordinary segments of chunk size 0 -- the byte-level reader model (Model/Reader.v
       rd_all: what ./check C01 / C11 compare with TdmsFile.read on every run), run on the
       serialised BYTES, returns exactly the specification's tokens; [true]: every channel
       and every scale id received exactly len(channel) values.
   CONSERVATIVE EXTENSION  (spec_meaning_dq_conservative, spec_tokens_dq_conservative,
   spec_ok_dq_conservative): on a file whose metadata holds no DAQmx index,
   spec_meaning_dq is spec_meaning (content embedded by [embed], errors equal), the tokens
   are equal and spec_ok_dq is spec_ok.

   HYPOTHESES: wf_file as in C01_spec; spec_ok_dq = C01_spec's spec_ok (no path listed twice
   in a block; canonical paths) with "an index only under a channel path" extended to
   DAQmx indexes.  Not in spec_ok_dq because the specification itself returns an error
   there (spec_meaning_dq segs = SOk c excludes them; for each the real code raises, see
   C11_read.v for the layout conditions):
     UnsupportedIndex  dimension <> 1, unknown data type or scaler type code, a data type
                       other than DaqMxRawData that is not the type of the object's only
                       scaler (daqmx.py raises)
     TypeChange        another data type than the object's earlier index, or another scale
                       id -> type map than its earlier DAQmx indexes (ValueError in
                       _update_object_metadata)
     BadLayout         ordinary and DAQmx objects with data in one segment ("Cannot read
                       mixed DAQmx and non-DAQmx data"); differing width lists (ValueError in
                       get_buffer_dimensions); a scaler's buffer index outside the width
                       list (IndexError); a scaler outside its row (IndexError from NumPy);
                       objects sharing a buffer with different n, duplicate scale ids in one
                       object (the receivers would get more or fewer values than
                       len(channel): the exclusions of C11_read.daqmx_seg_ok)
     BadRawData        the raw data block is not a whole number of chunks (a truncated
                       segment: Props/C11_cut.v).
   Computed below: dq_rejected.

   THE SPECIFICATION IS TIED, NOT TRUSTED: dev/c11_spec_tie.py evaluates
   spec_tokens_dq (spec_meaning_dq syntax) inside Coq on generated DAQmx file SYNTAX (the
   layouts of harness/c11.py, every second file followed by an ordinary segment) and
   compares with the observation of TdmsFile.read on the bytes of the independent encoder
   (and FileSyn.ser_file with those bytes); error cases by mutation.  Last run: 300 files,
   0 disagreements; 272 error cases, 0 disagreements.

   LAYERS (each closed, stated below)
     spec_segment_simulation_dq  one accepted metadata block: the model reads the object
                       list [gobjs_of] the specification's active list describes (a DAQmx
                       index gives a DaqmxSegmentObject with its scalers and widths), its
                       per-object metadata update succeeds, the invariant GInv is kept
                       (SpecRefineMeta.v redone for indexes of both kinds + the scale id ->
                       type maps; positional index map removed by C02's
                       positional_update_is_update_by_path)
     spec_layout_is_readable     a DAQmx segment the specification accepts is a readable
                       DAQmx segment of C11_read (daqmx_seg_ok) with the same chunk count
     spec_dims_are_model_dims, spec_values_are_direct_values, spec_bit_is_digital_bit,
     spec_type_map_is_model's    the specification's definitions and C11_read's
                       (dims_spec, direct_scaler_chunk, digital_bit, scaler_types) coincide
     spec_daqmx_values           what the specification adds to an object for one chunk is
                       what direct_chunk holds under its path / (path, scale id)
     spec_state_simulation_dq    whole file: sm_run accepts; segs_content_z; per path the
                       content's data, per-scale-id data and length are those of the chunks
     hierarchy_refines_dq        hierarchy and token layout with scaler maps
     read_correct_daqmx_z        C11_read.read_correct_daqmx for files that also contain
                       ordinary segments of chunk size 0 *)
From Coq Require Import List ZArith.
Import ListNotations.
From NpTdms Require Import Base.Bytes Base.Res Model.Tokens Model.SegState Model.Layout Model.Reader
     Model.FileSyn Model.Spec Model.SpecDaqmx Proofs.FileSynProofs Proofs.DaqmxProofs Proofs.ReadCorrect
     Proofs.SegEncodesZ Proofs.ReadCorrectDaqmx Proofs.ReadCorrectDaqmxZ Proofs.TruncDaqmxFileEx
     Proofs.SpecRefineBase Proofs.SpecRefineMeta Proofs.SpecRefineExamples Proofs.SpecRefine
     Proofs.SpecDaqmxBase Proofs.SpecDaqmxMeta Proofs.SpecDaqmxData Proofs.SpecDaqmxHier
     Proofs.SpecDaqmxRefine Proofs.SpecDaqmxConserv Proofs.SpecDaqmxExamples.
Local Open Scope Z_scope.

(* ---- main theorems --------------------------------------------------------------------- *)

Theorem reader_refines_spec_dq : forall segs c,
    wf_file segs -> spec_ok_dq segs ->
    spec_meaning_dq segs = SOk c ->
    rd_all (ser_file segs) = Ok (spec_tokens_dq c, true).
Proof. exact SpecDaqmxRefine.reader_refines_spec_dq. Qed.

(* on files without DAQmx indexes: Model/Spec.v *)
Theorem spec_meaning_dq_conservative : forall segs,
    no_daqmx_index segs = true ->
    spec_meaning_dq segs = match spec_meaning segs with SOk c => SOk (embed c) | SErr e => SErr e end.
Proof. exact SpecDaqmxConserv.spec_meaning_dq_conservative. Qed.

Theorem spec_tokens_dq_conservative : forall segs c,
    spec_meaning segs = SOk c -> spec_tokens_dq (embed c) = spec_tokens c.
Proof. exact SpecDaqmxConserv.spec_tokens_dq_conservative. Qed.

Theorem spec_ok_dq_conservative : forall segs,
    no_daqmx_index segs = true -> (spec_ok_dq segs <-> spec_ok segs).
Proof. exact SpecDaqmxConserv.spec_ok_dq_conservative. Qed.

(* hence C01_spec.reader_refines_spec is the instance without DAQmx indexes *)
Corollary reader_refines_spec_from_dq : forall segs c,
    no_daqmx_index segs = true ->
    wf_file segs -> spec_ok segs -> spec_meaning segs = SOk c ->
    rd_all (ser_file segs) = Ok (spec_tokens c, true).
Proof.
  intros segs c Hno Hwf Hok Hm.
  rewrite <- (SpecDaqmxConserv.spec_tokens_dq_conservative segs c Hm).
  apply SpecDaqmxRefine.reader_refines_spec_dq; [exact Hwf| |].
  - apply (SpecDaqmxConserv.spec_ok_dq_conservative segs Hno). exact Hok.
  - rewrite (SpecDaqmxConserv.spec_meaning_dq_conservative segs Hno), Hm. reflexivity.
Qed.

(* ---- the specification's definitions are C11_read's -------------------------------------- *)

(* [qdobj]: the model's data object for (path, DAQmx index) *)
Theorem qdobj_unfold : forall o,
    qdobj o = mkSobj (fst o) true (qi_n (snd o)) 0 (Some (qi_dt (snd o)))
                     (Some (mkDq (qi_kind (snd o)) (qi_scalers (snd o)) (qi_widths (snd o)))).
Proof. intros [p q]. reflexivity. Qed.

Theorem spec_dims_are_model_dims : forall qobjs, dims_spec (map qdobj qobjs) = q_dims qobjs.
Proof. exact SpecDaqmxBase.dims_spec_qdobj. Qed.

Theorem spec_values_are_direct_values : forall e kind dims d j s,
    0 <= sc_off s -> q_scaler_values e kind dims d j s = direct_scaler_chunk e kind dims d j s.
Proof. exact SpecDaqmxBase.q_scaler_values_direct. Qed.

Theorem spec_bit_is_digital_bit : forall bit v, 0 <= bit -> the_bit bit v = digital_bit bit v.
Proof. exact SpecDaqmxBase.the_bit_digital_bit. Qed.

Theorem spec_type_map_is_model's : forall q a b,
    type_map (qi_scalers q) = scaler_types (mkDq (qi_kind q) (qi_scalers q) (qi_widths q)) /\
    same_map a b = scaler_types_eqb a b.
Proof. intros q a b. split; reflexivity. Qed.

(* a DAQmx index the specification accepts is the object daqmx.py builds *)
Theorem spec_index_is_model_object : forall p kind dt dim n scalers widths q,
    dq_index_of kind dt dim n scalers widths = Some q ->
    new_object p (IDaqmx kind dt dim n scalers widths) = Ok (qdobj (p, q)).
Proof. exact SpecDaqmxBase.new_object_dq_index_of. Qed.

(* ---- layers ---------------------------------------------------------------------------------- *)

(* [gidx_ok]: what an accepted index guarantees *)
Theorem gidx_ok_unfold : forall i,
    gidx_ok i <-> match i with
                  | GP i => idx_ok0 i
                  | GQ q => qi_dt q = T_DAQMX \/ (qi_dt q <> T_DAQMX /\ exists s, qi_scalers q = [s])
                  end.
Proof. intros [i|q]; reflexivity. Qed.

Theorem spec_layout_is_readable : forall g qobjs data m,
    data_objs (sg_objs g) = map qdobj qobjs -> qobjs <> [] -> NoDup (map fst qobjs) ->
    Forall (fun o => gidx_ok (GQ (snd o))) qobjs ->
    q_layout_ok qobjs = true ->
    q_nchunks (q_chunk (q_dims qobjs)) (blen data) = SOk m ->
    daqmx_seg_ok g data /\ direct_nchunks (dims_spec (data_objs (sg_objs g))) data = m.
Proof. exact SpecDaqmxData.q_layout_seg_ok. Qed.

(* [vstep o o' p cs t]: o' is o with the values the chunks cs hold under p (data, and per
   scale id) appended and t more values credited *)
Theorem vstep_unfold : forall o o' p cs t,
    vstep o o' p cs t <->
    d_vals o' = d_vals o ++ chan_values p cs /\
    (forall id, zget id (d_svals o') = zget id (d_svals o) ++ chan_scaler_values p id cs) /\
    d_len o' = d_len o + t.
Proof. intros. reflexivity. Qed.

(* one chunk of a DAQmx segment: what the specification adds to object (p, q) is what
   C11_read.direct_chunk holds under p *)
Theorem spec_daqmx_values : forall e qobjs d,
    NoDup (map fst qobjs) ->
    Forall obj_kind_ok (map qdobj qobjs) ->
    (forall p q s, In (p, q) qobjs -> In s (qi_scalers q) -> 0 <= sc_off s) ->
    forall j p q x, In (p, q) qobjs ->
      vstep x (daq_grown e (q_dims qobjs) d j q x) p
            [direct_chunk e (map qdobj qobjs) (q_dims qobjs) d j] (qi_n q).
Proof. exact SpecDaqmxData.daq_grown_vstep. Qed.

Theorem daq_grown_is_add_daq : forall e dims d j c o p,
    alookup p (add_daq e dims d j c o) =
    if bytes_eqb p (fst o) then option_map (daq_grown e dims d j (snd o)) (alookup p c) else alookup p c.
Proof. exact SpecDaqmxData.add_daq_lookup. Qed.

(* one accepted metadata block *)
Theorem spec_segment_simulation_dq : forall first st ps prev om s st1 nch,
    GInv first st ps prev om -> seg_ok_dq s = true -> wf_fseg s = true ->
    apply_metadata_dq first st s = SOk st1 ->
    exists props po om1,
      read_segment_objects (fs_toc s) (fs_meta s) prev ps = Ok (gobjs_of (dactive st1) (dlast st1), props) /\
      update_object_metadata (gobjs_of (dactive st1) (dlast st1)) nch None prev om = Ok (po, om1) /\
      GInv false st1 (Some (gobjs_of (dactive st1) (dlast st1))) po (update_object_properties props om1).
Proof. exact SpecDaqmxMeta.gsim_segment. Qed.

Theorem spec_invariant_initial_dq : GInv true dstate0 None [] [].
Proof. exact SpecDaqmxMeta.GInv_init. Qed.

Theorem gobjs_of_unfold : forall act lst,
    gobjs_of act lst =
    map (fun pa => match alookup (fst pa) lst with
                   | Some (GP i) => mkSobj (fst pa) (match snd pa with Some _ => true | None => false end)
                                           (ri_n i) (ri_bytes i) (Some (ri_dt i)) None
                   | Some (GQ q) => mkSobj (fst pa) (match snd pa with Some _ => true | None => false end)
                                           (qi_n q) 0 (Some (qi_dt q))
                                           (Some (mkDq (qi_kind q) (qi_scalers q) (qi_widths q)))
                   | None => mkSobj (fst pa) (match snd pa with Some _ => true | None => false end) 0 0 None None
                   end) act.
Proof.
  intros act lst. unfold gobjs_of. apply map_ext. intros [p a]. cbn [fst snd].
  destruct (alookup p lst) as [[i|q]|]; destruct a; reflexivity.
Qed.

(* whole file: metadata pass and raw data *)
Theorem spec_state_simulation_dq : forall segs stF,
    wf_file segs -> spec_ok_dq segs ->
    spec_segments_dq true dstate0 segs = SOk stF ->
    exists rstF chunkss,
      sm_run segs false = Ok rstF /\
      segs_content_z (rs_segments rstF) segs chunkss /\
      Forall seg_plain (rs_segments rstF) /\
      Forall2 gom_rel0 (rs_om rstF) (dobjs stF) /\
      NoDup (map fst (dobjs stF)) /\
      (forall p o, alookup p (dobjs stF) = Some o ->
                   d_vals o = chan_values p (concat chunkss) /\
                   (forall id, zget id (d_svals o) = chan_scaler_values p id (concat chunkss)) /\
                   d_len o = zsum (map (seg_total p) (rs_segments rstF))) /\
      (forall p, gcdt (dobjs stF) p = None \/
                 gcdt (dobjs stF) p = Some (option_map gi_dt (alookup p (dlast stF)))).
Proof. exact SpecDaqmxRefine.spec_state_simulation_dq. Qed.

Theorem gom_rel0_unfold : forall pm po,
    gom_rel0 pm po <->
    fst pm = fst po /\ om_props (snd pm) = d_props (snd po) /\ om_dtype (snd pm) = d_dtype (snd po) /\
    om_scalers (snd pm) = d_types (snd po).
Proof. intros. reflexivity. Qed.

(* hierarchy: per-object metadata matching the content (gom_rel: also the length) gives
   exactly the specification's token layout *)
Theorem hierarchy_refines_dq : forall (om : alist ometa) (c : dict dcobj),
    Forall2 gom_rel om c ->
    NoDup (map fst c) ->
    Forall (fun po => canonical_path (fst po) = true) c ->
    exists h,
      build_hierarchy om = Ok h /\
      (forall (f : channel -> list tok),
          (forall g name p o, In (p, o) c -> parse_path p = Some [g; name] ->
                              f (chan_of_dcobj g name p o) = values_tokens_dq o) ->
          obs_hierarchy h f = hierarchy_tokens_dq c) /\
      (forall ch, In ch (all_channels h) ->
                  exists g name p o, In (p, o) c /\ parse_path p = Some [g; name] /\
                                     ch = chan_of_dcobj g name p o).
Proof. exact SpecDaqmxHier.hierarchy_refines_dq. Qed.

(* C11_read.read_correct_daqmx with ordinary segments of chunk size 0 allowed *)
Theorem read_correct_daqmx_z : forall segs st h chunkss,
    wf_file segs ->
    sm_run segs false = Ok st ->
    build_hierarchy (rs_om st) = Ok h ->
    segs_content_z (rs_segments st) segs chunkss ->
    om_paths_canonical (rs_om st) ->
    typed_objects_are_channels (rs_om st) ->
    rd_all (ser_file segs) = Ok (expected_tokens_dq st h (concat chunkss), true).
Proof. exact ReadCorrectDaqmxZ.read_correct_daqmx_z. Qed.

Theorem segs_content_is_z : forall gs segs chunkss,
    segs_content gs segs chunkss -> segs_content_z gs segs chunkss.
Proof. exact ReadCorrectDaqmxZ.segs_content_z_of. Qed.

(* ---- the hypotheses are satisfiable; the specification computes ----------------------------- *)

(* dx_file (C11_read): two DAQmx segments -- the second without metadata -- and an ordinary one *)
Example spec_dx_meaning : spec_meaning_dq dx_file = SOk (dq_content dx_file).
Proof. exact dx_meaning. Qed.
Example spec_dx_hyps : wf_file dx_file /\ spec_ok_dq dx_file.
Proof. exact dx_spec_hyps. Qed.
Example spec_dx_read : rd_all (ser_file dx_file) = Ok (spec_tokens_dq (dq_content dx_file), true).
Proof. exact dx_spec_read. Qed.

Section Explicit.
Import String.
Local Open Scope string_scope.

(* the content: per object data type, scale id -> type map, len, per-scale-id data, data *)
Example spec_dx_content :
  map (fun po => (fst po, d_dtype (snd po), d_types (snd po), d_len (snd po), d_svals (snd po), d_vals (snd po)))
      (dc_objs (dq_content dx_file)) =
  [ (dx_p0, Some T_DAQMX, Some [(0, 2); (5, 5)], 6,
     [(0, [hex "0201"; hex "1211"; hex "2221"; hex "3231"; hex "4241"; hex "5251"]);
      (5, [hex "04"; hex "14"; hex "24"; hex "34"; hex "44"; hex "54"])], []);
    (dx_p1, Some T_DAQMX, Some [(0, 5)], 9,
     [(0, [hex "00"; hex "01"; hex "00"; hex "01"; hex "01"; hex "00"; hex "01"; hex "00"; hex "01"])], []);
    (dx_p2, Some 3, Some [(0, 3)], 6, [],
     [hex "04030201"; hex "14131211"; hex "24232221"; hex "34333231"; hex "44434241"; hex "54535251"]);
    (dx_px, Some 3, None, 2, [], [hex "07000000"; hex "08000000"]) ].
Proof. exact dx_content_explicit. Qed.

(* buffer dimensions, chunk size, base of buffer 1, and addressed values of chunk 1 of the
   first segment, from the specification's definitions alone *)
Example spec_dx_layout :
  q_dims dx_qobjs = [(2, 4); (3, 3)] /\ q_chunk (q_dims dx_qobjs) = 17 /\
  q_base (q_dims dx_qobjs) 1 = 8 /\ q_layout_ok dx_qobjs = true /\
  q_nchunks 17 34 = SOk 2%nat /\
  q_scaler_values BE DIGITAL_LINE_SCALER (q_dims dx_qobjs) (dx_data 0) 1 (mkScaler 0 1 10 0 0)
  = [hex "01"; hex "01"; hex "00"] /\
  q_scaler_values BE FORMAT_CHANGING_SCALER (q_dims dx_qobjs) (dx_data 0) 1 (mkScaler 3 0 0 0 0)
  = [hex "2221"; hex "3231"].
Proof. exact dx_spec_layout. Qed.

(* the specification's tokens are the observation npTDMS gives for the bytes of dx_file
   (C11_read.c11_read_example_tokens; script in its header) *)
Example spec_dx_tokens :
  spec_tokens_dq (dq_content dx_file) =
  [TZ 4713; TZ 0; TZ 2; TB (hex "6471"); TZ 0; TZ 3;
   TB (hex "6330"); TB (hex "6471"); TB dx_p0; TZ 4294967295; TZ 6; TZ 0;
   TZ 1; TZ 2; TZ 0; TZ 6; TB (hex "0201"); TB (hex "1211"); TB (hex "2221"); TB (hex "3231");
   TB (hex "4241"); TB (hex "5251");
   TZ 5; TZ 6; TB (hex "04"); TB (hex "14"); TB (hex "24"); TB (hex "34"); TB (hex "44"); TB (hex "54");
   TB (hex "6331"); TB (hex "6471"); TB dx_p1; TZ 4294967295; TZ 9; TZ 0;
   TZ 1; TZ 1; TZ 0; TZ 9; TB (hex "00"); TB (hex "01"); TB (hex "00"); TB (hex "01"); TB (hex "01");
   TB (hex "00"); TB (hex "01"); TB (hex "00"); TB (hex "01");
   TB (hex "6332"); TB (hex "6471"); TB dx_p2; TZ 3; TZ 6; TZ 0;
   TZ 0; TZ 6; TB (hex "04030201"); TB (hex "14131211"); TB (hex "24232221"); TB (hex "34333231");
   TB (hex "44434241"); TB (hex "54535251");
   TB (hex "67"); TZ 0; TZ 1;
   TB (hex "78"); TB (hex "67"); TB dx_px; TZ 3; TZ 2; TZ 0;
   TZ 0; TZ 2; TB (hex "07000000"); TB (hex "08000000");
   TZ 0; TZ 0].
Proof. exact dx_spec_tokens. Qed.

(* files the specification rejects, and the reader model's verdict on their bytes:
   differing width lists; ordinary and DAQmx data in one segment; another scale id *)
Example spec_dq_rejected :
  (spec_meaning_dq dq_bad_widths = SErr BadLayout /\ rd_all (ser_file dq_bad_widths) = Err EValue) /\
  (spec_meaning_dq dq_mixed = SErr BadLayout /\ rd_all (ser_file dq_mixed) = Err EOther) /\
  (spec_meaning_dq dq_scaler_change = SErr TypeChange /\ rd_all (ser_file dq_scaler_change) = Err EValue).
Proof. exact dq_rejected. Qed.
End Explicit.

(* dm_file (C11_cut): a channel with one scaler in each of two raw buffers *)
Example spec_dm_meaning : spec_meaning_dq dm_file = SOk (dq_content dm_file).
Proof. exact dm_meaning. Qed.
Example spec_dm_hyps : wf_file dm_file /\ spec_ok_dq dm_file.
Proof. exact dm_spec_hyps. Qed.
Example spec_dm_read : rd_all (ser_file dm_file) = Ok (spec_tokens_dq (dq_content dm_file), true).
Proof. exact dm_spec_read. Qed.

(* dz_file: a DAQmx segment, then an ordinary segment whose channel declares ZERO values *)
Example spec_dz_meaning : spec_meaning_dq dz_file = SOk (dq_content dz_file).
Proof. exact dz_meaning. Qed.
Example spec_dz_hyps : wf_file dz_file /\ spec_ok_dq dz_file.
Proof. exact dz_spec_hyps. Qed.
Example spec_dz_read : rd_all (ser_file dz_file) = Ok (spec_tokens_dq (dq_content dz_file), true).
Proof. exact dz_spec_read. Qed.

(* rc_file (C01_read): no DAQmx index -- Model/Spec.v's meaning, embedded *)
Example spec_rc_conservative :
  no_daqmx_index rc_file = true /\
  spec_meaning_dq rc_file = SOk (embed rc_content) /\
  spec_tokens_dq (embed rc_content) = spec_tokens rc_content.
Proof. exact rc_conservative. Qed.

Print Assumptions reader_refines_spec_dq.
Print Assumptions spec_meaning_dq_conservative.
Print Assumptions spec_tokens_dq_conservative.
Print Assumptions spec_ok_dq_conservative.
Print Assumptions reader_refines_spec_from_dq.
Print Assumptions qdobj_unfold.
Print Assumptions spec_dims_are_model_dims.
Print Assumptions spec_values_are_direct_values.
Print Assumptions spec_bit_is_digital_bit.
Print Assumptions spec_type_map_is_model's.
Print Assumptions spec_index_is_model_object.
Print Assumptions gidx_ok_unfold.
Print Assumptions spec_layout_is_readable.
Print Assumptions vstep_unfold.
Print Assumptions spec_daqmx_values.
Print Assumptions daq_grown_is_add_daq.
Print Assumptions spec_segment_simulation_dq.
Print Assumptions spec_invariant_initial_dq.
Print Assumptions gobjs_of_unfold.
Print Assumptions spec_state_simulation_dq.
Print Assumptions gom_rel0_unfold.
Print Assumptions hierarchy_refines_dq.
Print Assumptions read_correct_daqmx_z.
Print Assumptions segs_content_is_z.
Print Assumptions spec_dx_meaning.
Print Assumptions spec_dx_hyps.
Print Assumptions spec_dx_read.
Print Assumptions spec_dx_content.
Print Assumptions spec_dx_layout.
Print Assumptions spec_dx_tokens.
Print Assumptions spec_dq_rejected.
Print Assumptions spec_dm_meaning.
Print Assumptions spec_dm_hyps.
Print Assumptions spec_dm_read.
Print Assumptions spec_dz_meaning.
Print Assumptions spec_dz_hyps.
Print Assumptions spec_dz_read.
Print Assumptions spec_rc_conservative.
