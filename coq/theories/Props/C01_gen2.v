(* C01 (companion) — the checks and the size arithmetic of TdmsSegmentObject.read_raw_data_index,
   TRANSLATED from nptdms/tdms_segment.py on every run (harness/gen/gen_pyfuncs_index.py ->
   Gen/PyFuncsIndex.v), equal what the hand-written model does with a parsed full index
   (Model/SegState.v new_object).  Statements only; proofs: Proofs/GenIndexEquiv.v.

   Translated: the statements after `(data_type, dimension, number_values) = _struct_unpack(..)`:
   the type lookup (KeyError), "size is None and not String" (ValueError), "dimension != 1"
   (ValueError), data_size = the stored 8-byte total for strings, number_values * size otherwise.
   The values read from the file are parameters (next_u64 = what types.Uint64.read returns); the
   type table is REFLECTED from nptdms.types.  The byte-level reading is Model/Tokens.v parse_idx;
   [read_raw_data_index_parsed_translated] joins the two.  The translated function is compared
   with the real method on real bytes (both byte orders) each time the generated file is built. *)
From Coq Require Import List ZArith.
Import ListNotations.
From NpTdms Require Import Base.Bytes Base.Res Model.Tokens Model.SegState Gen.PyFuncsIndex Proofs.GenIndexEquiv.
Local Open Scope Z_scope.

(* reflected tables *)
Theorem index_tables_translated : forall ty,
    idx_tds_lookup ty = match tds_size ty with Some _ => Some ty | None => None end /\
    idx_cls_size ty = match tds_size ty with Some (Some k) => Some k | _ => None end.
Proof. exact idx_tables_eq. Qed.

(* on the fields: (number_values, data_type, data_size) or the exception, exactly the model's *)
Theorem read_raw_data_index_translated : forall path hdr dt dim n next_u64,
    read_raw_data_index_gen dt dim n next_u64 = view_obj (new_object path (full_idx hdr dt dim n next_u64)).
Proof. exact read_raw_data_index_eq. Qed.

(* on what the byte-level parser returns for a full index: the total-size field is present
   exactly for strings and is the value the translated function takes as data_size *)
Theorem read_raw_data_index_parsed_translated : forall e bs path hdr dt dim n total rest,
    parse_idx e bs = Ok (IFull hdr dt dim n total, rest) ->
    exists next_u64,
      view_obj (new_object path (IFull hdr dt dim n total)) = read_raw_data_index_gen dt dim n next_u64 /\
      total = (if dt =? T_STRING then Some next_u64 else None).
Proof. exact read_raw_data_index_parsed. Qed.

(* int32 x 1000 -> 4000 bytes; a string index keeps the stored total; dimension 2, an unknown
   type and Void are refused with the exceptions of the code *)
Example c01_gen2_example :
  read_raw_data_index_gen 3 1 1000 0 = Ok (1000, 3, 4000) /\
  read_raw_data_index_gen T_STRING 1 3 16 = Ok (3, T_STRING, 16) /\
  read_raw_data_index_gen 3 2 1000 0 = Err EValue /\
  read_raw_data_index_gen 12 1 1000 0 = Err EKey /\
  read_raw_data_index_gen 0 1 1000 0 = Err EValue /\
  digital_byte_offset_gen 21 = Ok 2 /\
  digital_postprocess_gen 1 false 21 0x20 = Ok 1 /\ digital_postprocess_gen 1 false 21 0xDF = Ok 0.
Proof. exact ex_index_values. Qed.

Print Assumptions index_tables_translated.
Print Assumptions read_raw_data_index_translated.
Print Assumptions read_raw_data_index_parsed_translated.
Print Assumptions c01_gen2_example.
