(* C01 (end to end) — reading the BYTES of a serialised file returns exactly the
   values its raw data blocks encode, concatenated in file order, per channel.

   Statement ([read_correct], [read_correct_tokens]).  Let [segs : list fseg] be
   a file SYNTAX (Model/FileSyn.v: per segment a ToC mask, a version, an
   optional metadata block as a list of entries, a raw data block as bytes),
   [ser_file segs] its bytes, and [chunkss : list (list chunk)] chunk values,
   one list per segment.  If
     wf_file segs                      field widths, declared lengths, metadata flag
                                       (FileSynProofs.wf_file, spelled out in C01_file.v)
     sm_run segs false = Ok st         the metadata pass accepts the syntax
     build_hierarchy (rs_om st) = Ok h the object paths parse
     segs_encode (rs_segments st) segs chunkss
                                       every segment's raw data block IS the
                                       encoding (LayoutProofs.enc_chunks, contiguous;
                                       enc_rows, interleaved; or empty with no data
                                       object) of its chunks, for the object list the
                                       metadata pass computed for that segment
     om_paths_canonical (rs_om st)     every object path that names a channel is in
                                       canonical form (from_string then str() is the
                                       identity on it)
     typed_objects_are_channels (rs_om st)
                                       every object that ever got a data type is a
                                       channel (its path has a group and a channel
                                       component)
   then
     rd_all (ser_file segs) = Ok (expected_tokens st h (concat chunkss), true)
   where [rd_all] is the byte-level reader model (Model/Reader.v; what the
   correspondence check compares with TdmsFile.read on every run) and
   [expected_tokens] is the observation
     version of the first segment
       :: obs_hierarchy h (channel c |-> its metadata tokens ++ data tokens)
       ++ obs_status st
   in which the data of a typed channel c is
     CData (chan_values (ch_path c) (concat chunkss))
   = the concatenation, over every chunk of every segment IN FILE ORDER, of the
   values that chunk holds under c's path ([chunk_values_lookup]: a dictionary
   lookup in the chunk); an untyped channel has no data.  The [true] says every
   receiver got exactly len(channel) values.  The last two hypotheses are
   necessary, not technical: the reader keys receivers by the canonical channel
   path and chunks by the raw object path, so data under a non-canonical or
   non-channel path raises KeyError in _read_data.

   Glossary (definitions in Proofs/ReadCorrect.v):
     seg_at pos s g      segment record g is syntax segment s at byte offset pos:
                         sg_pos = pos, sg_data = pos+28+|metadata|, sg_next =
                         sg_data+|raw data|, not incomplete, ToC as written, and
                         (sg_nchunks, sg_final) = calculate_chunks on |raw data|
     segs_at pos segs gs the same for consecutive segments starting at pos
     seg_total p g       values the metadata pass credits to path p for segment g
     om_typed p om       om binds p to an entry whose data type is set
     seg_encodes g d cs  raw data block d encodes chunks cs for segment g
                         (3 cases: no data objects and d empty; contiguous layout,
                         d = enc_chunks of value lists satisfying vals_ok/dsize_ok,
                         cs = map chunk_of; interleaved layout, d = enc_rows of
                         rows satisfying row_ok, cs = [cols_of rows])
     segs_encode gs segs chunkss   seg_encodes, segment by segment
     chunk_values p c    values chunk c holds under path p;  chan_values p cs
                         their concatenation over the chunk list cs
     radd vs r           receiver r with vs appended (identity on non-data receivers)
     expected_data cs c  None for an untyped channel, else CData (chan_values ...)
     data_paths_are_channels h cs  every key of every chunk is the path of a typed
                         channel of h;  no_daqmx_channels h;  channel_paths_distinct h;
                         lengths_consistent h cs : ch_len = number of values in cs

   Proved from the model (so NOT hypotheses of read_correct), each also stated
   below on its own:
     - segment positions and chunk counts (R1);
     - the tag check and cursor position of every segment read (R2);
     - len(channel) = number of encoded values (lengths_consistent_ser, from
       om_len_counts_values);
     - distinct channels have distinct paths (channel_paths_distinct_ser);
     - every path with data is a typed channel of the hierarchy
       (data_paths_are_channels_ser, via build_hierarchy_complete);
     - no channel has the DAQmx type (no_daqmx_channels_ser: a DAQmx-typed
       object is a DAQmx object, a DAQmx object has raw data in the segment
       that defines it, and no encoded segment has DAQmx data objects).
   read_correct_given_lengths / _given_channels / _given_no_daqmx are the
   intermediate forms with these still as hypotheses.

   NOT covered (stated, not hidden):
     - DAQmx segments (seg_encodes has no DAQmx case);
     - truncated / incomplete last segments (ser_file writes exact lengths, so
       calculate_chunks never produces a final-chunk override here);
     - contiguous segments whose chunk size is 0 although they have data
       objects (all channels of length 0): seg_encodes has no case for them;
     - that sm_run and build_hierarchy SUCCEED is a hypothesis (which syntaxes
       the state machine accepts and what object lists it computes is C02's
       subject); segs_encode is stated relative to the object lists in st;
     - the index-file entry point (rd_all_idx; see C09_file.v).
   Sound boolean checks for om_paths_canonical / typed_objects_are_channels
   (and for the intermediate hypotheses) are in Proofs/ReadCorrect.v (…_b,
   …_b_sound); the Example below discharges every hypothesis on a concrete
   two-segment file and evaluates both sides. *)
From Coq Require Import List ZArith.
Import ListNotations.
From NpTdms Require Import Base.Bytes Base.Res Model.Tokens Model.TokensWf Model.SegState
     Model.Layout Model.Reader Model.FileSyn Proofs.LayoutProofs Proofs.FileSynProofs
     Proofs.ReadCorrect.
Local Open Scope Z_scope.

(* ---- R1: what the metadata pass records for a serialised file ---------------- *)

Theorem sm_segment_positions : forall segs w st,
    sm_run segs w = Ok st -> segs_at 0 segs (rs_segments st).
Proof. exact ReadCorrect.sm_segment_positions. Qed.

(* by index: segment record i describes syntax segment i at its byte offset *)
Theorem sm_segment_positions_nth : forall segs w st i s,
    wf_file segs ->
    sm_run segs w = Ok st ->
    nth_error segs i = Some s ->
    exists g, nth_error (rs_segments st) i = Some g /\
              seg_at (blen (ser_file (firstn i segs))) s g.
Proof. exact ReadCorrect.sm_segment_positions_nth. Qed.

(* positions and chunk counts; per-path value count; distinct metadata keys;
   typed segment objects are typed in the metadata; the version is the first
   segment's *)
Theorem sm_run_trace : forall segs w st,
    sm_run segs w = Ok st ->
    segs_at 0 segs (rs_segments st) /\
    (forall p, om_len (get_ometa p (rs_om st)) = zsum (map (seg_total p) (rs_segments st))) /\
    NoDup (map fst (rs_om st)) /\
    (forall g o, In g (rs_segments st) -> In o (sg_objs g) -> so_dtype o <> None ->
                 om_typed (so_path o) (rs_om st)) /\
    rs_version st = option_map fs_version (hd_error segs).
Proof. exact ReadCorrect.sm_run_trace. Qed.

(* ---- R2: reading one segment of the serialised file -------------------------- *)

Theorem read_segment_ser : forall pre s rest g,
    wf_fseg s = true ->
    seg_at (blen pre) s g ->
    read_segment (pre ++ ser_seg TAG_DATA true s ++ rest) g =
    (do '(cs, _) <- read_segment_chunks g (fs_data s ++ rest); Ok cs).
Proof. exact ReadCorrect.read_segment_ser. Qed.

(* ---- R3: an encoded raw data block decodes to its chunks --------------------- *)

Theorem seg_encodes_read : forall g data chunks rest,
    seg_encodes g data chunks ->
    calculate_chunks (sg_toc g) (sg_incomplete g) (sg_objs g) (blen data)
    = Ok (sg_nchunks g, sg_final g) ->
    read_segment_chunks g (data ++ rest) = Ok (chunks, rest).
Proof. exact ReadCorrect.seg_encodes_read. Qed.

Theorem read_segment_encoded : forall pre s rest g chunks,
    wf_fseg s = true ->
    seg_at (blen pre) s g ->
    seg_encodes g (fs_data s) chunks ->
    read_segment (pre ++ ser_seg TAG_DATA true s ++ rest) g = Ok chunks.
Proof. exact ReadCorrect.read_segment_encoded. Qed.

(* the chunks an encoded segment yields are dictionaries (distinct keys), so
   [chunk_values] is a lookup *)
Theorem seg_encodes_nodup_keys : forall g data chunks,
    seg_encodes g data chunks -> Forall (fun c : chunk => NoDup (map fst c)) chunks.
Proof. exact ReadCorrect.seg_encodes_nodup_keys. Qed.

Theorem chunk_values_lookup : forall p (c : chunk),
    NoDup (map fst c) ->
    chunk_values p c = match alookup p c with Some (CData vs) => vs | _ => [] end.
Proof. exact ReadCorrect.chunk_values_lookup. Qed.

(* ---- R4: receivers concatenate ------------------------------------------------ *)

Theorem receive_chunks_concat : forall (chunks : list chunk) recv,
    Forall only_cdata chunks ->
    (forall c kv, In c chunks -> In kv c -> is_data_receiver (alookup (fst kv) recv)) ->
    exists recv', fold_left rcs_step chunks (Ok recv) = Ok recv' /\
                  forall p, alookup p recv' = option_map (radd (chan_values p chunks)) (alookup p recv).
Proof. exact ReadCorrect.receive_chunks_concat. Qed.

(* ---- R5: the eager data pass --------------------------------------------------- *)

Theorem rd_eager_ser : forall segs st h chunkss,
    wf_file segs ->
    sm_run segs false = Ok st ->
    segs_encode (rs_segments st) segs chunkss ->
    data_paths_are_channels h (concat chunkss) ->
    no_daqmx_channels h ->
    channel_paths_distinct h ->
    exists recv, rd_eager st h (ser_file segs) = Ok recv /\
                 forall c, In c (all_channels h) ->
                           alookup (ch_path c) recv = Some (expected_data (concat chunkss) c).
Proof. exact ReadCorrect.rd_eager_ser. Qed.

(* ---- facts about the hierarchy and the metadata, proved from the model ------- *)

Theorem om_len_counts_values : forall segs w st chunkss p,
    sm_run segs w = Ok st ->
    segs_encode (rs_segments st) segs chunkss ->
    om_len (get_ometa p (rs_om st)) = Z.of_nat (length (chan_values p (concat chunkss))).
Proof. exact ReadCorrect.om_len_counts_values. Qed.

Theorem lengths_consistent_ser : forall segs w st h chunkss,
    sm_run segs w = Ok st ->
    build_hierarchy (rs_om st) = Ok h ->
    segs_encode (rs_segments st) segs chunkss ->
    om_paths_canonical (rs_om st) ->
    lengths_consistent h (concat chunkss).
Proof. exact ReadCorrect.lengths_consistent_ser. Qed.

Theorem channel_paths_distinct_ser : forall om h,
    build_hierarchy om = Ok h -> om_paths_canonical om -> channel_paths_distinct h.
Proof. exact ReadCorrect.channel_paths_distinct_ser. Qed.

(* every channel of the hierarchy is made from a metadata entry ... *)
Theorem build_hierarchy_channels : forall om h,
    build_hierarchy om = Ok h -> forall ch, In ch (all_channels h) -> chan_from_om om ch.
Proof. exact ReadCorrect.build_hierarchy_channels. Qed.

(* ... and every metadata entry whose path names a channel is a channel *)
Theorem build_hierarchy_complete : forall om h p m g c,
    build_hierarchy om = Ok h ->
    NoDup (map fst om) ->
    om_paths_canonical om ->
    In (p, m) om ->
    path_from_string p = inr (Some g, Some c) ->
    In (chan_of_om g c m) (all_channels h).
Proof. exact ReadCorrect.build_hierarchy_complete. Qed.

Theorem data_paths_are_channels_ser : forall segs w st h chunkss,
    sm_run segs w = Ok st ->
    build_hierarchy (rs_om st) = Ok h ->
    segs_encode (rs_segments st) segs chunkss ->
    om_paths_canonical (rs_om st) ->
    typed_objects_are_channels (rs_om st) ->
    data_paths_are_channels h (concat chunkss).
Proof. exact ReadCorrect.data_paths_are_channels_ser. Qed.

Theorem no_daqmx_channels_ser : forall segs w st h chunkss,
    sm_run segs w = Ok st ->
    build_hierarchy (rs_om st) = Ok h ->
    segs_encode (rs_segments st) segs chunkss ->
    no_daqmx_channels h.
Proof. exact ReadCorrect.no_daqmx_channels_ser. Qed.

(* ---- R6: the whole read ------------------------------------------------------- *)

Theorem read_correct_given_lengths : forall segs st h chunkss,
    wf_file segs ->
    sm_run segs false = Ok st ->
    build_hierarchy (rs_om st) = Ok h ->
    segs_encode (rs_segments st) segs chunkss ->
    data_paths_are_channels h (concat chunkss) ->
    no_daqmx_channels h ->
    channel_paths_distinct h ->
    lengths_consistent h (concat chunkss) ->
    rd_all (ser_file segs) = Ok (expected_tokens st h (concat chunkss), true).
Proof. exact ReadCorrect.read_correct_given_lengths. Qed.

Theorem read_correct_given_channels : forall segs st h chunkss,
    wf_file segs ->
    sm_run segs false = Ok st ->
    build_hierarchy (rs_om st) = Ok h ->
    segs_encode (rs_segments st) segs chunkss ->
    data_paths_are_channels h (concat chunkss) ->
    no_daqmx_channels h ->
    om_paths_canonical (rs_om st) ->
    rd_all (ser_file segs) = Ok (expected_tokens st h (concat chunkss), true).
Proof. exact ReadCorrect.read_correct_given_channels. Qed.

Theorem read_correct : forall segs st h chunkss,
    wf_file segs ->
    sm_run segs false = Ok st ->
    build_hierarchy (rs_om st) = Ok h ->
    segs_encode (rs_segments st) segs chunkss ->
    om_paths_canonical (rs_om st) ->
    typed_objects_are_channels (rs_om st) ->
    rd_all (ser_file segs) = Ok (expected_tokens st h (concat chunkss), true).
Proof. exact ReadCorrect.read_correct. Qed.

(* the same with the observation spelled out *)
Theorem read_correct_tokens : forall segs st h chunkss,
    wf_file segs ->
    sm_run segs false = Ok st ->
    build_hierarchy (rs_om st) = Ok h ->
    segs_encode (rs_segments st) segs chunkss ->
    om_paths_canonical (rs_om st) ->
    typed_objects_are_channels (rs_om st) ->
    rd_all (ser_file segs) =
    Ok (TZ (match segs with s :: _ => fs_version s | [] => 0 end) ::
        obs_hierarchy h (fun c => obs_cdata
                                    (match ch_dtype c with
                                     | None => None
                                     | Some _ => Some (CData (chan_values (ch_path c) (concat chunkss)))
                                     end))
        ++ obs_status st, true).
Proof. exact ReadCorrect.read_correct_tokens. Qed.

(* ---- the hypotheses are satisfiable, and the conclusion computes ------------- *)

(* rc_file: two segments, group "g" with a string property, channel "a" (int32,
   2 values per chunk, one property) and channel "b" (string, 2 values per
   chunk); segment 1 has a metadata block and TWO chunks, segment 2 has NO
   metadata block and one chunk.  rc_chunks are the chunk values. *)
Example c01_read_wf : wf_file rc_file.
Proof. exact rc_wf. Qed.
Example c01_read_run : sm_run rc_file false = Ok rc_st.
Proof. exact rc_run. Qed.
Example c01_read_hier : build_hierarchy (rs_om rc_st) = Ok rc_h.
Proof. exact rc_hier. Qed.
Example c01_read_encodes : segs_encode (rs_segments rc_st) rc_file rc_chunks.
Proof. exact rc_encodes. Qed.
Example c01_read_canonical : om_paths_canonical (rs_om rc_st).
Proof. exact rc_canonical. Qed.
Example c01_read_typed_channels : typed_objects_are_channels (rs_om rc_st).
Proof. exact rc_typed_channels. Qed.

Example c01_read_example :
  rd_all (ser_file rc_file) = Ok (expected_tokens rc_st rc_h (concat rc_chunks), true).
Proof. exact rc_read_correct. Qed.

(* both sides evaluated: the explicit observation (values 1..6 of "a" and the six
   strings of "b" in file order) *)
Section Tokens.
Import String.
Local Open Scope string_scope.
Example c01_read_example_tokens :
  rd_all (ser_file rc_file) =
  Ok ([TZ 4713; TZ 0; TZ 1; TB (hex "67"); TZ 1; TB (hex "6e"); TZ 3; TB (hex "6869"); TZ 2;
       TB (hex "61"); TB (hex "67"); TB rc_path_a; TZ 3; TZ 6; TZ 1; TB (hex "70"); TZ 0; TZ 7;
       TZ 0; TZ 6; TB (hex "01000000"); TB (hex "02000000"); TB (hex "03000000");
       TB (hex "04000000"); TB (hex "05000000"); TB (hex "06000000");
       TB (hex "62"); TB (hex "67"); TB rc_path_b; TZ 32; TZ 6; TZ 0;
       TZ 0; TZ 6; TB (hex "6162"); TB (hex "63"); TB []; TB (hex "78797a"); TB (hex "71");
       TB (hex "7273");
       TZ 0; TZ 0], true) /\
  rd_all (ser_file rc_file) = Ok (expected_tokens rc_st rc_h (List.concat rc_chunks), true).
Proof. exact rc_read_tokens. Qed.
End Tokens.

(* rc2_file: an INTERLEAVED segment (int16 channel "a" and bool channel "b", 3
   rows) followed by a metadata-only segment that starts a new object list with
   just the group object (no data objects, empty raw data block): the other two
   cases of seg_encodes *)
Example c01_read_example2 :
  wf_file rc2_file /\
  sm_run rc2_file false = Ok rc2_st /\
  build_hierarchy (rs_om rc2_st) = Ok rc2_h /\
  segs_encode (rs_segments rc2_st) rc2_file rc2_chunks /\
  om_paths_canonical (rs_om rc2_st) /\
  typed_objects_are_channels (rs_om rc2_st) /\
  rd_all (ser_file rc2_file) = Ok (expected_tokens rc2_st rc2_h (concat rc2_chunks), true).
Proof.
  exact (conj rc2_wf (conj rc2_run (conj rc2_hier (conj rc2_encodes
        (conj rc2_canonical (conj rc2_typed_channels rc2_read_correct)))))).
Qed.

Section Tokens2.
Import String.
Local Open Scope string_scope.
Example c01_read_example2_tokens :
  rd_all (ser_file rc2_file) =
  Ok ([TZ 4713; TZ 0; TZ 1; TB (hex "67"); TZ 1; TB (hex "6e"); TZ 3; TB (hex "6869"); TZ 2;
       TB (hex "61"); TB (hex "67"); TB rc_path_a; TZ 2; TZ 3; TZ 0;
       TZ 0; TZ 3; TB (hex "0102"); TB (hex "0304"); TB (hex "0506");
       TB (hex "62"); TB (hex "67"); TB rc_path_b; TZ 33; TZ 3; TZ 0;
       TZ 0; TZ 3; TB (hex "01"); TB (hex "00"); TB (hex "01");
       TZ 0; TZ 0], true).
Proof. exact rc2_read_tokens. Qed.
End Tokens2.

Print Assumptions sm_segment_positions.
Print Assumptions sm_segment_positions_nth.
Print Assumptions sm_run_trace.
Print Assumptions read_segment_ser.
Print Assumptions seg_encodes_read.
Print Assumptions read_segment_encoded.
Print Assumptions seg_encodes_nodup_keys.
Print Assumptions chunk_values_lookup.
Print Assumptions receive_chunks_concat.
Print Assumptions rd_eager_ser.
Print Assumptions om_len_counts_values.
Print Assumptions lengths_consistent_ser.
Print Assumptions channel_paths_distinct_ser.
Print Assumptions build_hierarchy_channels.
Print Assumptions build_hierarchy_complete.
Print Assumptions data_paths_are_channels_ser.
Print Assumptions no_daqmx_channels_ser.
Print Assumptions read_correct_given_lengths.
Print Assumptions read_correct_given_channels.
Print Assumptions read_correct.
Print Assumptions read_correct_tokens.
Print Assumptions c01_read_example.
Print Assumptions c01_read_example_tokens.
Print Assumptions c01_read_example2.
Print Assumptions c01_read_example2_tokens.
