(* C19, on files -- Partial reads touch only the part of the file they need: the statements of
   Props/C19_bytes.v WITHOUT the invariant hypothesis, tied to the VALUES the reads return.
   Statements only; proofs in Proofs/LazyRangesInv.v (complete files) and Proofs/LazyRangesInvCut.v
   (files cut short), instances in Proofs/LazyRangesInvEx.v.

   Props/C19_bytes.v proves ranges_within_request, bytes_bounded_by_request,
   index_reads_within_chunk under the decidable invariant [ranges_inv] on the reader state, and
   for serialised files only its positional half (ranges_inv_serialised_partial).  Here:

   (1) THE INVARIANT BY PROOF.  [ranges_inv_serialised] / [ranges_inv_serialised_daqmx]: for the
       bytes [ser_file segs] of a well-formed syntax whose segments' raw data blocks encode chunk
       values (C01_read.read_correct's segs_encode) -- or are readable DAQmx segments
       (C11_read's segs_content / daqmx_seg_ok) -- the state TdmsFile.open builds (metadata pass
       WITH segment indexes) satisfies the FULL ranges_inv for EVERY path.  The object-level half
       comes from two sources: [object_shape]: what every object recorded for a well-formed
       syntax looks like (data_size = number_values * size for a sized type, a non-negative
       declared total for a string, 0 values and 0 bytes for an object that never had a type);
       and seg_encodes / daqmx_seg_ok: data objects are typed, interleaved objects have equal
       number_values, DAQmx buffers are consistent, no final-chunk override.
       NO distinct-paths hypothesis is needed for the invariant.
       ONE extra hypothesis IS needed, [empty_segments_typed]: in a segment WITHOUT raw data
       (zero chunks) every data object has a data type.  seg_encodes says nothing about the
       objects of such a segment (its contiguous case with an empty chunk list), and
       [ranges_inv_serialised_refuted] is a file satisfying every hypothesis of read_correct
       and the distinct-paths condition whose state FAILS ranges_inv: an object first listed
       without data is switched on by a "matches previous" index in a metadata-only segment.
       (ranges_inv is sufficient, not necessary: on that file the model lists, and nptdms
       issues -- dev/c19_inv_witness.py -- exactly the tag check and the channel's own bytes.)
       The hypothesis is decidable on the state ([empty_segments_typed_check]); under
       segs_content it is equivalent to "every data object of every segment has a data type"
       ([empty_segments_typed_iff_all_typed]), which segs_encode forces for every segment that
       has at least one chunk.

   (2) WHAT IS FETCHED AND WHAT IS RETURNED, one statement.  Hypotheses: those of
       C03_read.lazy_is_window_of_eager (read_correct's without typed_objects_are_channels,
       plus distinct paths per object list) plus empty_segments_typed.  For every channel c of
       the hierarchy, every offs >= 0, every len (None or >= 0):
       [fetch_and_values_file]   there is ONE plan (list of (segment, chunk) pairs), equal on
            the metadata view and on the view the values are decoded through
            (lz_plan unit views = lz_plan bytes svs = lz_plan_bytes), listing each chunk once and
            exactly the chunks whose value range meets the request; the reads
            lz_ranges_bytes lists are 4-byte tag checks of visited segments or lie inside the
            byte windows of the chunks of that plan (contiguous: the channel's own bytes in the
            chunk; interleaved: the chunk); their total is at most 4 per visited segment + the
            window lengths of the planned chunks; and the values lz_read_bytes returns --
            decoded through that plan -- are the window [offs, offs+len) of the eager data
            chan_values (ch_path c) (concat chunkss) of read_correct.
       [ranges_within_request_file], [bytes_bounded_by_request_file]: the two projections in
            the form of Props/C19_bytes.v, each with the values.
       [slice_fetch_and_values_file]  channel[start:stop:step]: the translated _read_slice
            yields ValueError (step 0), no read, or ONE read_data(a, b) with a, b >= 0 (to which
            the above applies); the values are Python's slice of the eager data.
       [index_reads_within_chunk_file]  channel[i] through the one-chunk cache, for any
            sequence of indexes: the run that lists the reads (cache cu) and the run that
            returns the values (cache cb) stay in step (same bounds, same chunk length); each
            step returns NumPy's indexing of the eager data (IndexError outside [-n, n) on both
            sides); a miss costs the tag check of one segment and bytes inside the window of
            the one chunk holding the index, at most 4 + its length; a hit costs nothing.
       [index_hit_reads_nothing_file]  indexing again into the chunk just read fetches
            nothing and returns the value.
       len(channel) ties the two views: total_values of the metadata view = ch_len c.

   (3) FILES CUT SHORT.  [ranges_inv_truncated]: under the same hypotheses plus distinct paths per
       object list (needed here: the final-chunk override is keyed by path), for EVERY cut
       0 <= k <= length the state TdmsFile.open builds from take k (ser_file segs) satisfies
       ranges_inv for every path -- so every theorem of Props/C19_bytes.v applies to the cut
       file.  The new ingredient is the arithmetic of _compute_final_chunk_lengths
       ([final_override_in_range]): every entry of the override is, for a data object of that
       path, between 0 and its number_values, and the override is empty as soon as a data
       object is a string.  [fetch_and_values_truncated] composes it with C06_lazy's
       truncation theorem: reads inside the windows of the planned chunks, values = the window
       of what TdmsFile.read of the cut file returns.

   NOT covered: the composed statements (2), (3) are for non-DAQmx files
   (lazy_is_window_of_eager's domain); the invariant (1) covers DAQmx segments of complete
   files; a cut inside a DAQmx segment is not covered (harness/c19.py evaluates ranges_inv on
   the cut DAQmx files it generates). *)
From Coq Require Import ZArith List Bool.
From Coq Require Import Init.Byte.
From NpTdms Require Import Base.Bytes Base.Res Base.PySlice Gen.PySlice_gen Model.Tokens Model.TokensWf
     Model.SegState Model.Layout Model.Reader Model.FileSyn Model.LazyRead Model.LazyBytes Model.LazyRanges
     Proofs.LayoutProofs Proofs.FileSynProofs Proofs.ReadCorrect Proofs.ReadCorrectDaqmx
     Proofs.LazyIndexProofs Proofs.LazyReadProofs Proofs.LazyWindowProofs Proofs.LazyTopProofs Proofs.SliceProofs
     Proofs.LazyEagerIndex Proofs.LazyEagerView Proofs.LazyEagerTop Proofs.LazyEagerExamples
     Proofs.LazyRangesSeg Proofs.LazyRangesTop Proofs.LazyRangesSer Proofs.LazyRangesLink
     Proofs.TruncValuesLayout Proofs.TruncValuesFile Proofs.LazyRangesInv Proofs.LazyRangesInvCut Proofs.LazyRangesInvEx.
Import ListNotations.
Open Scope Z_scope.

(* ---- (1) the invariant ------------------------------------------------------------------------ *)

(* what every object the metadata pass records for a well-formed syntax looks like *)
Theorem object_shape : forall segs w st g o,
    wf_file segs -> sm_run segs w = Ok st -> In g (rs_segments st) -> In o (sg_objs g) ->
    0 <= so_nvals o /\
    match so_daqmx o with
    | Some _ => True
    | None =>
      match so_dtype o with
      | None => so_nvals o = 0 /\ so_dsize o = 0
      | Some dt =>
        match tds_size dt with
        | Some (Some sz) => so_dsize o = so_nvals o * sz
        | Some None => dt = T_STRING /\ 0 <= so_dsize o
        | None => False
        end
      end
    end.
Proof.
  intros segs w st g o Hwf Hrun Hg Ho.
  pose proof (LazyRangesInv.sm_run_shape segs w st Hwf Hrun g Hg) as H.
  rewrite Forall_forall in H. exact (H o Ho).
Qed.

(* the extra hypothesis, spelled out *)
Theorem empty_segments_typed_spec : forall gs,
    empty_segments_typed gs <->
    forall g o, In g gs -> sg_nchunks g = 0 -> In o (sg_objs g) -> so_has_data o = true -> so_dtype o <> None.
Proof.
  intros gs. unfold empty_segments_typed, typed_data_objs. split.
  - intros H g o Hg Hn Ho Hd. specialize (H g Hg Hn). rewrite Forall_forall in H. apply H.
    unfold data_objs. apply filter_In. split; assumption.
  - intros H g Hg Hn. apply Forall_forall. intros o Ho. unfold data_objs in Ho. apply filter_In in Ho.
    exact (H g o Hg Hn (proj1 Ho) (proj2 Ho)).
Qed.

Theorem empty_segments_typed_check : forall gs,
    empty_segments_typed_b gs = true -> empty_segments_typed gs.
Proof. exact LazyRangesInv.empty_segments_typed_b_sound. Qed.

Theorem empty_segments_typed_iff_all_typed : forall segs w st chunkss,
    sm_run segs w = Ok st ->
    segs_content (rs_segments st) segs chunkss ->
    (empty_segments_typed (rs_segments st) <->
     forall g, In g (rs_segments st) -> Forall (fun o => so_dtype o <> None) (data_objs (sg_objs g))).
Proof. exact LazyRangesInv.data_objs_typed_content. Qed.

(* one segment: layout_inv and no final-chunk override from the encoding *)
Theorem layout_inv_of_encoding : forall g data cs,
    seg_encodes g data cs ->
    calculate_chunks (sg_toc g) (sg_incomplete g) (sg_objs g) (blen data) = Ok (sg_nchunks g, sg_final g) ->
    Forall obj_shape (sg_objs g) ->
    (sg_nchunks g = 0 -> Forall (fun o => so_dtype o <> None) (data_objs (sg_objs g))) ->
    layout_inv g = true /\ sg_final g = None.
Proof. exact LazyRangesInv.layout_inv_encoded. Qed.

Theorem layout_inv_of_daqmx : forall g data,
    daqmx_seg_ok g data ->
    calculate_chunks (sg_toc g) (sg_incomplete g) (sg_objs g) (blen data) = Ok (sg_nchunks g, sg_final g) ->
    layout_inv g = true /\ sg_final g = None.
Proof. exact LazyRangesInv.layout_inv_daqmx. Qed.

(* THE invariant on serialised files: read_correct's hypotheses wf_file / sm_run / segs_encode,
   plus empty_segments_typed; conclusion for the state of TdmsFile.open and every path *)
Theorem ranges_inv_serialised : forall segs st chunkss,
    wf_file segs ->
    sm_run segs false = Ok st ->
    segs_encode (rs_segments st) segs chunkss ->
    empty_segments_typed (rs_segments st) ->
    exists st', open_state (ser_file segs) = Ok st' /\
                rs_segments st' = map with_index (rs_segments st) /\
                rs_om st' = rs_om st /\
                forall path, ranges_inv st' (ser_file segs) path = true.
Proof. exact LazyRangesInv.ranges_inv_serialised. Qed.

(* the same with readable DAQmx segments allowed (C11_read.read_correct_daqmx's segs_content) *)
Theorem ranges_inv_serialised_daqmx : forall segs st chunkss,
    wf_file segs ->
    sm_run segs false = Ok st ->
    segs_content (rs_segments st) segs chunkss ->
    empty_segments_typed (rs_segments st) ->
    exists st', open_state (ser_file segs) = Ok st' /\
                rs_segments st' = map with_index (rs_segments st) /\
                rs_om st' = rs_om st /\
                forall path, ranges_inv st' (ser_file segs) path = true.
Proof. exact LazyRangesInv.ranges_inv_content. Qed.

(* for the state of either metadata pass (with or without indexes) *)
Theorem ranges_inv_serialised_state : forall segs w st chunkss,
    wf_file segs -> sm_run segs w = Ok st ->
    segs_content (rs_segments st) segs chunkss ->
    empty_segments_typed (rs_segments st) ->
    forall path, ranges_inv st (ser_file segs) path = true.
Proof. exact LazyRangesInv.ranges_inv_content_w. Qed.

(* WITHOUT empty_segments_typed the statement is false: nt_file satisfies every hypothesis of
   read_correct and the distinct-paths condition, read_correct applies to it, and the state of
   TdmsFile.open fails ranges_inv for its channel /'g'/'c' -- while the model lists (and nptdms
   issues, dev/c19_inv_witness.py) only the tag check and the channel's 8 bytes *)
Theorem ranges_inv_serialised_refuted :
    wf_file nt_file /\
    sm_run nt_file false = Ok nt_st /\
    build_hierarchy (rs_om nt_st) = Ok nt_h /\
    segs_encode (rs_segments nt_st) nt_file nt_chunks /\
    om_paths_canonical (rs_om nt_st) /\
    typed_objects_are_channels (rs_om nt_st) /\
    Forall (fun g => NoDup (map so_path (sg_objs g))) (rs_segments nt_st) /\
    rd_all (ser_file nt_file) = Ok (expected_tokens nt_st nt_h (concat nt_chunks), true) /\
    ~ empty_segments_typed (rs_segments nt_st) /\
    ser_file nt_file = nt_bytes /\
    match open_state (ser_file nt_file) with
    | Ok st' =>
      ranges_inv st' (ser_file nt_file) nt_path_c = false /\
      lz_ranges st' (ser_file nt_file) nt_path_c 0 None = Ok [(0, 4); (88, 8); (96, 0)] /\
      lz_ranges st' (ser_file nt_file) nt_path_c 1 (Some 5) = Ok [(0, 4); (88, 8); (96, 0)] /\
      lz_ranges st' (ser_file nt_file) nt_path_c 2 None = Ok []
    | Err _ => False
    end.
Proof.
  split; [exact nt_wf|]. split; [exact nt_run|]. split; [exact nt_hier|]. split; [exact nt_encodes|].
  split; [exact nt_canonical|]. split; [exact nt_typed_channels|]. split; [exact nt_distinct|].
  split; [exact nt_read_correct|]. split; [exact nt_not_typed|]. split; [exact nt_ser|]. exact nt_facts.
Qed.

(* ---- (2) what is fetched and what is returned ----------------------------------------------- *)

Theorem fetch_and_values_file : forall segs st h chunkss c offs len,
    wf_file segs ->
    sm_run segs false = Ok st ->
    build_hierarchy (rs_om st) = Ok h ->
    segs_encode (rs_segments st) segs chunkss ->
    om_paths_canonical (rs_om st) ->
    Forall (fun g => NoDup (map so_path (sg_objs g))) (rs_segments st) ->
    empty_segments_typed (rs_segments st) ->
    In c (all_channels h) -> 0 <= offs -> (match len with None => True | Some l => 0 <= l end) ->
    exists st' views svs plan rs s e,
      open_state (ser_file segs) = Ok st' /\
      meta_views st' (ch_path c) = Ok views /\ wf unit views = true /\
      total_values unit views = ch_len c /\
      channel_view (ser_file segs) (ch_path c) = Ok (svs, ch_dtype c) /\
      (* ONE plan: on the metadata, and on the view the values are decoded through *)
      lz_plan unit views offs len = Ok plan /\ lz_plan bytes svs offs len = Ok plan /\
      lz_plan_bytes (ser_file segs) (ch_path c) offs len = Ok plan /\ NoDup plan /\
      (forall j cc, In (j, cc) plan <->
         exists sv, 0 <= j /\ nth_error views (Z.to_nat j) = Some sv /\
                    sv_chunk sv <> 0 /\ 0 <= cc < sv_nchunks sv /\
                    chunk_start unit (pre unit views j) sv cc < win_end (ch_len c) offs len /\
                    offs < chunk_end unit (pre unit views j) sv cc) /\
      (* what is fetched *)
      lz_ranges st' (ser_file segs) (ch_path c) offs len = Ok rs /\
      lz_ranges_bytes (ser_file segs) (ch_path c) offs len
      = Ok (match ch_dtype c with Some _ => rs | None => [] end) /\
      (forall pos n, In (pos, n) rs ->
         (exists j g, seg_visited views offs len j /\
                      nth_error (rs_segments st') (Z.to_nat j) = Some g /\ pos = sg_pos g /\ n = 4) \/
         (0 <= n /\ forall b, pos <= b < pos + n ->
                      exists jc, In jc plan /\ in_chunk_window st' (ch_path c) jc b)) /\
      (forall j, s <= j <= e -> seg_visited views offs len j) /\
      total_bytes rs <= 4 * Z.max 0 (e - s + 1) + SegState.zsum (map (chunk_cost st' (ch_path c)) plan) /\
      (* what is returned *)
      lz_read_bytes (ser_file segs) (ch_path c) offs len =
      Ok (match len with
          | None => zskipn offs (chan_values (ch_path c) (concat chunkss))
          | Some l => zfirstn l (zskipn offs (chan_values (ch_path c) (concat chunkss)))
          end).
Proof.
  intros segs st h chunkss c offs len H1 H2 H3 H4 H5 H6 H7 H8 H9 H10.
  exact (LazyRangesInv.fetch_and_values_file segs st h chunkss H1 H2 H3 H4 H5 H6 H7 c offs len H8 H9 H10).
Qed.

Theorem ranges_within_request_file : forall segs st h chunkss c offs len,
    wf_file segs ->
    sm_run segs false = Ok st ->
    build_hierarchy (rs_om st) = Ok h ->
    segs_encode (rs_segments st) segs chunkss ->
    om_paths_canonical (rs_om st) ->
    Forall (fun g => NoDup (map so_path (sg_objs g))) (rs_segments st) ->
    empty_segments_typed (rs_segments st) ->
    In c (all_channels h) -> 0 <= offs -> (match len with None => True | Some l => 0 <= l end) ->
    exists st' views rs,
      open_state (ser_file segs) = Ok st' /\
      meta_views st' (ch_path c) = Ok views /\ wf unit views = true /\
      total_values unit views = ch_len c /\
      lz_ranges_bytes (ser_file segs) (ch_path c) offs len = Ok rs /\
      (forall pos n, In (pos, n) rs ->
         (* the 4-byte tag check at the start of a visited segment *)
         (exists j g, seg_visited views offs len j /\
                      nth_error (rs_segments st') (Z.to_nat j) = Some g /\ pos = sg_pos g /\ n = 4) \/
         (* or: every byte fetched lies in the window of a chunk (j, cc) of a segment holding the
            channel whose value range meets the request *)
         (0 <= n /\ forall b, pos <= b < pos + n ->
            exists j cc sv g lo hi,
              0 <= j /\ nth_error views (Z.to_nat j) = Some sv /\
              nth_error (rs_segments st') (Z.to_nat j) = Some g /\
              sv_chunk sv <> 0 /\ 0 <= cc < sv_nchunks sv /\
              chunk_start unit (pre unit views j) sv cc < win_end (ch_len c) offs len /\
              offs < chunk_end unit (pre unit views j) sv cc /\
              chunk_window (ch_path c) g cc = Some (lo, hi) /\ lo <= b < hi)) /\
      lz_read_bytes (ser_file segs) (ch_path c) offs len =
      Ok (match len with
          | None => zskipn offs (chan_values (ch_path c) (concat chunkss))
          | Some l => zfirstn l (zskipn offs (chan_values (ch_path c) (concat chunkss)))
          end).
Proof.
  intros segs st h chunkss c offs len H1 H2 H3 H4 H5 H6 H7 H8 H9 H10.
  exact (LazyRangesInv.ranges_within_request_file segs st h chunkss H1 H2 H3 H4 H5 H6 H7 c offs len H8 H9 H10).
Qed.

Theorem bytes_bounded_by_request_file : forall segs st h chunkss c offs len,
    wf_file segs ->
    sm_run segs false = Ok st ->
    build_hierarchy (rs_om st) = Ok h ->
    segs_encode (rs_segments st) segs chunkss ->
    om_paths_canonical (rs_om st) ->
    Forall (fun g => NoDup (map so_path (sg_objs g))) (rs_segments st) ->
    empty_segments_typed (rs_segments st) ->
    In c (all_channels h) -> 0 <= offs -> (match len with None => True | Some l => 0 <= l end) ->
    exists st' views plan rs s e,
      open_state (ser_file segs) = Ok st' /\
      meta_views st' (ch_path c) = Ok views /\ total_values unit views = ch_len c /\
      lz_plan unit views offs len = Ok plan /\ lz_plan_bytes (ser_file segs) (ch_path c) offs len = Ok plan /\
      NoDup plan /\
      (forall j cc, In (j, cc) plan <->
         exists sv, 0 <= j /\ nth_error views (Z.to_nat j) = Some sv /\
                    sv_chunk sv <> 0 /\ 0 <= cc < sv_nchunks sv /\
                    chunk_start unit (pre unit views j) sv cc < win_end (ch_len c) offs len /\
                    offs < chunk_end unit (pre unit views j) sv cc) /\
      lz_ranges_bytes (ser_file segs) (ch_path c) offs len = Ok rs /\
      (forall j, s <= j <= e -> seg_visited views offs len j) /\
      total_bytes rs <= 4 * Z.max 0 (e - s + 1) + SegState.zsum (map (chunk_cost st' (ch_path c)) plan) /\
      lz_read_bytes (ser_file segs) (ch_path c) offs len =
      Ok (match len with
          | None => zskipn offs (chan_values (ch_path c) (concat chunkss))
          | Some l => zfirstn l (zskipn offs (chan_values (ch_path c) (concat chunkss)))
          end).
Proof.
  intros segs st h chunkss c offs len H1 H2 H3 H4 H5 H6 H7 H8 H9 H10.
  exact (LazyRangesInv.bytes_bounded_by_request_file segs st h chunkss H1 H2 H3 H4 H5 H6 H7 c offs len H8 H9 H10).
Qed.

Theorem slice_fetch_and_values_file : forall segs st h chunkss c start stop step,
    wf_file segs ->
    sm_run segs false = Ok st ->
    build_hierarchy (rs_om st) = Ok h ->
    segs_encode (rs_segments st) segs chunkss ->
    om_paths_canonical (rs_om st) ->
    Forall (fun g => NoDup (map so_path (sg_objs g))) (rs_segments st) ->
    empty_segments_typed (rs_segments st) ->
    In c (all_channels h) ->
    exists st' views,
      open_state (ser_file segs) = Ok st' /\
      meta_views st' (ch_path c) = Ok views /\ total_values unit views = ch_len c /\
      match read_slice_gen (ch_len c) start stop step with
      | Err e => lz_slice_ranges st' (ser_file segs) (ch_path c) views start stop step = Err e
      | Ok PEmpty => lz_slice_ranges st' (ser_file segs) (ch_path c) views start stop step = Ok []
      | Ok (PRead a b _) =>
        0 <= a /\ 0 <= b /\
        lz_slice_ranges st' (ser_file segs) (ch_path c) views start stop step
        = lz_ranges st' (ser_file segs) (ch_path c) a (Some b)
      end /\
      run_slice (fun a b => lz_read_bytes (ser_file segs) (ch_path c) a (Some b)) (ch_len c) start stop step
      = py_slice3 (chan_values (ch_path c) (concat chunkss)) start stop step.
Proof.
  intros segs st h chunkss c start stop step H1 H2 H3 H4 H5 H6 H7 H8.
  exact (LazyRangesInv.slice_fetch_and_values_file segs st h chunkss H1 H2 H3 H4 H5 H6 H7 c start stop step H8).
Qed.

(* the relation the two caches keep: same bounds, chunks of the same length; both start as None *)
Theorem cache_rel_spec : forall (cb : cache bytes) (cu : cache unit),
    cache_rel cb cu <->
    match cb, cu with
    | None, None => True
    | Some (ch, bd), Some (ch', bd') => bd = bd' /\ zlen ch = zlen ch'
    | _, _ => False
    end.
Proof. intros cb cu. reflexivity. Qed.

Theorem index_reads_within_chunk_file : forall segs st h chunkss c,
    wf_file segs ->
    sm_run segs false = Ok st ->
    build_hierarchy (rs_om st) = Ok h ->
    segs_encode (rs_segments st) segs chunkss ->
    om_paths_canonical (rs_om st) ->
    Forall (fun g => NoDup (map so_path (sg_objs g))) (rs_segments st) ->
    empty_segments_typed (rs_segments st) ->
    In c (all_channels h) -> ch_dtype c <> None ->
    exists st' views svs dt,
      open_state (ser_file segs) = Ok st' /\
      meta_views st' (ch_path c) = Ok views /\ total_values unit views = ch_len c /\
      channel_view (ser_file segs) (ch_path c) = Ok (svs, Some dt) /\
      forall cb cu i, cache_inv bytes svs cb -> cache_inv unit views cu -> cache_rel cb cu ->
        match py_index (chan_values (ch_path c) (concat chunkss)) i with
        | Err _ => read_at_index bytes svs cb i = Err EIndex /\
                   lz_index_ranges st' (ser_file segs) (ch_path c) views cu i = Err EIndex
        | Ok x =>
          exists cb' cu' log rs,
            read_at_index bytes svs cb i = Ok (x, cb', log) /\
            lz_index_ranges st' (ser_file segs) (ch_path c) views cu i = Ok (rs, cu') /\
            cache_inv bytes svs cb' /\ cache_inv unit views cu' /\ cache_rel cb' cu' /\
            ((log = [] /\ rs = []) \/
             exists j cc sv g,
               log = [(j, cc)] /\ 0 <= j /\ nth_error views (Z.to_nat j) = Some sv /\
               nth_error (rs_segments st') (Z.to_nat j) = Some g /\
               sv_chunk sv <> 0 /\ 0 <= cc < sv_nchunks sv /\
               (let i' := if i <? 0 then i + ch_len c else i in
                chunk_start unit (pre unit views j) sv cc <= i' < chunk_end unit (pre unit views j) sv cc) /\
               (forall p n, In (p, n) rs ->
                  (p = sg_pos g /\ n = 4) \/
                  (0 <= n /\ forall b, p <= b < p + n -> in_chunk_window st' (ch_path c) (j, cc) b)) /\
               total_bytes rs <= 4 + chunk_cost st' (ch_path c) (j, cc))
        end.
Proof.
  intros segs st h chunkss c H1 H2 H3 H4 H5 H6 H7 H8 H9.
  exact (LazyRangesInv.index_fetch_and_values_file segs st h chunkss H1 H2 H3 H4 H5 H6 H7 c H8 H9).
Qed.

Theorem index_hit_reads_nothing_file : forall segs st h chunkss c,
    wf_file segs ->
    sm_run segs false = Ok st ->
    build_hierarchy (rs_om st) = Ok h ->
    segs_encode (rs_segments st) segs chunkss ->
    om_paths_canonical (rs_om st) ->
    Forall (fun g => NoDup (map so_path (sg_objs g))) (rs_segments st) ->
    empty_segments_typed (rs_segments st) ->
    In c (all_channels h) -> ch_dtype c <> None ->
    exists st' views svs dt,
      open_state (ser_file segs) = Ok st' /\
      meta_views st' (ch_path c) = Ok views /\ total_values unit views = ch_len c /\
      channel_view (ser_file segs) (ch_path c) = Ok (svs, Some dt) /\
      forall chb chu b0 b1 i,
        let cb := Some (chb, (b0, b1)) in
        let cu := Some (chu, (b0, b1)) in
        cache_inv bytes svs cb -> cache_inv unit views cu -> cache_rel cb cu ->
        (let i' := if i <? 0 then ch_len c + i else i in b0 <= i' < b1) ->
        exists x, py_index (chan_values (ch_path c) (concat chunkss)) i = Ok x /\
                  read_at_index bytes svs cb i = Ok (x, cb, []) /\
                  lz_index_ranges st' (ser_file segs) (ch_path c) views cu i = Ok ([], cu).
Proof.
  intros segs st h chunkss c H1 H2 H3 H4 H5 H6 H7 H8 H9.
  exact (LazyRangesInv.index_hit_reads_nothing_file segs st h chunkss H1 H2 H3 H4 H5 H6 H7 c H8 H9).
Qed.

(* the step lemma behind the lock-step of the two caches: on two views of the same shape and
   chunk lengths, channel[i] fetches the same chunks and leaves related caches *)
Theorem index_runs_in_step : forall A B cb cu i,
    Forall2 same_lens A B -> cache_rel cb cu ->
    match read_at_index bytes A cb i, read_at_index unit B cu i with
    | Ok (_, cb', log), Ok (_, cu', log') => log = log' /\ cache_rel cb' cu'
    | Err e1, Err e2 => e1 = e2
    | _, _ => False
    end.
Proof. exact LazyRangesInv.read_at_index_sim. Qed.

(* ---- (3) files cut short -------------------------------------------------------------------- *)

(* _compute_final_chunk_lengths on a non-DAQmx object list, remainder 0 <= rem < chunk size *)
Theorem final_override_in_range : forall toc inc objs csize rem fl,
    final_chunk_lengths toc inc objs csize rem = Ok fl ->
    have_daqmx objs = Ok false ->
    0 <= rem < csize ->
    (forall o, In o objs -> 0 <= so_nvals o) ->
    (forall p x, alookup p fl = Some x ->
                 exists o, In o objs /\ so_has_data o = true /\ so_path o = p /\ 0 <= x <= so_nvals o) /\
    (fl = [] \/ forall o, In o (data_objs objs) -> sized o <> None).
Proof. exact LazyRangesInvCut.final_chunk_lengths_ok. Qed.

Theorem ranges_inv_truncated : forall segs st chunkss k,
    wf_file segs ->
    sm_run segs false = Ok st ->
    segs_encode (rs_segments st) segs chunkss ->
    Forall (fun g => NoDup (map so_path (sg_objs g))) (rs_segments st) ->
    empty_segments_typed (rs_segments st) ->
    0 <= k <= blen (ser_file segs) ->
    exists stc', open_state (take k (ser_file segs)) = Ok stc' /\
                 forall path, ranges_inv stc' (take k (ser_file segs)) path = true.
Proof. exact LazyRangesInvCut.ranges_inv_truncated. Qed.

Theorem fetch_and_values_truncated : forall segs st h chunkss k,
    wf_file segs ->
    sm_run segs false = Ok st ->
    build_hierarchy (rs_om st) = Ok h ->
    segs_encode (rs_segments st) segs chunkss ->
    om_paths_canonical (rs_om st) ->
    typed_objects_are_channels (rs_om st) ->
    Forall (fun g => NoDup (map so_path (sg_objs g))) (rs_segments st) ->
    empty_segments_typed (rs_segments st) ->
    0 <= k <= blen (ser_file segs) ->
    exists stc hc chunks_c stc',
      build_hierarchy (rs_om stc) = Ok hc /\
      (* what TdmsFile.read of the cut file returns (Props/C06_values.v, C06_lazy.v) *)
      rd_all (take k (ser_file segs)) = Ok (expected_tokens stc hc chunks_c, true) /\
      (forall p, is_prefix (chan_values p chunks_c) (chan_values p (concat chunkss))) /\
      open_state (take k (ser_file segs)) = Ok stc' /\
      (forall path, ranges_inv stc' (take k (ser_file segs)) path = true) /\
      forall c offs len, In c (all_channels hc) -> 0 <= offs -> (match len with None => True | Some l => 0 <= l end) ->
        exists views svs plan rs s e,
          meta_views stc' (ch_path c) = Ok views /\ wf unit views = true /\
          total_values unit views = ch_len c /\
          channel_view (take k (ser_file segs)) (ch_path c) = Ok (svs, ch_dtype c) /\
          lz_plan unit views offs len = Ok plan /\ lz_plan bytes svs offs len = Ok plan /\
          lz_plan_bytes (take k (ser_file segs)) (ch_path c) offs len = Ok plan /\ NoDup plan /\
          (forall j cc, In (j, cc) plan <->
             exists sv, 0 <= j /\ nth_error views (Z.to_nat j) = Some sv /\
                        sv_chunk sv <> 0 /\ 0 <= cc < sv_nchunks sv /\
                        chunk_start unit (pre unit views j) sv cc < win_end (ch_len c) offs len /\
                        offs < chunk_end unit (pre unit views j) sv cc) /\
          lz_ranges stc' (take k (ser_file segs)) (ch_path c) offs len = Ok rs /\
          (forall pos n, In (pos, n) rs ->
             (exists j g, seg_visited views offs len j /\
                          nth_error (rs_segments stc') (Z.to_nat j) = Some g /\ pos = sg_pos g /\ n = 4) \/
             (0 <= n /\ forall b, pos <= b < pos + n ->
                          exists jc, In jc plan /\ in_chunk_window stc' (ch_path c) jc b)) /\
          (forall j, s <= j <= e -> seg_visited views offs len j) /\
          total_bytes rs <= 4 * Z.max 0 (e - s + 1) + SegState.zsum (map (chunk_cost stc' (ch_path c)) plan) /\
          lz_read_bytes (take k (ser_file segs)) (ch_path c) offs len =
          Ok (match len with
              | None => zskipn offs (chan_values (ch_path c) chunks_c)
              | Some l => zfirstn l (zskipn offs (chan_values (ch_path c) chunks_c))
              end).
Proof. exact LazyRangesInvCut.fetch_and_values_truncated. Qed.

(* ---- the hypotheses are satisfiable: rc_file (contiguous, int32 + string, two segments),
        rc2_file (interleaved + metadata-only segment), le_file (interleaved | channel absent |
        contiguous) -- the invariant by the theorem, the composed theorem for every window of
        channel "a", and three evaluated windows per file ---------------------------------------- *)

Example c19_file_hyps :
    empty_segments_typed (rs_segments rc_st) /\ empty_segments_typed (rs_segments rc2_st) /\
    empty_segments_typed (rs_segments le_st).
Proof. exact (conj rc_empty_typed (conj rc2_empty_typed le_empty_typed)). Qed.

Example c19_file_invariants :
    (exists st', open_state (ser_file rc_file) = Ok st' /\
                 forall path, ranges_inv st' (ser_file rc_file) path = true) /\
    (exists st', open_state (ser_file rc2_file) = Ok st' /\
                 forall path, ranges_inv st' (ser_file rc2_file) path = true) /\
    (exists st', open_state (ser_file le_file) = Ok st' /\
                 forall path, ranges_inv st' (ser_file le_file) path = true).
Proof. exact (conj rc_inv (conj rc2_inv le_inv)). Qed.

Example c19_file_rc_every_window : fetch_and_values_on rc_file rc_chunks rc_path_a 6.
Proof. exact rc_fetch_and_values. Qed.
Example c19_file_rc2_every_window : fetch_and_values_on rc2_file rc2_chunks rc_path_a 3.
Proof. exact rc2_fetch_and_values. Qed.
Example c19_file_le_every_window : fetch_and_values_on le_file le_chunks rc_path_a 6.
Proof. exact le_fetch_and_values. Qed.

(* every cut of rc_file and of le_file: the invariant by the theorem *)
Example c19_file_cut_invariants :
    (forall k, 0 <= k <= 254 ->
       exists st', open_state (take k (ser_file rc_file)) = Ok st' /\
                   forall path, ranges_inv st' (take k (ser_file rc_file)) path = true) /\
    (forall k, 0 <= k <= 265 ->
       exists st', open_state (take k (ser_file le_file)) = Ok st' /\
                   forall path, ranges_inv st' (take k (ser_file le_file)) path = true).
Proof. exact (conj rc_cut_inv le_cut_inv). Qed.

Section Windows.
Import String.
Local Open Scope string_scope.

(* rc_file: segments at 0 (raw data at 169: 2 chunks of 19 bytes, a = 8 bytes then b = 11 bytes)
   and 207 (raw data at 235, one chunk) *)
Example c19_file_rc_windows :
    lz_ranges_bytes (ser_file rc_file) rc_path_a 1 (Some 4)
    = Ok [(0, 4); (169, 8); (177, 0); (188, 8); (196, 0); (207, 4); (235, 8); (243, 0)] /\
    lz_ranges_bytes (ser_file rc_file) rc_path_a 4 None = Ok [(207, 4); (235, 8); (243, 0)] /\
    lz_ranges_bytes (ser_file rc_file) rc_path_b 2 (Some 3) = Ok [(0, 4); (196, 11); (207, 4); (243, 11)] /\
    lz_read_bytes (ser_file rc_file) rc_path_a 1 (Some 4)
    = Ok [hex "02000000"; hex "03000000"; hex "04000000"; hex "05000000"] /\
    lz_plan_bytes (ser_file rc_file) rc_path_a 1 (Some 4) = Ok [(0, 0); (0, 1); (1, 0)].
Proof. exact rc_windows_eval. Qed.

(* rc2_file: one interleaved segment (raw data at 104: 3 rows of 3 bytes) *)
Example c19_file_rc2_windows :
    lz_ranges_bytes (ser_file rc2_file) rc_path_a 0 None = Ok [(0, 4); (104, 9); (113, 0)] /\
    lz_ranges_bytes (ser_file rc2_file) rc_path_a 1 (Some 1) = Ok [(0, 4); (104, 9); (113, 0)] /\
    lz_ranges_bytes (ser_file rc2_file) rc_path_b 2 (Some 5) = Ok [(0, 4); (104, 9); (113, 0)] /\
    lz_read_bytes (ser_file rc2_file) rc_path_a 1 (Some 1) = Ok [hex "0304"].
Proof. exact rc2_windows_eval. Qed.

(* le_file: interleaved x 2 chunks (raw data at 104) | "a" absent (segment at 116) | contiguous
   x 2 chunks with "b" before "a" (segment at 187, raw data at 255); the empty window at 5 costs
   one tag check *)
Example c19_file_le_windows :
    lz_ranges_bytes (ser_file le_file) rc_path_a 1 (Some 4)
    = Ok [(0, 4); (104, 12); (116, 0); (116, 4); (187, 4); (258, 2); (260, 0)] /\
    lz_ranges_bytes (ser_file le_file) rc_path_a 3 None
    = Ok [(0, 4); (110, 6); (116, 0); (116, 4); (187, 4); (258, 2); (260, 0); (263, 2); (265, 0)] /\
    lz_ranges_bytes (ser_file le_file) rc_path_b 3 (Some 6)
    = Ok [(0, 4); (110, 6); (116, 0); (116, 4); (184, 3); (187, 0); (187, 4); (255, 3); (258, 0)] /\
    lz_ranges_bytes (ser_file le_file) rc_path_a 5 (Some 0) = Ok [(187, 4)] /\
    lz_read_bytes (ser_file le_file) rc_path_a 1 (Some 4) = Ok [hex "0304"; hex "0506"; hex "0708"; hex "0a0b"] /\
    lz_plan_bytes (ser_file le_file) rc_path_a 1 (Some 4) = Ok [(0, 0); (0, 1); (2, 0)].
Proof. exact le_windows_eval. Qed.
(* rc_file cut at 190 (inside the second chunk of its first segment; a string channel is present:
   nobody gets a value from the partial chunk); le_file cut at 262 (inside the second chunk of the
   contiguous segment: "b" keeps 2 of 3 values, "a" none) and at 111 (inside the second
   interleaved chunk, no complete row of it left).  dev/c19_inv_witness.py replays these on /repo. *)
Example c19_file_cut_windows :
    lz_ranges_bytes (take 190 (ser_file rc_file)) rc_path_a 0 None = Ok [(0, 4); (169, 8); (177, 0)] /\
    lz_ranges_bytes (take 190 (ser_file rc_file)) rc_path_b 1 (Some 5) = Ok [(0, 4); (177, 11)] /\
    lz_read_bytes (take 190 (ser_file rc_file)) rc_path_a 0 None = Ok [hex "01000000"; hex "02000000"] /\
    lz_ranges_bytes (take 262 (ser_file le_file)) rc_path_a 3 None
    = Ok [(0, 4); (110, 6); (116, 0); (116, 4); (187, 4); (258, 2); (260, 0)] /\
    lz_ranges_bytes (take 262 (ser_file le_file)) rc_path_b 6 None
    = Ok [(116, 4); (184, 3); (187, 0); (187, 4); (255, 3); (258, 0); (260, 2); (262, 0)] /\
    lz_read_bytes (take 262 (ser_file le_file)) rc_path_b 6 None
    = Ok [hex "01"; hex "00"; hex "01"; hex "00"; hex "01"; hex "00"] /\
    lz_read_bytes (take 262 (ser_file le_file)) rc_path_a 3 None = Ok [hex "0708"; hex "0a0b"] /\
    lz_ranges_bytes (take 111 (ser_file le_file)) rc_path_a 0 None = Ok [(0, 4); (104, 6); (110, 0)] /\
    lz_ranges_bytes (take 111 (ser_file le_file)) rc_path_a 1 (Some 1) = Ok [(0, 4); (104, 6); (110, 0)] /\
    lz_read_bytes (take 111 (ser_file le_file)) rc_path_a 0 None = Ok [hex "0102"; hex "0304"].
Proof. exact cut_windows_eval. Qed.

Example c19_file_example_bytes : ser_file rc_file = rc_bytes /\ ser_file le_file = le_bytes.
Proof. exact (conj rc_ser le_ser). Qed.
End Windows.

Print Assumptions object_shape.
Print Assumptions empty_segments_typed_spec.
Print Assumptions empty_segments_typed_check.
Print Assumptions empty_segments_typed_iff_all_typed.
Print Assumptions layout_inv_of_encoding.
Print Assumptions layout_inv_of_daqmx.
Print Assumptions ranges_inv_serialised.
Print Assumptions ranges_inv_serialised_daqmx.
Print Assumptions ranges_inv_serialised_state.
Print Assumptions ranges_inv_serialised_refuted.
Print Assumptions final_override_in_range.
Print Assumptions ranges_inv_truncated.
Print Assumptions fetch_and_values_truncated.
Print Assumptions fetch_and_values_file.
Print Assumptions ranges_within_request_file.
Print Assumptions bytes_bounded_by_request_file.
Print Assumptions slice_fetch_and_values_file.
Print Assumptions cache_rel_spec.
Print Assumptions index_reads_within_chunk_file.
Print Assumptions index_hit_reads_nothing_file.
Print Assumptions index_runs_in_step.
Print Assumptions c19_file_hyps.
Print Assumptions c19_file_invariants.
Print Assumptions c19_file_rc_every_window.
Print Assumptions c19_file_rc2_every_window.
Print Assumptions c19_file_le_every_window.
Print Assumptions c19_file_rc_windows.
Print Assumptions c19_file_rc2_windows.
Print Assumptions c19_file_le_windows.
Print Assumptions c19_file_cut_invariants.
Print Assumptions c19_file_cut_windows.
Print Assumptions c19_file_example_bytes.
