(* C17 (companion) -- the `scale` methods of the SENSOR scaling classes of nptdms/scaling.py, TRANSLATED from the
   source on every run (harness/gen/gen_pyfuncs_sensoreval.py + scale_sem.py -> Gen/PyFuncsSensorEval.v; self-tested
   bit for bit against the real classes: 161 cases, np.log / np.exp / `a ** 2` / _solve_quartic_form replayed), equal
   the binary64 hand models Model/SensorsF.v that Props/C17_float.v bounds and composes with the sensor laws.
   Statements only (proofs: Proofs/GenSensorEvalEquiv.v).

   Pinned from the source text: _adjust_for_lead_resistance's tests and their order; StrainScaling's initial-bridge-
   voltage step, the dispatch table over the seven bridge configurations (two codes for the quarter bridge), each
   formula with its operand order, and the exception for another code; RtdScaling's V / I, lead compensation with
   CURRENT_EXCITATION, the per-element branch test r_t >= r_0 and the quadratic form.
   The attributes of a sensor object hold property values: the theorems are for float parameters and int codes.

   _partial: (1) RtdScaling.scale is proved equal to rtd_scale_F only for arrays whose elements are ALL on the
   quadratic branch (rtd_scale_F answers None on the other branch, numpy's polyroots has no model); the translation
   itself covers mixed arrays (the loop over np.where(~mask) calling _solve_quartic_form, a parameter) and is tied by
   the self-test on arrays mixing both branches.  (2) ThermistorScaling.scale is translated and self-tested (np.log
   replayed) but has no binary64 hand model to be proved equal to (Model/SensorsR.v is over R): no theorem here. *)
From Coq Require Import String.
From Coq Require Import List ZArith Bool PrimFloat.
Import ListNotations.
From NpTdms Require Import Base.Res Gen.PyFuncsScaling Gen.PyFuncsThermoEval Gen.PyFuncsSensorEval
     Model.SensorsR Model.SensorsF Proofs.GenSensorEvalEquiv.
From NpTdms Require Gen.PyFuncsSensorEvalTest.
From NpTdms Require Model.ScaleGraph.

Theorem adjust_for_lead_resistance_translated : forall xs exc cfg lead,
  adjust_for_lead_resistance_gen xs (ScaleGraph.PInt exc) (ScaleGraph.PInt cfg) (ScaleGraph.PFloat lead)
  = Ok (map (fun m => adjust_for_lead_resistance_F m exc cfg lead) xs).
Proof. exact adjust_eq. Qed.

(* all seven bridge configurations, element by element the operations of SensorsF.strain_scale_F in its order *)
Theorem strain_scale_translated : forall cfg nu rg rl ibv gf gain vex src v,
  strain_supported cfg = true ->
  StrainScaling_scale_gen (ScaleGraph.PInt cfg) (ScaleGraph.PFloat nu) (ScaleGraph.PFloat rg) (ScaleGraph.PFloat rl)
                          (ScaleGraph.PFloat ibv) (ScaleGraph.PFloat gf) (ScaleGraph.PFloat gain) (ScaleGraph.PFloat vex) src v
  = mapM (fun x => need EOther (strain_scale_F cfg nu rg rl ibv gf gain vex x)) (ScaleGraph.astype_f64 v).
Proof. exact strain_eq. Qed.

Theorem strain_scale_unsupported_translated : forall cfg nu rg rl ibv gf gain vex src v,
  strain_supported cfg = false ->
  StrainScaling_scale_gen (ScaleGraph.PInt cfg) (ScaleGraph.PFloat nu) (ScaleGraph.PFloat rg) (ScaleGraph.PFloat rl)
                          (ScaleGraph.PFloat ibv) (ScaleGraph.PFloat gf) (ScaleGraph.PFloat gain) (ScaleGraph.PFloat vex) src v
  = Err EOther.
Proof. exact strain_unsupported. Qed.

(* every element on the quadratic branch (the code's mask r_t >= r_0 is rtd_scale_F's test): the quadratic form of
   every element, whatever the uninitialised part of np.sqrt(.., where=..) holds and whatever _solve_quartic_form does *)
Theorem rtd_scale_quadratic_translated_partial : forall py_pow2 uninit quartic i r0 a b c lead cfg src v,
  forallb (fun x => match rtd_scale_F i r0 a (py_pow2 a) b lead cfg x with Some _ => true | None => false end)
          (ScaleGraph.astype_f64 v) = true ->
  RtdScaling_scale_gen py_pow2 uninit quartic (ScaleGraph.PFloat i) (ScaleGraph.PFloat r0) (ScaleGraph.PFloat a)
                       (ScaleGraph.PFloat b) (ScaleGraph.PFloat c) (ScaleGraph.PFloat lead) (ScaleGraph.PInt cfg) src v
  = mapM (fun x => need EOther (rtd_scale_F i r0 a (py_pow2 a) b lead cfg x)) (ScaleGraph.astype_f64 v).
Proof. exact rtd_quadratic_eq. Qed.

(* ---- non-vacuity ------------------------------------------------------------------------------------------------------ *)

(* quarter bridge II (the second code of the `in (..)` test), a non-zero initial bridge voltage; an unsupported
   configuration raises; a Pt100 at 0 and 100 degC (py_pow2 := a*a) *)
Example ex_strain :
  strain_supported 10272 = true /\
  StrainScaling_scale_gen (ScaleGraph.PInt 10272) (ScaleGraph.PFloat 0.25) (ScaleGraph.PFloat 350) (ScaleGraph.PFloat 0)
      (ScaleGraph.PFloat 0.5) (ScaleGraph.PFloat 2) (ScaleGraph.PFloat 1) (ScaleGraph.PFloat 2.5) 4294967295
      (ScaleGraph.VD [0.5; 1.75]%float) = Ok [0x0p+0; -0x1p-1]%float /\
  StrainScaling_scale_gen (ScaleGraph.PInt 10190) (ScaleGraph.PFloat 0.25) (ScaleGraph.PFloat 350) (ScaleGraph.PFloat 0)
      (ScaleGraph.PFloat 0.5) (ScaleGraph.PFloat 2) (ScaleGraph.PFloat 1) (ScaleGraph.PFloat 2.5) 4294967295
      (ScaleGraph.VD [0.5]%float) = Err EOther.
Proof. vm_compute. repeat split; reflexivity. Qed.

Example ex_rtd :
  let a := 0x1p-8%float in
  forallb (fun x => match rtd_scale_F 0x1p-10%float 100%float a (a * a)%float (-0x1p-21)%float 0%float 4 x with
                    | Some _ => true | None => false end) [0x1.9p-4; 0x1.ap-4]%float = true /\
  RtdScaling_scale_gen (fun x => (x * x)%float) nan (fun _ => Err EOther) (ScaleGraph.PFloat 0x1p-10) (ScaleGraph.PFloat 100)
      (ScaleGraph.PFloat a) (ScaleGraph.PFloat (-0x1p-21)) (ScaleGraph.PFloat 0) (ScaleGraph.PFloat 0) (ScaleGraph.PInt 4) 4294967295
      (ScaleGraph.VD [0x1.9p-4; 0x1.ap-4]%float) = Ok [(-0x0p+0); 0x1.481733584c700p+3]%float.
Proof. vm_compute. split; reflexivity. Qed.

Print Assumptions adjust_for_lead_resistance_translated.
Print Assumptions strain_scale_translated.
Print Assumptions strain_scale_unsupported_translated.
Print Assumptions rtd_scale_quadratic_translated_partial.
Print Assumptions ex_strain.
Print Assumptions ex_rtd.
