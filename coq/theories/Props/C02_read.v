(* C02 (end to end) — segment metadata inheritance never changes what is READ:
   objects, channel order, lengths, properties AND every data value.

   Props/C02.v states inheritance transparency for the metadata pass
   ([inheritance_transparent], [inheritance_transparent_files]); Props/C01_read.v
   states that the whole read of a serialised file returns exactly the encoded
   values ([read_correct]).  This file composes them.

   Setting.  [segs : list fseg] is a file SYNTAX (Model/FileSyn.v) whose segments
   may restate an object's raw data index in full, say "same as before"
   ([IMatchPrev], raw index 0x00000000), say "no data" ([INoData], 0xFFFFFFFF),
   leave an object unlisted (no new-object-list flag: the previous list carries
   over) or have no metadata block at all ([fs_meta = None]).  [st] is the state
   the metadata pass reaches on it, and

     explicit_of segs st = explicit_segs segs (map sg_objs (rs_segments st))

   is the FULLY EXPLICIT encoding of the same content (Proofs/SegStateExplicit.v):
   every segment gets a metadata block and the new-object-list flag, every object
   of the segment's list is restated (full index, or "no data"), the segment's
   property updates stay attached to their objects; version, the other ToC flags
   and the raw data block are kept.

   Theorem [inheritance_transparent_read].  Under the hypotheses of read_correct
   for [segs]
     wf_file segs, sm_run segs false = Ok st, build_hierarchy (rs_om st) = Ok h,
     segs_encode (rs_segments st) segs chunkss,
     om_paths_canonical (rs_om st), typed_objects_are_channels (rs_om st)
   and the three side conditions of "valid choice among these encodings"
     Forall listed_once segs      no metadata block lists a path twice (the side
                                  condition of inheritance_transparent_listed_once,
                                  Props/C02.v; not shown necessary here);
     data_objects_typed st        no object has data without ever having received
                                  an index (the corner "no data, then same as
                                  before, for an object that never had an index",
                                  DESIGN 13.2; necessary: see
                                  [c02_read_needs_typed] below, a file that
                                  reads fine while its re-encoding is rejected, in
                                  the implementation as in the model);
     explicit_fits segs (object_lists st)
                                  the explicit form fits the container: per
                                  segment, the number of restated objects is
                                  < 2^32 and metadata + raw data < 2^64 - 1
                                  (necessary: the explicit metadata is LONGER than
                                  the abbreviated one and the lead-in stores these
                                  in 4 / 8 bytes)
   both files read as the same explicit observation:
     rd_all (ser_file (explicit_of segs st)) = Ok (expected_tokens st h (concat chunkss), true)
     rd_all (ser_file segs)                  = Ok (expected_tokens st h (concat chunkss), true)
   ([inheritance_transparent_read_eq] is the equation between the two reads.)

   NOT hypotheses (derived here from the model):
     - [wf_file_explicit]  the explicit form is a well-formed file syntax: the
       field widths of every restated index follow from [sm_run_fields_wf]
       (every field of every object the state machine keeps was read from a
       well-formed field of that width), the restated properties are the
       original ones, the ToC mask stays a u32;
     - the metadata pass accepts the explicit form and reaches a state [st']
       with [same_reading st st'] (Props/C02.v);
     - [segs_encode_explicit]  the untouched raw data blocks encode the same
       chunks for the segment records of [st'] (same object lists, same layout
       since the interleaved flag is kept, same byte order);
     - hierarchy, canonical paths, typed-objects-are-channels: functions of
       [rs_om], which is equal;
     - [expected_tokens_same_reading]  the observation does not see what differs
       between [st] and [st'] (segment positions: the explicit metadata is
       longer; the two ToC flags the explicit form sets).
   [explicit_read_hypotheses] collects all of this.

   Converse direction ([same_explicit_same_read]): two file syntaxes that are
   different valid abbreviation choices of the same content (same explicit
   form) read the same.  [explicit_of_fixpoint]: the explicit form is its own
   explicit form, so it is itself one of these choices.

   Not covered: what read_correct does not cover (DAQmx segments, truncated last
   segments, contiguous segments of chunk size 0 with data objects). *)
From Coq Require Import List ZArith.
Import ListNotations.
From NpTdms Require Import Base.Bytes Base.Res Model.Tokens Model.TokensWf Model.SegState
     Model.Layout Model.Reader Model.FileSyn Proofs.SegStateInherit Proofs.FileSynProofs
     Proofs.ReadCorrect Proofs.SegStateExplicit Proofs.InheritRead.
Local Open Scope Z_scope.

(* ---- ingredients -------------------------------------------------------------- *)

(* every object the metadata pass of a well-formed file keeps could be restated:
   its path fits a u32 length prefix and the full index built from its fields
   (whatever its current has_data flag) is well formed *)
Theorem sm_run_fields_wf : forall segs w st,
    wf_file segs -> sm_run segs w = Ok st ->
    Forall (Forall (fun o => is_u32 (blen (so_path o)) = true /\
                             wf_idx (idx_of (set_has_data o true)) = true))
           (map sg_objs (rs_segments st)).
Proof. exact InheritRead.sm_run_fields_wf. Qed.

Theorem wf_file_explicit : forall segs w st,
    wf_file segs -> sm_run segs w = Ok st ->
    explicit_fits segs (map sg_objs (rs_segments st)) ->
    wf_file (explicit_segs segs (map sg_objs (rs_segments st))).
Proof. exact InheritRead.wf_file_explicit. Qed.

(* the segment records of the two runs agree on everything but positions and
   the two ToC flags *)
Theorem same_reading_sim : forall st st',
    same_reading st st' ->
    Forall2 (fun g g' => sg_objs g' = sg_objs g /\ sg_nchunks g' = sg_nchunks g /\
                         sg_final g' = sg_final g /\ sg_incomplete g' = sg_incomplete g /\
                         sg_toc g' = explicit_toc (sg_toc g))
            (rs_segments st) (rs_segments st').
Proof. exact InheritRead.same_reading_sim. Qed.

Theorem seg_encodes_sim : forall g g' data chunks,
    seg_sim g g' -> seg_encodes g data chunks -> seg_encodes g' data chunks.
Proof. exact InheritRead.seg_encodes_sim. Qed.

Theorem segs_encode_explicit : forall gs segs chunkss,
    segs_encode gs segs chunkss ->
    forall gs', Forall2 seg_sim gs gs' ->
    segs_encode gs' (explicit_segs segs (map sg_objs gs)) chunkss.
Proof. exact InheritRead.segs_encode_explicit. Qed.

Theorem expected_tokens_same_reading : forall st st' h chunks,
    same_reading st st' -> expected_tokens st' h chunks = expected_tokens st h chunks.
Proof. exact InheritRead.expected_tokens_same_reading. Qed.

(* the explicit form satisfies every hypothesis of read_correct *)
Theorem explicit_read_hypotheses : forall segs st h chunkss,
    wf_file segs ->
    sm_run segs false = Ok st ->
    build_hierarchy (rs_om st) = Ok h ->
    segs_encode (rs_segments st) segs chunkss ->
    om_paths_canonical (rs_om st) ->
    typed_objects_are_channels (rs_om st) ->
    Forall listed_once segs ->
    data_objects_typed st ->
    explicit_fits segs (object_lists st) ->
    exists st',
      wf_file (explicit_of segs st) /\
      sm_run (explicit_of segs st) false = Ok st' /\
      same_reading st st' /\
      build_hierarchy (rs_om st') = Ok h /\
      segs_encode (rs_segments st') (explicit_of segs st) chunkss /\
      om_paths_canonical (rs_om st') /\
      typed_objects_are_channels (rs_om st') /\
      Forall listed_once (explicit_of segs st) /\
      expected_tokens st' h (concat chunkss) = expected_tokens st h (concat chunkss).
Proof. exact InheritRead.explicit_read_hypotheses. Qed.

(* ---- the property -------------------------------------------------------------- *)

Theorem inheritance_transparent_read : forall segs st h chunkss,
    wf_file segs ->
    sm_run segs false = Ok st ->
    build_hierarchy (rs_om st) = Ok h ->
    segs_encode (rs_segments st) segs chunkss ->
    om_paths_canonical (rs_om st) ->
    typed_objects_are_channels (rs_om st) ->
    Forall listed_once segs ->
    data_objects_typed st ->
    explicit_fits segs (object_lists st) ->
    rd_all (ser_file (explicit_of segs st)) = Ok (expected_tokens st h (concat chunkss), true) /\
    rd_all (ser_file segs) = Ok (expected_tokens st h (concat chunkss), true).
Proof. exact InheritRead.inheritance_transparent_read. Qed.

Theorem inheritance_transparent_read_eq : forall segs st h chunkss,
    wf_file segs ->
    sm_run segs false = Ok st ->
    build_hierarchy (rs_om st) = Ok h ->
    segs_encode (rs_segments st) segs chunkss ->
    om_paths_canonical (rs_om st) ->
    typed_objects_are_channels (rs_om st) ->
    Forall listed_once segs ->
    data_objects_typed st ->
    explicit_fits segs (object_lists st) ->
    rd_all (ser_file (explicit_of segs st)) = rd_all (ser_file segs).
Proof. exact InheritRead.inheritance_transparent_read_eq. Qed.

(* two valid abbreviation choices of the same content read the same *)
Theorem same_explicit_same_read : forall segs1 st1 h1 chunkss1 segs2 st2 h2 chunkss2,
    wf_file segs1 -> sm_run segs1 false = Ok st1 -> build_hierarchy (rs_om st1) = Ok h1 ->
    segs_encode (rs_segments st1) segs1 chunkss1 ->
    om_paths_canonical (rs_om st1) -> typed_objects_are_channels (rs_om st1) ->
    Forall listed_once segs1 -> data_objects_typed st1 -> explicit_fits segs1 (object_lists st1) ->
    wf_file segs2 -> sm_run segs2 false = Ok st2 -> build_hierarchy (rs_om st2) = Ok h2 ->
    segs_encode (rs_segments st2) segs2 chunkss2 ->
    om_paths_canonical (rs_om st2) -> typed_objects_are_channels (rs_om st2) ->
    Forall listed_once segs2 -> data_objects_typed st2 -> explicit_fits segs2 (object_lists st2) ->
    explicit_of segs1 st1 = explicit_of segs2 st2 ->
    rd_all (ser_file segs1) = rd_all (ser_file segs2).
Proof. exact InheritRead.same_explicit_same_read. Qed.

(* the explicit form is a fixpoint of the re-encoding *)
Theorem explicit_of_fixpoint : forall segs w st st',
    sm_run segs w = Ok st -> Forall listed_once segs -> same_reading st st' ->
    explicit_of (explicit_of segs st) st' = explicit_of segs st.
Proof. exact InheritRead.explicit_of_fixpoint. Qed.

(* sound boolean form of the three side conditions *)
Theorem extra_hyps_b_sound : forall segs st,
    extra_hyps_b segs st = true ->
    Forall listed_once segs /\ data_objects_typed st /\ explicit_fits segs (object_lists st).
Proof. exact InheritRead.extra_hyps_b_sound. Qed.

(* ---- instances: the hypotheses are satisfiable, both sides compute ------------- *)

(* rc_file (Props/C01_read.v): segment 2 has NO metadata block.  Its explicit
   form has 367 bytes instead of 254; both read as the same token list. *)
Example c02_read_rc_hyps : extra_hyps_b rc_file rc_st = true.
Proof. exact rc_extra. Qed.

Example c02_read_rc_bytes_differ :
  blen (ser_file rc_file) = 254 /\ blen (ser_file (explicit_of rc_file rc_st)) = 367 /\
  ser_file (explicit_of rc_file rc_st) <> ser_file rc_file.
Proof. exact rc_bytes_differ. Qed.

Example c02_read_rc :
  rd_all (ser_file (explicit_of rc_file rc_st))
    = Ok (expected_tokens rc_st rc_h (concat rc_chunks), true) /\
  rd_all (ser_file rc_file) = Ok (expected_tokens rc_st rc_h (concat rc_chunks), true).
Proof. exact rc_inherit_read. Qed.

Section Tokens.
Import String.
Local Open Scope string_scope.

Example c02_read_rc_explicit_form :
  map (fun s => (fs_toc s, option_map (map (fun x => (e_path x, e_idx x))) (fs_meta s)))
      (explicit_of rc_file rc_st) =
  [ (14, Some [ (hex "2f", INoData); (hex "2f276727", INoData);
                (rc_path_a, IFull 20 3 1 2 None); (rc_path_b, IFull 28 T_STRING 1 2 (Some 11)) ]);
    (14, Some [ (hex "2f", INoData); (hex "2f276727", INoData);
                (rc_path_a, IFull 20 3 1 2 None); (rc_path_b, IFull 28 T_STRING 1 2 (Some 11)) ]) ] /\
  map fs_data (explicit_of rc_file rc_st) = map fs_data rc_file.
Proof. exact rc_explicit_form. Qed.

Example c02_read_rc_tokens :
  let toks :=
      [TZ 4713; TZ 0; TZ 1; TB (hex "67"); TZ 1; TB (hex "6e"); TZ 3; TB (hex "6869"); TZ 2;
       TB (hex "61"); TB (hex "67"); TB rc_path_a; TZ 3; TZ 6; TZ 1; TB (hex "70"); TZ 0; TZ 7;
       TZ 0; TZ 6; TB (hex "01000000"); TB (hex "02000000"); TB (hex "03000000");
       TB (hex "04000000"); TB (hex "05000000"); TB (hex "06000000");
       TB (hex "62"); TB (hex "67"); TB rc_path_b; TZ 32; TZ 6; TZ 0;
       TZ 0; TZ 6; TB (hex "6162"); TB (hex "63"); TB []; TB (hex "78797a"); TB (hex "71");
       TB (hex "7273");
       TZ 0; TZ 0] in
  rd_all (ser_file rc_file) = Ok (toks, true) /\
  rd_all (ser_file (explicit_of rc_file rc_st)) = Ok (toks, true).
Proof. exact rc_inherit_read_tokens. Qed.

(* ir_file: three segments.  1: new list, root, group g, a int32 x 2, b int16 x 1,
   two chunks.  2: a "same as before" (0x00000000), b "no data" (0xFFFFFFFF), root
   and group unlisted, two chunks of a only.  3: only b listed, "same as
   before" (re-activating its index of segment 1) with a new property; one
   chunk of a and b. *)
Example c02_read_ir_file :
  map (fun s => (fs_toc s, option_map (map (fun x => (e_path x, e_idx x))) (fs_meta s))) ir_file =
  [ (14, Some [ (hex "2f", INoData); (hex "2f276727", INoData);
                (rc_path_a, IFull 20 3 1 2 None); (rc_path_b, IFull 20 2 1 1 None) ]);
    (10, Some [ (rc_path_a, IMatchPrev); (rc_path_b, INoData) ]);
    (10, Some [ (rc_path_b, IMatchPrev) ]) ].
Proof. vm_compute. reflexivity. Qed.

Example c02_read_ir_hyps :
  wf_file ir_file /\ sm_run ir_file false = Ok ir_st /\
  build_hierarchy (rs_om ir_st) = Ok ir_h /\
  segs_encode (rs_segments ir_st) ir_file ir_chunks /\
  om_paths_canonical (rs_om ir_st) /\ typed_objects_are_channels (rs_om ir_st) /\
  extra_hyps_b ir_file ir_st = true.
Proof.
  exact (conj ir_wf (conj ir_run (conj ir_hier (conj ir_encodes
        (conj ir_canonical (conj ir_typed_channels ir_extra)))))).
Qed.

Example c02_read_ir_explicit_form :
  map (fun s => (fs_toc s, option_map (map (fun x => (e_path x, e_idx x, map p_name (e_props x))))
                                      (fs_meta s)))
      (explicit_of ir_file ir_st) =
  [ (14, Some [ (hex "2f", INoData, []); (hex "2f276727", INoData, [hex "6e"]);
                (rc_path_a, IFull 20 3 1 2 None, [hex "70"]); (rc_path_b, IFull 20 2 1 1 None, []) ]);
    (14, Some [ (hex "2f", INoData, []); (hex "2f276727", INoData, []);
                (rc_path_a, IFull 20 3 1 2 None, []); (rc_path_b, INoData, []) ]);
    (14, Some [ (hex "2f", INoData, []); (hex "2f276727", INoData, []);
                (rc_path_a, IFull 20 3 1 2 None, []); (rc_path_b, IFull 20 2 1 1 None, [hex "71"]) ]) ] /\
  map fs_data (explicit_of ir_file ir_st) = map fs_data ir_file.
Proof. exact ir_explicit_form. Qed.

Example c02_read_ir_bytes_differ :
  blen (ser_file ir_file) = 344 /\ blen (ser_file (explicit_of ir_file ir_st)) = 470 /\
  ser_file (explicit_of ir_file ir_st) <> ser_file ir_file.
Proof. exact ir_bytes_differ. Qed.

Example c02_read_ir :
  rd_all (ser_file (explicit_of ir_file ir_st))
    = Ok (expected_tokens ir_st ir_h (List.concat ir_chunks), true) /\
  rd_all (ser_file ir_file) = Ok (expected_tokens ir_st ir_h (List.concat ir_chunks), true).
Proof. exact ir_inherit_read. Qed.

(* a: ten values 1..10 in file order over segments 1, 2, 3; b: three values
   from segments 1 and 3; property p on a, q on b *)
Example c02_read_ir_tokens :
  let toks :=
      [TZ 4713; TZ 0; TZ 1; TB (hex "67"); TZ 1; TB (hex "6e"); TZ 3; TB (hex "6869"); TZ 2;
       TB (hex "61"); TB (hex "67"); TB rc_path_a; TZ 3; TZ 10; TZ 1; TB (hex "70"); TZ 0; TZ 7;
       TZ 0; TZ 10; TB (hex "01000000"); TB (hex "02000000"); TB (hex "03000000");
       TB (hex "04000000"); TB (hex "05000000"); TB (hex "06000000"); TB (hex "07000000");
       TB (hex "08000000"); TB (hex "09000000"); TB (hex "0a000000");
       TB (hex "62"); TB (hex "67"); TB rc_path_b; TZ 2; TZ 3; TZ 1; TB (hex "71"); TZ 0; TZ 9;
       TZ 0; TZ 3; TB (hex "0a00"); TB (hex "0b00"); TB (hex "0c00");
       TZ 0; TZ 0] in
  rd_all (ser_file ir_file) = Ok (toks, true) /\
  rd_all (ser_file (explicit_of ir_file ir_st)) = Ok (toks, true) /\
  expected_tokens ir_st ir_h (List.concat ir_chunks) = toks.
Proof. exact ir_inherit_read_tokens. Qed.

End Tokens.

(* ir_alt: a different abbreviation of the same content (segment 2 starts a new
   list and restates everything; segment 3 restates b's index in full): same
   explicit form, different bytes, same read *)
Example c02_read_alt_same_explicit :
  explicit_of ir_file ir_st = explicit_of ir_alt ir_alt_st /\ ser_file ir_file <> ser_file ir_alt.
Proof. exact ir_alt_same_explicit. Qed.

Example c02_read_alt_same_read : rd_all (ser_file ir_file) = rd_all (ser_file ir_alt).
Proof. exact ir_alt_same_read. Qed.

(* the hypothesis data_objects_typed cannot be dropped: nt_file satisfies every
   other hypothesis and reads fine, its re-encoding is rejected *)
Example c02_read_needs_typed :
  wf_file nt_file /\ sm_run nt_file false = Ok nt_st /\ build_hierarchy (rs_om nt_st) = Ok nt_h /\
  segs_encode (rs_segments nt_st) nt_file nt_chunks /\
  om_paths_canonical (rs_om nt_st) /\ typed_objects_are_channels (rs_om nt_st) /\
  Forall listed_once nt_file /\ explicit_fits nt_file (object_lists nt_st) /\
  ~ data_objects_typed nt_st /\
  (exists t, rd_all (ser_file nt_file) = Ok (t, true)) /\
  rd_all (ser_file (explicit_of nt_file nt_st)) = Err EValue.
Proof. exact inheritance_transparent_read_needs_typed. Qed.

Print Assumptions sm_run_fields_wf.
Print Assumptions wf_file_explicit.
Print Assumptions same_reading_sim.
Print Assumptions seg_encodes_sim.
Print Assumptions segs_encode_explicit.
Print Assumptions expected_tokens_same_reading.
Print Assumptions explicit_read_hypotheses.
Print Assumptions inheritance_transparent_read.
Print Assumptions inheritance_transparent_read_eq.
Print Assumptions same_explicit_same_read.
Print Assumptions explicit_of_fixpoint.
Print Assumptions extra_hyps_b_sound.
Print Assumptions c02_read_rc.
Print Assumptions c02_read_rc_tokens.
Print Assumptions c02_read_ir_hyps.
Print Assumptions c02_read_ir.
Print Assumptions c02_read_ir_tokens.
Print Assumptions c02_read_alt_same_read.
Print Assumptions c02_read_needs_typed.
