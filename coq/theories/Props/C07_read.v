(* C07 (composed) - What TdmsWriter writes is what TdmsFile reads.

   [write_read]: for every list of writer sessions (one `with TdmsWriter(...)`
   block each: mode 'w' then 'a', 'a', ...; version 4712 or 4713; any sequence
   of write_segment calls over root / group / channel objects with typed
   properties and typed values) that the writer model accepts,

       rd_all data = Ok (content_tokens_of_calls sessions, true)

   where [data] are the bytes Model/Writer.v writes ([wr_file]; compared byte
   for byte with nptdms.TdmsWriter by the C07/C08 checks), [rd_all] is the
   byte-level model of TdmsFile.read (Model/Reader.v; compared with the
   implementation on every run of the reader checks) and
   [content_tokens_of_calls] (Proofs/WriteReadSpec.v) is computed from the call
   list ALONE - not through the writer's bytes and not through the reader:
     - version of the first session that makes a call;
     - root properties; groups in order of first appearance (per call: the
       group objects passed in, in call order, then the groups of the call's
       channels sorted by name, then the channels - the order the writer lists
       them in); per group its properties and its channels in order of first
       appearance;
     - per object the properties of all objects written under its path, last
       value of a name wins (with its TDMS type tag and value bytes), names in
       order of first appearance;
     - per channel: data type = the (first) non-Void type written, length and
       values = the concatenation of all value lists written for it over all
       calls of all sessions, in order;
     - file_status: complete.
   The [true] says every channel received exactly len(channel) values.

   Hypotheses (all boolean, all computed from the call list):
     wf_file sessions          Model/Writer.v: every count / length fits its
                               field, values have the size of their type
                               (the hypothesis of write_read_partial, C08);
     wr_file sessions = Ok ..  the writer accepts the calls (it refuses a call
                               that lists the same path twice: ValueError
                               "Duplicate object paths found" in the real code);
     dtypes_consistent sessions
                               no channel is written with two different data
                               types (Void - empty data of no determinable type -
                               aside).  NECESSARY: the real reader raises
                               ValueError "Segment data doesn't have the same type
                               as previous segments" (checked: int32 then float64
                               on one channel), the model returns Err EValue
                               ([write_read_needs_one_dtype] below);
     sizes_below_marker sessions
                               no segment is exactly 2^64 - 1 bytes long (that
                               next-segment offset means "length unknown").
   NOT needed (covered by the theorem): calls whose channels are all empty
   (typed, zero values: a contiguous segment of chunk size 0 - the case
   read_correct excludes; the real reader reads such files, checked), Void
   channels (read back with dtype None and no data), channels that are Void in
   one call and typed in another, groups created implicitly, append sessions
   that re-declare root and groups, sessions with different versions.
   Data can only be passed on channel objects (wobj), as in the real API.
   Zero calls: the file is empty; the model returns the empty observation
   while the real TdmsFile.read rejects an empty stream (ValueError), so read
   the theorem with at least one call.

   Route (Proofs/WriteRead*.v):
     writer_bytes_are_ser_file  data = ser_file (fsegs_of sl), a well-formed
                                file syntax (Model/FileSyn.v), sl = the sorted
                                object list of every call ([sorted_file]);
     sm_run_writer (WriteReadState.v)  the metadata pass succeeds on it and the
                                per-object metadata is, field by field, what the
                                specification says ([st_inv]);
     build_hierarchy_writer (WriteReadHier.v)  the hierarchy is
                                [content_hierarchy];
     read_correct_decodes (WriteReadData.v, stated below)  C01's read_correct
                                generalised from [seg_encodes] to any raw data
                                block the segment's chunk reader decodes
                                ([decodes]) - this adds the zero-chunk-size
                                segments; writer_decodes: each call's raw data
                                decodes to one chunk with the values passed in;
     file_trace (WriteReadCalls.v)  the file's object sequence and the
                                specification's [obj_seq] agree (the groups the
                                writer omits because of its _groups_written
                                state have appeared before);
     read_writer_file, write_read_lemma (WriteRead.v). *)
From Coq Require Import List ZArith Bool.
From Coq Require Import Init.Byte.
Import ListNotations.
From NpTdms Require Import Base.Bytes Base.Res Model.Tokens Model.TokensWf Model.ByteStr
  Model.StrictParse Model.Writer Proofs.WriterProofs Props.C07.
From NpTdms Require Import Model.SegState Model.Layout Model.Reader Model.FileSyn
  Proofs.LayoutProofs Proofs.FileSynProofs Proofs.ReadCorrect
  Proofs.WriteReadSpec Proofs.WriteReadBytes Proofs.WriteReadState Proofs.WriteReadHier
  Proofs.WriteReadData Proofs.WriteReadCalls Proofs.WriteRead.
Local Open Scope Z_scope.

(* ---- the composed theorem ------------------------------------------------------------------------ *)

Theorem write_read : forall sessions data index,
  Writer.wf_file sessions = true ->
  sizes_below_marker sessions = true ->
  dtypes_consistent sessions = true ->
  wr_file sessions = Ok (data, index) ->
  rd_all data = Ok (content_tokens_of_calls sessions, true).
Proof. exact write_read_lemma. Qed.

(* from Python-level calls (ints as properties / int lists as data are typed by
   the TRANSLATED to_int_property_value / _infer_dtype chain, Props/C07.v) *)
Theorem write_read_py : forall py sessions data index,
  lower_file py = Ok sessions ->
  Writer.wf_file sessions = true ->
  sizes_below_marker sessions = true ->
  dtypes_consistent sessions = true ->
  wr_file sessions = Ok (data, index) ->
  rd_all data = Ok (content_tokens_of_calls sessions, true).
Proof. intros py sessions data index _. exact (write_read_lemma sessions data index). Qed.

(* ---- step 1: the writer's bytes are a serialised well-formed file syntax -------------------------- *)

Theorem writer_bytes_are_ser_file : forall sessions data index,
  Writer.wf_file sessions = true ->
  sizes_below_marker sessions = true ->
  wr_file sessions = Ok (data, index) ->
  exists sl,
    sorted_file sessions = Ok sl /\
    Forall (fun vs => forallb Writer.wf_obj (snd vs) = true /\ valid_version (fst vs) = true) sl /\
    FileSynProofs.wf_file (fsegs_of sl) /\
    data = ser_file (fsegs_of sl).
Proof. exact WriteReadBytes.writer_bytes_are_ser_file. Qed.

(* ---- step 2: the reader on the syntax of ANY list of sorted calls --------------------------------- *)

(* sl: per segment the version and the object list; objects well formed, no
   path twice in a segment, one data type per channel over the file, every
   channel's group declared by a group object somewhere in the file *)
Theorem read_writer_file : forall sl,
  sl_ok sl ->
  FileSynProofs.wf_file (fsegs_of sl) ->
  consistent (flat_map snd sl) ->
  groups_present (flat_map snd sl) ->
  rd_all (ser_file (fsegs_of sl)) =
  Ok (content_tokens_of_seq (sl_version sl) (flat_map snd sl), true).
Proof. exact WriteRead.read_writer_file. Qed.

(* the metadata pass on writer output: succeeds, and the state it reaches *)
Theorem sm_run_writer : forall sl,
  sl_ok sl -> consistent (flat_map snd sl) ->
  exists st,
    sm_run (fsegs_of sl) false = Ok st /\
    st_inv (flat_map snd sl) (rs_prev_objs st) (rs_om st) /\
    Forall2 seg_rel sl (rs_segments st).
Proof. exact WriteReadState.sm_run_writer. Qed.

Theorem build_hierarchy_writer : forall seq prev om,
  st_inv seq prev om -> groups_present seq ->
  build_hierarchy om = Ok (content_hierarchy seq).
Proof. exact WriteReadHier.build_hierarchy_writer. Qed.

(* C01's composed theorem for any decodable raw data blocks (adds contiguous
   segments of chunk size 0 with data objects to read_correct's domain) *)
Theorem read_correct_decodes : forall segs st h chunkss,
  FileSynProofs.wf_file segs ->
  sm_run segs false = Ok st ->
  build_hierarchy (rs_om st) = Ok h ->
  segs_decode (rs_segments st) segs chunkss ->
  data_paths_are_channels h (concat chunkss) ->
  no_daqmx_channels h ->
  channel_paths_distinct h ->
  lengths_consistent h (concat chunkss) ->
  rd_all (ser_file segs) = Ok (expected_tokens st h (concat chunkss), true).
Proof. exact WriteReadData.read_correct_decodes. Qed.

(* ---- step 3: file sequence = specification sequence ------------------------------------------------ *)

Theorem file_trace : forall sessions sl,
  sorted_file sessions = Ok sl ->
  (forall B (h : wobj -> list B), blank_vanish h ->
     flat_map h (flat_map snd sl) = flat_map h (obj_seq sessions)) /\
  (forall acc, fold_left add_new (names (flat_map snd sl)) acc =
               fold_left add_new (names (obj_seq sessions)) acc) /\
  groups_present (flat_map snd sl) /\
  Forall (fun vs : Z * list wobj => NoDup (map obj_path (snd vs))) sl /\
  sl_version sl = content_version sessions.
Proof. exact WriteReadCalls.file_trace. Qed.

(* ---- the data-type hypothesis is necessary ---------------------------------------------------------- *)

(* channel /'g'/'c' written as int32, then as float64 *)
Definition dtype_change_witness : list (Z * list (list wobj)) :=
  [(4712, [[WChan [x67] [x63] 3 [[x01; x00; x00; x00]] []];
           [WChan [x67] [x63] 10 [[x00; x00; x00; x00; x00; x00; xf8; x3f]] []]])].

Theorem write_read_needs_one_dtype :
  Writer.wf_file dtype_change_witness = true /\
  sizes_below_marker dtype_change_witness = true /\
  dtypes_consistent dtype_change_witness = false /\
  exists data index, wr_file dtype_change_witness = Ok (data, index) /\ rd_all data = Err EValue.
Proof.
  split; [vm_compute; reflexivity|]. split; [vm_compute; reflexivity|]. split; [vm_compute; reflexivity|].
  destruct (wr_file dtype_change_witness) as [[d i]|e] eqn:E; [|vm_compute in E; discriminate].
  exists d, i. split; [reflexivity|].
  assert (Hd : Ok (d, i) = wr_file dtype_change_witness) by (symmetry; exact E).
  vm_compute in Hd. injection Hd as -> _. vm_compute. reflexivity.
Qed.

(* ---- non-vacuity: the hypotheses hold and both sides compute ------------------------------------------ *)

(* evaluates the hypotheses, the writer, the reader model on the written bytes
   and the specification, and compares with the explicit tokens *)
Definition roundtrip_check (py : list (Z * list (list pyobj))) (expect : list tok) : bool :=
  match lower_file py with
  | Ok low =>
    Writer.wf_file low && sizes_below_marker low && dtypes_consistent low &&
    match wr_file low with
    | Ok (d, _) =>
      match rd_all d with
      | Ok (t, true) => toks_eqb t expect && toks_eqb (content_tokens_of_calls low) expect
      | _ => false
      end
    | Err _ => false
    end
  | Err _ => false
  end.

Section Examples.
Import String.
Local Open Scope string_scope.

Definition p_gc : bytes := hex "2f2767272f276327".     (* /'g'/'c' *)
Definition p_gs : bytes := hex "2f2767272f277327".     (* /'g'/'s' *)

(* Props/C07.v c07_example: int list [300, -1] -> int16 with an int property
   2^31 -> Int64, a string channel with a two-byte character, a second call
   giving group g a string property, a second (append) session adding
   [-200, 256] to channel c *)
Definition c07_example_tokens : list tok :=
  [TZ 4712; TZ 0; TZ 1; TB (hex "67"); TZ 1; TB (hex "6e"); TZ 3; TB (hex "78"); TZ 2;
   TB (hex "63"); TB (hex "67"); TB p_gc; TZ 2; TZ 4; TZ 1; TB (hex "70"); TZ 0; TZ 2147483648;
   TZ 0; TZ 4; TB (hex "2c01"); TB (hex "ffff"); TB (hex "38ff"); TB (hex "0001");
   TB (hex "73"); TB (hex "67"); TB p_gs; TZ 32; TZ 2; TZ 0;
   TZ 0; TZ 2; TB (hex "61"); TB (hex "c3a9");
   TZ 0; TZ 0].

Example c07_example_write_read :
  exists low data index,
    lower_file c07_example = Ok low /\
    Writer.wf_file low = true /\ sizes_below_marker low = true /\ dtypes_consistent low = true /\
    wr_file low = Ok (data, index) /\
    rd_all data = Ok (c07_example_tokens, true) /\
    content_tokens_of_calls low = c07_example_tokens.
Proof.
  destruct (lower_file c07_example) as [low|e] eqn:El; [|vm_compute in El; discriminate].
  assert (Hl : Ok low = lower_file c07_example) by (symmetry; exact El).
  vm_compute in Hl. injection Hl as Hlow.
  assert (Hwf : Writer.wf_file low = true) by (rewrite Hlow; vm_compute; reflexivity).
  assert (Hsz : sizes_below_marker low = true) by (rewrite Hlow; vm_compute; reflexivity).
  assert (Hdt : dtypes_consistent low = true) by (rewrite Hlow; vm_compute; reflexivity).
  assert (Hspec : content_tokens_of_calls low = c07_example_tokens) by (rewrite Hlow; vm_compute; reflexivity).
  destruct (wr_file low) as [[d i]|e] eqn:E; [|exfalso; rewrite Hlow in E; vm_compute in E; discriminate].
  exists low, d, i. repeat split; try assumption.
  (* by the theorem, not by evaluating the reader *)
  rewrite (write_read low d i Hwf Hsz Hdt E), Hspec. reflexivity.
Qed.

(* the same by evaluation of the reader model on the written bytes *)
Example c07_example_evaluates : roundtrip_check c07_example c07_example_tokens = true.
Proof. vm_compute. reflexivity. Qed.

(* two sessions of different versions; group B passed explicitly after a
   channel of group Z and before one of group A (file order: B, A, Z); root
   properties given in the second call; property q overwritten (5 then 6);
   channel A/y: int32 [2], then Void (empty, no type), then [3] in the append
   session; channel Z/x written a second time with zero values; channel C/y
   alone in a call with zero values (a segment of chunk size 0); group B's
   property p overwritten in the append session and s added *)
Definition ex_sessions : list (Z * list (list pyobj)) :=
  [(4713, [[PyChan (hex "5a") (hex "78") (PDTyped 3 [hex "01000000"]) [];
            PyGroup (hex "42") [PPInt (hex "70") 1];
            PyChan (hex "41") (hex "79") (PDTyped 3 [hex "02000000"]) [PPInt (hex "71") 5]];
           [PyRoot [PPInt (hex "72") 7];
            PyChan (hex "41") (hex "79") (PDTyped 0 []) [PPInt (hex "71") 6];
            PyChan (hex "5a") (hex "78") (PDTyped 3 []) []]]);
   (4712, [[PyChan (hex "43") (hex "79") (PDTyped 3 []) []];
           [PyGroup (hex "42") [PPInt (hex "70") 2; PPInt (hex "73") 3];
            PyChan (hex "41") (hex "79") (PDTyped 3 [hex "03000000"]) []]])].

Definition ex_tokens : list tok :=
  [TZ 4713; TZ 1; TB (hex "72"); TZ 0; TZ 7;
   TZ 4;
   TB (hex "42"); TZ 2; TB (hex "70"); TZ 0; TZ 2; TB (hex "73"); TZ 0; TZ 3; TZ 0;
   TB (hex "41"); TZ 0; TZ 1;
     TB (hex "79"); TB (hex "41"); TB (hex "2f2741272f277927"); TZ 3; TZ 2; TZ 1; TB (hex "71"); TZ 0; TZ 6;
     TZ 0; TZ 2; TB (hex "02000000"); TB (hex "03000000");
   TB (hex "5a"); TZ 0; TZ 1;
     TB (hex "78"); TB (hex "5a"); TB (hex "2f275a272f277827"); TZ 3; TZ 1; TZ 0;
     TZ 0; TZ 1; TB (hex "01000000");
   TB (hex "43"); TZ 0; TZ 1;
     TB (hex "79"); TB (hex "43"); TB (hex "2f2743272f277927"); TZ 3; TZ 0; TZ 0;
     TZ 0; TZ 0;
   TZ 0; TZ 0].

Example ex_sessions_evaluates : roundtrip_check ex_sessions ex_tokens = true.
Proof. vm_compute. reflexivity. Qed.

(* a string channel in a group whose name is a single quote (path /''''/'s'),
   extended in an append session; a channel that only ever gets untyped empty
   data (read back without data type and without data); root property
   overwritten with a different TYPE (int then string) *)
Definition ex2_sessions : list (Z * list (list pyobj)) :=
  [(4712, [[PyRoot [PPInt (hex "61") 1];
            PyChan (hex "27") (hex "73") (PDTyped T_STRING [hex "c3a9"; hex ""]) [];
            PyChan (hex "27") (hex "76") (PDTyped 0 []) []]]);
   (4712, [[PyRoot [PPTyped (mkProp (hex "61") T_STRING (hex "7a"))];
            PyChan (hex "27") (hex "73") (PDTyped T_STRING [hex "6162"]) []]])].

Definition ex2_tokens : list tok :=
  [TZ 4712; TZ 1; TB (hex "61"); TZ 3; TB (hex "7a");
   TZ 1;
   TB (hex "27"); TZ 0; TZ 2;
     TB (hex "73"); TB (hex "27"); TB (hex "2f272727272f277327"); TZ 32; TZ 3; TZ 0;
     TZ 0; TZ 3; TB (hex "c3a9"); TB (hex ""); TB (hex "6162");
     TB (hex "76"); TB (hex "27"); TB (hex "2f272727272f277627"); TZ (-1); TZ 0; TZ 0;
     TZ 2;
   TZ 0; TZ 0].

Example ex2_sessions_evaluates : roundtrip_check ex2_sessions ex2_tokens = true.
Proof. vm_compute. reflexivity. Qed.

End Examples.

Print Assumptions write_read.
Print Assumptions write_read_py.
Print Assumptions writer_bytes_are_ser_file.
Print Assumptions read_writer_file.
Print Assumptions sm_run_writer.
Print Assumptions build_hierarchy_writer.
Print Assumptions read_correct_decodes.
Print Assumptions file_trace.
Print Assumptions write_read_needs_one_dtype.
Print Assumptions c07_example_write_read.
Print Assumptions c07_example_evaluates.
Print Assumptions ex_sessions_evaluates.
Print Assumptions ex2_sessions_evaluates.
