(* C04 (companion) — gap (a) of Props/C04_gen6.v translated_lazy_read_is_window_of_eager_partial: the kTocRawData clause of its
   [loop_calls] hypothesis is NECESSARY.  Statements only; proofs: Proofs/GenLazyRange.v.

   The witness [rawflag_segs] is the file harness/c04.py rawflag_file() builds and the check replays against the
   implementation ([rawflag_is_harness_file]: ser_file rawflag_segs = those bytes): two segments, int32 channel /'g'/'a',
   one chunk of 10 values each (0..9 | 10..19); the first lead-in's ToC is 6 (kTocMetaData | kTocNewObjList, kTocRawData
   CLEARED although the segment holds 40 bytes of raw data), the second's is 14.

   [rawflag_in_domain]  every hypothesis of Props/C03_read.v lazy_is_window_of_eager (wf_file, sm_run, build_hierarchy,
   segs_encode, om_paths_canonical, distinct paths, the channel) and every hypothesis of Props/C04_gen6.v
   translated_lazy_read_is_window_of_eager_partial holds of it, the latter's loop_calls hypothesis WITHOUT its kTocRawData
   clause ([range_ok]: 0 <= c, 0 <= n, n + c <= num_chunks), for the requests (3, 5), (1, 10), (0, None).
   [rawflag_model_gives_window]  the hand model lz_read_bytes returns the window (values 3..7 for read_data(3, 5)), as
   lazy_is_window_of_eager says ([rawflag_model_gives_window_by_theorem]: through that theorem, every request).
   [translated_lazy_read_rawflag_refuted]  the TRANSLATED TdmsReader.read_raw_data_for_channel run with the TRANSLATED
   TdmsSegment.read_raw_data_for_channel (Proofs/GenLazyFile.v bytes_chunks) on the same bytes does NOT satisfy the conclusion
   of translated_lazy_read_is_window_of_eager_partial for read_data(offset=3, length=5), whatever the receiver; what it
   computes ([translated_lazy_read_rawflag_computes]): the per-segment generator yields a placeholder empty chunk for the
   flagless segment, the loop applies its first-chunk skip / trim to it and passes the data chunk on trimmed to 8 values:
       read_data(3, 5)  : yields [[]; [0..7]], the numpy receiver of 5 values fails: Err EValue   (/repo: ValueError)
       read_data(1, 10) : yields [[]; [0..9]; [10]], received as 0..9 instead of 1..10             (/repo: wrong values)
       read_data(0, None): all 20 values (right), and the translated EAGER read (rd_all) returns all 20 values.
   [window_theorem_needs_rawflag_clause]  hence translated_lazy_read_is_window_of_eager_partial with the kTocRawData clause
   dropped from its loop_calls hypothesis is FALSE.
   Replay against the real code: harness/c04.py rawflag_witness (KNOWN-FINDING rawdata-flag-cleared-with-data).

   THE RANGE PART of gap (a) is DERIVED:
   [loop_calls_in_range]  under the hypotheses of Props/C04_gen3.v window_correct_translated (seg_ok of every record, the sum
   of the segment value counts < 2^63, tbl_ok, om[path] = total number of values, well-formed views, 0 <= offset,
   0 <= length) every chunk range (c, n) the translated read_chunk_range_gen hands on for the request satisfies 0 <= c,
   0 <= n, n + c <= num_chunks: from what the two binary searches establish (Proofs/GenLazyRange.v window_ctx, extracted
   from Proofs/LazyWindowProofs.v lz_gen_spec) and Proofs/LazyReadProofs.v seg_step_spec / range_pure_spec.
   [translated_lazy_read_is_window_of_eager_rawflag_partial]  Props/C04_gen6.v translated_lazy_read_is_window_of_eager_partial
   with its loop_calls hypothesis REPLACED by the plain kTocRawData hypothesis: every record s of the reader's state in which
   the channel has a data object (sv_chunk (seg_view s path) <> 0, i.e. segment_object has_data with number_values <> 0:
   exactly the segments for which the loop calls segment.read_raw_data_for_channel) has kTocRawData set.  (It is stated on
   the channel's data object and not on "fs_data s <> []": a segment that re-uses the object list with ZERO chunks and a
   cleared flag is also visited, with the request (0, 0), and yields the extra empty chunk.)
   Still PARTIAL, exactly gaps (b) (c) (d) of the header of Props/C04_gen6.v: zsum < 2^63, tbl_ok and om[path] = om_len kept
   as hypotheses; _verify_segment_start is the identity on the file; generators are run to their end.
   [c04_gen7_rawflag_hypothesis]  the kTocRawData hypothesis holds of the three-segment example of Props/C04_gen6.v (its
   other hypotheses: c04_gen6_hypotheses, c04_gen6_window_hypotheses there) and fails on the witness. *)
From Coq Require Import String Ascii.
From Coq Require Import List ZArith.
Import ListNotations.
From NpTdms Require Import Base.Bytes Base.Res Base.PySlice Model.Tokens Model.SegState Model.Layout Model.Reader Model.FileSyn
     Model.LazyRead Model.LazyBytes
     Gen.PyFuncsReader Gen.PyFuncsDecode Gen.PyFuncsLazySeg Gen.PyFuncsLazyIdx Gen.PyFuncsLazyLoop
     Proofs.LayoutProofs Proofs.FileSynProofs Proofs.ReadCorrect Proofs.LazyEagerExamples
     Proofs.GenReaderLazy Proofs.GenLazyIdxEquiv Proofs.GenLazyLoopEquiv Proofs.GenLazyFile Proofs.GenLazyRange.
Local Open Scope Z_scope.

Example rawflag_is_harness_file : ser_file rawflag_segs = rawflag_hex.
Proof. exact rawflag_bytes. Qed.

Example rawflag_flag_cleared_with_data :
  map (fun s => (toc_has (fs_toc s) TOC_RAW, blen (fs_data s))) rawflag_segs = [(false, 40); (true, 40)] /\
  map (fun g => (toc_has (sg_toc g) TOC_RAW, sg_nchunks g)) (rs_segments rawflag_st') = [(false, 1); (true, 1)].
Proof. exact rawflag_flags. Qed.

Example rawflag_in_domain :
  (wf_file rawflag_segs /\ sm_run rawflag_segs false = Ok rawflag_st /\ build_hierarchy (rs_om rawflag_st) = Ok rawflag_h /\
   segs_encode (rs_segments rawflag_st) rawflag_segs rawflag_chunks /\ om_paths_canonical (rs_om rawflag_st) /\
   Forall (fun g => NoDup (map so_path (sg_objs g))) (rs_segments rawflag_st) /\
   In (rc_chan rawflag_h 0) (all_channels rawflag_h) /\ ch_path (rc_chan rawflag_h 0) = rc_path_a) /\
  rd_metadata (ser_file rawflag_segs) false (Some (blen (ser_file rawflag_segs))) true = Ok rawflag_st' /\
  (forall k s ch, nth_error (rs_segments rawflag_st') k = Some s -> nth_error rawflag_chunks k = Some ch ->
                  Forall (strings_valid (data_objs (sg_objs s))) ch) /\
  (forall offs len, In (offs, len) [(3, Some 5); (1, Some 10); (0, None)] ->
                    loop_calls (fun s c n => 0 <= c /\ 0 <= n /\ n + c <= sg_nchunks s)
                               (rs_segments rawflag_st') [] rawflag_om rc_path_a offs len) /\
  zsum (seg_nums unit (seg_views (rs_segments rawflag_st') rc_path_a)) < 2 ^ 63 /\
  tbl_ok (rs_segments rawflag_st') rc_path_a [] /\
  alookup rc_path_a rawflag_om = Some (om_len (get_ometa rc_path_a (rs_om rawflag_st))) /\
  chan_values rc_path_a (concat rawflag_chunks) = (rawflag_vals0 ++ rawflag_vals1)%list.
Proof. exact rawflag_domain. Qed.

Example rawflag_model_gives_window :
  lz_read_bytes (ser_file rawflag_segs) rc_path_a 3 (Some 5) = Ok [hex "03000000"; hex "04000000"; hex "05000000"; hex "06000000"; hex "07000000"] /\
  lz_read_bytes (ser_file rawflag_segs) rc_path_a 1 (Some 10) = Ok (tl rawflag_vals0 ++ [hex "0a000000"])%list /\
  lz_read_bytes (ser_file rawflag_segs) rc_path_a 0 None = Ok (rawflag_vals0 ++ rawflag_vals1)%list.
Proof. exact rawflag_model_window. Qed.

Theorem rawflag_model_gives_window_by_theorem : forall offs len,
  0 <= offs -> (match len with None => True | Some l => 0 <= l end) ->
  lz_read_bytes (ser_file rawflag_segs) rc_path_a offs len =
  Ok (match len with
      | None => zskipn offs (rawflag_vals0 ++ rawflag_vals1)
      | Some l => zfirstn l (zskipn offs (rawflag_vals0 ++ rawflag_vals1))
      end).
Proof. exact rawflag_model_window_thm. Qed.

Theorem translated_lazy_read_rawflag_computes :
  (mapr (fun r => fst (fst r)) (rawflag_lazy 3 (Some 5)) = Ok [[]; firstn 8 rawflag_vals0] /\
   mapr (fun r => fst (fst r)) (rawflag_lazy 1 (Some 10)) = Ok [[]; rawflag_vals0; [hex "0a000000"]] /\
   mapr (fun r => fst (fst r)) (rawflag_lazy 0 None) = Ok [[]; rawflag_vals0; rawflag_vals1]) /\
  (rawflag_lazy_read 3 (Some 5) = Err EValue /\
   rawflag_lazy_read 1 (Some 10) = Ok rawflag_vals0 /\
   rawflag_lazy_read 0 None = Ok (rawflag_vals0 ++ rawflag_vals1)%list) /\
  exists pre post, rd_all (ser_file rawflag_segs) = Ok ((pre ++ map TB (rawflag_vals0 ++ rawflag_vals1) ++ post)%list, true).
Proof. exact (conj rawflag_translated_yields (conj rawflag_translated_reads rawflag_eager_tokens)). Qed.

Theorem translated_lazy_read_rawflag_refuted : forall (zero : bytes) rk,
  ~ (exists outs tbl' f2' dt n,
        read_raw_data_for_channel_gen posfile bytes bytes_verify (bytes_chunks rc_path_a) (Some (rs_segments rawflag_st')) []
                                      rawflag_om (mkPf (ser_file rawflag_segs) 0) rc_path_a 3 (Some 5) = Ok (outs, tbl', f2') /\
        read_channel_data_alloc_gen (Some dt) false (om_len (get_ometa rc_path_a (rs_om rawflag_st))) 3 (Some 5) = Ok (Some n) /\
        receive bytes zero rk n outs = Ok (zfirstn 5 (zskipn 3 (chan_values rc_path_a (concat rawflag_chunks))))).
Proof. exact rawflag_refuted. Qed.

Theorem window_theorem_needs_rawflag_clause :
  ~ (forall segs st st' chunkss path tbl om offs len (zero : bytes) rk f2,
      wf_file segs -> sm_run segs false = Ok st -> segs_encode (rs_segments st) segs chunkss ->
      Forall (fun g => NoDup (map so_path (sg_objs g))) (rs_segments st) ->
      rd_metadata (ser_file segs) false (Some (blen (ser_file segs))) true = Ok st' ->
      (forall k s ch, nth_error (rs_segments st') k = Some s -> nth_error chunkss k = Some ch ->
                      Forall (strings_valid (data_objs (sg_objs s))) ch) ->
      pf_data f2 = ser_file segs ->
      loop_calls (fun s c n => 0 <= c /\ 0 <= n /\ n + c <= sg_nchunks s) (rs_segments st') tbl om path offs len ->
      zsum (seg_nums unit (seg_views (rs_segments st') path)) < 2 ^ 63 ->
      tbl_ok (rs_segments st') path tbl ->
      alookup path om = Some (om_len (get_ometa path (rs_om st))) ->
      0 <= offs -> (match len with None => True | Some l => 0 <= l end) ->
      exists outs tbl' f2' dt n,
        read_raw_data_for_channel_gen posfile bytes bytes_verify (bytes_chunks path) (Some (rs_segments st')) tbl om f2 path offs len
        = Ok (outs, tbl', f2') /\ pf_data f2' = ser_file segs /\ tbl_ok (rs_segments st') path tbl' /\
        read_channel_data_alloc_gen (Some dt) false (om_len (get_ometa path (rs_om st))) offs len = Ok (Some n) /\
        receive bytes zero rk n outs = Ok (match len with
                                           | None => zskipn offs (chan_values path (concat chunkss))
                                           | Some l => zfirstn l (zskipn offs (chan_values path (concat chunkss)))
                                           end)).
Proof. exact window_needs_rawflag_clause. Qed.

(* the range part of gap (a): NOT a hypothesis any more *)
Theorem loop_calls_in_range : forall (V : Type) path (data_of : segment -> seg_data V) segs tbl om offs len,
  forallb (seg_ok path) segs = true ->
  zsum (seg_nums unit (seg_views segs path)) < 2 ^ 63 ->
  tbl_ok segs path tbl ->
  alookup path om = Some (total_values V (views V path data_of segs)) ->
  wf V (views V path data_of segs) = true ->
  0 <= offs -> (match len with None => True | Some l => 0 <= l end) ->
  loop_calls (fun s c n => 0 <= c /\ 0 <= n /\ n + c <= sg_nchunks s) segs tbl om path offs len.
Proof. exact loop_calls_range_ok. Qed.

Theorem translated_lazy_read_is_window_of_eager_rawflag_partial : forall segs st st' chunkss path tbl om offs len (zero : bytes) rk f2,
    wf_file segs -> sm_run segs false = Ok st -> segs_encode (rs_segments st) segs chunkss ->
    Forall (fun g => NoDup (map so_path (sg_objs g))) (rs_segments st) ->
    rd_metadata (ser_file segs) false (Some (blen (ser_file segs))) true = Ok st' ->
    (forall k s ch, nth_error (rs_segments st') k = Some s -> nth_error chunkss k = Some ch ->
                    Forall (strings_valid (data_objs (sg_objs s))) ch) ->
    pf_data f2 = ser_file segs ->
    Forall (fun s => sv_chunk (seg_view s path) <> 0 -> toc_has (sg_toc s) TOC_RAW = true) (rs_segments st') ->
    zsum (seg_nums unit (seg_views (rs_segments st') path)) < 2 ^ 63 ->
    tbl_ok (rs_segments st') path tbl ->
    alookup path om = Some (om_len (get_ometa path (rs_om st))) ->
    0 <= offs -> (match len with None => True | Some l => 0 <= l end) ->
    exists outs tbl' f2' dt n,
      read_raw_data_for_channel_gen posfile bytes bytes_verify (bytes_chunks path) (Some (rs_segments st')) tbl om f2 path offs len
      = Ok (outs, tbl', f2') /\ pf_data f2' = ser_file segs /\ tbl_ok (rs_segments st') path tbl' /\
      read_channel_data_alloc_gen (Some dt) false (om_len (get_ometa path (rs_om st))) offs len = Ok (Some n) /\
      receive bytes zero rk n outs = Ok (match len with
                                         | None => zskipn offs (chan_values path (concat chunkss))
                                         | Some l => zfirstn l (zskipn offs (chan_values path (concat chunkss)))
                                         end).
Proof. exact translated_lazy_read_window_rawflag. Qed.

(* the kTocRawData hypothesis holds of the three-segment file of Props/C04_gen6.v (whose other hypotheses are
   c04_gen6_hypotheses / c04_gen6_window_hypotheses there) and FAILS on the witness *)
Example c04_gen7_rawflag_hypothesis :
  Forall (fun s => sv_chunk (seg_view s rc_path_a) <> 0 -> toc_has (sg_toc s) TOC_RAW = true) (rs_segments ex_f_st) /\
  ~ Forall (fun s => sv_chunk (seg_view s rc_path_a) <> 0 -> toc_has (sg_toc s) TOC_RAW = true) (rs_segments rawflag_st').
Proof. exact raw_flag_set_examples. Qed.

Print Assumptions rawflag_is_harness_file.
Print Assumptions rawflag_flag_cleared_with_data.
Print Assumptions rawflag_in_domain.
Print Assumptions rawflag_model_gives_window.
Print Assumptions rawflag_model_gives_window_by_theorem.
Print Assumptions translated_lazy_read_rawflag_computes.
Print Assumptions translated_lazy_read_rawflag_refuted.
Print Assumptions window_theorem_needs_rawflag_clause.
Print Assumptions loop_calls_in_range.
Print Assumptions translated_lazy_read_is_window_of_eager_rawflag_partial.
Print Assumptions c04_gen7_rawflag_hypothesis.
