(* C11 — DAQmx raw data: the remaining clauses of the property.

     "Lazy windows and chunk streams of DAQmx channels equal slices of the eager
      result, and a truncated final chunk yields only complete rows."

   Statements only.  Proofs: Proofs/TruncLazyDaqmx.v (truncation),
   Proofs/TruncLazyDaqmxLazy.v (lazy windows), Proofs/TruncLazyDaqmxEx.v
   (instances).  Props/C11.v has the addressing theorems of the decoder,
   Props/C11_read.v the whole-file eager theorem read_correct_daqmx and the
   direct-addressing meaning [direct_chunks] (defined with read_at only).

   (T) A TRUNCATED DAQMX BLOCK YIELDS ONLY COMPLETE ROWS   [daqmx_truncation_complete_rows]
   g: the record of a readable DAQmx segment (C11_read.daqmx_seg_ok g data: the raw
   data block is a whole number of chunks, each chunk the raw buffers
   dims = [(rows_k, width_k)] one after another, cb = chunk_bytes dims).  The block is
   cut to its first j bytes, 0 <= j < |data|; gc is the record the metadata pass
   builds for the cut file (same ToC mask and object list; chunk count and override =
   calculate_chunks ... true ... j).  Then read_segment_chunks gc (take j data)
   SUCCEEDS with exactly sg_nchunks gc chunks which hold, under every path and every
   (path, scale id), the values of
     cut_direct_chunks g data j =
       direct_chunk 0 .. direct_chunk (j/cb - 1)          the complete chunks, as in the
                                                          complete segment, then -- if
                                                          j mod cb <> 0 --
       direct_chunk_rows (daqmx_buffer_lengths dims (j mod cb)) (j/cb)
                                                          one chunk in which scaler s of
                                                          buffer k has the values of rows
                                                          0 .. r_k - 1, addressed in the
                                                          COMPLETE block by read_at:
       base = (j/cb)*cb + buffer_base k,  value i at base + i*width_k + byte offset
   where r_k is get_daqmx_final_chunk_lengths' count, in closed form
   [buffer_lengths_nth]:  r_k = min(rows_k*width_k, max(0, rem - buffer_base k)) / width_k
   -- every buffer that fits is whole, the first one that does not keeps
   floor(rest / width) rows, the buffers after it none.  [cut_rows_prefix]: these are
   the FIRST r_k values of the scaler in the complete chunk; [daqmx_cut_prefix]: per
   path and per (path, scale id) the values of the cut block are a prefix of the
   complete segment's and contain those of the complete chunks.
   Composition with the file: the decoder statement is about the raw data block from
   the segment's data position on; ReadCorrect.read_segment_ser / TruncValuesFile.
   read_segment_at place it in a file (a whole-file statement for a cut inside a DAQmx
   segment -- receivers for scaler data over a cut file -- is NOT composed here; the
   metadata pass on such a cut is covered by C06_values.cut_metadata_succeeds, which
   needs no assumption on the raw data).
   len(channel) [daqmx_cut_credit]: the override credits an object only when all its
   scalers live in ONE raw buffer b (daqmx.py `len(set(...)) == 1`); for such an object
   the metadata pass counts (j/cb) * number_values + r_b values for the cut segment --
   exactly the number of values each of its scalers gets (number_values per complete
   chunk, r_b in the partial one).  An object spread over several buffers gets no
   entry and is credited 0 for the partial chunk while its scalers do get rows: there
   len(channel) falls short of the values returned (the correspondence check of C06
   restricts its DAQmx layouts to one buffer per object for this reason).

   (L) LAZY WINDOWS AND CHUNK STREAMS   [daqmx_lazy_windows, daqmx_chunk_stream,
                                         daqmx_lazy_windows_typed]
   channel.read_data(offset, length, scaled=False) on TdmsFile.open returns for a
   DaqMxRawData channel a dictionary scale id -> values.  [lz_read_scaler_bytes data
   path id offs len] models one entry of it: the per-segment view of that scaler is
   computed from the reader state with segment indexes and from the bytes through the
   DAQmx decoder ([segv_of_scaler]: chunk.scaler_data[id] per chunk, one chunk object
   per chunk as DaqmxDataReader yields them), and is read by LazyRead.lz_read -- the
   line-by-line model of reader.read_raw_data_for_channel with the NumPy receiver,
   the same reader C04's window_correct is about (_trim_channel_chunk cuts every scaler
   array of a chunk by the same skip/trim; all scalers of a channel have the channel's
   number_values per chunk, so the count taken from the first scaler is every
   scaler's).  KeyError when the channel is not DaqMxRawData or has no such scaler.
   Under the hypotheses of C11_read.read_correct_daqmx (files mixing DAQmx and ordinary
   segments; segs_content) plus "no object list names a path twice":
     daqmx_lazy_windows        for every DaqMxRawData channel c of the hierarchy, every
                               scale id of c, every offs >= 0, every len (None or >= 0):
                                 lz_read_scaler_bytes bytes (ch_path c) id offs len
                                 = Ok (window_of offs len (chan_scaler_values (ch_path c) id chunks))
                               chan_scaler_values ... = the eager per-scaler values of
                               read_correct_daqmx (file-order concatenation of the directly
                               addressed values); negative arguments: ValueError
     daqmx_chunk_stream        the chunks the generator yields for offset 0 / no length
                               (channel.data_chunks()) concatenate to those values, and
                               there are len(channel) of them
     daqmx_lazy_windows_typed  channels whose data type is NOT DaqMxRawData -- DAQmx
                               channels typed by their single scaler, and ordinary
                               channels of a file that also has DAQmx segments --:
                               LazyBytes.lz_read_bytes windows = windows of the eager data.
   Layers: [segv_of_scaler_content] / [segv_of_content]: for one segment of either
   kind the view is well formed (LazyRead.wf_seg) and holds the specified values.

   Replay on the implementation: dev/c11_cut_replay.py -- dx_file cut at every offset
   0..33 of the raw data of its two-chunk DAQmx segment, eager and lazy, against
   direct addressing of the complete rows computed in Python (0 disagreements); 426
   lazy windows of c0 (scalers 0 and 5), c1 (digital line) and c2 against slices of
   the eager arrays, and the chunk streams (0 disagreements). *)
From Coq Require Import List ZArith Bool.
From Coq Require Import Init.Byte.
Import ListNotations.
From NpTdms Require Import Base.Bytes Base.Res Base.PySlice Model.Tokens Model.TokensWf Model.SegState
     Model.Layout Model.Reader Model.FileSyn Model.LazyRead Model.LazyBytes
     Proofs.LayoutProofs Proofs.FileSynProofs Proofs.DaqmxProofs Proofs.TruncProofs
     Proofs.ReadCorrect Proofs.ReadCorrectDaqmx Proofs.TruncValuesLayout
     Proofs.LazyEagerIndex Proofs.LazyEagerView Proofs.LazyEagerTop
     Proofs.TruncLazyLayout Proofs.TruncLazyDaqmx Proofs.TruncLazyDaqmxLazy Proofs.TruncLazyDaqmxEx.
Local Open Scope Z_scope.

(* ---- (T) truncation --------------------------------------------------------------------- *)

(* get_daqmx_final_chunk_lengths in closed form *)
Theorem buffer_lengths_nth : forall dims rem k n w,
    Forall (fun d => 0 <= fst d /\ 0 <= snd d) dims -> 0 <= rem ->
    nth_error dims k = Some (n, w) -> 0 < w ->
    nth k (daqmx_buffer_lengths dims rem) 0 = rows_within n w (buffer_base dims k) rem.
Proof. exact TruncLazyDaqmx.buffer_lengths_nth. Qed.

Theorem rows_within_unfold : forall n w base avail,
    rows_within n w base avail = Z.min (w * n) (Z.max 0 (avail - base)) / w.
Proof. reflexivity. Qed.

(* a buffer that fits is whole; what survives never exceeds the buffer *)
Theorem rows_within_full : forall n w base avail,
    0 < w -> 0 <= n -> base + w * n <= avail -> rows_within n w base avail = n.
Proof. exact TruncLazyDaqmx.rows_within_full. Qed.

Theorem rows_within_le : forall n w base avail, 0 < w -> 0 <= n -> 0 <= rows_within n w base avail <= n.
Proof. exact TruncLazyDaqmx.rows_within_le. Qed.

(* the specification of the partial chunk, unfolded: typed values at
   j*cb + buffer_base + i*width (+ byte offset), rows 0 .. lens[buffer] - 1 *)
Theorem direct_scaler_rows_unfold : forall e kind dims lens data j s,
    direct_scaler_rows e kind dims lens data j s =
    match nth_error dims (Z.to_nat (sc_buf s)), daqmx_type (sc_type s) with
    | Some (n, w), Some dt =>
      match tds_size dt with
      | Some (Some sz) =>
        map (scaler_value_at e kind s dt sz
               (Z.of_nat j * chunk_bytes dims + buffer_base dims (Z.to_nat (sc_buf s))) w data)
            (seq 0 (Z.to_nat (nth (Z.to_nat (sc_buf s)) lens 0)))
      | _ => []
      end
    | _, _ => []
    end.
Proof. reflexivity. Qed.

Theorem cut_direct_chunks_unfold : forall g data j,
    cut_direct_chunks g data j =
    let dobjs := data_objs (sg_objs g) in
    let dims := dims_spec dobjs in
    let cb := chunk_bytes dims in
    let e := toc_endian (sg_toc g) in
    map (direct_chunk e dobjs dims data) (seq 0 (Z.to_nat (j / cb))) ++
    (if j mod cb =? 0 then []
     else [direct_chunk_rows e dobjs dims (daqmx_buffer_lengths dims (j mod cb)) data (Z.to_nat (j / cb))]).
Proof. reflexivity. Qed.

(* with all rows the partial-chunk specification is the complete chunk *)
Theorem direct_chunk_rows_full : forall e dobjs dims data j,
    direct_chunk_rows e dobjs dims (map fst dims) data j = direct_chunk e dobjs dims data j.
Proof. exact TruncLazyDaqmx.direct_chunk_rows_full. Qed.

Theorem daqmx_truncation_complete_rows : forall g gc data j,
    daqmx_seg_ok g data ->
    0 <= j < blen data ->
    sg_toc gc = sg_toc g -> sg_objs gc = sg_objs g ->
    calculate_chunks (sg_toc g) true (sg_objs g) j = Ok (sg_nchunks gc, sg_final gc) ->
    exists cs cur',
      read_segment_chunks gc (take j data) = Ok (cs, cur') /\
      Forall2 chunk_ext cs (cut_direct_chunks g data j) /\
      Forall (chunk_shape (data_objs (sg_objs g))) cs /\
      sg_nchunks gc = Z.of_nat (length cs).
Proof. exact TruncLazyDaqmx.daqmx_truncation_complete_rows. Qed.

(* chunk_ext: the same values under every path and every (path, scale id) *)
Theorem chunk_ext_unfold : forall c c',
    chunk_ext c c' <->
    forall p, chunk_values p c = chunk_values p c' /\
              forall id, chunk_scaler_values p id c = chunk_scaler_values p id c'.
Proof. intros c c'. reflexivity. Qed.

(* per scaler: the rows kept are the first rows of the complete chunk *)
Theorem cut_rows_prefix : forall e kind dims lens data j s,
    (forall n w, nth_error dims (Z.to_nat (sc_buf s)) = Some (n, w) -> nth (Z.to_nat (sc_buf s)) lens 0 <= n) ->
    direct_scaler_rows e kind dims lens data j s
    = firstn (Z.to_nat (nth (Z.to_nat (sc_buf s)) lens 0)) (direct_scaler_chunk e kind dims data j s).
Proof. exact TruncLazyDaqmx.cut_rows_prefix. Qed.

(* per path and per (path, scale id): a prefix of the complete segment's values that
   contains the values of the complete chunks *)
Theorem daqmx_cut_prefix : forall g data j,
    daqmx_seg_ok g data -> 0 <= j < blen data ->
    let cb := chunk_bytes (dims_spec (data_objs (sg_objs g))) in
    let whole := map (direct_chunk (toc_endian (sg_toc g)) (data_objs (sg_objs g))
                                   (dims_spec (data_objs (sg_objs g))) data) (seq 0 (Z.to_nat (j / cb))) in
    forall p,
      (is_prefix (chan_values p (cut_direct_chunks g data j)) (chan_values p (direct_chunks g data)) /\
       is_prefix (chan_values p whole) (chan_values p (cut_direct_chunks g data j))) /\
      forall id,
        is_prefix (chan_scaler_values p id (cut_direct_chunks g data j))
                  (chan_scaler_values p id (direct_chunks g data)) /\
        is_prefix (chan_scaler_values p id whole) (chan_scaler_values p id (cut_direct_chunks g data j)).
Proof. exact TruncLazyDaqmx.daqmx_cut_prefix. Qed.

(* what the decoder returns for the cut block, per path and (path, scale id): a prefix *)
Corollary daqmx_truncation_prefix : forall g gc data j,
    daqmx_seg_ok g data ->
    0 <= j < blen data ->
    sg_toc gc = sg_toc g -> sg_objs gc = sg_objs g ->
    calculate_chunks (sg_toc g) true (sg_objs g) j = Ok (sg_nchunks gc, sg_final gc) ->
    exists cs cur',
      read_segment_chunks gc (take j data) = Ok (cs, cur') /\
      forall p, is_prefix (chan_values p cs) (chan_values p (direct_chunks g data)) /\
                forall id, is_prefix (chan_scaler_values p id cs)
                                     (chan_scaler_values p id (direct_chunks g data)).
Proof.
  intros g gc data j Hok Hj Htoc Hobjs Hcc.
  destruct (TruncLazyDaqmx.daqmx_truncation_complete_rows g gc data j Hok Hj Htoc Hobjs Hcc)
    as (cs & cur' & Hread & Hext & _).
  exists cs, cur'. split; [exact Hread|]. intros p.
  destruct (chunks_ext_values _ _ Hext p) as [Hv Hs].
  destruct (TruncLazyDaqmx.daqmx_cut_prefix g data j Hok Hj p) as [[Hp _] Hps].
  split; [rewrite Hv; exact Hp|]. intros id. rewrite Hs. exact (proj1 (Hps id)).
Qed.

(* len(channel): what the metadata pass credits an object whose scalers live in one
   raw buffer b, and the number of values each of its scalers has in the chunks of
   cut_direct_chunks *)
Theorem daqmx_cut_credit : forall g gc data j o q b,
    daqmx_seg_ok g data ->
    0 <= j < blen data ->
    sg_toc gc = sg_toc g -> sg_objs gc = sg_objs g ->
    calculate_chunks (sg_toc g) true (sg_objs g) j = Ok (sg_nchunks gc, sg_final gc) ->
    In o (data_objs (sg_objs g)) -> so_daqmx o = Some q ->
    dedup_z (map sc_buf (dq_scalers q)) = [b] ->
    let dims := dims_spec (data_objs (sg_objs g)) in
    let cb := chunk_bytes dims in
    let lens := daqmx_buffer_lengths dims (j mod cb) in
    seg_values o (sg_nchunks gc) (sg_final gc)
    = (j / cb) * so_nvals o + (if j mod cb =? 0 then 0 else nth (Z.to_nat b) lens 0) /\
    (forall s, In s (dq_scalers q) -> sc_buf s = b) /\
    (forall e s i, In s (dq_scalers q) ->
       Z.of_nat (length (direct_scaler_chunk e (dq_kind q) dims data i s)) = so_nvals o /\
       Z.of_nat (length (direct_scaler_rows e (dq_kind q) dims lens data i s)) = nth (Z.to_nat b) lens 0).
Proof. exact TruncLazyDaqmx.daqmx_cut_credit. Qed.

(* ---- (L) lazy windows --------------------------------------------------------------------- *)

Theorem lz_read_scaler_bytes_unfold : forall data path id offs len,
    lz_read_scaler_bytes data path id offs len =
    (do '(svs, m) <- scaler_view data path id;
     match m with
     | Some m => if has_scaler m id then lz_read bytes zero_value RNumpy svs offs len else Err EKey
     | None => Err EKey
     end).
Proof. reflexivity. Qed.

Theorem segv_of_scaler_unfold : forall D p id g,
    segv_of_scaler D p id g =
    (if chunk_of_view g p =? 0
     then Ok (mk_segv 0 (sg_nchunks g) (final_of p (sg_final g)) false
                      (fit_chunks (Z.to_nat (sg_nchunks g)) []))
     else
       do cs <- read_segment D g;
       Ok (mk_segv (chunk_of_view g p) (sg_nchunks g) (final_of p (sg_final g)) false
                   (fit_chunks (Z.to_nat (sg_nchunks g)) (map (scaler_chunk_vals p id) cs)))).
Proof. exact TruncLazyDaqmxLazy.segv_of_scaler_unfold. Qed.

(* one segment, ordinary or DAQmx, seen through (path, scale id) *)
Theorem segv_of_scaler_content : forall pre s rest g cs p id,
    wf_fseg s = true ->
    seg_at (blen pre) s g ->
    seg_content g s cs ->
    seg_ready g ->
    raw_view p id g ->
    exists sv, segv_of_scaler (pre ++ ser_seg TAG_DATA true s ++ rest) p id g = Ok sv /\
               wf_seg bytes sv = true /\
               seg_vals bytes sv = chan_scaler_values p id cs /\
               number_of_segment_values bytes sv = seg_total p g.
Proof. exact TruncLazyDaqmxLazy.segv_of_scaler_content. Qed.

(* ... and through a path holding plain data *)
Theorem segv_of_content : forall pre s rest g cs p,
    wf_fseg s = true ->
    seg_at (blen pre) s g ->
    seg_content g s cs ->
    seg_ready g ->
    typed_view p g ->
    exists sv, segv_of (pre ++ ser_seg TAG_DATA true s ++ rest) p g = Ok sv /\
               wf_seg bytes sv = true /\
               seg_vals bytes sv = chan_values p cs /\
               number_of_segment_values bytes sv = seg_total p g.
Proof. exact TruncLazyDaqmxLazy.segv_of_content. Qed.

Theorem daqmx_lazy_windows : forall segs st h chunkss,
    wf_file segs ->
    sm_run segs false = Ok st ->
    build_hierarchy (rs_om st) = Ok h ->
    segs_content (rs_segments st) segs chunkss ->
    om_paths_canonical (rs_om st) ->
    seg_paths_distinct st ->
    forall c id offs len,
      In c (all_channels h) -> channel_scaler c id -> 0 <= offs -> len_nonneg len ->
      lz_read_scaler_bytes (ser_file segs) (ch_path c) id offs len
      = Ok (window_of offs len (chan_scaler_values (ch_path c) id (concat chunkss))).
Proof. exact TruncLazyDaqmxLazy.daqmx_lazy_windows. Qed.

Theorem channel_scaler_unfold : forall c id,
    channel_scaler c id <->
    ch_dtype c = Some T_DAQMX /\ exists sts, ch_scalers c = Some sts /\ In id (map fst sts).
Proof. intros c id. reflexivity. Qed.

Theorem daqmx_lazy_rejects_negative : forall segs st h chunkss,
    wf_file segs ->
    sm_run segs false = Ok st ->
    build_hierarchy (rs_om st) = Ok h ->
    segs_content (rs_segments st) segs chunkss ->
    om_paths_canonical (rs_om st) ->
    seg_paths_distinct st ->
    forall c id offs len,
      In c (all_channels h) -> channel_scaler c id ->
      offs < 0 \/ (exists l, len = Some l /\ l < 0) ->
      lz_read_scaler_bytes (ser_file segs) (ch_path c) id offs len = Err EValue.
Proof. exact TruncLazyDaqmxLazy.daqmx_lazy_rejects_negative. Qed.

Theorem daqmx_chunk_stream : forall segs st h chunkss,
    wf_file segs ->
    sm_run segs false = Ok st ->
    build_hierarchy (rs_om st) = Ok h ->
    segs_content (rs_segments st) segs chunkss ->
    om_paths_canonical (rs_om st) ->
    seg_paths_distinct st ->
    forall c id,
      In c (all_channels h) -> channel_scaler c id ->
      exists chunks, lz_scaler_chunks (ser_file segs) (ch_path c) id = Ok chunks /\
                     concat chunks = chan_scaler_values (ch_path c) id (concat chunkss) /\
                     Z.of_nat (length (chan_scaler_values (ch_path c) id (concat chunkss))) = ch_len c.
Proof. exact TruncLazyDaqmxLazy.daqmx_chunk_stream. Qed.

Theorem daqmx_lazy_windows_typed : forall segs st h chunkss c dt offs len,
    wf_file segs ->
    sm_run segs false = Ok st ->
    build_hierarchy (rs_om st) = Ok h ->
    segs_content (rs_segments st) segs chunkss ->
    om_paths_canonical (rs_om st) ->
    seg_paths_distinct st ->
    In c (all_channels h) -> ch_dtype c = Some dt -> dt <> T_DAQMX ->
    0 <= offs -> len_nonneg len ->
    lz_read_bytes (ser_file segs) (ch_path c) offs len
    = Ok (window_of offs len (chan_values (ch_path c) (concat chunkss))) /\
    Z.of_nat (length (chan_values (ch_path c) (concat chunkss))) = ch_len c.
Proof. exact TruncLazyDaqmxLazy.daqmx_lazy_windows_typed. Qed.

(* ---- the hypotheses are satisfiable; the conclusions compute ------------------------------- *)

(* (T) applies to every cut of the raw data of dx_file's first DAQmx segment
   (C11_read: big-endian, buffers 2 x 4 and 3 x 3 bytes, 17 bytes per chunk, two chunks) *)
Example c11_cut_applies : forall j, 0 <= j < 34 ->
    exists cs cur',
      read_segment_chunks (dx_cut_seg j) (take j (dx_data 0)) = Ok (cs, cur') /\
      Forall2 chunk_ext cs (cut_direct_chunks (dx_seg 0) (dx_data 0) j) /\
      Forall (chunk_shape (data_objs (sg_objs (dx_seg 0)))) cs /\
      sg_nchunks (dx_cut_seg j) = Z.of_nat (length cs).
Proof. exact dx_cut_applies. Qed.

Example c11_buffer_lengths :
  daqmx_buffer_lengths [(2, 4); (3, 3)] 11 = [2; 1] /\
  daqmx_buffer_lengths [(2, 4); (3, 3)] 6 = [1; 0] /\
  daqmx_buffer_lengths [(2, 4); (3, 3)] 8 = [2; 0] /\
  map (fun k => rows_within 3 3 8 k) [8; 10; 11; 14; 17] = [0; 0; 1; 2; 3].
Proof. exact dx_buffer_lengths. Qed.

Section Eval.
Import String.
Local Open Scope string_scope.

(* 28 bytes: chunk 0 whole; of chunk 1 buffer 0 is whole (2 rows), buffer 1 has ONE
   complete row: c0 and c2 get 2 values, the digital-line channel c1 gets 1; the
   decoder's result and the metadata's override, computed *)
Example c11_cut_28 :
  cut_direct_chunks (dx_seg 0) (dx_data 0) 28 =
  [ [(dx_p0, CScalers [(0, [hex "0201"; hex "1211"]); (5, [hex "04"; hex "14"])]);
     (dx_p1, CScalers [(0, [hex "00"; hex "01"; hex "00"])]);
     (dx_p2, CData [hex "04030201"; hex "14131211"])];
    [(dx_p0, CScalers [(0, [hex "2221"; hex "3231"]); (5, [hex "24"; hex "34"])]);
     (dx_p1, CScalers [(0, [hex "01"])]);
     (dx_p2, CData [hex "24232221"; hex "34333231"])] ] /\
  read_segment_chunks (dx_cut_seg 28) (take 28 (dx_data 0)) =
  Ok ([ [(dx_p2, CData [hex "04030201"; hex "14131211"]);
         (dx_p0, CScalers [(0, [hex "0201"; hex "1211"]); (5, [hex "04"; hex "14"])]);
         (dx_p1, CScalers [(0, [hex "00"; hex "01"; hex "00"])])];
        [(dx_p2, CData [hex "24232221"; hex "34333231"]);
         (dx_p0, CScalers [(0, [hex "2221"; hex "3231"]); (5, [hex "24"; hex "34"])]);
         (dx_p1, CScalers [(0, [hex "01"])])] ], []) /\
  (sg_nchunks (dx_cut_seg 28), sg_final (dx_cut_seg 28))
  = (2, Some [(dx_p0, 2); (dx_p1, 1); (dx_p2, 2)]).
Proof. exact dx_cut_28. Qed.

(* 23 bytes: one complete row of buffer 0, nothing of buffer 1 *)
Example c11_cut_23 :
  cut_direct_chunks (dx_seg 0) (dx_data 0) 23 =
  [ [(dx_p0, CScalers [(0, [hex "0201"; hex "1211"]); (5, [hex "04"; hex "14"])]);
     (dx_p1, CScalers [(0, [hex "00"; hex "01"; hex "00"])]);
     (dx_p2, CData [hex "04030201"; hex "14131211"])];
    [(dx_p0, CScalers [(0, [hex "2221"]); (5, [hex "24"])]);
     (dx_p1, CScalers [(0, [])]);
     (dx_p2, CData [hex "24232221"])] ] /\
  (sg_nchunks (dx_cut_seg 23), sg_final (dx_cut_seg 23))
  = (2, Some [(dx_p0, 1); (dx_p1, 0); (dx_p2, 1)]).
Proof. exact dx_cut_23. Qed.

(* the credit of the metadata pass for the cut record = values per scaler: at 28 bytes
   c0 (2 per chunk): 2 + 2, c1 (3 per chunk): 3 + 1, c2: 2 + 2; at 23 bytes 2 + 1, 3 + 0, 2 + 1 *)
Example c11_cut_credit :
  map (fun o => seg_values o (sg_nchunks (dx_cut_seg 28)) (sg_final (dx_cut_seg 28)))
      (data_objs (sg_objs (dx_seg 0))) = [4; 4; 4] /\
  map (fun o => seg_values o (sg_nchunks (dx_cut_seg 23)) (sg_final (dx_cut_seg 23)))
      (data_objs (sg_objs (dx_seg 0))) = [3; 3; 3] /\
  map (fun p => Z.of_nat (List.length (chan_scaler_values p 0 (cut_direct_chunks (dx_seg 0) (dx_data 0) 28))))
      [dx_p0; dx_p1] = [4; 4] /\
  map (fun p => Z.of_nat (List.length (chan_scaler_values p 0 (cut_direct_chunks (dx_seg 0) (dx_data 0) 23))))
      [dx_p0; dx_p1] = [3; 3].
Proof. vm_compute. repeat split. Qed.

(* the chunk boundary: one chunk, no override *)
Example c11_cut_17 :
  cut_direct_chunks (dx_seg 0) (dx_data 0) 17 = firstn 1 (direct_chunks (dx_seg 0) (dx_data 0)) /\
  (sg_nchunks (dx_cut_seg 17), sg_final (dx_cut_seg 17)) = (1, None).
Proof. exact dx_cut_17. Qed.

(* (L) evaluated on the complete dx_file: scaler 0 of c0 = 0201 1211 | 2221 3231 ||
   4241 5251; the window [1, 5) crosses a chunk and a segment boundary *)
Example c11_lazy_eval :
  lz_read_scaler_bytes (ser_file dx_file) dx_p0 0 1 (Some 4) = Ok [hex "1211"; hex "2221"; hex "3231"; hex "4241"] /\
  window_of 1 (Some 4) (chan_scaler_values dx_p0 0 (List.concat dx_chunks)) = [hex "1211"; hex "2221"; hex "3231"; hex "4241"] /\
  lz_read_scaler_bytes (ser_file dx_file) dx_p0 5 3 None = Ok [hex "34"; hex "44"; hex "54"] /\
  lz_read_scaler_bytes (ser_file dx_file) dx_p1 0 2 (Some 5) = Ok [hex "00"; hex "01"; hex "01"; hex "00"; hex "01"] /\
  lz_read_scaler_bytes (ser_file dx_file) dx_p0 7 0 None = Err EKey /\
  lz_read_scaler_bytes (ser_file dx_file) dx_p2 0 0 None = Err EKey /\
  lz_read_bytes (ser_file dx_file) dx_p2 1 (Some 3) = Ok [hex "14131211"; hex "24232221"; hex "34333231"] /\
  lz_scaler_chunks (ser_file dx_file) dx_p0 0 = Ok [[hex "0201"; hex "1211"]; [hex "2221"; hex "3231"]; [hex "4241"; hex "5251"]].
Proof. exact dx_lazy_eval. Qed.
End Eval.

(* (L) applies to dx_file: every window of scalers 0 and 5 of c0, scaler 0 of the
   digital-line channel c1, of the typed DAQmx channel c2 and of the ordinary channel x *)
Example c11_lazy_applies : forall offs len, 0 <= offs -> len_nonneg len ->
  lz_read_scaler_bytes (ser_file dx_file) dx_p0 0 offs len
  = Ok (window_of offs len (chan_scaler_values dx_p0 0 (concat dx_chunks))) /\
  lz_read_scaler_bytes (ser_file dx_file) dx_p0 5 offs len
  = Ok (window_of offs len (chan_scaler_values dx_p0 5 (concat dx_chunks))) /\
  lz_read_scaler_bytes (ser_file dx_file) dx_p1 0 offs len
  = Ok (window_of offs len (chan_scaler_values dx_p1 0 (concat dx_chunks))) /\
  lz_read_bytes (ser_file dx_file) dx_p2 offs len
  = Ok (window_of offs len (chan_values dx_p2 (concat dx_chunks))) /\
  lz_read_bytes (ser_file dx_file) dx_px offs len
  = Ok (window_of offs len (chan_values dx_px (concat dx_chunks))).
Proof. exact dx_lazy_windows. Qed.

(* every cut 0 <= j < 34 and every window (offs 0..7, len None / 0..7), computed *)
Example c11_all_cuts : forallb (fun k => dx_cut_agrees (Z.of_nat k)) (seq 0 34) = true.
Proof. exact dx_all_cuts. Qed.

Example c11_all_windows : dx_windows_ok = true.
Proof. exact dx_all_windows. Qed.

Print Assumptions buffer_lengths_nth.
Print Assumptions rows_within_unfold.
Print Assumptions rows_within_full.
Print Assumptions rows_within_le.
Print Assumptions direct_scaler_rows_unfold.
Print Assumptions cut_direct_chunks_unfold.
Print Assumptions direct_chunk_rows_full.
Print Assumptions daqmx_truncation_complete_rows.
Print Assumptions chunk_ext_unfold.
Print Assumptions cut_rows_prefix.
Print Assumptions daqmx_cut_prefix.
Print Assumptions daqmx_truncation_prefix.
Print Assumptions daqmx_cut_credit.
Print Assumptions lz_read_scaler_bytes_unfold.
Print Assumptions segv_of_scaler_unfold.
Print Assumptions segv_of_scaler_content.
Print Assumptions segv_of_content.
Print Assumptions daqmx_lazy_windows.
Print Assumptions channel_scaler_unfold.
Print Assumptions daqmx_lazy_rejects_negative.
Print Assumptions daqmx_chunk_stream.
Print Assumptions daqmx_lazy_windows_typed.
Print Assumptions c11_cut_applies.
Print Assumptions c11_buffer_lengths.
Print Assumptions c11_cut_28.
Print Assumptions c11_cut_23.
Print Assumptions c11_cut_credit.
Print Assumptions c11_cut_17.
Print Assumptions c11_lazy_eval.
Print Assumptions c11_lazy_applies.
Print Assumptions c11_all_cuts.
Print Assumptions c11_all_windows.
