(* C04 (companion) — the per-segment theorems of Props/C04_gen5.v QUANTIFIED OVER EVERY SEGMENT OF A SERIALISED FILE: the item
   "NOT done" of the header of Props/C04_gen5.v.  Statements only; proofs: Proofs/GenLazyFile.v.

   [every_segment_fetch_translated]  Under the hypotheses of Props/C03_read.v lazy_is_window_of_eager that concern the
   segments (wf_file segs, sm_run segs false = Ok st, segs_encode (rs_segments st) segs chunkss), for the reader state st' that
   TdmsFile.open's metadata pass (Model/Reader.v rd_metadata WITH object indexes) builds on the bytes ser_file segs, for EVERY
   index k and record g' = the k-th segment of st', every channel path whose view segv_of (ser_file segs) path g' = Ok sv has
   values in that segment (sv_chunk sv <> 0: Model/LazyRead.v lz_loop calls seg_fetch for no other segment), every file position
   p0 and every in-range request (0 <= co <= stop <= num_chunks, stop = num_chunks for nc = None and n + co for nc = Some n):
   the TRANSLATED TdmsSegment.read_raw_data_for_channel(f, path, co, nc) (Gen/PyFuncsLazySeg.v) applied to the file's bytes
   returns exactly the chunks of seg_fetch bytes sv co n (behind the empty chunk of a segment without kTocRawData), leaves the
   bytes alone and the position where the per-layout theorems of Props/C04_gen5.v say (fetch_end).  The segment's layout is
   DERIVED (contiguous or interleaved, never DAQmx: segs_encode), as are the split of ser_file segs around its k-th segment
   (seg_at at blen (ser_file (firstn k segs))), get_chunk_size_gen, distinct data-object paths, declared = real sizes,
   chunk alignment, the data position / number of chunks / no final-chunk override, "the request's bytes are in the file".
   Both layouts, all data types, strings included.
   HYPOTHESES beyond the bundle:
     - valid UTF-8: [strings_valid], stated on the k-th entry of chunkss (the decoded chunks of that segment): the values of
       every string-typed data object are valid UTF-8 (String._decode is then the identity; Props/C04_gen5.v decode_neutral);
   NO data-type hypothesis: obj_ok (known data type of every data object, a hypothesis of the corollaries of Props/C04_gen5.v)
   is DERIVED from the encoded values when the segment has at least one chunk; the metadata pass alone does not give it (it
   accepts a "same as previous" index on an object that never had one: has_data without data type), so for a contiguous segment
   with ZERO chunks the only in-range request, the empty one, is proved directly on the translated function
   (Proofs/GenLazyFile.v contig_empty_request: an empty request touches no data object).

   [read_raw_data_for_channel_world_extensional_translated]  the TRANSLATED TdmsReader.read_raw_data_for_channel
   (Gen/PyFuncsLazyLoop.v) is extensional in its I/O world ON THE CALLS IT MAKES ([loop_calls]: the index entry looked up or
   built on a miss, the window, self._segments[start_segment:end_segment + 1] with their indices, the chunk ranges the translated
   read_chunk_range_gen hands on): if the run in the first world succeeds and the second world's tag checks and chunk reads agree
   with the first's (up to a relation R on file states) on those calls, the run in the second world succeeds with the same
   yielded chunks and index table, in a related file state.
   [translated_lazy_read_is_window_of_eager_partial]  the FILE-LEVEL composition: the translated segment loop run with the
   TRANSLATED per-segment function on the bytes ser_file segs ([bytes_chunks]: segment_read_raw_data_for_channel_gen run to its
   end, its chunks' values) yields chunks which, appended to the receiver TdmsChannel._read_channel_data allocates, are
   chan_values path (concat chunkss)[offs : offs + len] -- the window of the values Props/C03_read.v read_correct says
   TdmsFile.read returns --, and leaves the bytes alone.  Through Props/C04_gen3.v window_correct_translated (world = seg_fetch
   on the views), Props/C03_read.v channel_view_ser (those views are what segv_of computes on the bytes, well-formed, full =
   chan_values), [every_segment_fetch_translated] and the extensionality theorem.
   PARTIAL, exactly these gaps:
     (a) [loop_calls] hypothesis: every chunk range (c, n) the translated read_chunk_range_gen hands on for THIS request is in
         range (0 <= c, 0 <= n, n + c <= num_chunks) and its segment has kTocRawData set (otherwise the per-segment generator
         yields an extra empty chunk in front, which seg_fetch does not model; the kTocRawData part is NECESSARY: on a real
         file whose first segment carries raw data with the flag cleared, TdmsFile.read returns all values while the lazy
         read_data(offset=3, length=5) raises ValueError -- the empty chunk takes the skip of chunk 0:
         dev/c04_gen6_rawflag_witness.py, run against /repo).  The range part is not derived from the window arithmetic
         (Proofs/LazyReadProofs.v range_pure_spec would be the route).  It is a statement about metadata arithmetic only;
     (b) the hypotheses of Props/C04_gen3.v are kept as hypotheses, not derived from the metadata pass: the sum of the
         segment value counts < 2^63, tbl_ok, and the object-metadata entry om[path] = om_len;
         (seg_ok of every record IS derived: Proofs/GenLazyFile.v reader_seg_ok);
     (c) _verify_segment_start is the identity on the file (bytes_verify), as in Props/C04_gen3.v (w_verify);
     (d) generators are run to their end (Props/C04_gen3.v GENERATORS).
   build_hierarchy / om_paths_canonical / In c (all_channels h) of lazy_is_window_of_eager are not needed: the statement is per path.
   The Example is the three-segment file of Props/C03_read.v c03_read_hyps (interleaved x 2 chunks | channel a absent |
   contiguous x 2 chunks): the reader state computed on its bytes, segment 2 / channel b / chunks 1.. and segment 0 / channel a /
   chunk 1 of 2, every hypothesis instantiated, the generator's results obtained THROUGH the theorem. *)
From Coq Require Import String Ascii.
From Coq Require Import List ZArith.
Import ListNotations.
From NpTdms Require Import Base.Bytes Base.Res Base.PySlice Model.Tokens Model.SegState Model.Layout Model.Reader Model.FileSyn
     Model.LazyRead Model.LazyBytes
     Gen.PyFuncsReader Gen.PyFuncsDecode Gen.PyFuncsLazySeg Gen.PyFuncsLazyIdx Gen.PyFuncsLazyLoop
     Proofs.LayoutProofs Proofs.FileSynProofs Proofs.ReadCorrect Proofs.GenReaderEquiv Proofs.GenDecodeEquiv Proofs.GenDecodeRecv
     Proofs.GenEagerEquiv Proofs.GenLazySegEquiv Proofs.GenLazySegView Proofs.LazyEagerExamples Proofs.GenReaderLazy Proofs.GenLazyIdxEquiv Proofs.GenLazyLoopEquiv
     Proofs.GenLazyFile.
Local Open Scope Z_scope.

Theorem every_segment_fetch_translated : forall segs st st' chunkss k g' p0 path co nc sv,
    let cs := zsum (map so_dsize (data_objs (sg_objs g'))) in
    let stop := match nc with None => sg_nchunks g' | Some n => n + co end in
    wf_file segs -> sm_run segs false = Ok st -> segs_encode (rs_segments st) segs chunkss ->
    rd_metadata (ser_file segs) false (Some (blen (ser_file segs))) true = Ok st' ->
    nth_error (rs_segments st') k = Some g' ->
    (forall c, nth_error chunkss k = Some c -> Forall (strings_valid (data_objs (sg_objs g'))) c) ->
    segv_of (ser_file segs) path g' = Ok sv -> sv_chunk sv <> 0 ->
    0 <= co -> co <= stop -> stop <= sg_nchunks g' ->
    exists lay, seg_layout g' = Ok lay /\ lay <> LDaqmx /\
      mapr (fun p => (chunks_values (fst p), pf_data (snd p), pf_pos (snd p)))
           (segment_read_raw_data_for_channel_gen g' (mkPf (ser_file segs) p0) path co nc)
      = mapr (fun vss => (Some ((if toc_has (sg_toc g') TOC_RAW then [] else [[]]) ++ vss), ser_file segs,
                          fetch_end lay g' cs co stop))
             (seg_fetch bytes sv co (match nc with None => sg_nchunks g' - co | Some n => n end)).
Proof. exact every_segment_fetch_full. Qed.

Example c04_gen6_hypotheses :
  (wf_file le_file /\ sm_run le_file false = Ok le_st /\ segs_encode (rs_segments le_st) le_file le_chunks) /\
  rd_metadata (ser_file le_file) false (Some (blen (ser_file le_file))) true = Ok ex_f_st /\
  length (rs_segments ex_f_st) = 3%nat /\
  (nth_error (rs_segments ex_f_st) 2 = Some (ex_f_seg 2) /\
   segv_of (ser_file le_file) rc_path_b (ex_f_seg 2) = Ok (ex_f_view 2 rc_path_b) /\
   sv_chunk (ex_f_view 2 rc_path_b) <> 0 /\ 0 < sg_nchunks (ex_f_seg 2) /\
   sv_vals (ex_f_view 2 rc_path_b) = [[hex "00"; hex "01"; hex "00"]; [hex "01"; hex "00"; hex "01"]] /\
   (forall c, nth_error le_chunks 2 = Some c -> Forall (strings_valid (data_objs (sg_objs (ex_f_seg 2)))) c)) /\
  (nth_error (rs_segments ex_f_st) 0 = Some (ex_f_seg 0) /\
   segv_of (ser_file le_file) rc_path_a (ex_f_seg 0) = Ok (ex_f_view 0 rc_path_a) /\
   sv_chunk (ex_f_view 0 rc_path_a) <> 0 /\ 0 < sg_nchunks (ex_f_seg 0) /\
   sv_vals (ex_f_view 0 rc_path_a) = [[hex "0102"; hex "0304"]; [hex "0506"; hex "0708"]] /\
   (forall c, nth_error le_chunks 0 = Some c -> Forall (strings_valid (data_objs (sg_objs (ex_f_seg 0)))) c)).
Proof. exact (conj (conj le_wf (conj le_run le_encodes)) ex_f_hyps). Qed.

Example c04_gen6_example :
  mapr (fun p => (chunks_values (fst p), pf_data (snd p), pf_pos (snd p)))
       (segment_read_raw_data_for_channel_gen (ex_f_seg 2) (mkPf (ser_file le_file) 0) rc_path_b 1 None)
  = Ok (Some [[hex "01"; hex "00"; hex "01"]], ser_file le_file, sg_data (ex_f_seg 2) + 10) /\
  mapr (fun p => (chunks_values (fst p), pf_data (snd p), pf_pos (snd p)))
       (segment_read_raw_data_for_channel_gen (ex_f_seg 0) (mkPf (ser_file le_file) 0) rc_path_a 1 (Some 1))
  = Ok (Some [[hex "0506"; hex "0708"]], ser_file le_file, sg_data (ex_f_seg 0) + 12).
Proof. exact ex_f_gen. Qed.

Theorem read_raw_data_for_channel_world_extensional_translated :
  forall (F1 F2 V : Type) (v1 : F1 -> Z -> res F1) (c1 : F1 -> Z -> segment -> Z -> Z -> res (list (list V) * F1))
         (v2 : F2 -> Z -> res F2) (c2 : F2 -> Z -> segment -> Z -> Z -> res (list (list V) * F2))
         (R : F1 -> F2 -> Prop) (P : segment -> Z -> Z -> Prop),
    (forall f1 f2 j f1', R f1 f2 -> v1 f1 j = Ok f1' -> exists f2', v2 f2 j = Ok f2' /\ R f1' f2') ->
    (forall f1 f2 j s c n r f1', R f1 f2 -> P s c n -> c1 f1 j s c n = Ok (r, f1') ->
                                 exists f2', c2 f2 j s c n = Ok (r, f2') /\ R f1' f2') ->
    forall segs tbl om f1 f2 path offs len outs tbl' f1',
      R f1 f2 -> loop_calls P segs tbl om path offs len ->
      read_raw_data_for_channel_gen F1 V v1 c1 (Some segs) tbl om f1 path offs len = Ok (outs, tbl', f1') ->
      exists f2', read_raw_data_for_channel_gen F2 V v2 c2 (Some segs) tbl om f2 path offs len = Ok (outs, tbl', f2') /\ R f1' f2'.
Proof. exact read_raw_data_for_channel_sim. Qed.

Theorem translated_lazy_read_is_window_of_eager_partial : forall segs st st' chunkss path tbl om offs len (zero : bytes) rk f2,
    wf_file segs -> sm_run segs false = Ok st -> segs_encode (rs_segments st) segs chunkss ->
    Forall (fun g => NoDup (map so_path (sg_objs g))) (rs_segments st) ->
    rd_metadata (ser_file segs) false (Some (blen (ser_file segs))) true = Ok st' ->
    (forall k s ch, nth_error (rs_segments st') k = Some s -> nth_error chunkss k = Some ch ->
                    Forall (strings_valid (data_objs (sg_objs s))) ch) ->
    pf_data f2 = ser_file segs ->
    loop_calls (fun s c n => toc_has (sg_toc s) TOC_RAW = true /\ 0 <= c /\ 0 <= n /\ n + c <= sg_nchunks s)
               (rs_segments st') tbl om path offs len ->
    zsum (seg_nums unit (seg_views (rs_segments st') path)) < 2 ^ 63 ->
    tbl_ok (rs_segments st') path tbl ->
    alookup path om = Some (om_len (get_ometa path (rs_om st))) ->
    0 <= offs -> (match len with None => True | Some l => 0 <= l end) ->
    exists outs tbl' f2' dt n,
      read_raw_data_for_channel_gen posfile bytes bytes_verify (bytes_chunks path) (Some (rs_segments st')) tbl om f2 path offs len
      = Ok (outs, tbl', f2') /\ pf_data f2' = ser_file segs /\ tbl_ok (rs_segments st') path tbl' /\
      read_channel_data_alloc_gen (Some dt) false (om_len (get_ometa path (rs_om st))) offs len = Ok (Some n) /\
      receive bytes zero rk n outs = Ok (match len with
                                         | None => zskipn offs (chan_values path (concat chunkss))
                                         | Some l => zfirstn l (zskipn offs (chan_values path (concat chunkss)))
                                         end).
Proof. exact translated_lazy_read_window. Qed.

(* the same file, channel a, read_data(offset = 1, length = 4): segment 0 chunks 0..1, segment 1 skipped, segment 2 chunk 0 *)
Example c04_gen6_window_hypotheses :
  Forall (fun g => NoDup (map so_path (sg_objs g))) (rs_segments le_st) /\
  (forall k s ch, nth_error (rs_segments ex_f_st) k = Some s -> nth_error le_chunks k = Some ch ->
                  Forall (strings_valid (data_objs (sg_objs s))) ch) /\
  loop_calls (fun s c n => toc_has (sg_toc s) TOC_RAW = true /\ 0 <= c /\ 0 <= n /\ n + c <= sg_nchunks s)
             (rs_segments ex_f_st) [] [(rc_path_a, 6)] rc_path_a 1 (Some 4) /\
  zsum (seg_nums unit (seg_views (rs_segments ex_f_st) rc_path_a)) < 2 ^ 63 /\
  alookup rc_path_a [(rc_path_a, 6)] = Some (om_len (get_ometa rc_path_a (rs_om le_st))).
Proof. exact (conj le_distinct ex_f_window_hyps). Qed.

Example c04_gen6_window_example :
  exists outs tbl' f2' dt n,
    read_raw_data_for_channel_gen posfile bytes bytes_verify (bytes_chunks rc_path_a) (Some (rs_segments ex_f_st)) [] [(rc_path_a, 6)]
                                  (mkPf (ser_file le_file) 0) rc_path_a 1 (Some 4) = Ok (outs, tbl', f2') /\
    read_channel_data_alloc_gen (Some dt) false 6 1 (Some 4) = Ok (Some n) /\
    receive bytes [] LazyRead.RNumpy n outs = Ok [hex "0304"; hex "0506"; hex "0708"; hex "0a0b"].
Proof. exact ex_f_window. Qed.

Print Assumptions every_segment_fetch_translated.
Print Assumptions c04_gen6_hypotheses.
Print Assumptions c04_gen6_example.
Print Assumptions read_raw_data_for_channel_world_extensional_translated.
Print Assumptions translated_lazy_read_is_window_of_eager_partial.
Print Assumptions c04_gen6_window_hypotheses.
Print Assumptions c04_gen6_window_example.
