(* C03 — Every way of obtaining a channel's data gives the same data.

   Model-level statement: on the byte-level lazy model (Model/LazyBytes.v:
   metadata pass with segment indexes + chunk decoders + the line-by-line model
   of read_raw_data_for_channel), whenever the channel's per-segment view is
   consistent with its metadata (LazyRead.wf: each chunk holds the number of
   values the metadata says), the full lazy read is the file-order
   concatenation of the chunk values, and EVERY window — hence channel[:],
   read_data(), read_data(o, l), slices and integer indices, which all go through
   it (Props/C04.v slice_plan_correct, index_correct) — is the window of that
   full read.  Chunk streams: Props/C05.v generators_complete.  Receivers
   concatenate in file order (below).
   PARTIAL: that the eager pass (Reader.rd_eager) yields the same concatenation
   is Props/C01_read.v (for serialised well-formed files); memmap_dir, the
   {path, stream} and raw_timestamps configurations are covered by the
   differential run only (harness/c03.py). *)
From Coq Require Import List ZArith.
Import ListNotations.
From NpTdms Require Import Base.Bytes Base.Res Base.PySlice Model.Tokens Model.SegState Model.Layout Model.Reader
     Model.LazyRead Model.LazyBytes Proofs.ReaderProofs.
Local Open Scope Z_scope.

(* a receiver holds the file-order concatenation of the chunk data it was given *)
Theorem receiver_concatenates : forall vs1 vs2 acc,
    receive (Some (CData acc)) (CData vs1) = Ok (Some (CData (acc ++ vs1))) /\
    (do r <- receive (Some (CData acc)) (CData vs1); receive r (CData vs2))
    = Ok (Some (CData (acc ++ vs1 ++ vs2))).
Proof. exact receive_concat. Qed.

(* the full lazy read of a channel is the concatenation of its chunk values *)
Theorem lazy_full_is_concatenation : forall data path svs dt,
    channel_view data path = Ok (svs, Some dt) ->
    wf bytes svs = true ->
    lz_read_bytes data path 0 None = Ok (full bytes svs).
Proof. exact lz_read_bytes_full. Qed.

(* every window read on bytes is the window of the full lazy read *)
Theorem lazy_window_of_full : forall data path svs dt offs len full_vals,
    channel_view data path = Ok (svs, Some dt) ->
    wf bytes svs = true -> 0 <= offs ->
    (match len with None => True | Some l => 0 <= l end) ->
    lz_read_bytes data path 0 None = Ok full_vals ->
    lz_read_bytes data path offs len =
    Ok (match len with
        | None => zskipn offs full_vals
        | Some l => zfirstn l (zskipn offs full_vals)
        end).
Proof. exact lz_read_bytes_window_of_full. Qed.

Print Assumptions receiver_concatenates.
Print Assumptions lazy_full_is_concatenation.
Print Assumptions lazy_window_of_full.
