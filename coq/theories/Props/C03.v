(* C03 — Every way of obtaining a channel's data gives the same data.
   The model-level statement is a corollary of the lazy-read theorems of C04
   (window with offset 0 and no length = full data; chunk streams concatenate
   to the full data); see Props/C04.v.  Here: the facts about the eager model
   that the baseline rests on. *)
From Coq Require Import List ZArith.
Import ListNotations.
From NpTdms Require Import Base.Bytes Base.Res Model.Tokens Model.SegState Model.Layout Model.Reader
     Proofs.ReaderProofs.
Local Open Scope Z_scope.

(* a receiver holds the file-order concatenation of the chunk data it was given *)
Theorem receiver_concatenates : forall vs1 vs2 acc,
    receive (Some (CData acc)) (CData vs1) = Ok (Some (CData (acc ++ vs1))) /\
    (do r <- receive (Some (CData acc)) (CData vs1); receive r (CData vs2))
    = Ok (Some (CData (acc ++ vs1 ++ vs2))).
Proof. exact receive_concat. Qed.

Print Assumptions receiver_concatenates.
