(* C11 / C01 (end to end) — DAQmx segments inside the whole-file read theorem.

   (A) THE BUFFER DIMENSIONS ARE COMPUTED, NOT ASSUMED.
   Props/C11.v's daqmx_segment_addressing takes [buffer_dims objs = Ok dims] as a
   hypothesis.  Here the dimensions get_buffer_dimensions (nptdms/daqmx.py; model
   SegState.buffer_dims) returns are characterised for every list of data objects:
     dims_spec dobjs = [(buffer_rows dobjs k, w_k)]_k   w_k = k-th raw data width of
                       the first object, buffer_rows = the largest number_values
                       among the objects that have a scaler in buffer k (0 if none)
     dq_indexes_consistent dobjs  (the consistency condition): every data object is a
                       DAQmx object, all declare the SAME list of raw data widths, and
                       every scaler's raw_buffer_index is inside that list
     buffer_dims_consistent      consistent  ->  buffer_dims = Ok dims_spec
     buffer_dims_ok_consistent   buffer_dims = Ok _  ->  consistent     (so: iff)
     buffer_dims_widths_mismatch an object whose widths differ from the first data
                       object's makes get_buffer_dimensions raise ValueError (EValue),
                       as daqmx.py does ("Raw data widths ... do not match previous
                       widths"); buffer_dims_bad_buffer_index: IndexError
     chunk_size_daqmx            get_daqmx_chunk_size = sum over buffers of rows*width
     daqmx_segment_addressing_consistent / _typed_consistent
                       C11.v's addressing theorems with dims := dims_spec and the
                       hypotheses about buffer_dims REMOVED.

   (B) THE WHOLE-FILE THEOREM  [read_correct_daqmx].
   Let segs be a file syntax, st the result of the metadata pass, h the hierarchy.
   If
     wf_file segs, sm_run segs false = Ok st, build_hierarchy (rs_om st) = Ok h,
     om_paths_canonical (rs_om st), typed_objects_are_channels (rs_om st)
                                       exactly as in read_correct (C01_read.v), and
     segs_content (rs_segments st) segs chunkss
                                       every segment is EITHER covered by seg_encodes
                                       as in read_correct (contiguous / interleaved /
                                       no data; its entry of chunkss is the encoded
                                       chunk list), OR is a readable DAQmx segment
                                       (daqmx_seg_ok) and its entry of chunkss is
                                       [direct_chunks g data]
   then
     rd_all (ser_file segs) = Ok (expected_tokens_dq st h (concat chunkss), true).

   daqmx_seg_ok g data  (all conditions are on the object list the metadata pass
   computed for the segment; daqmx_seg_ok_b is a sound executable check):
     - there are data objects, with pairwise distinct paths, all of them DAQmx objects
       declaring the same raw data widths (non-negative);
     - per object: scale ids distinct; it is a DaqMxRawData channel or has exactly
       one scaler (and a data type other than DaqMxRawData);
     - per scaler (scaler_ok): known sized type; raw_buffer_index names an existing
       buffer whose number of rows (dims_spec) equals the object's number_values
       (objects sharing a buffer agree on the chunk length); the scaler's bytes lie
       inside a row: byte_offset + size <= width (digital lines: bit_offset/8);
     - the raw data block holds a whole number m >= 0 of chunks:
       |data| = m * chunk_bytes (dims_spec dobjs).
   Each condition is needed for the conclusion (with flag [true]): daqmx.py raises on
   differing widths / bad buffer index, NumPy raises on columns outside the row,
   channels disagreeing on a buffer's length get more values than len(channel).

   THE DIRECT-ADDRESSING MEANING (no decoder involved; cf. the Python oracle
   harness/daqmxgen.direct_values):
     direct_scaler_chunk e kind dims data j s
        = [ scaler_value_at e kind s dt sz (j*chunk_bytes dims + buffer_base dims b) w data i
          | i = 0 .. rows_b - 1 ]      b = raw_buffer_index of s, (rows_b, w) = dims[b]
       scaler_value_at (DaqmxProofs.v, unfolded in C11.v) is the typed value
       canon_value e dt (read_at (base + i*w + byte_offset) sz data), for digital
       lines bit (bit_offset mod 8) of the value at byte bit_offset / 8;
     direct_chunk j  = for every data object, in order: (path, CScalers [(scale id,
       direct_scaler_chunk j s) | s in scalers]) for a DaqMxRawData channel,
       (path, CData (direct_scaler_chunk j s)) for a channel typed by its scaler s;
     direct_chunks g data = [direct_chunk j | j = 0 .. |data| / chunk_bytes - 1].
   THE OBSERVATION  expected_tokens_dq st h chunks = version :: hierarchy ++ status,
   where channel c's data is (expected_data_dq)
     None                                           no data type
     CData  (chan_values p chunks)                  data type other than DaqMxRawData
     CScalers [(id, chan_scaler_values p id chunks) | id in ch_scalers c]   DaqMxRawData
   chan_values p / chan_scaler_values p id = concatenation over all chunks of all
   segments IN FILE ORDER of what the chunk holds under path p / under (p, id).
   The [true] says every receiver (every scale id) got exactly len(channel) values
   (lengths_consistent_content, proved from the metadata pass).

   [read_correct_daqmx_consistent] is the same theorem with DAQmx segments described
   by daqmx_seg_consistent, which keeps only what has to be ASSUMED (distinct paths, all
   data objects DAQmx with equal width lists, distinct scale ids, every scaler's
   buffer existing with number_values rows and the scaler inside the row, whole
   chunks); that widths, buffer indexes and offsets are non-negative, scaler types
   known and sized, and each object DaqMxRawData or single-scaler is DERIVED for every
   object list the metadata pass produces from a well-formed file (sm_run_obj_wf,
   daqmx_seg_consistent_ok).

   Proof structure (Proofs/ReadCorrectDaqmx.v).  Re-used from ReadCorrect.v without
   change: R1 sm_run_trace / sm_segment_positions, R2 read_segment_ser, R3
   seg_encodes_read, seg_encodes_count, the hierarchy lemmas, rd_metadata_ser.
   New: daqmx_seg_decodes (the decoder SUCCEEDS on a readable DAQmx segment and its
   chunks hold exactly the directly addressed values: from C11's
   daqmx_segment_addressing(_typed) + shape invariants of the decoder loops),
   receive_chunks_gen (R4 with scaler data), eager_loop_content / rd_eager_content
   (R5), sm_run_tracks (the metadata's type and scaler types agree with every
   segment object), lengths_consistent_content.

   NOT covered: truncated DAQmx segments (C06 / C11's truncation lemmas), lazy
   windows and chunk streams (C04), success of the metadata pass (C02), and the
   cases excluded by daqmx_seg_ok (duplicate scale ids in one channel; channels that
   share a buffer with different chunk lengths).

   (C) EXAMPLE.  dx_file: a big-endian DAQmx segment with two raw buffers (2 x 4 and
   3 x 3 bytes), two DaqMxRawData channels (one with two scalers, one DIGITAL LINE
   channel) and a typed int32 channel, TWO chunks; a metadata-less DAQmx segment; an
   ordinary segment.  Built by the harness's independent encoder and read by npTDMS:
       cd /verif && PYTHONPATH=/repo /venv/bin/python - <<EOF
       import sys; sys.path.insert(0, "harness")
       import tdmsgen as G, daqmxgen as D
       FC, DL = D.FORMAT_CHANGING, D.DIGITAL_LINE
       chans = [D.DqChan(G.quote_path("dq","c0"), FC, G.T_DAQMX, 2, [(3,0,0,0,0),(0,0,3,0,5)]),
                D.DqChan(G.quote_path("dq","c1"), DL, G.T_DAQMX, 3, [(0,1,10,0,0)]),
                D.DqChan(G.quote_path("dq","c2"), FC, 3, 2, [(5,0,0,0,0)])]
       d1 = bytes.fromhex("0102030411121314a0a1a2b0b5b2c0c1c221222324313233340004000fff0a000100")
       d2 = bytes.fromhex("41424344515253540006000a0b000c0d0e")
       segs = [G.Seg(e=">", toc=206, entries=D.daqmx_entries([4,3], chans), data=d1),
               G.Seg(e=">", toc=200, entries=None, data=d2),
               G.Seg(e="<", toc=14, entries=[G.Entry(G.quote_path("g","x"), ("full",20,3,1,2,None))],
                     data=bytes.fromhex("0700000008000000"))]
       data = G.ser_file(segs); print(data.hex()); print(G.toks_to_coq(G.read_eager(data)[0]))
       EOF
   dx_bytes shows ser_file dx_file is that byte string; c11_read_example_tokens shows
   rd_all on it, the theorem's right-hand side, and the token list printed by the
   script (npTDMS's own observation) coincide. *)
From Coq Require Import List ZArith.
Import ListNotations.
From NpTdms Require Import Base.Bytes Base.Res Model.Tokens Model.TokensWf Model.SegState
     Model.Layout Model.Reader Model.FileSyn Proofs.LayoutProofs Proofs.FileSynProofs
     Proofs.DaqmxProofs Proofs.ReadCorrect Proofs.ReadCorrectDaqmx.
Local Open Scope Z_scope.

(* ---- (A) get_buffer_dimensions / get_daqmx_chunk_size ------------------------- *)

Theorem buffer_rows_unfold : forall objs k,
    buffer_rows objs k =
    fold_right (fun o acc => if uses_buffer o k then Z.max (so_nvals o) acc else acc) 0 objs.
Proof. reflexivity. Qed.

Theorem uses_buffer_unfold : forall o k,
    uses_buffer o k = match so_daqmx o with
                      | Some q => existsb (fun s => sc_buf s =? k) (dq_scalers q)
                      | None => false
                      end.
Proof. reflexivity. Qed.

(* entry k of dims_spec is (rows of buffer k, k-th width) *)
Theorem dims_spec_nth : forall dobjs k,
    nth_error (dims_spec dobjs) k =
    option_map (fun w => (buffer_rows dobjs (Z.of_nat k), w)) (nth_error (common_widths dobjs) k).
Proof. exact ReadCorrectDaqmx.dims_spec_nth. Qed.

Theorem dq_indexes_consistent_unfold : forall dobjs,
    dq_indexes_consistent dobjs <->
    Forall (fun o => so_has_data o = true /\
                     exists q, so_daqmx o = Some q /\ dq_widths q = common_widths dobjs /\
                               Forall (fun s => 0 <= sc_buf s < Z.of_nat (length (common_widths dobjs)))
                                      (dq_scalers q)) dobjs.
Proof. intros; reflexivity. Qed.

Theorem buffer_dims_consistent : forall dobjs,
    dq_indexes_consistent dobjs -> buffer_dims dobjs = Ok (dims_spec dobjs).
Proof. exact ReadCorrectDaqmx.buffer_dims_consistent. Qed.

Theorem buffer_dims_ok_consistent : forall dobjs dims,
    Forall (fun o => so_has_data o = true) dobjs ->
    buffer_dims dobjs = Ok dims -> dq_indexes_consistent dobjs.
Proof. exact ReadCorrectDaqmx.buffer_dims_ok_consistent. Qed.

(* objects without data do not take part *)
Theorem buffer_dims_data_objs : forall objs, buffer_dims objs = buffer_dims (data_objs objs).
Proof. exact ReadCorrectDaqmx.buffer_dims_data_objs. Qed.

Theorem buffer_dims_widths_mismatch : forall pre o q post,
    pre <> [] -> dq_indexes_consistent pre ->
    so_has_data o = true -> so_daqmx o = Some q -> dq_widths q <> common_widths pre ->
    buffer_dims (pre ++ o :: post) = Err EValue.
Proof. exact ReadCorrectDaqmx.buffer_dims_widths_mismatch. Qed.

Theorem buffer_dims_bad_buffer_index : forall o q r s,
    so_has_data o = true -> so_daqmx o = Some q -> dq_scalers q = [s] ->
    (sc_buf s < 0 \/ Z.of_nat (length (dq_widths q)) <= sc_buf s) ->
    buffer_dims (o :: r) = Err EIndex.
Proof. exact ReadCorrectDaqmx.buffer_dims_bad_buffer_index. Qed.

Theorem chunk_size_daqmx : forall objs,
    data_objs objs <> [] -> dq_indexes_consistent (data_objs objs) ->
    chunk_size objs = Ok (chunk_bytes (dims_spec (data_objs objs))).
Proof. exact ReadCorrectDaqmx.chunk_size_daqmx. Qed.

(* C11.v's daqmx_segment_addressing without the buffer-dimension hypotheses *)
Theorem daqmx_segment_addressing_consistent : forall sg cur cs cur' o q s k n w dt sz j c,
    let dobjs := data_objs (sg_objs sg) in
    let dims := dims_spec dobjs in
    dobjs <> [] -> dq_indexes_consistent dobjs -> Forall (fun w => 0 <= w) (common_widths dobjs) ->
    read_segment_chunks sg cur = Ok (cs, cur') ->
    In o dobjs -> NoDup (map so_path dobjs) ->
    so_daqmx o = Some q -> so_dtype o = Some T_DAQMX ->
    In s (dq_scalers q) -> NoDup (map sc_id (dq_scalers q)) ->
    nth_error dims k = Some (n, w) -> sc_buf s = Z.of_nat k ->
    0 < w -> 0 <= sc_off s ->
    daqmx_type (sc_type s) = Some dt -> tds_size dt = Some (Some sz) ->
    nth_error cs j = Some c ->
    let base := Z.of_nat j * chunk_bytes dims + buffer_base dims k in
    exists vs,
      holds (so_path o) (sc_id s) vs c /\
      length vs = length (items w (read_at base (w * n) cur)) /\
      forall i, (i < length vs)%nat ->
                nth_error vs i
                = Some (scaler_value_at (toc_endian (sg_toc sg)) (dq_kind q) s dt sz base w cur i).
Proof. exact ReadCorrectDaqmx.daqmx_segment_addressing_consistent. Qed.

Theorem daqmx_segment_addressing_typed_consistent : forall sg cur cs cur' o q s dto k n w dt sz j c,
    let dobjs := data_objs (sg_objs sg) in
    let dims := dims_spec dobjs in
    dobjs <> [] -> dq_indexes_consistent dobjs -> Forall (fun w => 0 <= w) (common_widths dobjs) ->
    read_segment_chunks sg cur = Ok (cs, cur') ->
    In o dobjs -> NoDup (map so_path dobjs) ->
    so_daqmx o = Some q -> so_dtype o = Some dto -> dto <> T_DAQMX -> dq_scalers q = [s] ->
    nth_error dims k = Some (n, w) -> sc_buf s = Z.of_nat k ->
    0 < w -> 0 <= sc_off s ->
    daqmx_type (sc_type s) = Some dt -> tds_size dt = Some (Some sz) ->
    nth_error cs j = Some c ->
    let base := Z.of_nat j * chunk_bytes dims + buffer_base dims k in
    exists vs,
      alookup (so_path o) c = Some (CData vs) /\
      length vs = length (items w (read_at base (w * n) cur)) /\
      forall i, (i < length vs)%nat ->
                nth_error vs i
                = Some (scaler_value_at (toc_endian (sg_toc sg)) (dq_kind q) s dt sz base w cur i).
Proof. exact ReadCorrectDaqmx.daqmx_segment_addressing_typed_consistent. Qed.

(* ---- (B) definitions of the statement, unfolded ----------------------------------- *)

Theorem direct_scaler_chunk_unfold : forall e kind dims data j s,
    direct_scaler_chunk e kind dims data j s =
    match nth_error dims (Z.to_nat (sc_buf s)), daqmx_type (sc_type s) with
    | Some (n, w), Some dt =>
      match tds_size dt with
      | Some (Some sz) =>
        map (scaler_value_at e kind s dt sz
               (Z.of_nat j * chunk_bytes dims + buffer_base dims (Z.to_nat (sc_buf s))) w data)
            (seq 0 (Z.to_nat n))
      | _ => []
      end
    | _, _ => []
    end.
Proof. reflexivity. Qed.

Theorem direct_chunks_unfold : forall g data,
    direct_chunks g data =
    let dobjs := data_objs (sg_objs g) in
    let dims := dims_spec dobjs in
    map (fun j => flat_map (direct_obj_entries (toc_endian (sg_toc g)) dims data j) dobjs)
        (seq 0 (if chunk_bytes dims =? 0 then 0%nat else Z.to_nat (blen data / chunk_bytes dims))).
Proof. reflexivity. Qed.

Theorem direct_obj_entries_unfold : forall e dims data j o,
    direct_obj_entries e dims data j o =
    match so_daqmx o with
    | None => []
    | Some q =>
      if oz_eqb (so_dtype o) (Some T_DAQMX)
      then [(so_path o,
             CScalers (map (fun s => (sc_id s, direct_scaler_chunk e (dq_kind q) dims data j s))
                           (dq_scalers q)))]
      else map (fun s => (so_path o, CData (direct_scaler_chunk e (dq_kind q) dims data j s)))
               (dq_scalers q)
    end.
Proof. reflexivity. Qed.

Theorem scaler_ok_unfold : forall kind nvals dims s,
    scaler_ok kind nvals dims s <->
    exists dt sz w,
      daqmx_type (sc_type s) = Some dt /\ tds_size dt = Some (Some sz) /\
      0 <= sc_off s /\ 0 <= sc_buf s /\
      nth_error dims (Z.to_nat (sc_buf s)) = Some (nvals, w) /\
      (if kind =? DIGITAL_LINE_SCALER then sc_off s / 8 else sc_off s) + sz <= w.
Proof. intros; reflexivity. Qed.

Theorem daqmx_obj_ok_unfold : forall dobjs o,
    daqmx_obj_ok dobjs o <->
    exists q,
      so_daqmx o = Some q /\
      dq_widths q = common_widths dobjs /\
      NoDup (map sc_id (dq_scalers q)) /\
      (so_dtype o = Some T_DAQMX \/
       exists s dt, dq_scalers q = [s] /\ so_dtype o = Some dt /\ dt <> T_DAQMX) /\
      Forall (scaler_ok (dq_kind q) (so_nvals o) (dims_spec dobjs)) (dq_scalers q).
Proof. intros; reflexivity. Qed.

Theorem daqmx_seg_ok_unfold : forall g data,
    daqmx_seg_ok g data <->
    let dobjs := data_objs (sg_objs g) in
    dobjs <> [] /\
    NoDup (map so_path dobjs) /\
    Forall (fun w => 0 <= w) (common_widths dobjs) /\
    Forall (daqmx_obj_ok dobjs) dobjs /\
    exists m, 0 <= m /\ blen data = m * chunk_bytes (dims_spec dobjs) /\
              (chunk_bytes (dims_spec dobjs) = 0 -> m = 0).
Proof. intros; reflexivity. Qed.

Theorem daqmx_seg_ok_b_sound : forall g data, daqmx_seg_ok_b g data = true -> daqmx_seg_ok g data.
Proof. exact ReadCorrectDaqmx.daqmx_seg_ok_b_sound. Qed.

(* a readable DAQmx segment has consistent indexes, the DAQmx layout, and the
   reader computes dims_spec for it *)
Theorem daqmx_seg_ok_dims : forall g data,
    daqmx_seg_ok g data ->
    seg_layout g = Ok LDaqmx /\
    dq_indexes_consistent (data_objs (sg_objs g)) /\
    buffer_dims (data_objs (sg_objs g)) = Ok (dims_spec (data_objs (sg_objs g))).
Proof. exact ReadCorrectDaqmx.daqmx_seg_ok_summary. Qed.

Theorem chunk_scaler_values_unfold : forall p id (c : chunk),
    chunk_scaler_values p id c =
    flat_map (fun kv => if bytes_eqb p (fst kv)
                        then match snd kv with
                             | CScalers l => flat_map (fun iv => if fst iv =? id then snd iv else []) l
                             | CData _ => []
                             end
                        else []) c.
Proof. reflexivity. Qed.

(* a chunk built by the decoders is a dictionary with distinct scale ids: then
   chunk_scaler_values is a double lookup *)
Theorem chunk_scaler_values_lookup : forall p id (c : chunk),
    NoDup (map fst c) ->
    chunk_scaler_values p id c =
    match alookup p c with
    | Some (CScalers l) => flat_map (sc_entry_values id) l
    | _ => []
    end.
Proof. exact ReadCorrectDaqmx.chunk_scaler_values_lookup. Qed.

Theorem chan_scaler_values_unfold : forall p id (chunks : list chunk),
    chan_scaler_values p id chunks = flat_map (chunk_scaler_values p id) chunks.
Proof. reflexivity. Qed.

Theorem expected_data_dq_unfold : forall chunks c,
    expected_data_dq chunks c =
    match ch_dtype c with
    | None => None
    | Some dt =>
      if dt =? T_DAQMX then
        match ch_scalers c with
        | Some sts =>
          Some (CScalers (map (fun kv => (fst kv, chan_scaler_values (ch_path c) (fst kv) chunks)) sts))
        | None => None
        end
      else Some (CData (chan_values (ch_path c) chunks))
    end.
Proof. reflexivity. Qed.

Theorem expected_tokens_dq_unfold : forall st h chunks,
    expected_tokens_dq st h chunks =
    TZ (match rs_version st with Some v => v | None => 0 end) ::
    obs_hierarchy h (fun c => obs_cdata (expected_data_dq chunks c)) ++ obs_status st.
Proof. reflexivity. Qed.

(* on channels that are not DaqMxRawData this is read_correct's expected data *)
Theorem expected_data_dq_plain : forall chunks c,
    ch_dtype c <> Some T_DAQMX -> expected_data_dq chunks c = expected_data chunks c.
Proof. exact ReadCorrectDaqmx.expected_data_dq_plain. Qed.

(* files without DAQmx segments: read_correct's hypothesis is an instance *)
Theorem segs_encode_content : forall gs segs chunkss,
    segs_encode gs segs chunkss -> segs_content gs segs chunkss.
Proof. exact ReadCorrectDaqmx.segs_encode_content. Qed.

(* ---- (B) R3 for DAQmx: the decoder on a readable segment ---------------------------- *)

(* [chunk_ext c c']: the two chunks hold the same values under every path and
   every (path, scale id); [chunk_shape]: a dictionary whose scaler entries have
   distinct scale ids, every entry belonging to a data object of the segment *)
Theorem chunk_ext_unfold : forall c c',
    chunk_ext c c' <->
    forall p, chunk_values p c = chunk_values p c' /\
              forall id, chunk_scaler_values p id c = chunk_scaler_values p id c'.
Proof. intros; reflexivity. Qed.

Theorem daqmx_seg_decodes : forall g data rest,
    daqmx_seg_ok g data ->
    calculate_chunks (sg_toc g) (sg_incomplete g) (sg_objs g) (blen data) = Ok (sg_nchunks g, sg_final g) ->
    exists cs cur',
      read_segment_chunks g (data ++ rest) = Ok (cs, cur') /\
      Forall2 chunk_ext cs (direct_chunks g data) /\
      Forall (chunk_shape (data_objs (sg_objs g))) cs.
Proof. exact ReadCorrectDaqmx.daqmx_seg_decodes. Qed.

(* the single-segment form: reading the segment of the serialised file *)
Theorem read_segment_daqmx : forall pre s rest g,
    wf_fseg s = true ->
    seg_at (blen pre) s g ->
    daqmx_seg_ok g (fs_data s) ->
    exists cs, read_segment (pre ++ ser_seg TAG_DATA true s ++ rest) g = Ok cs /\
               Forall2 chunk_ext cs (direct_chunks g (fs_data s)).
Proof. exact ReadCorrectDaqmx.read_segment_daqmx. Qed.

(* ---- (B) R4: receivers, scaler data included ------------------------------------------ *)

Theorem radd2_unfold : forall vs f r,
    radd2 vs f r =
    match r with
    | Some (CData acc) => Some (CData (acc ++ vs))
    | Some (CScalers acc) => Some (CScalers (map (fun kv => (fst kv, snd kv ++ f (fst kv))) acc))
    | None => None
    end.
Proof. reflexivity. Qed.

Theorem entry_fits_unfold : forall kv r,
    entry_fits kv r <->
    match snd kv with
    | CData _ => exists acc, r = Some (Some (CData acc))
    | CScalers l => exists acc, r = Some (Some (CScalers acc)) /\ NoDup (map fst acc) /\
                                forall iv, In iv l -> In (fst iv) (map fst acc)
    end.
Proof. intros; reflexivity. Qed.

Theorem receive_chunks_gen : forall (chunks : list chunk) recv,
    (forall c kv, In c chunks -> In kv c -> entry_fits kv (alookup (fst kv) recv)) ->
    exists recv', fold_left rcs_step chunks (Ok recv) = Ok recv' /\
                  forall p, alookup p recv' =
                            option_map (radd2 (chan_values p chunks)
                                              (fun id => chan_scaler_values p id chunks))
                                       (alookup p recv).
Proof. exact ReadCorrectDaqmx.receive_chunks_gen. Qed.

(* ---- (B) what the metadata pass records ------------------------------------------------ *)

(* for every object of every recorded segment the per-path metadata has its data
   type, and -- for DAQmx objects -- scaler types with the same (scale id, type)
   bindings and distinct scale ids *)
Theorem sm_run_tracks : forall segs w st,
    sm_run segs w = Ok st ->
    forall g o, In g (rs_segments st) -> In o (sg_objs g) ->
                exists m, alookup (so_path o) (rs_om st) = Some m /\
                          (forall dt, so_dtype o = Some dt -> om_dtype m = Some dt) /\
                          (forall q, so_daqmx o = Some q ->
                                     exists sts, om_scalers m = Some sts /\ NoDup (map fst sts) /\
                                                 forall kv, In kv sts <-> In kv (scaler_types q)).
Proof. exact ReadCorrectDaqmx.sm_run_tracks. Qed.

(* ---- (B) R5, lengths, R6 ----------------------------------------------------------------- *)

Theorem rd_eager_content : forall segs st h chunkss,
    wf_file segs ->
    sm_run segs false = Ok st ->
    build_hierarchy (rs_om st) = Ok h ->
    segs_content (rs_segments st) segs chunkss ->
    om_paths_canonical (rs_om st) ->
    typed_objects_are_channels (rs_om st) ->
    exists recv, rd_eager st h (ser_file segs) = Ok recv /\
                 forall c, In c (all_channels h) ->
                           alookup (ch_path c) recv = Some (expected_data_dq (concat chunkss) c).
Proof. exact ReadCorrectDaqmx.rd_eager_content. Qed.

Theorem lengths_consistent_content : forall segs w st h chunkss,
    sm_run segs w = Ok st ->
    build_hierarchy (rs_om st) = Ok h ->
    segs_content (rs_segments st) segs chunkss ->
    om_paths_canonical (rs_om st) ->
    forall c, In c (all_channels h) ->
              cdata_consistent (ch_len c) (expected_data_dq (concat chunkss) c) = true.
Proof. exact ReadCorrectDaqmx.lengths_consistent_content. Qed.

Theorem read_correct_daqmx : forall segs st h chunkss,
    wf_file segs ->
    sm_run segs false = Ok st ->
    build_hierarchy (rs_om st) = Ok h ->
    segs_content (rs_segments st) segs chunkss ->
    om_paths_canonical (rs_om st) ->
    typed_objects_are_channels (rs_om st) ->
    rd_all (ser_file segs) = Ok (expected_tokens_dq st h (concat chunkss), true).
Proof. exact ReadCorrectDaqmx.read_correct_daqmx. Qed.

(* ---- only the consistency condition as hypothesis --------------------------------------- *)

(* every object recorded by the metadata pass on a well-formed file: DAQmx objects
   have non-negative widths / buffer indexes / offsets, known sized scaler types, and
   are DaqMxRawData or single-scaler *)
Theorem sm_run_obj_wf : forall segs w st,
    wf_file segs -> sm_run segs w = Ok st ->
    forall g o, In g (rs_segments st) -> In o (sg_objs g) ->
                match so_daqmx o with
                | None => True
                | Some q =>
                  Forall (fun w => 0 <= w) (dq_widths q) /\
                  Forall (fun s => 0 <= sc_buf s /\ 0 <= sc_off s /\
                                   exists dt sz, daqmx_type (sc_type s) = Some dt /\
                                                 tds_size dt = Some (Some sz)) (dq_scalers q) /\
                  (so_dtype o = Some T_DAQMX \/
                   exists s dt, dq_scalers q = [s] /\ so_dtype o = Some dt /\ dt <> T_DAQMX)
                end.
Proof. exact ReadCorrectDaqmx.sm_run_obj_wf. Qed.

Theorem daqmx_seg_consistent_unfold : forall g data,
    daqmx_seg_consistent g data <->
    let dobjs := data_objs (sg_objs g) in
    dobjs <> [] /\
    NoDup (map so_path dobjs) /\
    Forall (fun o => exists q,
                so_daqmx o = Some q /\ dq_widths q = common_widths dobjs /\
                NoDup (map sc_id (dq_scalers q)) /\
                Forall (fun s => exists w,
                            nth_error (dims_spec dobjs) (Z.to_nat (sc_buf s)) = Some (so_nvals o, w) /\
                            (if dq_kind q =? DIGITAL_LINE_SCALER then sc_off s / 8 else sc_off s)
                            + scaler_size s <= w) (dq_scalers q)) dobjs /\
    exists m, 0 <= m /\ blen data = m * chunk_bytes (dims_spec dobjs) /\
              (chunk_bytes (dims_spec dobjs) = 0 -> m = 0).
Proof. intros; reflexivity. Qed.

Theorem scaler_size_unfold : forall s,
    scaler_size s = match daqmx_type (sc_type s) with
                    | Some dt => match tds_size dt with Some (Some sz) => sz | _ => 0 end
                    | None => 0
                    end.
Proof. reflexivity. Qed.

Theorem daqmx_seg_consistent_ok : forall segs w st g data,
    wf_file segs -> sm_run segs w = Ok st -> In g (rs_segments st) ->
    daqmx_seg_consistent g data -> daqmx_seg_ok g data.
Proof. exact ReadCorrectDaqmx.daqmx_seg_consistent_ok. Qed.

Theorem daqmx_seg_ok_seg_consistent : forall g data,
    daqmx_seg_ok g data -> daqmx_seg_consistent g data.
Proof. exact ReadCorrectDaqmx.daqmx_seg_ok_seg_consistent. Qed.

Theorem read_correct_daqmx_consistent : forall segs st h chunkss,
    wf_file segs ->
    sm_run segs false = Ok st ->
    build_hierarchy (rs_om st) = Ok h ->
    segs_content_c (rs_segments st) segs chunkss ->
    om_paths_canonical (rs_om st) ->
    typed_objects_are_channels (rs_om st) ->
    rd_all (ser_file segs) = Ok (expected_tokens_dq st h (concat chunkss), true).
Proof. exact ReadCorrectDaqmx.read_correct_daqmx_consistent. Qed.

(* the observation spelled out, as in read_correct_tokens *)
Theorem read_correct_daqmx_tokens : forall segs st h chunkss,
    wf_file segs ->
    sm_run segs false = Ok st ->
    build_hierarchy (rs_om st) = Ok h ->
    segs_content_c (rs_segments st) segs chunkss ->
    om_paths_canonical (rs_om st) ->
    typed_objects_are_channels (rs_om st) ->
    rd_all (ser_file segs) =
    Ok (TZ (match segs with s :: _ => fs_version s | [] => 0 end) ::
        obs_hierarchy h
          (fun c => obs_cdata
                      (match ch_dtype c with
                       | None => None
                       | Some dt =>
                         if dt =? T_DAQMX then
                           match ch_scalers c with
                           | Some sts =>
                             Some (CScalers (map (fun kv => (fst kv,
                                                             chan_scaler_values (ch_path c) (fst kv)
                                                                                (concat chunkss))) sts))
                           | None => None
                           end
                         else Some (CData (chan_values (ch_path c) (concat chunkss)))
                       end))
        ++ obs_status st, true).
Proof. exact ReadCorrectDaqmx.read_correct_daqmx_tokens. Qed.

(* ---- (C) the hypotheses are satisfiable, and the conclusion computes ------------------ *)

Section Example.
Import String.
Local Open Scope string_scope.

Example c11_read_bytes :
  ser_file dx_file =
  hex "5444536dce00000000001269000000000000011500000000000000f3000000030000000a2f276471272f2763302700001269ffffffff0000000100000000000000020000000200000003000000000000000000000000000000000000000000000000000000030000000000000005000000020000000400000003000000000000000a2f276471272f276331270000126affffffff0000000100000000000000030000000100000000000000010000000a0000000000000000020000000400000003000000000000000a2f276471272f276332270000126900000003000000010000000000000002000000010000000500000000000000000000000000000000000000020000000400000003000000000102030411121314a0a1a2b0b5b2c0c1c221222324313233340004000fff0a0001005444536dc8000000000012690000000000000011000000000000000041424344515253540006000a0b000c0d0e5444536d0e000000691200003000000000000000280000000000000001000000080000002f2767272f2778271400000003000000010000000200000000000000000000000700000008000000".
Proof. exact dx_bytes. Qed.

Example c11_read_hypotheses :
  wf_file dx_file /\
  sm_run dx_file false = Ok dx_st /\
  build_hierarchy (rs_om dx_st) = Ok dx_h /\
  segs_content (rs_segments dx_st) dx_file dx_chunks /\
  om_paths_canonical (rs_om dx_st) /\
  typed_objects_are_channels (rs_om dx_st).
Proof.
  exact (conj dx_wf (conj dx_run (conj dx_hier (conj dx_content (conj dx_canonical dx_typed_channels))))).
Qed.

Example c11_read_hypothesis_consistent : segs_content_c (rs_segments dx_st) dx_file dx_chunks.
Proof. exact dx_content_c. Qed.

(* (A) on the example: the reader's dimensions are the specification's *)
Example c11_read_dims :
  buffer_dims (data_objs (sg_objs (dx_seg 0))) = Ok [(2, 4); (3, 3)] /\
  dims_spec (data_objs (sg_objs (dx_seg 0))) = [(2, 4); (3, 3)] /\
  chunk_size (sg_objs (dx_seg 0)) = Ok 17.
Proof. exact dx_dims. Qed.

(* the direct-addressing meaning of the two DAQmx raw data blocks *)
Example c11_read_direct_chunks :
  direct_chunks (dx_seg 0) (dx_data 0) =
  [ [(dx_p0, CScalers [(0, [hex "0201"; hex "1211"]); (5, [hex "04"; hex "14"])]);
     (dx_p1, CScalers [(0, [hex "00"; hex "01"; hex "00"])]);
     (dx_p2, CData [hex "04030201"; hex "14131211"])];
    [(dx_p0, CScalers [(0, [hex "2221"; hex "3231"]); (5, [hex "24"; hex "34"])]);
     (dx_p1, CScalers [(0, [hex "01"; hex "01"; hex "00"])]);
     (dx_p2, CData [hex "24232221"; hex "34333231"])] ] /\
  direct_chunks (dx_seg 1) (dx_data 1) =
  [ [(dx_p0, CScalers [(0, [hex "4241"; hex "5251"]); (5, [hex "44"; hex "54"])]);
     (dx_p1, CScalers [(0, [hex "01"; hex "00"; hex "01"])]);
     (dx_p2, CData [hex "44434241"; hex "54535251"])] ].
Proof. exact dx_direct_chunks. Qed.

Example c11_read_example :
  rd_all (ser_file dx_file) = Ok (expected_tokens_dq dx_st dx_h (List.concat dx_chunks), true).
Proof. exact dx_read_correct. Qed.

Example c11_read_example_tokens :
  rd_all (ser_file dx_file) =
  Ok ([TZ 4713; TZ 0; TZ 2; TB (hex "6471"); TZ 0; TZ 3;
       TB (hex "6330"); TB (hex "6471"); TB dx_p0; TZ 4294967295; TZ 6; TZ 0;
       TZ 1; TZ 2; TZ 0; TZ 6; TB (hex "0201"); TB (hex "1211"); TB (hex "2221"); TB (hex "3231");
       TB (hex "4241"); TB (hex "5251");
       TZ 5; TZ 6; TB (hex "04"); TB (hex "14"); TB (hex "24"); TB (hex "34"); TB (hex "44"); TB (hex "54");
       TB (hex "6331"); TB (hex "6471"); TB dx_p1; TZ 4294967295; TZ 9; TZ 0;
       TZ 1; TZ 1; TZ 0; TZ 9; TB (hex "00"); TB (hex "01"); TB (hex "00"); TB (hex "01"); TB (hex "01");
       TB (hex "00"); TB (hex "01"); TB (hex "00"); TB (hex "01");
       TB (hex "6332"); TB (hex "6471"); TB dx_p2; TZ 3; TZ 6; TZ 0;
       TZ 0; TZ 6; TB (hex "04030201"); TB (hex "14131211"); TB (hex "24232221"); TB (hex "34333231");
       TB (hex "44434241"); TB (hex "54535251");
       TB (hex "67"); TZ 0; TZ 1;
       TB (hex "78"); TB (hex "67"); TB dx_px; TZ 3; TZ 2; TZ 0;
       TZ 0; TZ 2; TB (hex "07000000"); TB (hex "08000000");
       TZ 0; TZ 0], true) /\
  rd_all (ser_file dx_file) = Ok (expected_tokens_dq dx_st dx_h (List.concat dx_chunks), true).
Proof. exact dx_read_tokens. Qed.
End Example.

Print Assumptions buffer_rows_unfold.
Print Assumptions uses_buffer_unfold.
Print Assumptions dims_spec_nth.
Print Assumptions dq_indexes_consistent_unfold.
Print Assumptions buffer_dims_consistent.
Print Assumptions buffer_dims_ok_consistent.
Print Assumptions buffer_dims_data_objs.
Print Assumptions buffer_dims_widths_mismatch.
Print Assumptions buffer_dims_bad_buffer_index.
Print Assumptions chunk_size_daqmx.
Print Assumptions daqmx_segment_addressing_consistent.
Print Assumptions daqmx_segment_addressing_typed_consistent.
Print Assumptions direct_scaler_chunk_unfold.
Print Assumptions direct_chunks_unfold.
Print Assumptions direct_obj_entries_unfold.
Print Assumptions scaler_ok_unfold.
Print Assumptions daqmx_obj_ok_unfold.
Print Assumptions daqmx_seg_ok_unfold.
Print Assumptions daqmx_seg_ok_b_sound.
Print Assumptions daqmx_seg_ok_dims.
Print Assumptions chunk_scaler_values_unfold.
Print Assumptions chunk_scaler_values_lookup.
Print Assumptions chan_scaler_values_unfold.
Print Assumptions expected_data_dq_unfold.
Print Assumptions expected_tokens_dq_unfold.
Print Assumptions expected_data_dq_plain.
Print Assumptions segs_encode_content.
Print Assumptions chunk_ext_unfold.
Print Assumptions daqmx_seg_decodes.
Print Assumptions read_segment_daqmx.
Print Assumptions radd2_unfold.
Print Assumptions entry_fits_unfold.
Print Assumptions receive_chunks_gen.
Print Assumptions sm_run_tracks.
Print Assumptions rd_eager_content.
Print Assumptions lengths_consistent_content.
Print Assumptions read_correct_daqmx.
Print Assumptions sm_run_obj_wf.
Print Assumptions daqmx_seg_consistent_unfold.
Print Assumptions scaler_size_unfold.
Print Assumptions daqmx_seg_consistent_ok.
Print Assumptions daqmx_seg_ok_seg_consistent.
Print Assumptions read_correct_daqmx_consistent.
Print Assumptions read_correct_daqmx_tokens.
Print Assumptions c11_read_bytes.
Print Assumptions c11_read_hypotheses.
Print Assumptions c11_read_hypothesis_consistent.
Print Assumptions c11_read_dims.
Print Assumptions c11_read_direct_chunks.
Print Assumptions c11_read_example.
Print Assumptions c11_read_example_tokens.
