(* C13 - Scaled data is the dataflow evaluation of the NI_Scale definitions.
   Statements only; proofs in Proofs/ScaleProofs.v and Proofs/HeapProofs.v.
   Models: Model/ScaleGraph.v (lookup + evaluator + the relation [flows]),
           Model/ArrayHeap.v (arrays with identity, the scale methods as programs). *)
From Coq Require Import ZArith List Bool String PrimFloat.
Import ListNotations.
From NpTdms Require Import Gen.NumpyPromote Model.ScaleGraph Model.ArrayHeap
     Proofs.ScaleProofs Proofs.HeapProofs.

(* The evaluator (mirror of MultiScaling._compute_scaled_data) computes exactly the
   dataflow relation: the last scale is the output, every scale consumes the wire its
   input source names.  [wf_graph]: every input source is the raw data or an earlier
   scale; a cyclic definition makes the code recurse without bound (RecursionError) and
   is not a dataflow graph. *)
Theorem eval_is_dataflow : forall g raw v,
  wf_graph g -> (eval g raw = Ok v <-> flows g raw (final_src g) v).
Proof. exact eval_is_dataflow_proof. Qed.

(* ... and the relation is a function: a wire carries one array *)
Theorem dataflow_functional : forall g raw s v w,
  flows g raw s v -> flows g raw s w -> v = w.
Proof. intros g raw s v w H1 H2. exact (flows_functional g raw s v H1 w H2). Qed.

(* Scaling is elementwise: scaling a window of the channel is the window of the scaled
   channel - same values, same errors - for every graph (a sensor scale is an error on
   both sides here; its numerics are C17/C18).  [uniform n raw]: all arrays of the channel
   (raw data, DAQmx scalers) have the channel's length. *)
Theorem elementwise : forall g raw n o l, uniform n raw ->
  eval g (window_raw o l raw) = rmap (window o l) (eval g raw).
Proof. exact elementwise_proof. Qed.

Theorem channel_elementwise : forall ch gr fi raw n o l, uniform n raw ->
  channel_data ch gr fi (window_raw o l raw) = rmap (window o l) (channel_data ch gr fi raw).
Proof. exact channel_elementwise_proof. Qed.

(* Scaling properties are taken from the channel, else its group, else the file; the
   levels after the first that defines a scaling are not even looked at *)
Theorem lookup_order : forall c g f,
  (forall s, get_channel_scaling c = Ok (Some s) -> get_scaling c g f = Ok (Some s)) /\
  (forall s, get_channel_scaling c = Ok None -> get_channel_scaling g = Ok (Some s) ->
             get_scaling c g f = Ok (Some s)) /\
  (get_channel_scaling c = Ok None -> get_channel_scaling g = Ok None ->
   get_scaling c g f = get_channel_scaling f).
Proof.
  intros c g f. split; [|split].
  - intros s. apply lookup_channel_first.
  - intros s. apply lookup_group_second.
  - apply lookup_file_last.
Qed.

(* NI_Scaling_Status = 'scaled' switches the definitions of that level off ... *)
Theorem scaled_status_unscaled : forall p,
  pget "NI_Scaling_Status" p = Some (PStr "scaled") ->
  (exists n, number_of_scalings p = Ok n) ->
  get_channel_scaling p = Ok None.
Proof. exact scaled_status_proof. Qed.

(* ... and with no other scaling in scope the channel is returned unscaled *)
Theorem no_scaling_in_scope_is_raw : forall c g f raw v,
  get_channel_scaling c = Ok None -> get_channel_scaling g = Ok None ->
  get_channel_scaling f = Ok None ->
  rdata raw = Some v -> rscalers raw = [] ->
  channel_data c g f raw = Ok v.
Proof. exact no_scaling_is_raw_proof. Qed.

(* Purity.  Whatever the NumPy operations compute ([opsem] arbitrary), whatever the dtype
   d of the input (float64 included - the case where astype(copy=False) hands back the
   caller's own array), running a scale method leaves every buffer that existed before
   the call - in particular the raw data - exactly as it was. *)
Theorem scale_pure :
  forall (C : Type) (opsem : opname -> list C -> C) k d inputs (h h' : heap C) out,
    List.length inputs = ninputs k ->
    (forall i, In i inputs -> i < next h) ->
    exec C opsem (scale_prog k d) inputs h = Some (h', out) ->
    forall raw, raw < next h -> mem h' raw = mem h raw.
Proof. exact scale_pure_proof. Qed.

(* Not stated here: "identical in lazy and eager mode" needs the reader models (C03); it
   is checked on the implementation by harness/c13.py (TdmsFile.open vs TdmsFile.read). *)

(* ---- non-vacuity ---------------------------------------------------------------------- *)

(* properties as NI writes them, with a key that only PREFIX-matches the regex and no
   NI_Number_Of_Scales: three scales are inferred *)
Definition ex_props : props :=
  [("NI_Scale[0]_Scale_Type", PStr "Linear");
   ("NI_Scale[0]_Linear_Slope", PFloat 2); ("NI_Scale[0]_Linear_Y_Intercept", PFloat 1);
   ("NI_Scale[1]_Scale_Type", PStr "Polynomial");
   ("NI_Scale[1]_Polynomial_Coefficients_Size", PInt 2);
   ("NI_Scale[1]_Polynomial_Coefficients[0]", PFloat 0.5);
   ("NI_Scale[1]_Polynomial_Coefficients[1]", PFloat 3);
   ("NI_Scale[2]_Scale_Type_Extra", PStr "ignored");
   ("NI_Scale[2]_Scale_Type", PStr "Subtract");
   ("NI_Scale[2]_Subtract_Left_Operand_Input_Source", PInt 0);
   ("NI_Scale[2]_Subtract_Right_Operand_Input_Source", PInt 1)]%float.

Definition ex_graph : graph :=
  [Linear 2 1 Raw; Polynomial [0.5; 3] Raw; Subtract (Idx 0) (Idx 1)]%float.

Definition ex_raw : rawdata := {| rdata := Some (VI I16 [1; -2; 300]%Z); rscalers := [] |}.

Example ex_lookup : get_scaling ex_props [] [] = Ok (Some ex_graph).
Proof. vm_compute. reflexivity. Qed.

Example ex_wf : wf_graph ex_graph.
Proof. apply wf_graphb_wf. reflexivity. Qed.

(* right minus left: (0.5 + 3x) - (2x + 1) *)
Example ex_eval : eval ex_graph ex_raw = Ok (VD [0.5; -2.5; 299.5]%float).
Proof. vm_compute. reflexivity. Qed.

Example ex_flows : flows ex_graph ex_raw (final_src ex_graph) (VD [0.5; -2.5; 299.5]%float).
Proof. apply (eval_is_dataflow _ _ _ ex_wf). exact ex_eval. Qed.

Example ex_uniform : uniform 3 ex_raw.
Proof. split; cbn; intros; [injection H as <-; reflexivity|discriminate]. Qed.

Example ex_window : eval ex_graph (window_raw 1 1 ex_raw) = Ok (VD [-2.5]%float).
Proof. rewrite (elementwise _ _ _ 1 1 ex_uniform), ex_eval. reflexivity. Qed.

(* group-level definitions apply when the channel has none; a channel marked 'scaled'
   with nothing else in scope is returned as it is *)
Example ex_group : get_scaling [] ex_props [("NI_Number_Of_Scales", PInt 0)] = Ok (Some ex_graph).
Proof. vm_compute. reflexivity. Qed.

Example ex_scaled_status :
  channel_data (("NI_Scaling_Status", PStr "scaled") :: ex_props) [] [] ex_raw
  = Ok (VI I16 [1; -2; 300]%Z).
Proof. vm_compute. reflexivity. Qed.

(* integer raw data added to itself wraps around in its own type *)
Example ex_wrap :
  eval [Add Raw Raw] {| rdata := Some (VI I8 [100; -100; 3]%Z); rscalers := [] |}
  = Ok (VI I8 [-56; 56; 6]%Z).
Proof. vm_compute. reflexivity. Qed.

(* a cyclic definition is not well-formed, and the evaluator reports it *)
Example ex_cycle : wf_graphb [Linear 2 1 (Idx 0)]%float = false /\
                   eval [Linear 2 1 (Idx 0)]%float ex_raw = Err EFuel.
Proof. split; vm_compute; reflexivity. Qed.

(* purity is not vacuous: the Linear program runs on a float64 input, returns a new
   buffer and leaves the input alone, while the in-place variant overwrites it *)
Example ex_pure_runs :
  exists h' out, exec nat demo_sem (scale_prog KLinear Float64) [0] (demo_heap Float64) = Some (h', out) /\
                 out <> 0 /\ mem h' 0 = mem (demo_heap Float64) 0.
Proof. exact linear_runs_float64. Qed.

Example ex_inplace_detected :
  safe linear_inplace_prog 1 = false /\
  exists h' out, exec nat demo_sem linear_inplace_prog [0] (demo_heap Float64) = Some (h', out) /\
                 mem h' 0 <> mem (demo_heap Float64) 0.
Proof. split; [exact linear_inplace_unsafe|exact linear_inplace_mutates_float64]. Qed.

Print Assumptions eval_is_dataflow.
Print Assumptions dataflow_functional.
Print Assumptions elementwise.
Print Assumptions channel_elementwise.
Print Assumptions lookup_order.
Print Assumptions scaled_status_unscaled.
Print Assumptions no_scaling_in_scope_is_raw.
Print Assumptions scale_pure.
Print Assumptions ex_flows.
